(* Spec/Render.v — the written form of a program: positions, gaps (whitespace and `;` comments),
   spellings of literals, and the pretty-printer `render` that lays an AST out under an arbitrary
   layout and computes, while printing, the location of every located construct.
   C07 says: parsing the rendered text yields exactly the located AST (Proofs/Parser.v, Props/C07.v).
   Definitions only. *)
From TSG Require Export Model.Parser.

(* ------------------------------------------------------------------ positions *)
(* zero-based row and CHARACTER column after writing text t from position p *)
Definition pos_step (p : loc) (ch : N) : loc := if ch =? 10 then (fst p + 1, 0) else (fst p, snd p + 1).
Definition pos_after (p : loc) (t : list N) : loc := fold_left pos_step t p.
(* byte length of the UTF-8 encoding *)
Fixpoint bytes (t : list N) : N := match t with [] => 0 | c :: t' => utf8_len c + bytes t' end.

Definition has_newline (t : list N) : bool := existsb (N.eqb 10) t.
Fixpoint newlines (t : list N) : N :=
  match t with [] => 0 | c :: t' => (if c =? 10 then 1 else 0) + newlines t' end.
(* the characters after the last newline of t (all of t if there is none) *)
Fixpoint last_line (t : list N) : list N :=
  match t with
  | [] => []
  | c :: t' => if has_newline t' then last_line t' else if c =? 10 then t' else c :: t'
  end.

(* the parser state after consuming text t, leaving r *)
Definition st_after (s : pst) (t r : list N) : pst :=
  {| p_rest := r; p_off := p_off s + bytes t;
     p_row := fst (pos_after (p_loc s) t); p_col := snd (pos_after (p_loc s) t);
     p_pats := p_pats s |}.

(* ------------------------------------------------------------------ gaps *)
Inductive gap_item :=
| GWs (c : N)                      (* one whitespace character *)
| GComment (body : list N).        (* `;` body `\n` *)
Definition gap := list gap_item.
Definition render_gap_item (i : gap_item) : list N :=
  match i with GWs c => [c] | GComment b => 59 :: b ++ [10] end.
Definition render_gap (g : gap) : list N := concat (map render_gap_item g).

Section WithExt.
  Variable X : ext.

  Definition wf_gap_item (i : gap_item) : Prop :=
    match i with GWs c => is_whitespace X c = true | GComment b => ~ In 10 b end.
  Definition WfGap (g : gap) : Prop := Forall wf_gap_item g.

  (* r does not begin with whitespace or a comment *)
  Definition no_gap_start (r : list N) : Prop :=
    match r with [] => True | c :: _ => c <> 59 /\ is_whitespace X c = false end.
  (* r does not begin with an identifier character *)
  Definition no_ident_start (r : list N) : Prop :=
    match r with [] => True | c :: _ => is_ident X c = false end.

  (* identifiers: [_ alphabetic][_ - alphanumeric]*  *)
  Definition WfIdent (n : ident) : Prop :=
    match n with [] => False | c :: t => is_ident_start X c = true /\ forallb (is_ident X) t = true end.
End WithExt.

(* ------------------------------------------------------------------ string literals *)
(* one character of a string literal; `e` = "use an escape where one is optional".
   the double quote and the backslash must be escaped; NUL, LF, CR, TAB may be written raw or as \0 \n \r \t; any other
   character c may also be written \c unless c is one of 0 n r t (which would mean something else). *)
Definition esc_char (e : bool) (c : N) : list N :=
  if (c =? 34) || (c =? 92) then [92; c]
  else if e then
    (if c =? 0 then [92; 48] else if c =? 10 then [92; 110] else if c =? 13 then [92; 114]
     else if c =? 9 then [92; 116]
     else if (c =? 48) || (c =? 110) || (c =? 114) || (c =? 116) then [c]
     else [92; c])
  else [c].
Fixpoint escape (es : list bool) (v : str) : list N :=
  match v with [] => [] | c :: v' => esc_char (hd false es) c ++ escape (tl es) v' end.
Definition render_string (es : list bool) (v : str) : list N := 34 :: escape es v ++ [34].

(* ------------------------------------------------------------------ integer literals *)
Fixpoint dec_go (fuel : nat) (n : N) (acc : str) : str :=
  match fuel with
  | O => acc
  | S fuel' => let d := 48 + n mod 10 in if n <? 10 then d :: acc else dec_go fuel' (n / 10) (d :: acc)
  end.
Definition dec (n : N) : str := dec_go (S (N.size_nat n)) n [].
(* decimal numeral with `zeros` leading zeros *)
Definition render_int (zeros : nat) (n : N) : list N := repeat 48 zeros ++ dec n.

(* ------------------------------------------------------------------ layouts *)
(* A layout assigns to every position of the program (addressed by a path) a gap, a flag (optional
   trailing comma), the escape choices of a string literal and the number of leading zeros of an
   integer literal.  `sub L i` is the layout of the i-th component. *)
Record layout := {
  l_gap : list nat -> gap;
  l_flag : list nat -> bool;
  l_esc : list nat -> list bool;
  l_zeros : list nat -> nat;
}.
Definition sub (L : layout) (i : nat) : layout :=
  {| l_gap := fun p => l_gap L (i :: p); l_flag := fun p => l_flag L (i :: p);
     l_esc := fun p => l_esc L (i :: p); l_zeros := fun p => l_zeros L (i :: p) |}.

(* a gap between two tokens must not be empty when the first ends and the second starts with an
   identifier character (letters, digits, `_`, `-`): the renderer then writes one space *)
Definition sep (prev_word next_word : bool) (g : gap) : gap :=
  if prev_word && next_word then match g with [] => [GWs 32] | _ => g end else g.
(* the gap at position k of layout L, as text *)
Definition G (L : layout) (k : nat) : list N := render_gap (l_gap L [k]).
Definition Gs (L : layout) (k : nat) (prev_word next_word : bool) : list N :=
  render_gap (sep prev_word next_word (l_gap L [k])).

(* does the written form of e end / start with an identifier character? *)
Definition ends_word (e : expr) : bool :=
  match e with
  | EFalse | ENull | ETrue | EInt _ | ECapture _ _ _ _ _ | EUnscoped _ _ | EScoped _ _ _ | ERegexCap _ => true
  | _ => false
  end.
Fixpoint starts_word (e : expr) : bool :=
  match e with
  | EInt _ | EUnscoped _ _ => true
  | EScoped sc _ _ => starts_word sc
  | _ => false
  end.
Definition next_starts_word (es : list expr) : bool :=
  match es with e :: _ => starts_word e | [] => false end.

(* ------------------------------------------------------------------ expressions: text *)
Section TextItems.
  Variable rtext : layout -> expr -> list N.
  (* call arguments: a_i gap_i ... ; component 2i = argument i, gap 2i+1 follows it *)
  Fixpoint rtext_args (L : layout) (i : nat) (es : list expr) : list N :=
    match es with
    | [] => []
    | e :: es' => rtext (sub L (2 * i)) e ++ Gs L (2 * i + 1) (ends_word e) (next_starts_word es')
                  ++ rtext_args L (S i) es'
    end.
  (* further elements of a list/set literal: `,` gap e_i gap ... and the optional trailing comma;
     component 3i = element i, gap 3i+1 follows the comma before it, gap 3i+2 follows it *)
  Fixpoint rtext_more (L : layout) (i : nat) (es : list expr) : list N :=
    match es with
    | [] => if l_flag L [] then [44] ++ G L (3 * i + 1) else []
    | e :: es' => [44] ++ G L (3 * i + 1) ++ rtext (sub L (3 * i)) e ++ G L (3 * i + 2) ++ rtext_more L (S i) es'
    end.
End TextItems.

Fixpoint rtext (L : layout) (e : expr) : list N :=
  match e with
  | EFalse => 35 :: t_false
  | ENull => 35 :: t_null
  | ETrue => 35 :: t_true
  | EInt n => render_int (l_zeros L []) n
  | EStr v => render_string (l_esc L []) v
  | ECapture n _ _ _ _ => 64 :: n
  | EUnscoped n _ => n
  | EScoped sc n _ => rtext (sub L 0) sc ++ G L 1 ++ [46] ++ G L 2 ++ n
  | ERegexCap i => 36 :: render_int (l_zeros L []) i
  | ECall f args =>
      [40] ++ G L 0 ++ f ++ Gs L 1 true (next_starts_word args) ++ rtext_args rtext (sub L 2) 0 args ++ [41]
  | EList es =>
      match es with
      | [] => [91] ++ G L 0 ++ [93]
      | e :: es' => [91] ++ G L 0 ++ rtext (sub L 3) e ++ G L 1 ++ rtext_more rtext (sub L 4) 0 es' ++ [93]
      end
  | ESet es =>
      match es with
      | [] => [123] ++ G L 0 ++ [125]
      | e :: es' => [123] ++ G L 0 ++ rtext (sub L 3) e ++ G L 1 ++ rtext_more rtext (sub L 4) 0 es' ++ [125]
      end
  | EListComp el v _ val _ =>
      [91] ++ G L 0 ++ rtext (sub L 3) el ++ Gs L 1 (ends_word el) true ++ t_for ++ Gs L 2 true true ++ v
      ++ Gs L 5 true true ++ t_in ++ Gs L 6 true (starts_word val) ++ rtext (sub L 4) val ++ G L 7 ++ [93]
  | ESetComp el v _ val _ =>
      [123] ++ G L 0 ++ rtext (sub L 3) el ++ Gs L 1 (ends_word el) true ++ t_for ++ Gs L 2 true true ++ v
      ++ Gs L 5 true true ++ t_in ++ Gs L 6 true (starts_word val) ++ rtext (sub L 4) val ++ G L 7 ++ [125]
  end.

(* ------------------------------------------------------------------ expressions: located AST *)
Section LocItems.
  Variable rloc : layout -> loc -> expr -> expr.
  Fixpoint rloc_args (L : layout) (i : nat) (p : loc) (es : list expr) : list expr :=
    match es with
    | [] => []
    | e :: es' =>
        rloc (sub L (2 * i)) p e ::
        rloc_args L (S i) (pos_after p (rtext (sub L (2 * i)) e ++ Gs L (2 * i + 1) (ends_word e) (next_starts_word es'))) es'
    end.
  Fixpoint rloc_more (L : layout) (i : nat) (p : loc) (es : list expr) : list expr :=
    match es with
    | [] => []
    | e :: es' =>
        let p1 := pos_after p ([44] ++ G L (3 * i + 1)) in
        rloc (sub L (3 * i)) p1 e ::
        rloc_more L (S i) (pos_after p1 (rtext (sub L (3 * i)) e ++ G L (3 * i + 2))) es'
    end.
End LocItems.

(* the AST the parser must produce for `rtext L e` written at position p: every location is the
   position of the construct's first character; a scoped variable's location is that of its NAME;
   captures are unresolved (quantifier Zero, indices usize::MAX) until the checker runs *)
Fixpoint rloc (L : layout) (p : loc) (e : expr) : expr :=
  match e with
  | EFalse | ENull | ETrue | EInt _ | EStr _ | ERegexCap _ => e
  | ECapture n _ _ _ _ => ECapture n QZero u32_max u32_max p
  | EUnscoped n _ => EUnscoped n p
  | EScoped sc n _ =>
      EScoped (rloc (sub L 0) p sc) n (pos_after p (rtext (sub L 0) sc ++ G L 1 ++ [46] ++ G L 2))
  | ECall f args =>
      ECall f (rloc_args rloc (sub L 2) 0
                 (pos_after p ([40] ++ G L 0 ++ f ++ Gs L 1 true (next_starts_word args))) args)
  | EList es =>
      match es with
      | [] => EList []
      | e :: es' =>
          let p1 := pos_after p ([91] ++ G L 0) in
          EList (rloc (sub L 3) p1 e :: rloc_more rloc (sub L 4) 0 (pos_after p1 (rtext (sub L 3) e ++ G L 1)) es')
      end
  | ESet es =>
      match es with
      | [] => ESet []
      | e :: es' =>
          let p1 := pos_after p ([123] ++ G L 0) in
          ESet (rloc (sub L 3) p1 e :: rloc_more rloc (sub L 4) 0 (pos_after p1 (rtext (sub L 3) e ++ G L 1)) es')
      end
  | EListComp el v _ val _ =>
      let p1 := pos_after p ([91] ++ G L 0) in
      let pv := pos_after p1 (rtext (sub L 3) el ++ Gs L 1 (ends_word el) true ++ t_for ++ Gs L 2 true true) in
      let p2 := pos_after pv (v ++ Gs L 5 true true ++ t_in ++ Gs L 6 true (starts_word val)) in
      EListComp (rloc (sub L 3) p1 el) v pv (rloc (sub L 4) p2 val) p
  | ESetComp el v _ val _ =>
      let p1 := pos_after p ([123] ++ G L 0) in
      let pv := pos_after p1 (rtext (sub L 3) el ++ Gs L 1 (ends_word el) true ++ t_for ++ Gs L 2 true true) in
      let p2 := pos_after pv (v ++ Gs L 5 true true ++ t_in ++ Gs L 6 true (starts_word val)) in
      ESetComp (rloc (sub L 3) p1 el) v pv (rloc (sub L 4) p2 val) p
  end.

Definition render_expr (L : layout) (p : loc) (e : expr) : list N * expr := (rtext L e, rloc L p e).

Section WfExprs.
  Variable X : ext.
  (* whitespace characters are not identifier characters (a fact of the Unicode tables: White_Space is
     disjoint from Alphabetic and Numeric; for ASCII it follows from the definitions).  It is a
     hypothesis on the external tables, checked on the table of every correspondence case. *)
  Definition UnicodeSane : Prop :=
    forall c, is_whitespace X c = true -> is_ident X c = false /\ is_ident_start X c = false.
  Definition WfLayout (L : layout) : Prop := forall p, WfGap X (l_gap L p).

  Fixpoint WfExpr (e : expr) : Prop :=
    match e with
    | EFalse | ENull | ETrue | EStr _ => True
    | EInt n => n <= u32_max
    | ERegexCap i => i <= usize_max
    | ECapture n _ _ _ _ => WfIdent X n
    | EUnscoped n _ => WfIdent X n
    | EScoped sc n _ => WfExpr sc /\ WfIdent X n
    | ECall f args => WfIdent X f /\ (fix all (l : list expr) : Prop := match l with [] => True | a :: l' => WfExpr a /\ all l' end) args
    | EList es | ESet es => (fix all (l : list expr) : Prop := match l with [] => True | a :: l' => WfExpr a /\ all l' end) es
    | EListComp el v _ val _ | ESetComp el v _ val _ => WfExpr el /\ WfIdent X v /\ WfExpr val
    end.
End WfExprs.

(* ------------------------------------------------------------------ variables, attributes, conditions *)
Definition var_expr (v : variable) : expr :=
  match v with VarU n l => EUnscoped n l | VarS sc n l => EScoped sc n l end.
Definition vloc (L : layout) (p : loc) (v : variable) : variable :=
  match expr_as_variable (rloc L p (var_expr v)) with Some v' => v' | None => v end.

(* an attribute `name = value`; `name` alone stands for `name = #true` (chosen by the layout flag) *)
Definition attr_bare (L : layout) (a : attr) : bool :=
  match a with Attr _ ETrue => l_flag L [] | _ => false end.
Definition attr_text (L : layout) (a : attr) : list N :=
  match a with
  | Attr n v => if attr_bare L a then n else n ++ G L 0 ++ [61] ++ G L 1 ++ rtext (sub L 2) v
  end.
Definition attr_loc (L : layout) (p : loc) (a : attr) : attr :=
  match a with
  | Attr n v => if attr_bare L a then Attr n ETrue
                else Attr n (rloc (sub L 2) (pos_after p (n ++ G L 0 ++ [61] ++ G L 1)) v)
  end.
Definition attr_ends_word (L : layout) (a : attr) : bool :=
  match a with Attr _ v => if attr_bare L a then true else ends_word v end.
(* a_0 gap , gap a_1 ... : component 3i = attribute i, gap 3i+1 follows it, gap 3i+2 follows its comma *)
Fixpoint attrs_text (L : layout) (i : nat) (l : list attr) : list N :=
  match l with
  | [] => []
  | a :: l' => attr_text (sub L (3 * i)) a ++
               match l' with [] => [] | _ :: _ => G L (3 * i + 1) ++ [44] ++ G L (3 * i + 2) ++ attrs_text L (S i) l' end
  end.
Fixpoint attrs_loc (L : layout) (i : nat) (p : loc) (l : list attr) : list attr :=
  match l with
  | [] => []
  | a :: l' => attr_loc (sub L (3 * i)) p a ::
               attrs_loc L (S i) (pos_after p (attr_text (sub L (3 * i)) a ++ G L (3 * i + 1) ++ [44] ++ G L (3 * i + 2))) l'
  end.
Fixpoint attrs_ends_word (L : layout) (i : nat) (l : list attr) : bool :=
  match l with
  | [] => false
  | a :: l' => match l' with [] => attr_ends_word (sub L (3 * i)) a | _ :: _ => attrs_ends_word L (S i) l' end
  end.

Definition cond_expr (c : cond) : expr := match c with CSome e _ | CNone e _ | CBool e _ => e end.
Definition cond_text (L : layout) (c : cond) : list N :=
  match c with
  | CSome e _ => t_some ++ Gs L 0 true (starts_word e) ++ rtext (sub L 1) e
  | CNone e _ => t_none ++ Gs L 0 true (starts_word e) ++ rtext (sub L 1) e
  | CBool e _ => rtext (sub L 1) e
  end.
Definition cond_loc (L : layout) (p : loc) (c : cond) : cond :=
  match c with
  | CSome e _ => CSome (rloc (sub L 1) (pos_after p (t_some ++ Gs L 0 true (starts_word e))) e) p
  | CNone e _ => CNone (rloc (sub L 1) (pos_after p (t_none ++ Gs L 0 true (starts_word e))) e) p
  | CBool e _ => CBool (rloc (sub L 1) p e) p
  end.
(* c_0 gap , gap c_1 gap ... : every condition is followed by its gap (3i+1); gap 3i+2 follows the comma *)
Fixpoint conds_text (L : layout) (i : nat) (l : list cond) : list N :=
  match l with
  | [] => []
  | c :: l' => cond_text (sub L (3 * i)) c ++ G L (3 * i + 1) ++
               match l' with [] => [] | _ :: _ => [44] ++ G L (3 * i + 2) ++ conds_text L (S i) l' end
  end.
Fixpoint conds_loc (L : layout) (i : nat) (p : loc) (l : list cond) : list cond :=
  match l with
  | [] => []
  | c :: l' => cond_loc (sub L (3 * i)) p c ::
               conds_loc L (S i) (pos_after p (cond_text (sub L (3 * i)) c ++ G L (3 * i + 1) ++ [44] ++ G L (3 * i + 2))) l'
  end.

(* the identifier an expression begins with, if it begins with one *)
Fixpoint head_ident (e : expr) : option ident :=
  match e with EUnscoped n _ => Some n | EScoped sc _ _ => head_ident sc | _ => None end.

Section WfAttrs.
  Variable X : ext.
  Definition WfAttr (a : attr) : Prop := match a with Attr n v => WfIdent X n /\ WfExpr X v end.
  (* a plain condition must not begin with the words `some` / `none` *)
  Definition WfCond (c : cond) : Prop :=
    WfExpr X (cond_expr c) /\
    match c with
    | CBool e _ => match head_ident e with Some n => n <> t_some /\ n <> t_none | None => True end
    | _ => True
    end.
End WfAttrs.

(* ------------------------------------------------------------------ statements *)
Definition conds_starts_word (c : list cond) : bool :=
  match c with CBool e _ :: _ => starts_word e | _ :: _ => true | [] => false end.

Fixpoint print_text (L : layout) (i : nat) (vs : list expr) : list N :=
  match vs with
  | [] => []
  | v :: vs' => rtext (sub L (3 * i)) v ++
                match vs' with [] => [] | _ :: _ => G L (3 * i + 1) ++ [44] ++ G L (3 * i + 2) ++ print_text L (S i) vs' end
  end.
Fixpoint print_loc (L : layout) (i : nat) (p : loc) (vs : list expr) : list expr :=
  match vs with
  | [] => []
  | v :: vs' => rloc (sub L (3 * i)) p v ::
                print_loc L (S i) (pos_after p (rtext (sub L (3 * i)) v ++ G L (3 * i + 1) ++ [44] ++ G L (3 * i + 2))) vs'
  end.

(* does the written statement end with an identifier character? (blocks end with `}`) *)
Definition stmt_ends_word (L : layout) (st : stmt) : bool :=
  match st with
  | SLet _ e _ | SVar _ e _ | SSet _ e _ => ends_word e
  | SNode _ _ _ => true
  | SEdge _ b _ => ends_word b
  | SAttrNode _ attrs _ | SAttrEdge _ _ attrs _ => attrs_ends_word (sub L 5) 0 attrs
  | SPrint vs _ => ends_word (last vs EFalse)
  | SScan _ _ _ | SIf _ _ | SFor _ _ _ _ _ => false
  end.

Section StmtRender.
  Variable tbl : list str.             (* the regex of scan arm number i *)
  Definition pat (i : N) : str := nth (N.to_nat i) tbl [].

  Definition assign_text (L : layout) (kw : str) (v : variable) (e : expr) : list N :=
    kw ++ Gs L 0 true (starts_word (var_expr v)) ++ rtext (sub L 1) (var_expr v) ++ G L 2 ++ [61] ++ G L 3
    ++ rtext (sub L 4) e.

  Fixpoint stext (L : layout) (st : stmt) {struct st} : list N :=
    let stmts := fix stmts (L : layout) (i : nat) (l : list stmt) {struct l} : list N :=
      match l with
      | [] => []
      | st' :: l' => stext (sub L (2 * i)) st' ++
                     Gs L (2 * i + 1) (stmt_ends_word (sub L (2 * i)) st') (match l' with [] => false | _ :: _ => true end)
                     ++ stmts L (S i) l'
      end in
    let block := fun (L : layout) (l : list stmt) => [123] ++ G L 0 ++ stmts (sub L 1) 0%nat l ++ [125] in
    match st with
    | SLet v e _ => assign_text L t_let v e
    | SVar v e _ => assign_text L t_var v e
    | SSet v e _ => assign_text L t_set v e
    | SNode v _ _ => t_node ++ Gs L 0 true (starts_word (var_expr v)) ++ rtext (sub L 1) (var_expr v)
    | SEdge a b _ =>
        t_edge ++ Gs L 0 true (starts_word a) ++ rtext (sub L 1) a ++ Gs L 2 (ends_word a) true ++ t_arrow
        ++ G L 3 ++ rtext (sub L 4) b
    | SAttrNode n attrs _ =>
        t_attr ++ G L 0 ++ [40] ++ G L 1 ++ rtext (sub L 2) n ++ G L 3 ++ [41] ++ G L 4 ++ attrs_text (sub L 5) 0 attrs
    | SAttrEdge a b attrs _ =>
        t_attr ++ G L 0 ++ [40] ++ G L 1 ++ rtext (sub L 2) a ++ Gs L 3 (ends_word a) true ++ t_arrow ++ G L 6
        ++ rtext (sub L 7) b ++ G L 8 ++ [41] ++ G L 4 ++ attrs_text (sub L 5) 0 attrs
    | SPrint vs _ => t_print ++ Gs L 0 true (next_starts_word vs) ++ print_text (sub L 1) 0 vs
    | SScan val arms _ =>
        t_scan ++ Gs L 0 true (starts_word val) ++ rtext (sub L 1) val ++ G L 2 ++ [123] ++ G L 3
        ++ (fix arms_t (L : layout) (i : nat) (a : list (N * list stmt * loc)) {struct a} : list N :=
              match a with
              | [] => []
              | (idx, body, _) :: a' =>
                  render_string (l_esc L [(3 * i)%nat]) (pat idx) ++ G L (3 * i + 1) ++ block (sub L (3 * i)) body
                  ++ G L (3 * i + 2) ++ arms_t L (S i) a'
              end) (sub L 4) 0%nat arms
        ++ [125]
    | SIf arms _ =>
        match arms with
        | [] => t_if
        | (c0, b0, _) :: rest =>
            t_if ++ Gs L 0 true (conds_starts_word c0) ++ conds_text (sub L 1) 0 c0 ++ block (sub L 2) b0
            ++ (fix rest_t (L : layout) (i : nat) (a : list (list cond * list stmt * loc)) {struct a} : list N :=
                  match a with
                  | [] => []
                  | (c, b, _) :: a' =>
                      G L (4 * i + 1)
                      ++ match c with
                         | [] => t_else ++ G L (4 * i + 2)
                         | _ :: _ => t_elif ++ Gs L (4 * i + 2) true (conds_starts_word c) ++ conds_text (sub L (4 * i + 3)) 0 c
                         end
                      ++ block (sub L (4 * i)) b ++ rest_t L (S i) a'
                  end) (sub L 3) 0%nat rest
        end
    | SFor v _ val body _ =>
        t_for ++ Gs L 0 true true ++ v ++ Gs L 1 true true ++ t_in ++ Gs L 2 true (starts_word val)
        ++ rtext (sub L 3) val ++ G L 4 ++ block (sub L 5) body
    end.

  (* the same lists as top-level functions (convertible with the local ones above) *)
  Fixpoint stmts_text (L : layout) (i : nat) (l : list stmt) : list N :=
    match l with
    | [] => []
    | st' :: l' => stext (sub L (2 * i)) st' ++
                   Gs L (2 * i + 1) (stmt_ends_word (sub L (2 * i)) st') (match l' with [] => false | _ :: _ => true end)
                   ++ stmts_text L (S i) l'
    end.
  Definition block_text (L : layout) (l : list stmt) : list N := [123] ++ G L 0 ++ stmts_text (sub L 1) 0 l ++ [125].
  Fixpoint arms_text (L : layout) (i : nat) (a : list (N * list stmt * loc)) : list N :=
    match a with
    | [] => []
    | (idx, body, _) :: a' =>
        render_string (l_esc L [(3 * i)%nat]) (pat idx) ++ G L (3 * i + 1) ++ block_text (sub L (3 * i)) body
        ++ G L (3 * i + 2) ++ arms_text L (S i) a'
    end.
  Fixpoint ifrest_text (L : layout) (i : nat) (a : list (list cond * list stmt * loc)) : list N :=
    match a with
    | [] => []
    | (c, b, _) :: a' =>
        G L (4 * i + 1)
        ++ match c with
           | [] => t_else ++ G L (4 * i + 2)
           | _ :: _ => t_elif ++ Gs L (4 * i + 2) true (conds_starts_word c) ++ conds_text (sub L (4 * i + 3)) 0 c
           end
        ++ block_text (sub L (4 * i)) b ++ ifrest_text L (S i) a'
    end.

  (* the regexes of the scan arms of a statement, in order of appearance *)
  Fixpoint stmt_pats (st : stmt) {struct st} : list str :=
    let stmts := fix stmts (l : list stmt) : list str :=
      match l with [] => [] | st' :: l' => stmt_pats st' ++ stmts l' end in
    match st with
    | SScan _ arms _ =>
        (fix go (a : list (N * list stmt * loc)) : list str :=
           match a with [] => [] | (idx, body, _) :: a' => pat idx :: stmts body ++ go a' end) arms
    | SIf arms _ =>
        (fix go (a : list (list cond * list stmt * loc)) : list str :=
           match a with [] => [] | (_, body, _) :: a' => stmts body ++ go a' end) arms
    | SFor _ _ _ body _ => stmts body
    | _ => []
    end.
  Fixpoint stmts_pats (l : list stmt) : list str :=
    match l with [] => [] | st' :: l' => stmt_pats st' ++ stmts_pats l' end.
  Fixpoint arms_pats (a : list (N * list stmt * loc)) : list str :=
    match a with [] => [] | (idx, body, _) :: a' => pat idx :: stmts_pats body ++ arms_pats a' end.
  Fixpoint ifarms_pats (a : list (list cond * list stmt * loc)) : list str :=
    match a with [] => [] | (_, body, _) :: a' => stmts_pats body ++ ifarms_pats a' end.

  (* ---- the located statement: every location is the position of the construct's first character;
     scan arms are numbered in order of appearance, starting at k (the number of arms seen before) ---- *)
  Definition assign_locs (L : layout) (p : loc) (kw : str) (v : variable) (e : expr) : variable * expr :=
    let p1 := pos_after p (kw ++ Gs L 0 true (starts_word (var_expr v))) in
    (vloc (sub L 1) p1 v,
     rloc (sub L 4) (pos_after p1 (rtext (sub L 1) (var_expr v) ++ G L 2 ++ [61] ++ G L 3)) e).

  Fixpoint sloc (L : layout) (p : loc) (k : nat) (st : stmt) {struct st} : stmt :=
    let stmts := fix stmts (L : layout) (i : nat) (p : loc) (k : nat) (l : list stmt) {struct l} : list stmt :=
      match l with
      | [] => []
      | st' :: l' =>
          sloc (sub L (2 * i)) p k st' ::
          stmts L (S i)
            (pos_after p (stext (sub L (2 * i)) st' ++
               Gs L (2 * i + 1) (stmt_ends_word (sub L (2 * i)) st') (match l' with [] => false | _ :: _ => true end)))
            (k + length (stmt_pats st'))%nat l'
      end in
    let block := fun (L : layout) (p : loc) (k : nat) (l : list stmt) =>
      stmts (sub L 1) 0%nat (pos_after p ([123] ++ G L 0)) k l in
    match st with
    | SLet v e _ => let ve := assign_locs L p t_let v e in SLet (fst ve) (snd ve) p
    | SVar v e _ => let ve := assign_locs L p t_var v e in SVar (fst ve) (snd ve) p
    | SSet v e _ => let ve := assign_locs L p t_set v e in SSet (fst ve) (snd ve) p
    | SNode v t _ => SNode (vloc (sub L 1) (pos_after p (t_node ++ Gs L 0 true (starts_word (var_expr v)))) v) t p
    | SEdge a b _ =>
        let p1 := pos_after p (t_edge ++ Gs L 0 true (starts_word a)) in
        SEdge (rloc (sub L 1) p1 a)
              (rloc (sub L 4) (pos_after p1 (rtext (sub L 1) a ++ Gs L 2 (ends_word a) true ++ t_arrow ++ G L 3)) b) p
    | SAttrNode n attrs _ =>
        let p1 := pos_after p (t_attr ++ G L 0 ++ [40] ++ G L 1) in
        SAttrNode (rloc (sub L 2) p1 n)
                  (attrs_loc (sub L 5) 0 (pos_after p1 (rtext (sub L 2) n ++ G L 3 ++ [41] ++ G L 4)) attrs) p
    | SAttrEdge a b attrs _ =>
        let p1 := pos_after p (t_attr ++ G L 0 ++ [40] ++ G L 1) in
        let p2 := pos_after p1 (rtext (sub L 2) a ++ Gs L 3 (ends_word a) true ++ t_arrow ++ G L 6) in
        SAttrEdge (rloc (sub L 2) p1 a) (rloc (sub L 7) p2 b)
                  (attrs_loc (sub L 5) 0 (pos_after p2 (rtext (sub L 7) b ++ G L 8 ++ [41] ++ G L 4)) attrs) p
    | SPrint vs _ =>
        SPrint (print_loc (sub L 1) 0 (pos_after p (t_print ++ Gs L 0 true (next_starts_word vs))) vs) p
    | SScan val arms _ =>
        let p1 := pos_after p (t_scan ++ Gs L 0 true (starts_word val)) in
        let p2 := pos_after p1 (rtext (sub L 1) val ++ G L 2 ++ [123] ++ G L 3) in
        SScan (rloc (sub L 1) p1 val)
          ((fix arms_l (L : layout) (i : nat) (q : loc) (k : nat) (a : list (N * list stmt * loc)) {struct a}
               : list (N * list stmt * loc) :=
              match a with
              | [] => []
              | (idx, body, _) :: a' =>
                  let s_txt := render_string (l_esc L [(3 * i)%nat]) (pat idx) ++ G L (3 * i + 1) in
                  (N.of_nat k, block (sub L (3 * i)) (pos_after q s_txt) (S k) body, p) ::
                  arms_l L (S i) (pos_after q (s_txt ++ block_text (sub L (3 * i)) body ++ G L (3 * i + 2)))
                         (S k + length (stmts_pats body))%nat a'
              end) (sub L 4) 0%nat p2 k arms) p
    | SIf arms _ =>
        match arms with
        | [] => SIf [] p
        | (c0, b0, _) :: rest =>
            let p1 := pos_after p (t_if ++ Gs L 0 true (conds_starts_word c0)) in
            let p2 := pos_after p1 (conds_text (sub L 1) 0 c0) in
            SIf ((conds_loc (sub L 1) 0 p1 c0, block (sub L 2) p2 k b0, p) ::
                 (fix rest_l (L : layout) (i : nat) (q : loc) (k : nat) (a : list (list cond * list stmt * loc)) {struct a}
                      : list (list cond * list stmt * loc) :=
                    match a with
                    | [] => []
                    | (c, b, _) :: a' =>
                        let q1 := pos_after q (G L (4 * i + 1)) in
                        match c with
                        | [] =>
                            let q2 := pos_after q1 (t_else ++ G L (4 * i + 2)) in
                            ([], block (sub L (4 * i)) q2 k b, q1) ::
                            rest_l L (S i) (pos_after q2 (block_text (sub L (4 * i)) b)) (k + length (stmts_pats b))%nat a'
                        | _ :: _ =>
                            let q2 := pos_after q1 (t_elif ++ Gs L (4 * i + 2) true (conds_starts_word c)) in
                            let q3 := pos_after q2 (conds_text (sub L (4 * i + 3)) 0 c) in
                            (conds_loc (sub L (4 * i + 3)) 0 q2 c, block (sub L (4 * i)) q3 k b, q1) ::
                            rest_l L (S i) (pos_after q3 (block_text (sub L (4 * i)) b)) (k + length (stmts_pats b))%nat a'
                        end
                    end) (sub L 3) 0%nat (pos_after p2 (block_text (sub L 2) b0)) (k + length (stmts_pats b0))%nat rest) p
        end
    | SFor v _ val body _ =>
        let pv := pos_after p (t_for ++ Gs L 0 true true) in
        let p2 := pos_after pv (v ++ Gs L 1 true true ++ t_in ++ Gs L 2 true (starts_word val)) in
        let p3 := pos_after p2 (rtext (sub L 3) val ++ G L 4) in
        SFor v pv (rloc (sub L 3) p2 val) (block (sub L 5) p3 k body) p
    end.

  Fixpoint stmts_loc (L : layout) (i : nat) (p : loc) (k : nat) (l : list stmt) : list stmt :=
    match l with
    | [] => []
    | st' :: l' =>
        sloc (sub L (2 * i)) p k st' ::
        stmts_loc L (S i)
          (pos_after p (stext (sub L (2 * i)) st' ++
             Gs L (2 * i + 1) (stmt_ends_word (sub L (2 * i)) st') (match l' with [] => false | _ :: _ => true end)))
          (k + length (stmt_pats st'))%nat l'
    end.
  Definition block_loc (L : layout) (p : loc) (k : nat) (l : list stmt) : list stmt :=
    stmts_loc (sub L 1) 0 (pos_after p ([123] ++ G L 0)) k l.
  (* arms of `scan` (all carry the location kl of the `scan` keyword) and the arms after the first of `if` *)
  Section ArmsLoc.
  Variable kl : loc.
  Fixpoint arms_loc (L : layout) (i : nat) (q : loc) (k : nat) (a : list (N * list stmt * loc))
      : list (N * list stmt * loc) :=
    match a with
    | [] => []
    | (idx, body, _) :: a' =>
        let s_txt := render_string (l_esc L [(3 * i)%nat]) (pat idx) ++ G L (3 * i + 1) in
        (N.of_nat k, block_loc (sub L (3 * i)) (pos_after q s_txt) (S k) body, kl) ::
        arms_loc L (S i) (pos_after q (s_txt ++ block_text (sub L (3 * i)) body ++ G L (3 * i + 2)))
                 (S k + length (stmts_pats body))%nat a'
    end.
  End ArmsLoc.
  Fixpoint ifrest_loc (L : layout) (i : nat) (q : loc) (k : nat) (a : list (list cond * list stmt * loc))
      : list (list cond * list stmt * loc) :=
    match a with
    | [] => []
    | (c, b, _) :: a' =>
        let q1 := pos_after q (G L (4 * i + 1)) in
        match c with
        | [] =>
            let q2 := pos_after q1 (t_else ++ G L (4 * i + 2)) in
            ([], block_loc (sub L (4 * i)) q2 k b, q1) ::
            ifrest_loc L (S i) (pos_after q2 (block_text (sub L (4 * i)) b)) (k + length (stmts_pats b))%nat a'
        | _ :: _ =>
            let q2 := pos_after q1 (t_elif ++ Gs L (4 * i + 2) true (conds_starts_word c)) in
            let q3 := pos_after q2 (conds_text (sub L (4 * i + 3)) 0 c) in
            (conds_loc (sub L (4 * i + 3)) 0 q2 c, block_loc (sub L (4 * i)) q3 k b, q1) ::
            ifrest_loc L (S i) (pos_after q3 (block_text (sub L (4 * i)) b)) (k + length (stmts_pats b))%nat a'
        end
    end.
End StmtRender.

Section WfStmts.
  Variable X : ext.
  Variable tbl : list str.
  Definition WfVar (v : variable) : Prop := WfExpr X (var_expr v).
  (* the arms after the first: `elif` arms have conditions; an arm without conditions is `else`, the last *)
  Fixpoint WfIfRest (a : list (list cond * list stmt * loc)) : Prop :=
    match a with
    | [] => True
    | (c, _, _) :: a' => (c = [] -> a' = []) /\ Forall (WfCond X) c /\ WfIfRest a'
    end.
  Fixpoint WfStmt (st : stmt) {struct st} : Prop :=
    let all := fix all (l : list stmt) : Prop := match l with [] => True | s :: l' => WfStmt s /\ all l' end in
    match st with
    | SLet v e _ | SVar v e _ | SSet v e _ => WfVar v /\ WfExpr X e
    | SNode v t _ => WfVar v /\ t = display_variable (dpenv_of (x_print X)) v
    | SEdge a b _ => WfExpr X a /\ WfExpr X b
    | SAttrNode n attrs _ => WfExpr X n /\ attrs <> [] /\ Forall (WfAttr X) attrs
    | SAttrEdge a b attrs _ => WfExpr X a /\ WfExpr X b /\ attrs <> [] /\ Forall (WfAttr X) attrs
    | SPrint vs _ => vs <> [] /\ Forall (WfExpr X) vs
    | SScan val arms _ =>
        WfExpr X val /\
        (fix go (a : list (N * list stmt * loc)) : Prop :=
           match a with [] => True | (idx, body, _) :: a' => x_regex X (pat tbl idx) = Some true /\ all body /\ go a' end) arms
    | SIf arms _ =>
        match arms with
        | [] => False
        | (c0, b0, _) :: rest => c0 <> [] /\ Forall (WfCond X) c0 /\ WfIfRest rest /\
            (fix go (a : list (list cond * list stmt * loc)) : Prop :=
               match a with [] => True | (_, body, _) :: a' => all body /\ go a' end) arms
        end
    | SFor v _ val body _ => WfIdent X v /\ WfExpr X val /\ all body
    end.
End WfStmts.

(* ------------------------------------------------------------------ files *)
(* the items of a file in source order; a stanza carries the text of its query, which extends up to
   the `{` of its block (so the gap in front of the block belongs to the query text) *)
Inductive item :=
| IGlobal (g : global)
| IInherit (name : ident)
| IShorthand (h : shorthand)
| IStanza (q : str) (z : stanza).

(* the scan of skip_query over a query text: None if it meets a `{` outside strings and comments *)
Fixpoint qscan (in_string in_escape in_comment : bool) (q : list N) : option (bool * bool * bool) :=
  match q with
  | [] => Some (in_string, in_escape, in_comment)
  | ch :: q' =>
      if in_escape then qscan in_string false in_comment q'
      else if in_string then
        (if ch =? 92 then qscan true true in_comment q'
         else if (ch =? 34) || (ch =? 10) then qscan false false in_comment q'
         else qscan true false in_comment q')
      else if in_comment then qscan false false (negb (ch =? 10)) q'
      else if ch =? 34 then qscan true false false q'
      else if ch =? 123 then None
      else if ch =? 59 then qscan false false true q'
      else qscan false false false q'
  end.

(* the quantifier character written directly after a global's name; One has no character *)
Definition quant_text (q : quant) : list N :=
  match q with QOpt => [63] | QStar => [42] | QPlus => [43] | _ => [] end.
Definition quant_char (c : N) : bool := (c =? 63) || (c =? 42) || (c =? 43).
(* r does not begin with a quantifier character *)
Definition no_quant_start (r : list N) : Prop :=
  match r with [] => True | c :: _ => quant_char c = false end.
(* a global whose written form ends with its bare name: no quantifier character and no default.  What
   follows it must neither continue the name nor be read as its quantifier. *)
Definition global_bare (g : global) : bool :=
  match gl_default g with
  | Some _ => false
  | None => match gl_quant g with QOpt | QStar | QPlus => false | _ => true end
  end.

Section FileRender.
  Variable tbl : list str.

  Definition item_text (L : layout) (it : item) : list N :=
    match it with
    | IGlobal g =>
        t_global ++ Gs L 0 true true ++ gl_name g ++ quant_text (gl_quant g)
        ++ match gl_default g with
           | None => []
           | Some d => G L 1 ++ [61] ++ G L 2 ++ render_string (l_esc L []) d
           end
    | IInherit n => t_inherit ++ G L 0 ++ [46] ++ n
    | IShorthand h =>
        t_attribute ++ Gs L 0 true true ++ sh_name h ++ G L 1 ++ [61] ++ G L 2 ++ sh_var h ++ G L 3 ++ t_arrow2
        ++ G L 4 ++ attrs_text (sub L 5) 0 (sh_attrs h)
    | IStanza q z => q ++ block_text tbl (sub L 1) (st_stmts z)
    end.
  Definition item_ends_word (L : layout) (it : item) : bool :=
    match it with
    | IGlobal g => global_bare g
    | IStanza _ _ => false
    | IInherit _ => true
    | IShorthand h => attrs_ends_word (sub L 5) 0 (sh_attrs h)
    end.
  Definition item_starts_word (X : ext) (it : item) : bool :=
    match it with
    | IStanza q _ => match q with c :: _ => is_ident X c | [] => false end
    | _ => true
    end.
  (* a bare global directly followed by an item that starts with `?`, `*` or `+` (only the query of a
     stanza can) would take that character for its quantifier *)
  Definition item_bare (it : item) : bool := match it with IGlobal g => global_bare g | _ => false end.
  Definition item_starts_quant (it : item) : bool :=
    match it with IStanza (c :: _) _ => quant_char c | _ => false end.
  (* does the item(s) l following `it` begin with a character that must not directly follow a final
     word of `it`?  (an identifier character; after a bare global also a quantifier character.)  The
     gap between the two is then forced non-empty (sep). *)
  Definition next_clash (X : ext) (it : item) (l : list item) : bool :=
    match l with
    | it2 :: _ => item_starts_word X it2 || (item_bare it && item_starts_quant it2)
    | [] => false
    end.
  Definition item_pats (it : item) : list str :=
    match it with IStanza _ z => stmts_pats tbl (st_stmts z) | _ => [] end.
  Definition item_query_source (it : item) : str :=
    match it with IStanza q _ => q ++ full_match_suffix ++ [10] | _ => [] end.

  (* the located item written at position p, when k scan arms were parsed before *)
  Definition item_loc (L : layout) (p : loc) (k : nat) (it : item) : item :=
    match it with
    | IGlobal g =>
        IGlobal {| gl_name := gl_name g; gl_quant := gl_quant g; gl_default := gl_default g;
                   gl_loc := pos_after p (t_global ++ Gs L 0 true true) |}
    | IInherit n => IInherit n
    | IShorthand h =>
        let p1 := pos_after p (t_attribute ++ Gs L 0 true true) in
        let pv := pos_after p1 (sh_name h ++ G L 1 ++ [61] ++ G L 2) in
        IShorthand {| sh_name := sh_name h; sh_var := sh_var h; sh_vloc := pv;
                      sh_attrs := attrs_loc (sub L 5) 0 (pos_after pv (sh_var h ++ G L 3 ++ t_arrow2 ++ G L 4)) (sh_attrs h);
                      sh_loc := p1 |}
    | IStanza q z =>
        IStanza q {| st_stmts := block_loc tbl (sub L 1) (pos_after p q) k (st_stmts z);
                     st_full_stanza_idx := st_full_stanza_idx z; st_full_file_idx := u32_max; st_start := p |}
    end.

  Section Items.
    Variable X : ext.
    (* item i = component 2i, followed by gap 2i+1 *)
    Fixpoint items_text (L : layout) (i : nat) (l : list item) : list N :=
      match l with
      | [] => []
      | it :: l' =>
          item_text (sub L (2 * i)) it
          ++ Gs L (2 * i + 1) (item_ends_word (sub L (2 * i)) it) (next_clash X it l')
          ++ items_text L (S i) l'
      end.
    Fixpoint items_loc (L : layout) (i : nat) (p : loc) (k : nat) (l : list item) : list item :=
      match l with
      | [] => []
      | it :: l' =>
          item_loc (sub L (2 * i)) p k it ::
          items_loc L (S i)
            (pos_after p (item_text (sub L (2 * i)) it
               ++ Gs L (2 * i + 1) (item_ends_word (sub L (2 * i)) it) (next_clash X it l')))
            (k + length (item_pats it))%nat l'
      end.
    Definition file_text (L : layout) (l : list item) : list N := G L 0 ++ items_text (sub L 1) 0 l.
    Definition file_items_loc (L : layout) (l : list item) : list item :=
      items_loc (sub L 1) 0 (pos_after (0, 0) (G L 0)) 0 l.
  End Items.
End FileRender.

(* the File built from located items, as parse_into_file fills it *)
Fixpoint acc_of_items (l : list item) (a : facc) : facc :=
  match l with
  | [] => a
  | IGlobal g :: l' => acc_of_items l' {| a_globals := a_globals a ++ [g]; a_inherited := a_inherited a; a_shorthands := a_shorthands a; a_stanzas := a_stanzas a; a_query_source := a_query_source a |}
  | IInherit n :: l' => acc_of_items l' {| a_globals := a_globals a; a_inherited := a_inherited a ++ [n]; a_shorthands := a_shorthands a; a_stanzas := a_stanzas a; a_query_source := a_query_source a |}
  | IShorthand h :: l' => acc_of_items l' {| a_globals := a_globals a; a_inherited := a_inherited a; a_shorthands := a_shorthands a ++ [h]; a_stanzas := a_stanzas a; a_query_source := a_query_source a |}
  | IStanza q z :: l' => acc_of_items l' {| a_globals := a_globals a; a_inherited := a_inherited a; a_shorthands := a_shorthands a; a_stanzas := a_stanzas a ++ [z]; a_query_source := a_query_source a ++ q ++ full_match_suffix ++ [10] |}
  end.
Definition empty_acc : facc :=
  {| a_globals := []; a_inherited := []; a_shorthands := []; a_stanzas := []; a_query_source := [] |}.
Definition file_of_items (l : list item) : file := file_of_acc (acc_of_items l empty_acc).

Section WfItems.
  Variable X : ext.
  Variable tbl : list str.
  Definition WfQuery (q : str) : Prop :=
    qscan false false false q = Some (false, false, false) /\
    starts_with t_attribute (q ++ [123]) = false /\ starts_with t_global (q ++ [123]) = false /\
    starts_with t_inherit (q ++ [123]) = false /\ no_gap_start X (q ++ [123]) /\
    match q ++ [123] with c :: _ => c <> 61 /\ c <> 44 /\ c <> 46 | [] => True end.
  Definition WfItem (it : item) : Prop :=
    match it with
    | IGlobal g => WfIdent X (gl_name g) /\ gl_quant g <> QZero
    | IInherit n => WfIdent X n
    | IShorthand h => WfIdent X (sh_name h) /\ WfIdent X (sh_var h) /\ sh_attrs h <> [] /\ Forall (WfAttr X) (sh_attrs h)
    | IStanza q z =>
        WfQuery q /\ (fix all (l : list stmt) : Prop := match l with [] => True | s :: l' => WfStmt X tbl s /\ all l' end) (st_stmts z)
    end.
  (* tree-sitter accepts every stanza's query (offsets in bytes from the start of the file) as one
     pattern and reports the index of the appended full-match capture *)
  Fixpoint queries_ok (L : layout) (i : nat) (off : N) (l : list item) : Prop :=
    match l with
    | [] => True
    | it :: l' =>
        match it with
        | IStanza q z => exists n, x_query X off (off + bytes q) = Some (QOk n (Some (st_full_stanza_idx z))) /\ (1 <? n) = false
        | _ => True
        end /\
        queries_ok L (S i)
          (off + bytes (item_text tbl (sub L (2 * i)) it
                        ++ Gs L (2 * i + 1) (item_ends_word (sub L (2 * i)) it) (next_clash X it l'))) l'
    end.
End WfItems.
