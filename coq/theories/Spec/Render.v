(* Spec/Render.v — the written form of a program: positions, gaps (whitespace and `;` comments),
   spellings of literals, and the pretty-printer `render` that lays an AST out under an arbitrary
   layout and computes, while printing, the location of every located construct.
   C07 says: parsing the rendered text yields exactly the located AST (Proofs/Parser.v, Props/C07.v).
   Definitions only. *)
From TSG Require Export Model.Parser.

(* ------------------------------------------------------------------ positions *)
(* zero-based row and CHARACTER column after writing text t from position p *)
Definition pos_step (p : loc) (ch : N) : loc := if ch =? 10 then (fst p + 1, 0) else (fst p, snd p + 1).
Definition pos_after (p : loc) (t : list N) : loc := fold_left pos_step t p.
(* byte length of the UTF-8 encoding *)
Fixpoint bytes (t : list N) : N := match t with [] => 0 | c :: t' => utf8_len c + bytes t' end.

Definition has_newline (t : list N) : bool := existsb (N.eqb 10) t.
Fixpoint newlines (t : list N) : N :=
  match t with [] => 0 | c :: t' => (if c =? 10 then 1 else 0) + newlines t' end.
(* the characters after the last newline of t (all of t if there is none) *)
Fixpoint last_line (t : list N) : list N :=
  match t with
  | [] => []
  | c :: t' => if has_newline t' then last_line t' else if c =? 10 then t' else c :: t'
  end.

(* the parser state after consuming text t, leaving r *)
Definition st_after (s : pst) (t r : list N) : pst :=
  {| p_rest := r; p_off := p_off s + bytes t;
     p_row := fst (pos_after (p_loc s) t); p_col := snd (pos_after (p_loc s) t);
     p_pats := p_pats s |}.

(* ------------------------------------------------------------------ gaps *)
Inductive gap_item :=
| GWs (c : N)                      (* one whitespace character *)
| GComment (body : list N).        (* `;` body `\n` *)
Definition gap := list gap_item.
Definition render_gap_item (i : gap_item) : list N :=
  match i with GWs c => [c] | GComment b => 59 :: b ++ [10] end.
Definition render_gap (g : gap) : list N := concat (map render_gap_item g).

Section WithExt.
  Variable X : ext.

  Definition wf_gap_item (i : gap_item) : Prop :=
    match i with GWs c => is_whitespace X c = true | GComment b => ~ In 10 b end.
  Definition WfGap (g : gap) : Prop := Forall wf_gap_item g.

  (* r does not begin with whitespace or a comment *)
  Definition no_gap_start (r : list N) : Prop :=
    match r with [] => True | c :: _ => c <> 59 /\ is_whitespace X c = false end.
  (* r does not begin with an identifier character *)
  Definition no_ident_start (r : list N) : Prop :=
    match r with [] => True | c :: _ => is_ident X c = false end.

  (* identifiers: [_ alphabetic][_ - alphanumeric]*  *)
  Definition WfIdent (n : ident) : Prop :=
    match n with [] => False | c :: t => is_ident_start X c = true /\ forallb (is_ident X) t = true end.
End WithExt.

(* ------------------------------------------------------------------ string literals *)
(* one character of a string literal; `e` = "use an escape where one is optional".
   the double quote and the backslash must be escaped; NUL, LF, CR, TAB may be written raw or as \0 \n \r \t; any other
   character c may also be written \c unless c is one of 0 n r t (which would mean something else). *)
Definition esc_char (e : bool) (c : N) : list N :=
  if (c =? 34) || (c =? 92) then [92; c]
  else if e then
    (if c =? 0 then [92; 48] else if c =? 10 then [92; 110] else if c =? 13 then [92; 114]
     else if c =? 9 then [92; 116]
     else if (c =? 48) || (c =? 110) || (c =? 114) || (c =? 116) then [c]
     else [92; c])
  else [c].
Fixpoint escape (es : list bool) (v : str) : list N :=
  match v with [] => [] | c :: v' => esc_char (hd false es) c ++ escape (tl es) v' end.
Definition render_string (es : list bool) (v : str) : list N := 34 :: escape es v ++ [34].

(* ------------------------------------------------------------------ integer literals *)
Fixpoint dec_go (fuel : nat) (n : N) (acc : str) : str :=
  match fuel with
  | O => acc
  | S fuel' => let d := 48 + n mod 10 in if n <? 10 then d :: acc else dec_go fuel' (n / 10) (d :: acc)
  end.
Definition dec (n : N) : str := dec_go (S (N.size_nat n)) n [].
(* decimal numeral with `zeros` leading zeros *)
Definition render_int (zeros : nat) (n : N) : list N := repeat 48 zeros ++ dec n.

(* ------------------------------------------------------------------ layouts *)
(* A layout assigns to every position of the program (addressed by a path) a gap, a flag (optional
   trailing comma), the escape choices of a string literal and the number of leading zeros of an
   integer literal.  `sub L i` is the layout of the i-th component. *)
Record layout := {
  l_gap : list nat -> gap;
  l_flag : list nat -> bool;
  l_esc : list nat -> list bool;
  l_zeros : list nat -> nat;
}.
Definition sub (L : layout) (i : nat) : layout :=
  {| l_gap := fun p => l_gap L (i :: p); l_flag := fun p => l_flag L (i :: p);
     l_esc := fun p => l_esc L (i :: p); l_zeros := fun p => l_zeros L (i :: p) |}.

(* a gap between two tokens must not be empty when the first ends and the second starts with an
   identifier character (letters, digits, `_`, `-`): the renderer then writes one space *)
Definition sep (prev_word next_word : bool) (g : gap) : gap :=
  if prev_word && next_word then match g with [] => [GWs 32] | _ => g end else g.
(* the gap at position k of layout L, as text *)
Definition G (L : layout) (k : nat) : list N := render_gap (l_gap L [k]).
Definition Gs (L : layout) (k : nat) (prev_word next_word : bool) : list N :=
  render_gap (sep prev_word next_word (l_gap L [k])).

(* does the written form of e end / start with an identifier character? *)
Definition ends_word (e : expr) : bool :=
  match e with
  | EFalse | ENull | ETrue | EInt _ | ECapture _ _ _ _ _ | EUnscoped _ _ | EScoped _ _ _ | ERegexCap _ => true
  | _ => false
  end.
Fixpoint starts_word (e : expr) : bool :=
  match e with
  | EInt _ | EUnscoped _ _ => true
  | EScoped sc _ _ => starts_word sc
  | _ => false
  end.
Definition next_starts_word (es : list expr) : bool :=
  match es with e :: _ => starts_word e | [] => false end.

(* ------------------------------------------------------------------ expressions: text *)
Section TextItems.
  Variable rtext : layout -> expr -> list N.
  (* call arguments: a_i gap_i ... ; component 2i = argument i, gap 2i+1 follows it *)
  Fixpoint rtext_args (L : layout) (i : nat) (es : list expr) : list N :=
    match es with
    | [] => []
    | e :: es' => rtext (sub L (2 * i)) e ++ Gs L (2 * i + 1) (ends_word e) (next_starts_word es')
                  ++ rtext_args L (S i) es'
    end.
  (* further elements of a list/set literal: `,` gap e_i gap ... and the optional trailing comma;
     component 3i = element i, gap 3i+1 follows the comma before it, gap 3i+2 follows it *)
  Fixpoint rtext_more (L : layout) (i : nat) (es : list expr) : list N :=
    match es with
    | [] => if l_flag L [] then [44] ++ G L (3 * i + 1) else []
    | e :: es' => [44] ++ G L (3 * i + 1) ++ rtext (sub L (3 * i)) e ++ G L (3 * i + 2) ++ rtext_more L (S i) es'
    end.
End TextItems.

Fixpoint rtext (L : layout) (e : expr) : list N :=
  match e with
  | EFalse => 35 :: t_false
  | ENull => 35 :: t_null
  | ETrue => 35 :: t_true
  | EInt n => render_int (l_zeros L []) n
  | EStr v => render_string (l_esc L []) v
  | ECapture n _ _ _ _ => 64 :: n
  | EUnscoped n _ => n
  | EScoped sc n _ => rtext (sub L 0) sc ++ G L 1 ++ [46] ++ G L 2 ++ n
  | ERegexCap i => 36 :: render_int (l_zeros L []) i
  | ECall f args =>
      [40] ++ G L 0 ++ f ++ Gs L 1 true (next_starts_word args) ++ rtext_args rtext (sub L 2) 0 args ++ [41]
  | EList es =>
      match es with
      | [] => [91] ++ G L 0 ++ [93]
      | e :: es' => [91] ++ G L 0 ++ rtext (sub L 3) e ++ G L 1 ++ rtext_more rtext (sub L 4) 0 es' ++ [93]
      end
  | ESet es =>
      match es with
      | [] => [123] ++ G L 0 ++ [125]
      | e :: es' => [123] ++ G L 0 ++ rtext (sub L 3) e ++ G L 1 ++ rtext_more rtext (sub L 4) 0 es' ++ [125]
      end
  | EListComp el v _ val _ =>
      [91] ++ G L 0 ++ rtext (sub L 3) el ++ Gs L 1 (ends_word el) true ++ t_for ++ Gs L 2 true true ++ v
      ++ Gs L 5 true true ++ t_in ++ Gs L 6 true (starts_word val) ++ rtext (sub L 4) val ++ G L 7 ++ [93]
  | ESetComp el v _ val _ =>
      [123] ++ G L 0 ++ rtext (sub L 3) el ++ Gs L 1 (ends_word el) true ++ t_for ++ Gs L 2 true true ++ v
      ++ Gs L 5 true true ++ t_in ++ Gs L 6 true (starts_word val) ++ rtext (sub L 4) val ++ G L 7 ++ [125]
  end.

(* ------------------------------------------------------------------ expressions: located AST *)
Section LocItems.
  Variable rloc : layout -> loc -> expr -> expr.
  Fixpoint rloc_args (L : layout) (i : nat) (p : loc) (es : list expr) : list expr :=
    match es with
    | [] => []
    | e :: es' =>
        rloc (sub L (2 * i)) p e ::
        rloc_args L (S i) (pos_after p (rtext (sub L (2 * i)) e ++ Gs L (2 * i + 1) (ends_word e) (next_starts_word es'))) es'
    end.
  Fixpoint rloc_more (L : layout) (i : nat) (p : loc) (es : list expr) : list expr :=
    match es with
    | [] => []
    | e :: es' =>
        let p1 := pos_after p ([44] ++ G L (3 * i + 1)) in
        rloc (sub L (3 * i)) p1 e ::
        rloc_more L (S i) (pos_after p1 (rtext (sub L (3 * i)) e ++ G L (3 * i + 2))) es'
    end.
End LocItems.

(* the AST the parser must produce for `rtext L e` written at position p: every location is the
   position of the construct's first character; a scoped variable's location is that of its NAME;
   captures are unresolved (quantifier Zero, indices usize::MAX) until the checker runs *)
Fixpoint rloc (L : layout) (p : loc) (e : expr) : expr :=
  match e with
  | EFalse | ENull | ETrue | EInt _ | EStr _ | ERegexCap _ => e
  | ECapture n _ _ _ _ => ECapture n QZero u32_max u32_max p
  | EUnscoped n _ => EUnscoped n p
  | EScoped sc n _ =>
      EScoped (rloc (sub L 0) p sc) n (pos_after p (rtext (sub L 0) sc ++ G L 1 ++ [46] ++ G L 2))
  | ECall f args =>
      ECall f (rloc_args rloc (sub L 2) 0
                 (pos_after p ([40] ++ G L 0 ++ f ++ Gs L 1 true (next_starts_word args))) args)
  | EList es =>
      match es with
      | [] => EList []
      | e :: es' =>
          let p1 := pos_after p ([91] ++ G L 0) in
          EList (rloc (sub L 3) p1 e :: rloc_more rloc (sub L 4) 0 (pos_after p1 (rtext (sub L 3) e ++ G L 1)) es')
      end
  | ESet es =>
      match es with
      | [] => ESet []
      | e :: es' =>
          let p1 := pos_after p ([123] ++ G L 0) in
          ESet (rloc (sub L 3) p1 e :: rloc_more rloc (sub L 4) 0 (pos_after p1 (rtext (sub L 3) e ++ G L 1)) es')
      end
  | EListComp el v _ val _ =>
      let p1 := pos_after p ([91] ++ G L 0) in
      let pv := pos_after p1 (rtext (sub L 3) el ++ Gs L 1 (ends_word el) true ++ t_for ++ Gs L 2 true true) in
      let p2 := pos_after pv (v ++ Gs L 5 true true ++ t_in ++ Gs L 6 true (starts_word val)) in
      EListComp (rloc (sub L 3) p1 el) v pv (rloc (sub L 4) p2 val) p
  | ESetComp el v _ val _ =>
      let p1 := pos_after p ([123] ++ G L 0) in
      let pv := pos_after p1 (rtext (sub L 3) el ++ Gs L 1 (ends_word el) true ++ t_for ++ Gs L 2 true true) in
      let p2 := pos_after pv (v ++ Gs L 5 true true ++ t_in ++ Gs L 6 true (starts_word val)) in
      ESetComp (rloc (sub L 3) p1 el) v pv (rloc (sub L 4) p2 val) p
  end.

Definition render_expr (L : layout) (p : loc) (e : expr) : list N * expr := (rtext L e, rloc L p e).

Section WfExprs.
  Variable X : ext.
  (* whitespace characters are not identifier characters (a fact of the Unicode tables: White_Space is
     disjoint from Alphabetic and Numeric; for ASCII it follows from the definitions).  It is a
     hypothesis on the external tables, checked on the table of every correspondence case. *)
  Definition UnicodeSane : Prop :=
    forall c, is_whitespace X c = true -> is_ident X c = false /\ is_ident_start X c = false.
  Definition WfLayout (L : layout) : Prop := forall p, WfGap X (l_gap L p).

  Fixpoint WfExpr (e : expr) : Prop :=
    match e with
    | EFalse | ENull | ETrue | EStr _ => True
    | EInt n => n <= u32_max
    | ERegexCap i => i <= usize_max
    | ECapture n _ _ _ _ => WfIdent X n
    | EUnscoped n _ => WfIdent X n
    | EScoped sc n _ => WfExpr sc /\ WfIdent X n
    | ECall f args => WfIdent X f /\ (fix all (l : list expr) : Prop := match l with [] => True | a :: l' => WfExpr a /\ all l' end) args
    | EList es | ESet es => (fix all (l : list expr) : Prop := match l with [] => True | a :: l' => WfExpr a /\ all l' end) es
    | EListComp el v _ val _ | ESetComp el v _ val _ => WfExpr el /\ WfIdent X v /\ WfExpr val
    end.
End WfExprs.
