(* Spec/ScanSpec.v — declarative specification of `scan` (property C10), for an arbitrary regex
   engine `find`.  No reference to the loop, to sorting or to fuel:

     from position i (< |s|), look at the first match of every arm in the suffix s[i..];
     - if some arm's match is empty: the scan fails with EmptyRegexCapture for the FIRST such arm
       (in arm order), and no arm block runs at this position;
     - else if no arm matches: the scan ends;
     - else the arm with the leftmost start runs, the earlier arm on ties; its `$0..$n` are the
       texts of its groups (unmatched group = ""); the scan continues at i + end;
     at i >= |s| the scan ends. *)
From TSG Require Export Model.Scan.

(* the only assumption made about the regex engine: a reported whole match is an ordered span
   inside the haystack *)
Definition find_wf (find : regex -> str -> option rcaps) : Prop :=
  forall r s a b g, find r s = Some (Some (a, b) :: g) -> a <= b /\ b <= str_len s.

Section ScanSpec.
  Variable find : regex -> str -> option rcaps.
  Variable arms : list regex.
  Variable s : str.

  (* arm number k matches the suffix at i: whole match [a, b) (relative to the suffix), groups g *)
  Definition arm_match (i k a b : N) (g : rcaps) : Prop :=
    exists r, nth_error arms (N.to_nat k) = Some r /\ find r (str_skip i s) = Some (Some (a, b) :: g).

  Inductive ScanSeq : N -> list scan_event -> scan_status -> Prop :=
  | SS_end i :
      str_len s <= i -> ScanSeq i [] SDone
  | SS_none i :
      i < str_len s -> (forall k a b g, ~ arm_match i k a b g) -> ScanSeq i [] SDone
  | SS_empty i k a g :
      i < str_len s -> arm_match i k a a g ->
      (forall k' a' g', k' < k -> ~ arm_match i k' a' a' g') ->          (* first arm, in order, with an empty match *)
      ScanSeq i [] (SErrEmpty k)
  | SS_step i k a b g evs f :
      i < str_len s ->
      (forall k' a' g', ~ arm_match i k' a' a' g') ->                    (* nobody matches empty here *)
      arm_match i k a b g -> a < b ->
      (forall k' a' b' g', arm_match i k' a' b' g' -> a < a' \/ (a = a' /\ k <= k')) ->   (* leftmost, earlier arm on ties *)
      ScanSeq (i + b) evs f ->
      ScanSeq i ((k, i + a, i + b, captures_text (str_skip i s) (Some (a, b) :: g)) :: evs) f.

  (* consecutive events: each starts at or after the previous end, is non-empty, ends inside s *)
  Fixpoint ev_chain (i : N) (evs : list scan_event) : Prop :=
    match evs with
    | [] => True
    | (_, a, b, _) :: evs' => i <= a /\ a < b /\ b <= str_len s /\ ev_chain b evs'
    end.
End ScanSpec.
