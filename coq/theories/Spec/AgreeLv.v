(* Spec/AgreeLv.v — two states that differ only in what a pure evaluation cannot see.
     agree st1 st2 loc       the thunks at loc of the two stores are the same as far as a pure evaluation can tell:
                             both forced to the same value, or both unforced with the same scoped-free body whose
                             (earlier) locations agree again; same debug info (it is cited in errors)
     agree_lv st1 st2 lv     lv has no scoped read and every location in it agrees
     locals_agree ..         every variable whose static bit is true is bound, in both states, to the SAME lazy value,
                             and that value agrees.  Nothing is said about the other variables (every `var`, every
                             `let` of a non-local expression), about the rest of the two stores, about the scoped
                             stores or about the deferred statements
     states_agree env s1 s2  the above, plus: same graph, same parameter buffer, stores of the same length
     outcomes_agree r1 r2    same value / same error / same panic / both out of fuel, same poll state, and the final
                             states have the same graph and parameter buffer *)
From TSG Require Export Spec.PureLv.

Inductive agree (st1 st2 : list thunk) : N -> Prop :=
| AG_forced loc th1 th2 v :
    nth_error st1 (N.to_nat loc) = Some th1 -> nth_error st2 (N.to_nat loc) = Some th2 ->
    th_state th1 = TForced v -> th_state th2 = TForced v -> th_dbg th1 = th_dbg th2 -> agree st1 st2 loc
| AG_unforced loc th1 th2 lv :
    nth_error st1 (N.to_nat loc) = Some th1 -> nth_error st2 (N.to_nat loc) = Some th2 ->
    th_state th1 = TUnforced lv -> th_state th2 = TUnforced lv -> th_dbg th1 = th_dbg th2 ->
    lv_noscoped lv = true ->
    (forall l, In l (lv_locs lv) -> l < loc) ->
    (forall l, In l (lv_locs lv) -> agree st1 st2 l) ->
    agree st1 st2 loc.
Definition agree_lv (st1 st2 : list thunk) (lv : lvalue) : Prop :=
  lv_noscoped lv = true /\ forall l, In l (lv_locs lv) -> agree st1 st2 l.

Definition locals_agree (st1 st2 : list thunk) (env : lenv) (l1 l2 : varmap lvalue) : Prop :=
  forall x, lenv_get env x = Some true ->
    exists lv, varmap_get l1 x = Some lv /\ varmap_get l2 x = Some lv /\ agree_lv st1 st2 lv.

Definition states_agree (env : lenv) (s1 s2 : lstate) : Prop :=
  l_graph s1 = l_graph s2 /\ l_params s1 = l_params s2 /\ length (l_store s1) = length (l_store s2) /\
  locals_agree (l_store s1) (l_store s2) env (l_locals s1) (l_locals s2).

Definition outcomes_agree {A} (r1 r2 : outcome exec_error (A * lstate * polls)) : Prop :=
  match r1, r2 with
  | Ok (a1, s1, p1), Ok (a2, s2, p2) => a1 = a2 /\ p1 = p2 /\ l_graph s1 = l_graph s2 /\ l_params s1 = l_params s2
  | Err e1, Err e2 => e1 = e2
  | Panic x1, Panic x2 => x1 = x2
  | OutOfFuel, OutOfFuel => True
  | _, _ => False
  end.
