(* Spec/PureLv.v — vocabulary of the semantic half of the locality discipline (lazy interpreter).
   The lazy interpreter binds EVERY unscoped variable to a store location (`LVar loc`, LazyStore::add), so
   "a local variable holds a value" means: the lazy value, read through the thunk store, is PURE —
     pure_loc st loc     the thunk at loc is already forced, or it is unforced, its body contains no scoped read
                         (`LScoped`), mentions only EARLIER store locations, and all of them are pure_loc;
     pure_lv st lv       lv contains no scoped read and every store location in it is pure_loc.
   Evaluating a pure lazy value forces pure thunks only; it never looks at a scoped-variable cell.
     locals_ok st env l  the run-time frames l have the shape of the static environment env (Model/Locality.v),
                         and every variable with bit true is immutable and bound to a pure lazy value;
     with_scoped sc ls   the state ls with the scoped store replaced by sc (used to say "does not depend on"). *)
From TSG Require Export Model.Lazy Model.Locality.

Fixpoint lv_locs (lv : lvalue) : list N :=
  match lv with
  | LValue _ => []
  | LList l | LSet l | LCall _ l => flat_map lv_locs l
  | LVar loc => [loc]
  | LScoped sc _ => lv_locs sc
  end.
Fixpoint lv_noscoped (lv : lvalue) : bool :=
  match lv with
  | LValue _ | LVar _ => true
  | LList l | LSet l | LCall _ l => forallb lv_noscoped l
  | LScoped _ _ => false
  end.

Inductive pure_loc (st : list thunk) : N -> Prop :=
| PLoc_forced loc th v :
    nth_error st (N.to_nat loc) = Some th -> th_state th = TForced v -> pure_loc st loc
| PLoc_unforced loc th lv :
    nth_error st (N.to_nat loc) = Some th -> th_state th = TUnforced lv -> lv_noscoped lv = true ->
    (forall l, In l (lv_locs lv) -> l < loc) ->
    (forall l, In l (lv_locs lv) -> pure_loc st l) ->
    pure_loc st loc.
Definition pure_lv (st : list thunk) (lv : lvalue) : Prop :=
  lv_noscoped lv = true /\ forall l, In l (lv_locs lv) -> pure_loc st l.

Definition entry_ok (st : list thunk) (a : ident * bool) (b : ident * (lvalue * bool)) : Prop :=
  fst a = fst b /\ (snd a = true -> snd (snd b) = false /\ pure_lv st (fst (snd b))).
Definition locals_ok (st : list thunk) (env : lenv) (l : varmap lvalue) : Prop := Forall2 (Forall2 (entry_ok st)) env l.

Definition with_scoped (sc : list (ident * scoped_values)) (s : lstate) : lstate :=
  {| l_graph := l_graph s; l_locals := l_locals s; l_store := l_store s; l_scoped := sc; l_edges := l_edges s;
     l_attrs := l_attrs s; l_prints := l_prints s; l_params := l_params s; l_prev := l_prev s |}.
(* the same outcome, final state with the scoped store replaced *)
Definition omap_scoped {A} (sc : list (ident * scoped_values)) (r : outcome exec_error (A * lstate * polls))
    : outcome exec_error (A * lstate * polls) :=
  match r with
  | Ok (a, s, p) => Ok (a, with_scoped sc s, p)
  | Err e => Err e
  | Panic x => Panic x
  | OutOfFuel => OutOfFuel
  end.

(* the store only grows, and a thunk only changes by being forced (debug info kept) *)
Definition sext (st st' : list thunk) : Prop :=
  (length st <= length st')%nat /\
  forall i th, nth_error st i = Some th ->
    exists th', nth_error st' i = Some th' /\ th_dbg th' = th_dbg th /\
                (th_state th' = th_state th \/ exists v, th_state th' = TForced v).
(* what a pure evaluation leaves alone *)
Definition quiet (s s' : lstate) : Prop :=
  l_scoped s' = l_scoped s /\ l_edges s' = l_edges s /\ l_attrs s' = l_attrs s /\ l_prints s' = l_prints s /\ l_prev s' = l_prev s.

(* the execution phase of File::execute_lazy_into: all (stanza, match) blocks, before anything is evaluated *)
Definition lexec_matches {rx : Type} (t : tree) (fl : file) (cfg : config) (glob : globals) (regexes : list rx)
    (find : rx -> str -> option (list (option (N * N)))) (call : ident -> graph -> list value -> res (value * graph))
    (fuel : nat) (ms : list (N * qmatch)) : M lstate unit :=
  iterM (fun pm : N * qmatch =>
           match nth_error (f_stanzas fl) (N.to_nat (fst pm)) with
           | Some st => lexec_stanza t fl cfg glob regexes find call fuel st (snd pm)
           | None => panic P_stanza_index
           end) ms.
