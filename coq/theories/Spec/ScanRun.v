(* Spec/ScanRun.v — what the scan loops of the two interpreter models (Model/Strict.v `scan_loop`,
   Model/Lazy.v `lscan_loop`) do, written as a FOLD over the list of events that the stand-alone scan
   model Model/Scan.v computes.  Executable definitions only; Proofs/ScanLink.v proves that the
   interpreters' loops are equal to these folds.

   An event (k, start, end, texts) of Model/Scan.v = one executed arm: poll(s), frame push, the arm
   body with `$0..$n` = texts, frame pop, continue at `end`.  After the last event the final status
   decides: SDone — the loop stopped (one more round of polls if the position is still inside the
   subject: the iteration that found no match); SErrEmpty k — polls, then EmptyRegexCapture;
   SOutOfFuel — out of fuel. *)
From TSG Require Export Model.Scan Model.Strict Model.Lazy.

(* the regex engine reports group 0 for every match (regex crate: `captures.get(0)` is always Some;
   the three models treat the unreachable other case differently: Model/Scan.v as "no match",
   Model/Exec.v arm_collect as an empty match, the code panics) *)
Definition find_group0 (find : regex -> str -> option rcaps) : Prop :=
  forall r s c, find r s = Some c -> exists a b g, c = Some (a, b) :: g.

Definition strict_scan_tail (subject : str) (i : N) (st : scan_status) : M sstate unit :=
  match st with
  | SOutOfFuel => out_of_fuel
  | SErrEmpty _ => poll L_scan ;;; fail EEmptyRegexCapture
  | SDone => if N.ltb i (str_len subject) then poll L_scan ;;; ret tt else ret tt
  end.

Fixpoint strict_scan_fold (run_arm : list str -> list stmt -> M sstate unit) (arms : list (N * list stmt * loc))
    (subject : str) (i : N) (evs : list scan_event) (st : scan_status) : M sstate unit :=
  match evs with
  | [] => strict_scan_tail subject i st
  | ev :: evs' =>
      let '(k, _, e, texts) := ev in
      poll L_scan ;;;
      match nth_error arms (N.to_nat k) with
      | None => panic P_regex_table
      | Some (_, body, _) =>
          push_frame ;;;
          run_arm texts body ;;;
          pop_frame ;;;
          strict_scan_fold run_arm arms subject e evs' st
      end
  end.

(* lazy: one poll per arm examined — all `nrs` arms, or the arms up to the first empty match *)
Definition lazy_scan_tail (nrs : nat) (subject : str) (i : N) (st : scan_status) : M lstate unit :=
  match st with
  | SOutOfFuel => out_of_fuel
  | SErrEmpty k => lpoll_n (S (N.to_nat k)) L_scan ;;; fail EEmptyRegexCapture
  | SDone => if N.ltb i (str_len subject) then lpoll_n nrs L_scan ;;; ret tt else ret tt
  end.

Fixpoint lazy_scan_fold (run_arm : list str -> list stmt -> M lstate unit) (arms : list (N * list stmt * loc))
    (nrs : nat) (subject : str) (i : N) (evs : list scan_event) (st : scan_status) : M lstate unit :=
  match evs with
  | [] => lazy_scan_tail nrs subject i st
  | ev :: evs' =>
      let '(k, _, e, texts) := ev in
      lpoll_n nrs L_scan ;;;
      match nth_error arms (N.to_nat k) with
      | None => panic P_regex_table
      | Some (_, body, _) =>
          lpush_frame ;;;
          run_arm texts body ;;;
          lpop_frame ;;;
          lazy_scan_fold run_arm arms nrs subject e evs' st
      end
  end.

(* the arm runners the two `scan` statements pass to their loops (the local `block` / `arm_block` of
   exec_stmt / lexec_stmt at fuel S fuel) *)
Section Runners.
  Variable t : tree.
  Variable fl : file.
  Variable cfg : config.
  Variable glob : globals.
  Variable regexes : list regex.
  Variable find : regex -> str -> option rcaps.
  Variable call : ident -> graph -> list value -> res (value * graph).

  Definition strict_arm_runner (fuel : nat) (le : lenv) (caps : list str) (body : list stmt) : M sstate unit :=
    let le' := le_with_caps le caps in
    iterM (fun st => let c := ctx_update (le_ctx le') st in
                     ctx_wrap (CtxStmts [c])
                       (ctx_wrap CtxOther (exec_stmt t fl cfg glob regexes find call fuel (le_with_ctx le' c) st))) body.
  Definition lazy_arm_runner (fuel : nat) (le : llenv) (caps : list str) (body : list stmt) : M lstate unit :=
    let le' := ll_with_caps le caps in
    iterM (fun st => let c := ctx_update (ll_ctx le') st in
                     ctx_wrap (CtxStmts [c])
                       (ctx_wrap CtxOther (lexec_stmt t fl cfg glob regexes find call fuel (ll_with_ctx le' c) st))) body.
End Runners.
