(* Spec/Rules.v — the static rules of the reference, stated declaratively, and the vocabulary of the
   C06 theorems.  Definitions only.

   ---- what the reference documents, and what this file pins where the reference is silent ----
   (DESIGN.md §7 C06 and Appendix D)

   SCOPING.  Every block `{ .. }` (stanza body, `if`/`elif`/`else` arm, `scan` arm, `for` body) opens a
   scope; a name is visible from its declaration to the end of its block, inner blocks included;
   an inner block may declare a name of an outer block again (shadowing), the same block may not
   (RRedefinition).  The loop variable of `for` lives in the scope of the loop BODY (so the body cannot
   declare it again); the variable of a comprehension is visible in the element expression only.
   `let`, `node`, loop and comprehension variables are immutable, `var` is mutable; `set` needs a
   visible (RAssignUndefined), mutable (RAssignImmutable) variable and resolves to the NEAREST
   declaration.  Globals are visible everywhere, cannot be declared again by any local form
   (RHideGlobal, also for loop/comprehension variables), cannot be assigned (RAssignGlobal) and each
   name is declared once (RDuplicateGlobal).  A scoped variable `e.x` is not subject to these rules:
   only its scope expression `e` is checked.

   STATIC SHAPE in {one, optional, list}, represented by tree-sitter's quantifier (One = one, ZeroOrOne
   = optional, ZeroOrMore/OneOrMore = list; Zero is the quantifier of a capture that the stanza's
   pattern does not contain, it is neither optional nor list):
     literals, `$n`, calls and scoped reads: one      (calls/scoped reads: "we don't really know")
     list/set literals and comprehensions: list
     `@c`: the quantifier of c in the stanza's pattern
     a global: its declared quantifier;  a local: the shape of its initialiser / last assigned value
     a loop or comprehension variable: the shape of the ITERATED value (i.e. list), not of its elements
   LOCALITY ("does not depend on scoped or mutable variables"):
     literals, `$n`, captures, globals: local;  `e.x`: not local;  a `var` variable: not local
     list/set literal, call: local iff all elements/arguments are
     comprehension: local iff its element expression is (its source must be local anyway)
     `let x = e`: x is as local as e;  `node x`: local;  loop/comprehension variable: local
   RULES on shapes/locality: the value of `scan`, every `if`/`elif` condition, the source of `for` and of
   comprehensions must be local (RNonLocalSource); `some e`/`none e` need an optional e (RNotOptional);
   `for` and comprehensions need a list (RNotList); for one construct locality is checked first.
   A scan regex must not match the empty string (RNullableRegex; "matches the empty string" is the
   regex crate's `captures("")`, an external given by `se_nullable`).
   CAPTURES: `@c` must be a capture of the stanza's query (RUndefinedCapture); every capture of the query
   except the implicit full-match capture must occur in the stanza's statements or start with `_`
   (RUnusedCapture, reported at the start of the stanza, after the statements were found well-formed).

   ORDER.  `Violates q f r l` holds for the FIRST violation in traversal order: globals in declaration
   order, then stanzas in file order, statements top to bottom, inside a statement: value before
   variable (let/var/set), source before variable before body/element (for, comprehensions), scan value
   before the arms, per arm regex before body, per `if` arm ALL conditions (left to right, no short
   circuit) before the body, expressions left to right.  The premises of every violation rule say that
   everything earlier is well-formed.  Shorthand bodies (`attribute n = x => ..`) are NOT covered: the
   implementation does not visit them (known finding K4). *)
From TSG Require Export Model.Checker.

(* ===================== vocabulary of check_resolves ===================== *)
Definition unresolved : N := u32_max.        (* what the parser writes: usize::MAX, dumped as 2^32-1 *)

Fixpoint erase_expr (e : expr) : expr :=
  match e with
  | EList es => EList (map erase_expr es)
  | ESet es => ESet (map erase_expr es)
  | EListComp el x xl v l => EListComp (erase_expr el) x xl (erase_expr v) l
  | ESetComp el x xl v l => ESetComp (erase_expr el) x xl (erase_expr v) l
  | ECapture name _ _ _ l => ECapture name QZero unresolved unresolved l
  | EScoped s x l => EScoped (erase_expr s) x l
  | ECall f args => ECall f (map erase_expr args)
  | _ => e
  end.
Definition erase_variable (v : variable) : variable :=
  match v with VarU _ _ => v | VarS s x l => VarS (erase_expr s) x l end.
Definition erase_attr (a : attr) : attr := match a with Attr n v => Attr n (erase_expr v) end.
Definition erase_cond (c : cond) : cond :=
  match c with CSome e l => CSome (erase_expr e) l | CNone e l => CNone (erase_expr e) l | CBool e l => CBool (erase_expr e) l end.
Fixpoint erase_stmt (s : stmt) : stmt :=
  match s with
  | SLet v e l => SLet (erase_variable v) (erase_expr e) l
  | SVar v e l => SVar (erase_variable v) (erase_expr e) l
  | SSet v e l => SSet (erase_variable v) (erase_expr e) l
  | SNode v t l => SNode (erase_variable v) t l
  | SAttrNode n attrs l => SAttrNode (erase_expr n) (map erase_attr attrs) l
  | SEdge a b l => SEdge (erase_expr a) (erase_expr b) l
  | SAttrEdge a b attrs l => SAttrEdge (erase_expr a) (erase_expr b) (map erase_attr attrs) l
  | SScan v arms l =>
      SScan (erase_expr v) (map (fun arm : N * list stmt * loc => (fst (fst arm), map erase_stmt (snd (fst arm)), snd arm)) arms) l
  | SPrint vs l => SPrint (map erase_expr vs) l
  | SIf arms l =>
      SIf (map (fun arm : list cond * list stmt * loc => (map erase_cond (fst (fst arm)), map erase_stmt (snd (fst arm)), snd arm)) arms) l
  | SFor x xl v body l => SFor x xl (erase_expr v) (map erase_stmt body) l
  end.
Definition erase_stanza (st : stanza) : stanza :=
  {| st_stmts := map erase_stmt (st_stmts st); st_full_stanza_idx := st_full_stanza_idx st;
     st_full_file_idx := unresolved; st_start := st_start st |}.
(* everything the checker may write is reset; globals, inherited names and SHORTHANDS are kept as they are *)
Definition erase_resolution (f : file) : file :=
  {| f_globals := f_globals f; f_inherited := f_inherited f; f_shorthands := f_shorthands f;
     f_stanzas := map erase_stanza (f_stanzas f) |}.

(* the capture nodes of a piece of AST, in traversal order: (name, quantifier, file index, stanza index) *)
Definition cap_node := (ident * quant * N * N)%type.
Fixpoint expr_caps (e : expr) : list cap_node :=
  match e with
  | EList es | ESet es | ECall _ es => flat_map expr_caps es
  | EListComp el _ _ v _ | ESetComp el _ _ v _ => expr_caps v ++ expr_caps el
  | ECapture name q fi si _ => [(name, q, fi, si)]
  | EScoped s _ _ => expr_caps s
  | _ => []
  end.
Definition variable_caps (v : variable) : list cap_node := match v with VarU _ _ => [] | VarS s _ _ => expr_caps s end.
Definition attr_caps (a : attr) : list cap_node := match a with Attr _ v => expr_caps v end.
Definition cond_caps (c : cond) : list cap_node := match c with CSome e _ | CNone e _ | CBool e _ => expr_caps e end.
Fixpoint stmt_caps (s : stmt) : list cap_node :=
  match s with
  | SLet v e _ | SVar v e _ | SSet v e _ => expr_caps e ++ variable_caps v
  | SNode v _ _ => variable_caps v
  | SAttrNode n attrs _ => expr_caps n ++ flat_map attr_caps attrs
  | SEdge a b _ => expr_caps a ++ expr_caps b
  | SAttrEdge a b attrs _ => expr_caps a ++ expr_caps b ++ flat_map attr_caps attrs
  | SScan v arms _ => expr_caps v ++ flat_map (fun arm : N * list stmt * loc => flat_map stmt_caps (snd (fst arm))) arms
  | SPrint vs _ => flat_map expr_caps vs
  | SIf arms _ =>
      flat_map (fun arm : list cond * list stmt * loc => flat_map cond_caps (fst (fst arm)) ++ flat_map stmt_caps (snd (fst arm))) arms
  | SFor _ _ v body _ => expr_caps v ++ flat_map stmt_caps body
  end.
Definition cap_name (c : cap_node) : ident := fst (fst (fst c)).

(* what the tables say about capture `name` in stanza i *)
Definition capture_resolved (q : query_tables) (i : nat) (c : cap_node) : Prop :=
  let '(name, qu, fi, si) := c in
  exists names row,
    nth_error (qt_stanza_names q) i = Some names /\ name_index name names = Some si /\
    name_index name (qt_file_names q) = Some fi /\
    nth_error (qt_file_quants q) i = Some row /\ nth_error row (N.to_nat fi) = Some qu.

(* a checked stanza / file carries exactly what the tables say *)
Definition stanza_resolved (q : query_tables) (i : nat) (st : stanza) : Prop :=
  Forall (capture_resolved q i) (flat_map stmt_caps (st_stmts st)) /\
  name_index FULL_MATCH (qt_file_names q) = Some (st_full_file_idx st).
Definition file_resolved (q : query_tables) (f : file) : Prop :=
  forall i st, nth_error (f_stanzas f) i = Some st -> stanza_resolved q i st.

(* ===================== the rules ===================== *)
Inductive rule :=
| RUndefinedVariable | RRedefinition | RAssignUndefined | RAssignImmutable
| RHideGlobal | RAssignGlobal | RDuplicateGlobal
| RUnusedCapture | RUndefinedCapture
| RNonLocalSource | RNotOptional | RNotList | RNullableRegex.

(* the CheckError variant that names the rule (numbering of Model/Checker.v `ce_variant`) *)
Definition rule_code (r : rule) : N :=
  match r with
  | RHideGlobal => 1 | RAssignGlobal => 2 | RDuplicateGlobal => 3 | RNotList => 4 | RNonLocalSource => 5
  | RNotOptional => 6 | RNullableRegex => 7 | RUndefinedCapture => 8 | RUndefinedVariable => 9
  | RUnusedCapture => 10 | RRedefinition => 11 | RAssignUndefined => 12 | RAssignImmutable => 13
  end.

Definition is_list_shape (q : quant) : bool := match q with QStar | QPlus => true | _ => false end.
Definition is_optional_shape (q : quant) : bool := match q with QOpt => true | _ => false end.

(* ---- scopes ---- *)
Record binding := { b_mutable : bool; b_shape : quant; b_local : bool }.
Definition frame := list (ident * binding).
Definition scope := list frame.                      (* innermost block first *)

Fixpoint lookup (x : ident) (sc : scope) : option binding :=
  match sc with
  | [] => None
  | fr :: up => match alist_get x fr with Some b => Some b | None => lookup x up end
  end.
Definition declared_here (x : ident) (sc : scope) : bool :=
  match sc with fr :: _ => match alist_get x fr with Some _ => true | None => false end | [] => false end.
Definition declare (x : ident) (b : binding) (sc : scope) : scope :=
  match sc with fr :: up => (fr ++ [(x, b)]) :: up | [] => [] end.
(* `set x = e`: the nearest declaration of x takes the shape of e; a mutable variable is never local *)
Fixpoint assign (x : ident) (q : quant) (sc : scope) : scope :=
  match sc with
  | [] => []
  | fr :: up => match alist_get x fr with
                | Some _ => alist_set x {| b_mutable := true; b_shape := q; b_local := false |} fr :: up
                | None => fr :: assign x q up
                end
  end.
Definition enter (sc : scope) : scope := [] :: sc.
Definition leave (sc : scope) : scope := tl sc.
Definition immutable (q : quant) (lc : bool) : binding := {| b_mutable := false; b_shape := q; b_local := lc |}.
Definition mutable (q : quant) : binding := {| b_mutable := true; b_shape := q; b_local := false |}.

(* what a stanza sees of the file and of its query *)
Record senv := {
  se_global : ident -> option quant;         (* declared globals with their shape *)
  se_capture : ident -> option quant;        (* captures of the stanza's query with their shape *)
  se_nullable : N -> bool;                   (* regex number k matches the empty string *)
}.

Section Rules.
  Variable E : senv.

  Definition comp_parts (e : expr) : option (expr * ident * loc * expr * loc) :=
    match e with
    | EListComp el x xl v l | ESetComp el x xl v l => Some (el, x, xl, v, l)
    | _ => None
    end.
  Definition is_literal (e : expr) : bool :=
    match e with EFalse | ENull | ETrue | EInt _ | EStr _ | ERegexCap _ => true | _ => false end.
  Definition elems_of (e : expr) : option (list expr * quant) :=
    match e with EList es | ESet es => Some (es, QStar) | ECall _ es => Some (es, QOne) | _ => None end.
  Definition all_true (ls : list bool) : bool := forallb (fun b => b) ls.

  (* ---- sc |- e : (shape, local) ---- *)
  Inductive ty : scope -> expr -> quant -> bool -> Prop :=
  | T_Literal sc e : is_literal e = true -> ty sc e QOne true
  | T_Elems sc e es q ls : elems_of e = Some (es, q) -> tys sc es ls -> ty sc e q (all_true ls)
  | T_Comp sc e el x xl v l q q' lc :
      comp_parts e = Some (el, x, xl, v, l) ->
      ty sc v q true -> is_list_shape q = true -> se_global E x = None ->
      ty ([(x, immutable q true)] :: sc) el q' lc ->
      ty sc e QStar lc
  | T_Capture sc name q0 fi si l q : se_capture E name = Some q -> ty sc (ECapture name q0 fi si l) q true
  | T_Global sc x l q : se_global E x = Some q -> ty sc (EUnscoped x l) q true
  | T_Local sc x l b : se_global E x = None -> lookup x sc = Some b -> ty sc (EUnscoped x l) (b_shape b) (b_local b)
  | T_Scoped sc s x l q lc : ty sc s q lc -> ty sc (EScoped s x l) QOne false
  with tys : scope -> list expr -> list bool -> Prop :=
  | Ts_nil sc : tys sc [] []
  | Ts_cons sc e es q lc ls : ty sc e q lc -> tys sc es ls -> tys sc (e :: es) (lc :: ls).

  (* ---- the first violation inside an expression ---- *)
  Inductive viol_e : scope -> expr -> rule -> loc -> Prop :=
  | VE_Elems sc e es q r l : elems_of e = Some (es, q) -> viol_es sc es r l -> viol_e sc e r l
  | VE_CompSource sc e el x xl v l r l' : comp_parts e = Some (el, x, xl, v, l) -> viol_e sc v r l' -> viol_e sc e r l'
  | VE_CompNonLocal sc e el x xl v l q :
      comp_parts e = Some (el, x, xl, v, l) -> ty sc v q false -> viol_e sc e RNonLocalSource l
  | VE_CompNotList sc e el x xl v l q :
      comp_parts e = Some (el, x, xl, v, l) -> ty sc v q true -> is_list_shape q = false -> viol_e sc e RNotList l
  | VE_CompHide sc e el x xl v l q q0 :
      comp_parts e = Some (el, x, xl, v, l) -> ty sc v q true -> is_list_shape q = true ->
      se_global E x = Some q0 -> viol_e sc e RHideGlobal xl
  | VE_CompElem sc e el x xl v l q r l' :
      comp_parts e = Some (el, x, xl, v, l) -> ty sc v q true -> is_list_shape q = true -> se_global E x = None ->
      viol_e ([(x, immutable q true)] :: sc) el r l' -> viol_e sc e r l'
  | VE_UndefinedCapture sc name q0 fi si l : se_capture E name = None -> viol_e sc (ECapture name q0 fi si l) RUndefinedCapture l
  | VE_UndefinedVariable sc x l : se_global E x = None -> lookup x sc = None -> viol_e sc (EUnscoped x l) RUndefinedVariable l
  | VE_Scope sc s x l r l' : viol_e sc s r l' -> viol_e sc (EScoped s x l) r l'
  with viol_es : scope -> list expr -> rule -> loc -> Prop :=
  | VEs_here sc e es r l : viol_e sc e r l -> viol_es sc (e :: es) r l
  | VEs_later sc e es q lc r l : ty sc e q lc -> viol_es sc es r l -> viol_es sc (e :: es) r l.

  Definition wf_expr (sc : scope) (e : expr) : Prop := exists q lc, ty sc e q lc.

  (* first violation in a list of independent items (attributes, conditions, print arguments) *)
  Section First.
    Context {A : Type} (wf : A -> Prop) (viol : A -> rule -> loc -> Prop).
    Inductive first_viol : list A -> rule -> loc -> Prop :=
    | FV_here x xs r l : viol x r l -> first_viol (x :: xs) r l
    | FV_later x xs r l : wf x -> first_viol xs r l -> first_viol (x :: xs) r l.
  End First.

  Definition attr_value (a : attr) : expr := match a with Attr _ v => v end.
  Definition wf_attr (sc : scope) (a : attr) : Prop := wf_expr sc (attr_value a).
  Definition viol_attr (sc : scope) (a : attr) (r : rule) (l : loc) : Prop := viol_e sc (attr_value a) r l.

  (* ---- conditions: local; `some`/`none` also optional ---- *)
  Definition cond_parts (c : cond) : bool * expr * loc :=
    match c with CSome e l | CNone e l => (true, e, l) | CBool e l => (false, e, l) end.
  Definition wf_cond (sc : scope) (c : cond) : Prop :=
    let '(needs_opt, e, _) := cond_parts c in
    exists q, ty sc e q true /\ (needs_opt = true -> is_optional_shape q = true).
  Inductive viol_cond (sc : scope) (c : cond) : rule -> loc -> Prop :=
  | VC_Value b e l r l' : cond_parts c = (b, e, l) -> viol_e sc e r l' -> viol_cond sc c r l'
  | VC_NonLocal b e l q : cond_parts c = (b, e, l) -> ty sc e q false -> viol_cond sc c RNonLocalSource l
  | VC_NotOptional e l q : cond_parts c = (true, e, l) -> ty sc e q true -> is_optional_shape q = false -> viol_cond sc c RNotOptional l.

  (* ---- declaration / assignment targets; a scoped variable only has its scope expression checked ---- *)
  Inductive wf_declare (sc : scope) : variable -> binding -> scope -> Prop :=
  | WD_Unscoped x l b : se_global E x = None -> declared_here x sc = false -> wf_declare sc (VarU x l) b (declare x b sc)
  | WD_Scoped s x l b : wf_expr sc s -> wf_declare sc (VarS s x l) b sc.
  Inductive viol_declare (sc : scope) : variable -> rule -> loc -> Prop :=
  | VD_Hide x l q : se_global E x = Some q -> viol_declare sc (VarU x l) RHideGlobal l
  | VD_Redefinition x l : se_global E x = None -> declared_here x sc = true -> viol_declare sc (VarU x l) RRedefinition l
  | VD_Scope s x l r l' : viol_e sc s r l' -> viol_declare sc (VarS s x l) r l'.
  Inductive wf_assign (sc : scope) : variable -> quant -> scope -> Prop :=
  | WA_Unscoped x l q b : se_global E x = None -> lookup x sc = Some b -> b_mutable b = true -> wf_assign sc (VarU x l) q (assign x q sc)
  | WA_Scoped s x l q : wf_expr sc s -> wf_assign sc (VarS s x l) q sc.
  Inductive viol_assign (sc : scope) : variable -> rule -> loc -> Prop :=
  | VA_Global x l q : se_global E x = Some q -> viol_assign sc (VarU x l) RAssignGlobal l
  | VA_Undefined x l : se_global E x = None -> lookup x sc = None -> viol_assign sc (VarU x l) RAssignUndefined l
  | VA_Immutable x l b : se_global E x = None -> lookup x sc = Some b -> b_mutable b = false -> viol_assign sc (VarU x l) RAssignImmutable l
  | VA_Scope s x l r l' : viol_e sc s r l' -> viol_assign sc (VarS s x l) r l'.

  (* ---- sc |- s => sc' (well-formed, scope afterwards) ---- *)
  Inductive wf_stmt : scope -> stmt -> scope -> Prop :=
  | W_Let sc v e l q lc sc' : ty sc e q lc -> wf_declare sc v (immutable q lc) sc' -> wf_stmt sc (SLet v e l) sc'
  | W_Var sc v e l q lc sc' : ty sc e q lc -> wf_declare sc v (mutable q) sc' -> wf_stmt sc (SVar v e l) sc'
  | W_Set sc v e l q lc sc' : ty sc e q lc -> wf_assign sc v q sc' -> wf_stmt sc (SSet v e l) sc'
  | W_Node sc v t l sc' : wf_declare sc v (immutable QOne true) sc' -> wf_stmt sc (SNode v t l) sc'
  | W_AttrNode sc n attrs l : wf_expr sc n -> Forall (wf_attr sc) attrs -> wf_stmt sc (SAttrNode n attrs l) sc
  | W_Edge sc a b l : wf_expr sc a -> wf_expr sc b -> wf_stmt sc (SEdge a b l) sc
  | W_AttrEdge sc a b attrs l : wf_expr sc a -> wf_expr sc b -> Forall (wf_attr sc) attrs -> wf_stmt sc (SAttrEdge a b attrs l) sc
  | W_Scan sc v arms l q sc' : ty sc v q true -> wf_scan_arms sc arms sc' -> wf_stmt sc (SScan v arms l) sc'
  | W_Print sc vs l : Forall (wf_expr sc) vs -> wf_stmt sc (SPrint vs l) sc
  | W_If sc arms l sc' : wf_if_arms sc arms sc' -> wf_stmt sc (SIf arms l) sc'
  | W_For sc x xl v body l q sc1 :
      ty sc v q true -> is_list_shape q = true -> se_global E x = None ->
      wf_block ([(x, immutable q true)] :: sc) body sc1 -> wf_stmt sc (SFor x xl v body l) (leave sc1)
  with wf_block : scope -> list stmt -> scope -> Prop :=
  | WB_nil sc : wf_block sc [] sc
  | WB_cons sc s ss sc1 sc2 : wf_stmt sc s sc1 -> wf_block sc1 ss sc2 -> wf_block sc (s :: ss) sc2
  with wf_scan_arms : scope -> list (N * list stmt * loc) -> scope -> Prop :=
  | WS_nil sc : wf_scan_arms sc [] sc
  | WS_cons sc rx body al arms sc1 sc2 :
      se_nullable E rx = false -> wf_block (enter sc) body sc1 -> wf_scan_arms (leave sc1) arms sc2 ->
      wf_scan_arms sc ((rx, body, al) :: arms) sc2
  with wf_if_arms : scope -> list (list cond * list stmt * loc) -> scope -> Prop :=
  | WI_nil sc : wf_if_arms sc [] sc
  | WI_cons sc conds body al arms sc1 sc2 :
      Forall (wf_cond sc) conds -> wf_block (enter sc) body sc1 -> wf_if_arms (leave sc1) arms sc2 ->
      wf_if_arms sc ((conds, body, al) :: arms) sc2.

  (* ---- the first violation inside a statement ---- *)
  Inductive viol_stmt : scope -> stmt -> rule -> loc -> Prop :=
  | V_LetValue sc v e l r l' : viol_e sc e r l' -> viol_stmt sc (SLet v e l) r l'
  | V_LetTarget sc v e l q lc r l' : ty sc e q lc -> viol_declare sc v r l' -> viol_stmt sc (SLet v e l) r l'
  | V_VarValue sc v e l r l' : viol_e sc e r l' -> viol_stmt sc (SVar v e l) r l'
  | V_VarTarget sc v e l q lc r l' : ty sc e q lc -> viol_declare sc v r l' -> viol_stmt sc (SVar v e l) r l'
  | V_SetValue sc v e l r l' : viol_e sc e r l' -> viol_stmt sc (SSet v e l) r l'
  | V_SetTarget sc v e l q lc r l' : ty sc e q lc -> viol_assign sc v r l' -> viol_stmt sc (SSet v e l) r l'
  | V_NodeTarget sc v t l r l' : viol_declare sc v r l' -> viol_stmt sc (SNode v t l) r l'
  | V_AttrNodeNode sc n attrs l r l' : viol_e sc n r l' -> viol_stmt sc (SAttrNode n attrs l) r l'
  | V_AttrNodeAttr sc n attrs l r l' : wf_expr sc n -> first_viol (wf_attr sc) (viol_attr sc) attrs r l' -> viol_stmt sc (SAttrNode n attrs l) r l'
  | V_EdgeSource sc a b l r l' : viol_e sc a r l' -> viol_stmt sc (SEdge a b l) r l'
  | V_EdgeSink sc a b l r l' : wf_expr sc a -> viol_e sc b r l' -> viol_stmt sc (SEdge a b l) r l'
  | V_AttrEdgeSource sc a b attrs l r l' : viol_e sc a r l' -> viol_stmt sc (SAttrEdge a b attrs l) r l'
  | V_AttrEdgeSink sc a b attrs l r l' : wf_expr sc a -> viol_e sc b r l' -> viol_stmt sc (SAttrEdge a b attrs l) r l'
  | V_AttrEdgeAttr sc a b attrs l r l' :
      wf_expr sc a -> wf_expr sc b -> first_viol (wf_attr sc) (viol_attr sc) attrs r l' -> viol_stmt sc (SAttrEdge a b attrs l) r l'
  | V_ScanValue sc v arms l r l' : viol_e sc v r l' -> viol_stmt sc (SScan v arms l) r l'
  | V_ScanNonLocal sc v arms l q : ty sc v q false -> viol_stmt sc (SScan v arms l) RNonLocalSource l
  | V_ScanArm sc v arms l q r l' : ty sc v q true -> viol_scan_arms sc arms r l' -> viol_stmt sc (SScan v arms l) r l'
  | V_Print sc vs l r l' : first_viol (wf_expr sc) (viol_e sc) vs r l' -> viol_stmt sc (SPrint vs l) r l'
  | V_IfArm sc arms l r l' : viol_if_arms sc arms r l' -> viol_stmt sc (SIf arms l) r l'
  | V_ForValue sc x xl v body l r l' : viol_e sc v r l' -> viol_stmt sc (SFor x xl v body l) r l'
  | V_ForNonLocal sc x xl v body l q : ty sc v q false -> viol_stmt sc (SFor x xl v body l) RNonLocalSource l
  | V_ForNotList sc x xl v body l q : ty sc v q true -> is_list_shape q = false -> viol_stmt sc (SFor x xl v body l) RNotList l
  | V_ForHide sc x xl v body l q q0 :
      ty sc v q true -> is_list_shape q = true -> se_global E x = Some q0 -> viol_stmt sc (SFor x xl v body l) RHideGlobal xl
  | V_ForBody sc x xl v body l q r l' :
      ty sc v q true -> is_list_shape q = true -> se_global E x = None ->
      viol_block ([(x, immutable q true)] :: sc) body r l' -> viol_stmt sc (SFor x xl v body l) r l'
  with viol_block : scope -> list stmt -> rule -> loc -> Prop :=
  | VB_here sc s ss r l : viol_stmt sc s r l -> viol_block sc (s :: ss) r l
  | VB_later sc s ss sc1 r l : wf_stmt sc s sc1 -> viol_block sc1 ss r l -> viol_block sc (s :: ss) r l
  with viol_scan_arms : scope -> list (N * list stmt * loc) -> rule -> loc -> Prop :=
  | VS_Nullable sc rx body al arms : se_nullable E rx = true -> viol_scan_arms sc ((rx, body, al) :: arms) RNullableRegex al
  | VS_Body sc rx body al arms r l : se_nullable E rx = false -> viol_block (enter sc) body r l -> viol_scan_arms sc ((rx, body, al) :: arms) r l
  | VS_later sc rx body al arms sc1 r l :
      se_nullable E rx = false -> wf_block (enter sc) body sc1 -> viol_scan_arms (leave sc1) arms r l ->
      viol_scan_arms sc ((rx, body, al) :: arms) r l
  with viol_if_arms : scope -> list (list cond * list stmt * loc) -> rule -> loc -> Prop :=
  | VI_Cond sc conds body al arms r l : first_viol (wf_cond sc) (viol_cond sc) conds r l -> viol_if_arms sc ((conds, body, al) :: arms) r l
  | VI_Body sc conds body al arms r l : Forall (wf_cond sc) conds -> viol_block (enter sc) body r l -> viol_if_arms sc ((conds, body, al) :: arms) r l
  | VI_later sc conds body al arms sc1 r l :
      Forall (wf_cond sc) conds -> wf_block (enter sc) body sc1 -> viol_if_arms (leave sc1) arms r l ->
      viol_if_arms sc ((conds, body, al) :: arms) r l.
End Rules.

(* ---- stanzas and files ---- *)
Fixpoint global_shape (gs : list global) (x : ident) : option quant :=
  match gs with
  | [] => None
  | g :: gs' => if str_eqb x (gl_name g) then Some (gl_quant g) else global_shape gs' x
  end.
(* capture `name` of stanza i and its quantifier, as the queries report them *)
Definition capture_shape (q : query_tables) (i : nat) (name : ident) : option quant :=
  match nth_error (qt_stanza_names q) i with
  | None => None
  | Some names =>
      match name_pos name names, name_pos name (qt_file_names q), nth_error (qt_file_quants q) i with
      | Some _, Some fi, Some row => nth_error row fi
      | _, _, _ => None
      end
  end.
Definition stanza_env (q : query_tables) (f : file) (i : nat) : senv :=
  {| se_global := global_shape (f_globals f); se_capture := capture_shape q i;
     se_nullable := fun rx => nth (N.to_nat rx) (qt_nullable q) false |}.

(* a capture that must be reported: of the stanza's query, not the full match, no `_` prefix, not
   occurring in the stanza's statements *)
Definition unused_capture (names : list ident) (st : stanza) (n : ident) : Prop :=
  In n names /\ name_index n names <> Some (st_full_stanza_idx st) /\ starts_with_underscore n = false /\
  ~ In n (map cap_name (flat_map stmt_caps (st_stmts st))).

Definition wf_stanza (q : query_tables) (f : file) (i : nat) (st : stanza) : Prop :=
  exists names sc', nth_error (qt_stanza_names q) i = Some names /\
    wf_block (stanza_env q f i) [[]] (st_stmts st) sc' /\ forall n, ~ unused_capture names st n.
Inductive viol_stanza (q : query_tables) (f : file) (i : nat) (st : stanza) : rule -> loc -> Prop :=
| VSt_Body r l : viol_block (stanza_env q f i) [[]] (st_stmts st) r l -> viol_stanza q f i st r l
| VSt_Unused names sc' n :
    nth_error (qt_stanza_names q) i = Some names ->
    wf_block (stanza_env q f i) [[]] (st_stmts st) sc' -> unused_capture names st n ->
    viol_stanza q f i st RUnusedCapture (st_start st).

(* the file breaks `rule` at `loc`, and nothing before that point (traversal order) breaks any rule *)
Inductive Violates (q : query_tables) (f : file) : rule -> loc -> Prop :=
| V_DuplicateGlobal pre g post :
    f_globals f = pre ++ g :: post -> NoDup (map gl_name pre) -> In (gl_name g) (map gl_name pre) ->
    Violates q f RDuplicateGlobal (gl_loc g)
| V_Stanza pre st post r l :
    NoDup (map gl_name (f_globals f)) -> f_stanzas f = pre ++ st :: post ->
    (forall j stj, nth_error pre j = Some stj -> wf_stanza q f j stj) ->
    viol_stanza q f (length pre) st r l ->
    Violates q f r l.
Definition WellFormed (q : query_tables) (f : file) : Prop :=
  NoDup (map gl_name (f_globals f)) /\ forall i st, nth_error (f_stanzas f) i = Some st -> wf_stanza q f i st.

(* ===================== vocabulary of local_is_pure_partial ===================== *)
(* `ok x`: the unscoped name x denotes a global or an IMMUTABLE local that is itself judged local *)
Fixpoint pure_expr (ok : ident -> bool) (e : expr) : bool :=
  match e with
  | EList es | ESet es | ECall _ es => forallb (pure_expr ok) es
  | EListComp el x _ v _ | ESetComp el x _ v _ => pure_expr ok v && pure_expr (fun y => str_eqb y x || ok y) el
  | EUnscoped x _ => ok x
  | EScoped _ _ _ => false
  | _ => true
  end.
(* VariableMap lookup that also returns the `mutable` flag of the binding found *)
Fixpoint env_find (env : cenv) (x : ident) : option (vres * bool) :=
  match env with
  | [] => None
  | fr :: up => match alist_get x fr with Some b => Some b | None => env_find up x end
  end.
Definition stable_name (cx : cctx) (env : cenv) (x : ident) : bool :=
  match varmap_get (cx_globals cx) x with
  | Some _ => true
  | None => match env_find env x with Some (v, false) => vr_local v | _ => false end
  end.
(* every binding that is judged local is immutable (so no `set` can ever reach it) *)
Definition env_inv (env : cenv) : Prop :=
  forall fr x v m, In fr env -> In (x, (v, m)) fr -> vr_local v = true -> m = false.
