(* Spec/EagerPos.v — the EAGER positions of a statement, enumerated (declarative counterpart of the boolean
   walkers `expr_eok` / `stmt_eok` of Model/Locality.v).
   `eager_in_expr env0 e0 env e`: e0 is an expression read in the static environment env0; e is the list of a
   list/set comprehension somewhere inside e0 (any depth), and env is the static environment at e.
   `eager_in_stmt G env0 s env e`: s is a statement executed in env0; e is an eager position of s or of a statement
   nested in s (any depth): the subject of a `scan`, a condition of an `if`, the list of a `for`, or the list of a
   comprehension inside ANY expression of the statement.  Scoping: a `scan`/`if` arm runs in a fresh frame, a `for`
   body and a comprehension element in a fresh frame that holds the loop variable (bit true: its list is itself an
   eager position); inside a block each statement is read in the environment left by its predecessors. *)
From TSG Require Export Model.Locality.

Inductive eager_in_expr : lenv -> expr -> lenv -> expr -> Prop :=
| EIE_list env0 es e0 env e : In e0 es -> eager_in_expr env0 e0 env e -> eager_in_expr env0 (EList es) env e
| EIE_set env0 es e0 env e : In e0 es -> eager_in_expr env0 e0 env e -> eager_in_expr env0 (ESet es) env e
| EIE_call env0 f es e0 env e : In e0 es -> eager_in_expr env0 e0 env e -> eager_in_expr env0 (ECall f es) env e
| EIE_scoped env0 sc x l env e : eager_in_expr env0 sc env e -> eager_in_expr env0 (EScoped sc x l) env e
| EIE_lcomp_src env0 el x xl v l : eager_in_expr env0 (EListComp el x xl v l) env0 v
| EIE_lcomp_in_src env0 el x xl v l env e : eager_in_expr env0 v env e -> eager_in_expr env0 (EListComp el x xl v l) env e
| EIE_lcomp_elem env0 el x xl v l env e : eager_in_expr ([(x, true)] :: env0) el env e -> eager_in_expr env0 (EListComp el x xl v l) env e
| EIE_scomp_src env0 el x xl v l : eager_in_expr env0 (ESetComp el x xl v l) env0 v
| EIE_scomp_in_src env0 el x xl v l env e : eager_in_expr env0 v env e -> eager_in_expr env0 (ESetComp el x xl v l) env e
| EIE_scomp_elem env0 el x xl v l env e : eager_in_expr ([(x, true)] :: env0) el env e -> eager_in_expr env0 (ESetComp el x xl v l) env e.

(* the expressions a statement evaluates directly, all in the statement's own environment *)
Definition var_exprs (v : variable) : list expr := match v with VarU _ _ => [] | VarS sc _ _ => [sc] end.
Definition attr_expr (a : attr) : expr := match a with Attr _ e => e end.
Definition stmt_exprs (s : stmt) : list expr :=
  match s with
  | SLet v e _ | SVar v e _ | SSet v e _ => e :: var_exprs v
  | SNode v _ _ => var_exprs v
  | SAttrNode n attrs _ => n :: map attr_expr attrs
  | SEdge a b _ => [a; b]
  | SAttrEdge a b attrs _ => a :: b :: map attr_expr attrs
  | SScan v _ _ => [v]
  | SPrint vs _ => vs
  | SIf arms _ => flat_map (fun arm : list cond * list stmt * loc => map cond_expr (fst (fst arm))) arms
  | SFor _ _ v _ _ => [v]
  end.

Inductive eager_in_stmt (G : ident -> bool) : lenv -> stmt -> lenv -> expr -> Prop :=
(* a comprehension list inside any expression of the statement *)
| EIS_expr env0 s e0 env e : In e0 (stmt_exprs s) -> eager_in_expr env0 e0 env e -> eager_in_stmt G env0 s env e
(* the eager positions of the statement itself *)
| EIS_scan env0 v arms l : eager_in_stmt G env0 (SScan v arms l) env0 v
| EIS_if env0 arms l conds body al c :
    In (conds, body, al) arms -> In c conds -> eager_in_stmt G env0 (SIf arms l) env0 (cond_expr c)
| EIS_for env0 x xl v body l : eager_in_stmt G env0 (SFor x xl v body l) env0 v
(* nested blocks *)
| EIS_scan_arm env0 v arms l rx body al env e :
    In (rx, body, al) arms -> eager_in_block G ([] :: env0) body env e -> eager_in_stmt G env0 (SScan v arms l) env e
| EIS_if_arm env0 arms l conds body al env e :
    In (conds, body, al) arms -> eager_in_block G ([] :: env0) body env e -> eager_in_stmt G env0 (SIf arms l) env e
| EIS_for_body env0 x xl v body l env e :
    eager_in_block G ([(x, true)] :: env0) body env e -> eager_in_stmt G env0 (SFor x xl v body l) env e
with eager_in_block (G : ident -> bool) : lenv -> list stmt -> lenv -> expr -> Prop :=
| EIB_here env0 s rest env e : eager_in_stmt G env0 s env e -> eager_in_block G env0 (s :: rest) env e
| EIB_later env0 s rest env e : eager_in_block G (stmt_env G env0 s) rest env e -> eager_in_block G env0 (s :: rest) env e.

Scheme eager_in_stmt_mind := Minimality for eager_in_stmt Sort Prop
  with eager_in_block_mind := Minimality for eager_in_block Sort Prop.
Combined Scheme eager_in_mutind from eager_in_stmt_mind, eager_in_block_mind.

Definition eager_in_file (f : file) (env : lenv) (e : expr) : Prop :=
  exists st, In st (f_stanzas f) /\ eager_in_block (is_global f) [[]] (st_stmts st) env e.
