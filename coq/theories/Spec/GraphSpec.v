(* Spec/GraphSpec.v — the abstract model of the WHOLE public operation language of C17 (`cop`): a graph is a list of
   nodes in creation order, a node is a pair (attribute map, UNORDERED finite map sink -> attributes) — the edge part
   of every operation is `espec` (Spec/ContainerSpec.v: linear lookup, append, iteration = ascending key list).
   The attribute maps and the variable stack are the concrete ones (they already are plain association lists; their
   refinement to lookup functions is `attrs_refines` / `globals_refine`). *)
From TSG Require Export Spec.ContainerSpec.

Record snode := { sn_attrs : amap; sn_edges : emap }.
Record sstate := { ss_nodes : list snode; ss_vars : globals }.
Definition sinit : sstate := {| ss_nodes := []; ss_vars := [[]] |}.
Definition snode_at (t : sstate) (i : N) : option snode := nth_error (ss_nodes t) (N.to_nat i).
Definition s_in_range (t : sstate) (n : N) : bool := N.ltb n (N.of_nat (length (ss_nodes t))).
Definition s_set_edges (em : emap) (n : snode) : snode := {| sn_attrs := sn_attrs n; sn_edges := em |}.
Definition s_set_attrs (a : amap) (n : snode) : snode := {| sn_attrs := a; sn_edges := sn_edges n |}.
Definition s_update (t : sstate) (i : N) (f : snode -> snode) : sstate :=
  {| ss_nodes := list_update (N.to_nat i) f (ss_nodes t); ss_vars := ss_vars t |}.

(* an edge operation on source node a *)
Definition s_onedge (t : sstate) (a : N) (eo : eop) : sstate * cres :=
  match snode_at t a with
  | Some n => (s_update t a (s_set_edges (fst (espec (sn_edges n) eo))), snd (espec (sn_edges n) eo))
  | None => (t, RSkipped)
  end.

(* the variable operations: those of the variable stack alone (`cstep` on a state without graph) *)
Definition s_onvars (t : sstate) (o : cop) : sstate * cres :=
  let '(c, r) := cstep {| cs_graph := []; cs_vars := ss_vars t |} o in
  ({| ss_nodes := ss_nodes t; ss_vars := cs_vars c |}, r).

Definition sstep (t : sstate) (o : cop) : sstate * cres :=
  match o with
  | OAddNode => ({| ss_nodes := ss_nodes t ++ [{| sn_attrs := []; sn_edges := [] |}]; ss_vars := ss_vars t |},
                 RNode (N.of_nat (length (ss_nodes t))))
  | OAddEdge a b => if s_in_range t a && s_in_range t b then s_onedge t a (EAdd b) else (t, RSkipped)
  | OGetEdge a b => s_onedge t a (EGet b)
  | OEdgeAttrAdd a b k v => s_onedge t a (EAttrAdd b k v)
  | OEdgeAttrGet a b k => s_onedge t a (EAttrGet b k)
  | OEdgeAttrIter a b => s_onedge t a (EAttrIter b)
  | OIterEdges a => s_onedge t a EIter
  | OEdgeCount a => s_onedge t a ECount
  | ONodeAttrAdd a k v =>
      match snode_at t a with
      | Some n => (s_update t a (s_set_attrs (fst (attrs_add (sn_attrs n) k v))), RAddAttr (snd (attrs_add (sn_attrs n) k v)))
      | None => (t, RSkipped)
      end
  | ONodeAttrGet a k =>
      match snode_at t a with Some n => (t, ROptVal (attrs_get (sn_attrs n) k)) | None => (t, RSkipped) end
  | ONodeAttrIter a =>
      match snode_at t a with Some n => (t, RAttrs (sort_alist (sn_attrs n))) | None => (t, RSkipped) end
  | OIterNodes => (t, RNodes (map N.of_nat (seq 0 (length (ss_nodes t)))))
  | ONodeCount => (t, RCount (N.of_nat (length (ss_nodes t))))
  | OVarNested | OVarPop | OVarAdd _ _ | OVarGet _ | OVarRemove _ | OVarClear | OVarIsEmpty | OVarIter => s_onvars t o
  end.
