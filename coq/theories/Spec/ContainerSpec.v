(* Spec/ContainerSpec.v — the abstract (plain map / set / counter) models the C17 containers are compared with.

   EDGES of one node: an unordered finite map  sink -> attributes  (association list in insertion order, no
     sorting, no binary search, linear lookup); iteration is DEFINED as the ascending list of the keys.
   NODES: a counter n; the references handed out are 0, 1, .., n-1.
   VARIABLES (nested VariableMap): a stack of finite maps  name -> (value, mutable)  as lookup FUNCTIONS; every
     operation is defined through `a_find`, the innermost frame that binds the name.
   GLOBALS (public `Variables`): a stack of lookup functions  name -> value. *)
From TSG Require Export Model.ContainerHist.

(* ================= edges ================= *)
Definition emap := list (N * amap).
Fixpoint em_get (k : N) (m : emap) : option amap :=
  match m with
  | [] => None
  | (k', a) :: m' => if N.eqb k k' then Some a else em_get k m'
  end.
Fixpoint em_set (k : N) (a : amap) (m : emap) : emap :=
  match m with
  | [] => [(k, a)]
  | (k', a') :: m' => if N.eqb k k' then (k, a) :: m' else (k', a') :: em_set k a m'
  end.
Definition em_keys (m : emap) : list N := map fst m.
Definition nsort (l : list N) : list N := sort_by N.ltb l.

Definition espec (m : emap) (o : eop) : emap * cres :=
  match o with
  | EAdd b => match em_get b m with
              | Some _ => (m, RBool false)
              | None => (m ++ [(b, [])], RBool true)
              end
  | EGet b => (m, RBool (match em_get b m with Some _ => true | None => false end))
  | EAttrAdd b k v =>
      match em_get b m with
      | Some a => let '(a', c) := attrs_add a k v in (em_set b a' m, RAddAttr c)
      | None => (m, RNoEdge)
      end
  | EAttrGet b k =>
      match em_get b m with
      | Some a => (m, ROptVal (attrs_get a k))
      | None => (m, RNoEdge)
      end
  | EAttrIter b =>
      match em_get b m with
      | Some a => (m, RAttrs (sort_alist a))
      | None => (m, RNoEdge)
      end
  | EIter => (m, RNodes (nsort (em_keys m)))
  | ECount => (m, RCount (N.of_nat (length m)))
  end.

(* ================= nodes ================= *)
(* the node-level observations of the public language; None = not a node-level operation *)
Definition nspec (n : nat) (o : cop) : nat * option cres :=
  match o with
  | OAddNode => (S n, Some (RNode (N.of_nat n)))
  | ONodeCount => (n, Some (RCount (N.of_nat n)))
  | OIterNodes => (n, Some (RNodes (map N.of_nat (seq 0 n))))
  | _ => (n, None)
  end.
Definition node_op (o : cop) : bool :=
  match o with OAddNode | ONodeCount | OIterNodes => true | _ => false end.
(* the concrete side: `cstep`, observed at the node-level operations only *)
Definition nstep (s : cstate) (o : cop) : cstate * option cres :=
  let '(s', r) := cstep s o in (s', if node_op o then Some r else None).

(* ================= nested VariableMap ================= *)
Section VarSpec.
  Context {V : Type}.
  Definition aframe := ident -> option (V * bool).
  Definition astack := list aframe.                    (* head = innermost *)
  Definition fempty : aframe := fun _ => None.
  Definition fupd (f : aframe) (k : ident) (x : V * bool) : aframe :=
    fun k' => if str_eqb k' k then Some x else f k'.

  (* the innermost frame binding k: its depth and the binding *)
  Fixpoint a_find (s : astack) (k : ident) : option (nat * (V * bool)) :=
    match s with
    | [] => None
    | f :: up => match f k with
                 | Some x => Some (O, x)
                 | None => match a_find up k with Some (i, x) => Some (S i, x) | None => None end
                 end
    end.
  Definition a_get (s : astack) (k : ident) : option V :=
    match a_find s k with Some (_, (v, _)) => Some v | None => None end.
  Definition a_add (s : astack) (k : ident) (v : V) (mutable : bool) : astack + var_error :=
    match s with
    | [] => inr VarUndefined
    | f :: up => match f k with
                 | Some _ => inr VarAlreadyDefined
                 | None => inl (fupd f k (v, mutable) :: up)
                 end
    end.
  Definition a_set (s : astack) (k : ident) (v : V) : astack + var_error :=
    match a_find s k with
    | None => inr VarUndefined
    | Some (_, (_, false)) => inr VarImmutable
    | Some (i, (_, true)) => inl (list_update i (fun f => fupd f k (v, true)) s)
    end.
  Definition a_clear (s : astack) : astack := match s with [] => [] | _ :: up => fempty :: up end.

  Definition vspec (s : astack) (o : vop V) : astack * vres V :=
    match o with
    | VNested => (fempty :: s, VRUnit)
    | VPop => match s with _ :: (_ :: _) as up => (up, VRUnit) | _ => (s, VRSkipped) end
    | VAdd k v b => match a_add s k v b with inl s' => (s', VROk) | inr e => (s, VRErr e) end
    | VSet k v => match a_set s k v with inl s' => (s', VROk) | inr e => (s, VRErr e) end
    | VGet k => (s, VRVal (a_get s k))
    | VClear => (a_clear s, VRUnit)
    end.

  (* abstraction function *)
  Definition abs_frame (f : vframe V) : aframe := fun k => alist_get k f.
  Definition abs_varmap (m : varmap V) : astack := map abs_frame m.
End VarSpec.
Arguments aframe : clear implicits.
Arguments astack : clear implicits.

(* ================= Globals (the public `Variables`) ================= *)
Definition gfun := ident -> option value.
Definition gstack := list gfun.
Definition gempty : gfun := fun _ => None.
Definition gupd (f : gfun) (k : ident) (x : option value) : gfun :=
  fun k' => if str_eqb k' k then x else f k'.
Fixpoint gs_get (s : gstack) (k : ident) : option value :=
  match s with
  | [] => None
  | f :: up => match f k with Some v => Some v | None => gs_get up k end
  end.
(* the variable operations of the public language whose result is a function of the lookup functions;
   None = not such an operation (graph operations; is_empty / iter enumerate the innermost map, see
   `globals_iter_spec`) *)
Definition gspec (s : gstack) (o : cop) : gstack * option cres :=
  match o with
  | OVarNested => (gempty :: s, Some RUnit)
  | OVarPop => match s with _ :: (_ :: _) as up => (up, Some RUnit) | _ => (s, Some RSkipped) end
  | OVarAdd k v => match s with
                   | [] => (s, Some (RBool false))
                   | f :: up => match f k with
                                | Some _ => (s, Some (RBool false))
                                | None => (gupd f k (Some v) :: up, Some (RBool true))
                                end
                   end
  | OVarGet k => (s, Some (ROptVal (gs_get s k)))
  | OVarRemove k => (match s with [] => [] | f :: up => gupd f k None :: up end, Some RUnit)
  | OVarClear => (match s with [] => [] | _ :: up => gempty :: up end, Some RUnit)
  | _ => (s, None)
  end.
Definition gvar_op (o : cop) : bool :=
  match o with OVarNested | OVarPop | OVarAdd _ _ | OVarGet _ | OVarRemove _ | OVarClear => true | _ => false end.
Definition gstep (s : cstate) (o : cop) : cstate * option cres :=
  let '(s', r) := cstep s o in (s', if gvar_op o then Some r else None).
Definition abs_globals (g : globals) : gstack := map (fun f k => alist_get k f) g.
