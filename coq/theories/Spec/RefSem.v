(* Spec/RefSem.v — the reference semantics of the graph DSL (src/reference/mod.rs), as a big-step
   evaluator over the store operations of Model/Strict.v (graph, block-structured locals, per-node
   scoped variables).  What it does NOT have, deliberately: cancellation polls, error contexts, the
   shared `function_parameters` buffer, debug attributes.  Points where the reference text is silent
   and this file pins the behaviour (DESIGN.md Appendix D): evaluation is left to right; all
   conditions of an `if` arm are evaluated; a shorthand body sees its parameter, globals, captures and
   regex captures but not the stanza's locals; every `scan` restart matches on the remaining suffix.
   Definitions only. *)
From TSG Require Export Model.Strict.

Section Ref.
  Context {rx : Type}.
  Variable t : tree.
  Variable fl : file.
  Variable glob : globals.
  Variable regexes : list rx.
  Variable find : rx -> str -> option (list (option (N * N))).
  Variable call : ident -> graph -> list value -> res (value * graph).

  Notation SM := (M sstate).

  (* Γ ⊢ e ⇓ v *)
  Fixpoint ref_eval (fuel : nat) (m : qmatch) (caps : list str) (e : expr) {struct fuel} : SM value :=
    match fuel with
    | O => out_of_fuel
    | S fuel =>
      match e with
      | EFalse => ret (VBool false)
      | ENull => ret VNull
      | ETrue => ret (VBool true)
      | EInt n => ret (VInt n)
      | EStr s => ret (VStr s)
      | EList es => vs <- mapM (ref_eval fuel m caps) es ;; ret (VList vs)
      | ESet es => vs <- mapM (ref_eval fuel m caps) es ;; ret (VSet (set_of_list vs))
      | EListComp elem var _ value _ =>
          lv <- ref_eval fuel m caps value ;; vals <- lift (as_list lv) ;;
          push_frame ;;;
          out <- mapM (fun v => clear_frame ;;; unscoped_add glob var v false ;;; ref_eval fuel m caps elem) vals ;;
          pop_frame ;;; ret (VList out)
      | ESetComp elem var _ value _ =>
          lv <- ref_eval fuel m caps value ;; vals <- lift (as_list lv) ;;
          push_frame ;;;
          out <- mapM (fun v => clear_frame ;;; unscoped_add glob var v false ;;; ref_eval fuel m caps elem) vals ;;
          pop_frame ;;; ret (VSet (set_of_list out))
      | ECapture _ q _ stanza_idx _ => lift (from_nodes (nodes_for_capture m stanza_idx) q)
      | EUnscoped name _ => unscoped_get glob name
      | EScoped scope name _ =>
          sv <- ref_eval fuel m caps scope ;; n <- scope_of sv ;; scoped_get_at t fl n name
      | ECall f args => vs <- mapM (ref_eval fuel m caps) args ;; call_function call f vs
      | ERegexCap i =>
          match nth_error caps (N.to_nat i) with
          | Some s => ret (VStr s)
          | None => fail EUndefinedRegexCapture
          end
      end
    end.

  Definition ref_var_add (fuel : nat) (m : qmatch) (caps : list str) (v : variable) (x : value) (mutable : bool) : SM unit :=
    match v with
    | VarU name _ => unscoped_add glob name x mutable
    | VarS scope name _ => sv <- ref_eval fuel m caps scope ;; n <- scope_of sv ;; scoped_add_at n name x mutable
    end.
  Definition ref_var_set (fuel : nat) (m : qmatch) (caps : list str) (v : variable) (x : value) : SM unit :=
    match v with
    | VarU name _ => unscoped_set glob name x
    | VarS scope name _ => sv <- ref_eval fuel m caps scope ;; n <- scope_of sv ;; scoped_set_at n name x
    end.
  Definition ref_cond (fuel : nat) (m : qmatch) (caps : list str) (c : cond) : SM bool :=
    match c with
    | CSome e _ => v <- ref_eval fuel m caps e ;; ret (negb (match v with VNull => true | _ => false end))
    | CNone e _ => v <- ref_eval fuel m caps e ;; ret (match v with VNull => true | _ => false end)
    | CBool e _ => v <- ref_eval fuel m caps e ;; lift (as_bool v)
    end.

  (* an attribute `name = value`; a shorthand name expands to its attributes with the parameter bound
     to the value in a fresh environment *)
  Fixpoint ref_attr (fuel : nat) (m : qmatch) (caps : list str) (tgt : target) (a : attr) {struct fuel} : SM unit :=
    match fuel with
    | O => out_of_fuel
    | S fuel =>
      let '(Attr name value) := a in
      v <- ref_eval fuel m caps value ;;
      match find_shorthand name (f_shorthands fl) with
      | Some sh =>
          s <- get_state ;;
          let saved := s_locals s in
          set_locals [[]] ;;;
          unscoped_add glob (sh_var sh) v false ;;;
          iterM (ref_attr fuel m caps tgt) (sh_attrs sh) ;;;
          set_locals saved
      | None => add_attr tgt name v
      end
    end.

  (* scan: at each position the earliest match wins, earlier arm on ties; an empty match is an error *)
  Fixpoint ref_scan_loop (run_arm : list str -> list stmt -> SM unit) (arms : list (N * list stmt * loc)) (rs : list rx)
      (subject : str) (sfuel : nat) (i : N) {struct sfuel} : SM unit :=
    match sfuel with
    | O => out_of_fuel
    | S sfuel =>
      if N.ltb i (N.of_nat (length subject)) then
        let suffix := skipn (N.to_nat i) subject in
        match arm_select find rs suffix with
        | ASelNone => ret tt
        | ASelEmpty _ => fail EEmptyRegexCapture
        | ASelArm k caps =>
            match nth_error arms (N.to_nat k) with
            | None => panic P_regex_table
            | Some (_, body, _) =>
                push_frame ;;; run_arm (cap_texts suffix caps) body ;;; pop_frame ;;;
                ref_scan_loop run_arm arms rs subject sfuel (i + snd (cap0 caps))
            end
        end
      else ret tt
    end.

  (* Γ ⊢ s ⇓ *)
  Fixpoint ref_stmt (fuel : nat) (m : qmatch) (caps : list str) (s : stmt) {struct fuel} : SM unit :=
    match fuel with
    | O => out_of_fuel
    | S fuel =>
      match s with
      | SLet v e _ => x <- ref_eval fuel m caps e ;; ref_var_add fuel m caps v x false
      | SVar v e _ => x <- ref_eval fuel m caps e ;; ref_var_add fuel m caps v x true
      | SSet v e _ => x <- ref_eval fuel m caps e ;; ref_var_set fuel m caps v x
      | SNode v _ _ => n <- add_node ;; ref_var_add fuel m caps v (VGraph n) false
      | SAttrNode node attrs _ =>
          nv <- ref_eval fuel m caps node ;; n <- lift (as_gnode nv) ;;
          iterM (ref_attr fuel m caps (TNode n)) attrs
      | SEdge src snk _ =>
          a <- (x <- ref_eval fuel m caps src ;; lift (as_gnode x)) ;;
          b <- (x <- ref_eval fuel m caps snk ;; lift (as_gnode x)) ;;
          add_edge a b ;;; ret tt
      | SAttrEdge src snk attrs _ =>
          a <- (x <- ref_eval fuel m caps src ;; lift (as_gnode x)) ;;
          b <- (x <- ref_eval fuel m caps snk ;; lift (as_gnode x)) ;;
          iterM (ref_attr fuel m caps (TEdge a b)) attrs
      | SScan value arms _ =>
          sv <- ref_eval fuel m caps value ;; subject <- lift (as_str sv) ;;
          match arm_table regexes arms with
          | None => panic P_regex_table
          | Some rs => ref_scan_loop (fun caps' body => iterM (ref_stmt fuel m caps') body) arms rs subject (S (length subject)) 0
          end
      | SPrint values _ =>
          iterM (fun e => match e with EStr _ => ret tt | _ => ref_eval fuel m caps e ;;; ret tt end) values
      | SIf arms _ => if_loop (ref_cond fuel m caps) (fun body => iterM (ref_stmt fuel m caps) body) arms
      | SFor var _ value body _ =>
          lv <- ref_eval fuel m caps value ;; vals <- lift (as_list lv) ;;
          push_frame ;;;
          iterM (fun v => clear_frame ;;; unscoped_add glob var v false ;;; iterM (ref_stmt fuel m caps) body) vals ;;;
          pop_frame
      end
    end.

  (* one stanza on one match: locals start empty; the match must have a node for the whole pattern *)
  Definition ref_stanza (fuel : nat) (st : stanza) (m : qmatch) : SM unit :=
    clear_frame ;;;
    iterM (fun s => match nodes_for_capture m (st_full_stanza_idx st) with
                    | [] => panic P_missing_full_capture
                    | _ :: _ => ref_stmt fuel m [] s
                    end) (st_stmts st).

  (* a file: stanzas in file order, each once per match of its query *)
  Fixpoint ref_file (fuel : nat) (sts : list stanza) (ms : list (list qmatch)) : SM unit :=
    match sts, ms with
    | st :: sts', m :: ms' => iterM (ref_stanza fuel st) m ;;; ref_file fuel sts' ms'
    | _, _ => ret tt
    end.
End Ref.

(* the result the reference prescribes for a whole execution: a graph, or the error the rules raise *)
Definition ref_run {rx : Type} (t : tree) (fl : file) (supplied : globals)
    (regexes : list rx) (find : rx -> str -> option (list (option (N * N))))
    (call : ident -> graph -> list value -> res (value * graph))
    (fuel : nat) (matches : list (list qmatch)) (g0 : graph) : outcome exec_error graph :=
  match check_globals (f_globals fl) (globals_nested supplied) with
  | Ok glob =>
      match ref_file t fl glob regexes find call fuel (f_stanzas fl) matches (sinit g0) (polls0 None) with
      | Ok (_, s, _) => Ok (s_graph s)
      | Err e => Err e
      | Panic x => Panic x
      | OutOfFuel => OutOfFuel
      end
  | Err e => Err e
  | Panic x => Panic x
  | OutOfFuel => OutOfFuel
  end.
