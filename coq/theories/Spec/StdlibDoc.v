(* Spec/StdlibDoc.v — the documented contracts of the standard library (src/reference/functions.rs),
   one short declarative definition per function, an arity table and a parameter-type table.
   Definitions only.  `None` stands for "the call produces an execution error"; the documentation
   does not say which one (the implementation's choice is pinned by the correspondence stream and by
   the theorems arity_errors / format_spec / plus_no_wrap / error_classes). *)
From TSG Require Export Model.Stdlib.

(* ---- arity table: (minimum, maximum); None = any number ---- *)
Definition arity (f : fn) : nat * option nat :=
  (match f with
   | FEq => (2, Some 2)                       (* "two values" *)
   | FIsNull => (1, Some 1)                   (* "one value" *)
   | FNamedChildIndex | FSourceText | FStartRow | FStartColumn | FEndRow | FEndColumn
   | FNodeType | FNamedChildCount => (1, Some 1)   (* "node: A syntax node" *)
   | FNode => (0, Some 0)                     (* "none" *)
   | FNot => (1, Some 1)                      (* "one boolean" *)
   | FAnd | FOr => (0, None)                  (* "zero or more booleans" *)
   | FPlus => (0, None)                       (* "zero or more integers" *)
   | FFormat => (1, None)                     (* format string + one per placeholder *)
   | FReplace => (3, Some 3)                  (* text, pattern, replacement *)
   | FConcat => (0, None)                     (* "list values" *)
   | FIsEmpty | FLength => (1, Some 1)        (* "a list value" *)
   | FJoin => (1, Some 2)                     (* list, optional separator *)
   end)%nat.
Definition arity_ok (f : fn) (n : nat) : bool :=
  (fst (arity f) <=? n)%nat && match snd (arity f) with Some m => (n <=? m)%nat | None => true end.
Definition fixed_arity (f : fn) : option nat :=
  match arity f with (a, Some b) => if (a =? b)%nat then Some a else None | (_, None) => None end.

(* ---- parameter types ---- *)
Inductive vtype := TAny | TBool | TInt | TStr | TList | TSyn.
Definition has_type (ty : vtype) (v : value) : bool :=
  match ty, v with
  | TAny, _ | TBool, VBool _ | TInt, VInt _ | TStr, VStr _ | TList, VList _ | TSyn, VSyn _ => true
  | _, _ => false
  end.
Definition param_type (f : fn) (i : nat) : vtype :=
  match f with
  | FEq | FIsNull | FNode => TAny
  | FNamedChildIndex | FSourceText | FStartRow | FStartColumn | FEndRow | FEndColumn
  | FNodeType | FNamedChildCount => TSyn
  | FNot | FAnd | FOr => TBool
  | FPlus => TInt
  | FFormat => match i with O => TStr | S _ => TAny end
  | FReplace => TStr
  | FConcat | FIsEmpty | FLength => TList
  | FJoin => match i with O => TList | S _ => TStr end
  end.
Fixpoint well_typed_from (f : fn) (i : nat) (args : list value) : bool :=
  match args with
  | [] => true
  | v :: r => has_type (param_type f i) v && well_typed_from f (S i) r
  end.
Definition well_typed (f : fn) (args : list value) : bool := well_typed_from f 0 args.

(* ---- helpers ---- *)
Definition is_null (v : value) : bool := match v with VNull => true | _ => false end.
Definition get_bool (v : value) : option bool := match v with VBool b => Some b | _ => None end.
Definition get_int (v : value) : option N := match v with VInt n => Some n | _ => None end.
Definition get_list (v : value) : option (list value) := match v with VList l => Some l | _ => None end.
(* all arguments have the expected shape *)
Fixpoint collect {A} (get : value -> option A) (l : list value) : option (list A) :=
  match l with
  | [] => Some []
  | v :: r => match get v, collect get r with Some a, Some r' => Some (a :: r') | _, _ => None end
  end.
Definition sum (ns : list N) : N := fold_right N.add 0 ns.
Definition two32 : N := 4294967296.

(* ---- eq: "The compared values must be of the same type. Null values are equal to each other and
   can be compared to values of any type." ---- *)
Definition doc_eq (a b : value) : option bool :=
  if is_null a || is_null b then Some (is_null a && is_null b)
  else if tag a =? tag b then Some (value_eqb a b)
  else None.

(* ---- plus: "the sum of all of the input integers" (an integer is a u32) ---- *)
Definition doc_plus (ns : list N) : option N := if sum ns <? two32 then Some (sum ns) else None.

(* ---- format: "Placeholders are written as {}. To produce literal braces, use {{ and }}" ---- *)
Inductive tok := Lit (c : N) | Hole | Bad.
Fixpoint tokenise (s : str) : list tok :=
  match s with
  | [] => []
  | c :: r =>
      if c =? c_open then
        match r with
        | d :: r' => if d =? c_open then Lit c_open :: tokenise r'
                     else if d =? c_close then Hole :: tokenise r'
                     else [Bad]
        | [] => [Bad]
        end
      else if c =? c_close then
        match r with
        | d :: r' => if d =? c_close then Lit c_close :: tokenise r' else [Bad]
        | [] => [Bad]
        end
      else Lit c :: tokenise r
  end.
Definition is_bad (k : tok) : bool := match k with Bad => true | _ => false end.
Definition is_hole (k : tok) : bool := match k with Hole => true | _ => false end.
Definition holes (toks : list tok) : nat := length (filter is_hole toks).
(* placeholders replaced, in order, by the formatted values *)
Fixpoint fill (t : tree) (toks : list tok) (args : list value) : str :=
  match toks with
  | [] => []
  | Lit c :: r => c :: fill t r args
  | Hole :: r => match args with v :: a' => display_value t v ++ fill t r a' | [] => fill t r [] end
  | Bad :: r => fill t r args
  end.
Definition doc_format (t : tree) (fmt : str) (args : list value) : option str :=
  let toks := tokenise fmt in
  if existsb is_bad toks then None
  else if (holes toks =? length args)%nat then Some (fill t toks args)
  else None.

(* ---- join: "the formatted values from the list separated by the separator string" ---- *)
Definition doc_join (sep : str) (l : list str) : str :=
  match l with
  | [] => []
  | x :: r => x ++ concat (map (fun y => sep ++ y) r)
  end.

(* ---- the documented result value of every function ---- *)
Definition on_node (t : tree) (args : list value) (k : N -> tnode -> option value) : option value :=
  match args with
  | [VSyn n] => match node_at t n with Some x => k n x | None => None end
  | _ => None
  end.

Definition doc_value (rx : regex_oracle) (t : tree) (f : fn) (g : graph) (args : list value) : option value :=
  match f with
  | FEq => match args with [a; b] => option_map VBool (doc_eq a b) | _ => None end
  | FIsNull => match args with [a] => Some (VBool (is_null a)) | _ => None end
  | FNode => match args with [] => Some (VGraph (N.of_nat (length g))) | _ => None end
  | FNot => match args with [VBool b] => Some (VBool (negb b)) | _ => None end
  | FAnd => option_map (fun bs => VBool (forallb (fun b => b) bs)) (collect get_bool args)
  | FOr => option_map (fun bs => VBool (existsb (fun b => b) bs)) (collect get_bool args)
  | FPlus => match collect get_int args with
             | Some ns => option_map VInt (doc_plus ns)
             | None => None
             end
  | FFormat => match args with
               | VStr fmt :: rest => option_map VStr (doc_format t fmt rest)
               | _ => None
               end
  | FReplace => match args with
                | [VStr text; VStr pat; VStr rep] => option_map VStr (rx text pat rep)
                | _ => None
                end
  | FConcat => option_map (fun ls => VList (concat ls)) (collect get_list args)
  | FIsEmpty => match args with [VList l] => Some (VBool (Nat.eqb (length l) 0)) | _ => None end
  | FLength => match args with
               | [VList l] => let n := N.of_nat (length l) in if n <? two32 then Some (VInt n) else None
               | _ => None
               end
  | FJoin => match args with
             | [VList l] => Some (VStr (doc_join [] (map (display_value t) l)))
             | [VList l; VStr sep] => Some (VStr (doc_join sep (map (display_value t) l)))
             | _ => None
             end
  (* syntax functions, relative to the tree-sitter oracle (the recorded tree) *)
  | FNamedChildIndex =>
      on_node t args (fun n x =>
        match tn_parent x with
        | None => None
        | Some p => match node_at t p with
                    | Some px => option_map VInt (index_of n (named_children t px) 0)
                    | None => None
                    end
        end)
  | FNamedChildCount => on_node t args (fun _ x => Some (VInt (N.of_nat (length (named_children t x)))))
  | FSourceText => on_node t args (fun _ x => Some (VStr (node_text t x)))
  | FNodeType => on_node t args (fun _ x => Some (VStr (tn_kind x)))
  | FStartRow => on_node t args (fun _ x => Some (VInt (fst (tn_start x))))
  | FStartColumn => on_node t args (fun _ x => Some (VInt (snd (tn_start x))))
  | FEndRow => on_node t args (fun _ x => Some (VInt (fst (tn_end x))))
  | FEndColumn => on_node t args (fun _ x => Some (VInt (snd (tn_end x))))
  end.

(* value and graph afterwards: only `node` changes the graph, by appending one fresh node *)
Definition doc (rx : regex_oracle) (t : tree) (f : fn) (g : graph) (args : list value) : option (value * graph) :=
  option_map (fun v => (v, match f with FNode => g ++ [new_gnode] | _ => g end)) (doc_value rx t f g args).

(* the implementation's outcome agrees with the documented one *)
Definition agrees {A} (r : res A) (d : option A) : Prop :=
  match d with Some x => r = Ok x | None => exists e, r = Err e end.

(* ---- hypotheses of the theorems, as boolean predicates ---- *)
(* syntax-node arguments are node ids of the tree, with a span inside the source and a parent in the tree *)
Definition span_ok (t : tree) (x : tnode) : bool :=
  let '(a, b) := tn_span x in (a <=? b) && (b <=? N.of_nat (length (t_src t))).
Definition parent_ok (t : tree) (x : tnode) : bool :=
  match tn_parent x with
  | None => true
  | Some p => match node_at t p with Some _ => true | None => false end
  end.
Definition syn_valid (t : tree) (v : value) : bool :=
  match v with
  | VSyn n => match node_at t n with Some x => span_ok t x && parent_ok t x | None => false end
  | _ => true
  end.
Definition args_valid (t : tree) (args : list value) : bool := forallb (syn_valid t) args.

(* what tree-sitter and Vec guarantee about sizes: rows, columns and child counts are u32 in
   tree-sitter's own types; list lengths below 2^32 (the code casts all of them with `as u32`) *)
Definition fits (n : N) : bool := n <=? u32_max.
Definition node_u32 (t : tree) (x : tnode) : bool :=
  fits (fst (tn_start x)) && fits (snd (tn_start x)) && fits (fst (tn_end x)) && fits (snd (tn_end x))
  && fits (N.of_nat (length (tn_children x)))
  && match tn_parent x with
     | Some p => match node_at t p with Some px => fits (N.of_nat (length (tn_children px))) | None => true end
     | None => true
     end.
Definition arg_u32 (t : tree) (v : value) : bool :=
  match v with
  | VSyn n => match node_at t n with Some x => node_u32 t x | None => true end
  | VList l => fits (N.of_nat (length l))
  | _ => true
  end.
Definition args_u32 (t : tree) (args : list value) : bool := forallb (arg_u32 t) args.

(* the only fact about the regex crate the theorems use: whether Regex::new(pattern) succeeds does
   not depend on the replacement string *)
Definition rx_coherent (rx : regex_oracle) : Prop :=
  forall text pat r1 r2, rx text pat r1 = None -> rx text pat r2 = None.

(* `replace` with at least two string arguments: the pattern compiles *)
Definition pattern_ok (rx : regex_oracle) (f : fn) (args : list value) : bool :=
  match f, args with
  | FReplace, VStr text :: VStr pat :: _ => match rx text pat [] with Some _ => true | None => false end
  | _, _ => true
  end.

(* error variants a stdlib call can produce *)
Definition stdlib_error (e : exec_error) : bool :=
  match e with
  | EUndefinedFunction | EInvalidParameters | EExpectedBoolean | EExpectedInteger | EExpectedString
  | EExpectedList | EExpectedSyntaxNode | EFunctionFailed => true
  | _ => false
  end.
