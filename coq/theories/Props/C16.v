(* Props/C16.v — property theorems only.
   Globals are required unless defaulted, list-typed when declared with `*`/`+`, and the caller's
   variable set is unchanged (defaults go to the nested copy).

   Vocabulary (Proofs/Globals.v):
     decl_status L d      what is wrong with declaration d when the caller's chain evaluates names by L
                          (characterised by status_missing / status_list / status_ok below)
     default_of decls k   the default, as a string value, of the first declaration named k
     effective L decls    fun k => match L k with Some v => Some v | None => default_of decls k end
   `f :: up` is a non-empty Globals chain: f = the map being filled (the nested copy), up = the caller's
   chain.  `NoDup (map gl_name decls)` is what File::check enforces (DuplicateGlobalVariable). *)
From TSG Require Import Model.Globals Proofs.BaseFacts Proofs.Globals.

(* ---- meaning of decl_status ---- *)
Theorem status_missing : forall L d,
  decl_status L d = Some EMissingGlobalVariable <-> (L (gl_name d) = None /\ gl_default d = None).
Proof. exact decl_status_missing. Qed.
Theorem status_list : forall L d,
  decl_status L d = Some EExpectedList <->
  exists v, L (gl_name d) = Some v /\ (gl_quant d = QStar \/ gl_quant d = QPlus) /\ forall l, v <> VList l.
Proof. exact decl_status_list. Qed.
Theorem status_ok : forall L d,
  decl_status L d = None <->
  match L (gl_name d) with
  | None => exists s, gl_default d = Some s
  | Some v => is_list_quant (gl_quant d) = true -> exists l, v = VList l
  end.
Proof. exact decl_status_ok. Qed.
Theorem status_range : forall L d e,
  decl_status L d = Some e -> e = EMissingGlobalVariable \/ e = EExpectedList.
Proof. exact decl_status_range. Qed.

(* ---- the main specification ----
   Err e  <->  the FIRST declaration, in file order, that is missing without default or list-typed but
               supplied with a non-list has status e;
   Ok g'   ->  no declaration is in error, the caller's chain is the tail of g', every name evaluates to
               the supplied value if supplied and else to the default; in particular every declared
               name evaluates to `supplied value, else its own default as a string`;
   no declaration in error -> Ok;  never a panic. *)
Theorem check_globals_spec : forall decls f up, NoDup (map gl_name decls) ->
  let g := f :: up in let L := globals_get g in
  (forall e, check_globals decls g = Err e <->
     exists pre d post, decls = pre ++ d :: post /\
       (forall d', In d' pre -> decl_status L d' = None) /\ decl_status L d = Some e) /\
  (forall g', check_globals decls g = Ok g' ->
     (forall d, In d decls -> decl_status L d = None) /\ tl g' = up /\
     (forall k, globals_get g' k = effective L decls k) /\
     (forall d, In d decls -> globals_get g' (gl_name d) =
        match L (gl_name d) with Some v => Some v | None => option_map VStr (gl_default d) end)) /\
  ((forall d, In d decls -> decl_status L d = None) -> exists g', check_globals decls g = Ok g') /\
  (forall s, check_globals decls g <> Panic s) /\ check_globals decls g <> OutOfFuel.
Proof. exact check_globals_spec_lemma. Qed.

(* for ANY declaration list (also with repeated names): the only outcomes are Ok, MissingGlobalVariable
   and ExpectedList.  `globals.add` cannot fail — `get` just returned None for the whole chain, which
   includes the head map — so the DuplicateVariable branch of check_globals is dead code; a name
   declared twice with defaults takes the first default (the second declaration sees it as supplied). *)
Theorem check_globals_outcomes : forall decls f up,
  (exists g', check_globals decls (f :: up) = Ok g') \/
  check_globals decls (f :: up) = Err EMissingGlobalVariable \/
  check_globals decls (f :: up) = Err EExpectedList.
Proof. exact check_globals_outcomes_lemma. Qed.

(* ---- missing-global error ---- *)
Theorem missing_sound : forall decls f up,
  check_globals decls (f :: up) = Err EMissingGlobalVariable ->
  exists d, In d decls /\ gl_default d = None /\ globals_get (f :: up) (gl_name d) = None.
Proof. exact missing_sound_lemma. Qed.

(* when no list-typed global is supplied with a non-list (otherwise ExpectedList of an EARLIER
   declaration can win, see check_globals_spec): the error is MissingGlobalVariable exactly when a declared
   global without default is not supplied; and if there is none, execution proceeds *)
Theorem missing_iff : forall decls f up, NoDup (map gl_name decls) ->
  let g := f :: up in
  (forall d v, In d decls -> globals_get g (gl_name d) = Some v -> is_list_quant (gl_quant d) = true ->
     exists l, v = VList l) ->
  (check_globals decls g = Err EMissingGlobalVariable <->
   exists d, In d decls /\ gl_default d = None /\ globals_get g (gl_name d) = None) /\
  ((forall d, In d decls -> gl_default d = None -> globals_get g (gl_name d) <> None) ->
   exists g', check_globals decls g = Ok g').
Proof. exact missing_iff_lemma. Qed.

(* ---- list-typed globals ---- *)
(* ExpectedList => some `*`/`+` declaration whose name evaluates to a non-list: supplied by the caller,
   or (repeated names only) the default of an earlier declaration of the same name *)
Theorem list_sound : forall decls f up,
  check_globals decls (f :: up) = Err EExpectedList ->
  exists d v, In d decls /\ (gl_quant d = QStar \/ gl_quant d = QPlus) /\ (forall l, v <> VList l) /\
    (globals_get (f :: up) (gl_name d) = Some v \/
     (globals_get (f :: up) (gl_name d) = None /\ default_of decls (gl_name d) = Some v)).
Proof. exact list_sound_lemma. Qed.

(* ---- the caller's variable set ---- *)
Theorem caller_unchanged : forall decls supplied g',
  run_globals decls supplied = Ok g' -> tl g' = supplied.
Proof. exact caller_unchanged_lemma. Qed.
Theorem caller_unchanged_chain : forall decls f up g',
  check_globals decls (f :: up) = Ok g' -> tl g' = up.
Proof. exact caller_unchanged_chain_lemma. Qed.

(* a default is used exactly when no value is supplied: the nested copy ends up holding precisely the
   defaults of the unsupplied names, nothing else *)
Theorem defaults_frame : forall decls supplied g',
  run_globals decls supplied = Ok g' ->
  exists f', g' = f' :: supplied /\
    forall k v, alist_get k f' = Some v <-> (globals_get supplied k = None /\ default_of decls k = Some v).
Proof. exact defaults_frame_lemma. Qed.

(* ---- evaluation of names afterwards ---- *)
Theorem lookup_after : forall decls supplied g',
  run_globals decls supplied = Ok g' ->
  forall k, globals_get g' k =
    match globals_get supplied k with Some v => Some v | None => default_of decls k end.
Proof. exact lookup_after_lemma. Qed.

(* a supplied value is never overridden (declared or not) ... *)
Theorem supplied_wins : forall decls supplied g' k v,
  run_globals decls supplied = Ok g' -> globals_get supplied k = Some v -> globals_get g' k = Some v.
Proof. exact supplied_wins_lemma. Qed.

(* ... and names that the file does not declare evaluate exactly as in the caller's set *)
Theorem undeclared_supplied_kept : forall decls supplied g' k,
  run_globals decls supplied = Ok g' -> ~ In k (map gl_name decls) ->
  globals_get g' k = globals_get supplied k.
Proof. exact undeclared_kept_lemma. Qed.

(* default_of in terms of declarations *)
Theorem default_of_declared : forall decls d, NoDup (map gl_name decls) -> In d decls ->
  default_of decls (gl_name d) = option_map VStr (gl_default d).
Proof. exact default_of_In. Qed.
Theorem default_of_origin : forall decls k v, default_of decls k = Some v ->
  exists d s, In d decls /\ gl_name d = k /\ gl_default d = Some s /\ v = VStr s.
Proof. exact default_of_some. Qed.

(* ---- not yet proved here (depends on the interpreter and checker models, written separately) ----
   global_eval : for every accepted file, every stanza, every statement at every block depth
     (if / for / scan arms / comprehensions) and both modes, an unscoped variable whose name is a declared
     global evaluates to `globals_get g' name` where `run_globals (f_globals file) supplied = Ok g'`;
     and no statement of an accepted file adds (let / var / node / loop variable) or sets such a name.
   Ingredients available in Model/Globals.v for that proof: `unscoped_lookup` (globals consulted before
   locals), `unscoped_add_guard`, `unscoped_set_guard`, `static_global_rule`.  The correspondence stream
   C16 tests the statement on generated programs (reads at depth 0-3, hide/set/duplicate at load time). *)

(* ---- non-vacuity ---- *)
Definition na : ident := [97].   Definition nb : ident := [98].
Definition nc : ident := [99].   Definition nd : ident := [100].
Definition ex_decls : list global :=
  [ {| gl_name := na; gl_quant := QOne;  gl_default := None;        gl_loc := (0, 7) |};
    {| gl_name := nb; gl_quant := QOpt;  gl_default := Some [100;102]; gl_loc := (1, 7) |};
    {| gl_name := nc; gl_quant := QStar; gl_default := None;        gl_loc := (2, 7) |};
    {| gl_name := nd; gl_quant := QPlus; gl_default := Some [120];  gl_loc := (3, 7) |} ].
(* supplied through two nested Variables: a, c in the inner set; b in the outer one *)
Definition ex_supplied : globals :=
  [ [(na, VInt 1); (nc, VList [VStr [117]; VNull])]; [(nb, VStr [111]); (nc, VInt 3)] ].

Example ex_names_distinct : NoDup (map gl_name ex_decls).
Proof. repeat constructor; cbn; intuition discriminate. Qed.

(* ---- inside the DSL: a global evaluates to the value of the execution's variable set in EVERY state (so in
   every stanza, block and loop iteration), in both modes, and it cannot be redeclared, hidden or assigned ---- *)
From TSG Require Import Model.Strict Model.Lazy.
Theorem global_evaluates_strict : forall t fl glob call fuel le name l v s p,
  globals_get glob name = Some v ->
  eval t fl glob call (S fuel) le (EUnscoped name l) s p = Ok (v, s, p).
Proof. intros t fl glob call fuel le name l v s p H. cbn [eval]. unfold unscoped_get. rewrite H. reflexivity. Qed.
Theorem global_evaluates_lazy : forall t fl glob call fuel le name l v s p,
  globals_get glob name = Some v ->
  leval t fl glob call (S fuel) le (EUnscoped name l) s p = Ok (LValue v, s, p).
Proof. intros t fl glob call fuel le name l v s p H. cbn [leval]. unfold lunscoped_get. rewrite H. reflexivity. Qed.
(* `let`/`var`/`for`/comprehension variables and shorthand parameters all go through unscoped_add; `set` through unscoped_set *)
Theorem global_cannot_be_redeclared_or_hidden : forall glob name v x m s p ls le,
  globals_get glob name = Some v ->
  unscoped_add glob name x m s p = Err EDuplicateVariable /\
  lunscoped_add glob le name (LValue x) m ls p = Err EDuplicateVariable.
Proof. intros glob name v x m s p ls le H. unfold unscoped_add, lunscoped_add. rewrite H. split; reflexivity. Qed.
Theorem global_cannot_be_assigned : forall glob name v x s p ls le,
  globals_get glob name = Some v ->
  unscoped_set glob name x s p = Err ECannotAssignImmutableVariable /\
  lunscoped_set glob le name (LValue x) ls p = Err ECannotAssignImmutableVariable.
Proof. intros glob name v x s p ls le H. unfold unscoped_set, lunscoped_set. rewrite H. split; reflexivity. Qed.
(* the variable set itself is not part of the interpreter state: no statement can change it *)

(* b is supplied (outer set): its default is NOT used; d is not supplied: its default is, as a string
   (the list check is not applied to defaults); the caller's chain is the tail, untouched *)
Example ex_ok : run_globals ex_decls ex_supplied = Ok ([(nd, VStr [120])] :: ex_supplied).
Proof. vm_compute. reflexivity. Qed.
Example ex_missing : run_globals ex_decls (tl ex_supplied) = Err EMissingGlobalVariable.
Proof. vm_compute. reflexivity. Qed.
(* c* evaluates to the integer of the outer set once the inner set lacks it *)
Example ex_list : run_globals ex_decls [[(na, VNull)]; [(nb, VStr [111]); (nc, VInt 3)]] = Err EExpectedList.
Proof. vm_compute. reflexivity. Qed.
(* the first offending declaration decides: a missing (1st) and c non-list (3rd) => Missing; reversed => ExpectedList *)
Example ex_first_wins :
  run_globals ex_decls [[(nc, VInt 3)]] = Err EMissingGlobalVariable /\
  run_globals (rev ex_decls) [[(nc, VInt 3)]] = Err EExpectedList.
Proof. vm_compute. split; reflexivity. Qed.
(* repeated name with two defaults: no DuplicateVariable, the first default stays *)
Example ex_repeated :
  run_globals [ {| gl_name := nb; gl_quant := QOne; gl_default := Some [49]; gl_loc := (0, 7) |};
                {| gl_name := nb; gl_quant := QOne; gl_default := Some [50]; gl_loc := (1, 7) |} ] [[]]
  = Ok [[(nb, VStr [49])]; []].
Proof. vm_compute. reflexivity. Qed.
