(* Props/C13.v — property theorems only.  Standard-library functions honour their documented
   contracts (Spec/StdlibDoc.v transcribes src/reference/functions.rs).

   Hypotheses used below are boolean predicates / one Prop of Spec/StdlibDoc.v:
     args_valid t args   syntax-node arguments are node ids of the recorded tree whose span lies inside
                         the source and whose parent id is in the tree (what a SyntaxNodeRef built by
                         Graph::add_syntax_node guarantees);
     args_u32 t args     rows, columns, child counts fit u32 (tree-sitter's own types) and list
                         arguments are shorter than 2^32 (the code casts with `as u32`);
     rx_coherent rx      whether Regex::new(pattern) succeeds does not depend on the replacement.  *)
From TSG Require Import Model.Stdlib Spec.StdlibDoc Proofs.BaseFacts Proofs.Stdlib.

(* ---- every function equals its documented contract, for all argument tuples ---- *)
Theorem stdlib_refines_doc : forall rx t f g args,
  rx_coherent rx -> args_valid t args = true -> args_u32 t args = true ->
  agrees (stdlib_call rx t (fn_name f) g args) (doc rx t f g args).
Proof. exact stdlib_refines_doc_lemma. Qed.

(* per function; the ones without hypotheses hold for ALL trees, graphs, oracles and argument lists *)
Theorem eq_refines_doc : forall rx t g args, agrees (stdlib_call rx t (fn_name FEq) g args) (doc rx t FEq g args).
Proof. exact (fun rx t g args => refines_unconditional rx t FEq g args I). Qed.
Theorem is_null_refines_doc : forall rx t g args, agrees (stdlib_call rx t (fn_name FIsNull) g args) (doc rx t FIsNull g args).
Proof. exact (fun rx t g args => refines_unconditional rx t FIsNull g args I). Qed.
Theorem node_refines_doc : forall rx t g args, agrees (stdlib_call rx t (fn_name FNode) g args) (doc rx t FNode g args).
Proof. exact (fun rx t g args => refines_unconditional rx t FNode g args I). Qed.
Theorem not_refines_doc : forall rx t g args, agrees (stdlib_call rx t (fn_name FNot) g args) (doc rx t FNot g args).
Proof. exact (fun rx t g args => refines_unconditional rx t FNot g args I). Qed.
Theorem and_refines_doc : forall rx t g args, agrees (stdlib_call rx t (fn_name FAnd) g args) (doc rx t FAnd g args).
Proof. exact (fun rx t g args => refines_unconditional rx t FAnd g args I). Qed.
Theorem or_refines_doc : forall rx t g args, agrees (stdlib_call rx t (fn_name FOr) g args) (doc rx t FOr g args).
Proof. exact (fun rx t g args => refines_unconditional rx t FOr g args I). Qed.
Theorem plus_refines_doc : forall rx t g args, agrees (stdlib_call rx t (fn_name FPlus) g args) (doc rx t FPlus g args).
Proof. exact (fun rx t g args => refines_unconditional rx t FPlus g args I). Qed.
Theorem format_refines_doc : forall rx t g args, agrees (stdlib_call rx t (fn_name FFormat) g args) (doc rx t FFormat g args).
Proof. exact (fun rx t g args => refines_unconditional rx t FFormat g args I). Qed.
Theorem concat_refines_doc : forall rx t g args, agrees (stdlib_call rx t (fn_name FConcat) g args) (doc rx t FConcat g args).
Proof. exact (fun rx t g args => refines_unconditional rx t FConcat g args I). Qed.
Theorem is_empty_refines_doc : forall rx t g args, agrees (stdlib_call rx t (fn_name FIsEmpty) g args) (doc rx t FIsEmpty g args).
Proof. exact (fun rx t g args => refines_unconditional rx t FIsEmpty g args I). Qed.
Theorem join_refines_doc : forall rx t g args, agrees (stdlib_call rx t (fn_name FJoin) g args) (doc rx t FJoin g args).
Proof. exact (fun rx t g args => refines_unconditional rx t FJoin g args I). Qed.
Theorem replace_refines_doc : forall rx t g args, rx_coherent rx ->
  agrees (stdlib_call rx t (fn_name FReplace) g args) (doc rx t FReplace g args).
Proof. exact replace_refines. Qed.

(* FULL STATEMENT (not provable, refuted by length_wraps_at_2_32 below):
     forall rx t g args, agrees (stdlib_call rx t (fn_name FLength) g args) (doc rx t FLength g args).
   Proved part: lists shorter than 2^32 elements (hypothesis args_u32).  Missing: for a list of 2^32 or
   more elements `list.len() as u32` silently truncates instead of failing. *)
Theorem length_refines_doc_partial : forall rx t g args, args_u32 t args = true ->
  agrees (stdlib_call rx t (fn_name FLength) g args) (doc rx t FLength g args).
Proof. exact length_refines. Qed.
Theorem length_wraps_at_2_32 : forall rx t g l, N.of_nat (length l) = two32 ->
  stdlib_call rx t (fn_name FLength) g [VList l] = Ok (VInt 0, g).
Proof. exact length_wraps_lemma. Qed.

(* the eight syntax functions, relative to the recorded tree (tree-sitter is an external) *)
Theorem named_child_index_refines_doc : forall rx t g args, args_valid t args = true -> args_u32 t args = true ->
  agrees (stdlib_call rx t (fn_name FNamedChildIndex) g args) (doc rx t FNamedChildIndex g args).
Proof. exact (fun rx t g args => syntax_refines rx t FNamedChildIndex g args I). Qed.
Theorem named_child_count_refines_doc : forall rx t g args, args_valid t args = true -> args_u32 t args = true ->
  agrees (stdlib_call rx t (fn_name FNamedChildCount) g args) (doc rx t FNamedChildCount g args).
Proof. exact (fun rx t g args => syntax_refines rx t FNamedChildCount g args I). Qed.
Theorem source_text_refines_doc : forall rx t g args, args_valid t args = true -> args_u32 t args = true ->
  agrees (stdlib_call rx t (fn_name FSourceText) g args) (doc rx t FSourceText g args).
Proof. exact (fun rx t g args => syntax_refines rx t FSourceText g args I). Qed.
Theorem node_type_refines_doc : forall rx t g args, args_valid t args = true -> args_u32 t args = true ->
  agrees (stdlib_call rx t (fn_name FNodeType) g args) (doc rx t FNodeType g args).
Proof. exact (fun rx t g args => syntax_refines rx t FNodeType g args I). Qed.
Theorem start_row_refines_doc : forall rx t g args, args_valid t args = true -> args_u32 t args = true ->
  agrees (stdlib_call rx t (fn_name FStartRow) g args) (doc rx t FStartRow g args).
Proof. exact (fun rx t g args => syntax_refines rx t FStartRow g args I). Qed.
Theorem start_column_refines_doc : forall rx t g args, args_valid t args = true -> args_u32 t args = true ->
  agrees (stdlib_call rx t (fn_name FStartColumn) g args) (doc rx t FStartColumn g args).
Proof. exact (fun rx t g args => syntax_refines rx t FStartColumn g args I). Qed.
Theorem end_row_refines_doc : forall rx t g args, args_valid t args = true -> args_u32 t args = true ->
  agrees (stdlib_call rx t (fn_name FEndRow) g args) (doc rx t FEndRow g args).
Proof. exact (fun rx t g args => syntax_refines rx t FEndRow g args I). Qed.
Theorem end_column_refines_doc : forall rx t g args, args_valid t args = true -> args_u32 t args = true ->
  agrees (stdlib_call rx t (fn_name FEndColumn) g args) (doc rx t FEndColumn g args).
Proof. exact (fun rx t g args => syntax_refines rx t FEndColumn g args I). Qed.

(* ---- names ---- *)
Theorem unknown_function : forall rx t name g args,
  (forall f, name <> fn_name f) -> stdlib_call rx t name g args = Err EUndefinedFunction.
Proof. exact unknown_function_lemma. Qed.

(* ---- arity ---- *)
(* the documented contract rejects every argument count outside the arity table ... *)
Theorem doc_rejects_wrong_arity : forall rx t f g args, arity_ok f (length args) = false -> doc rx t f g args = None.
Proof. exact doc_respects_arity. Qed.
(* ... and for a fixed-arity function the implementation answers a wrong count with an error, which is
   InvalidParameters whenever the arguments present have the documented types (and, for `replace`, the
   pattern compiles) — otherwise the type error of an earlier argument comes first *)
Theorem arity_errors : forall rx t f g args k,
  fixed_arity f = Some k -> length args <> k -> args_valid t args = true ->
  (exists e, stdlib_call rx t (fn_name f) g args = Err e) /\
  (well_typed f args = true -> pattern_ok rx f args = true ->
   stdlib_call rx t (fn_name f) g args = Err EInvalidParameters).
Proof. exact arity_errors_lemma. Qed.

(* ---- no panic, for any name and any arguments; errors are of the eight expected variants ---- *)
Theorem no_panic_stdlib : forall rx t name g args, args_valid t args = true ->
  match stdlib_call rx t name g args with Ok _ | Err _ => True | Panic _ | OutOfFuel => False end.
Proof. exact no_panic_lemma. Qed.
Theorem error_classes : forall rx t name g args e,
  stdlib_call rx t name g args = Err e -> stdlib_error e = true.
Proof. exact error_classes_lemma. Qed.

(* ---- plus: the exact sum or an error, never a wrapped value ---- *)
Theorem plus_no_wrap : forall rx t g args,
  match stdlib_call rx t (fn_name FPlus) g args with
  | Ok (v, g') => exists ns, args = map VInt ns /\ v = VInt (sum ns) /\ sum ns <= u32_max /\ g' = g
  | Err e => (e = EExpectedInteger /\ collect get_int args = None) \/
             (e = EFunctionFailed /\ forall ns, args = map VInt ns -> u32_max < sum ns)
  | _ => False
  end.
Proof. exact plus_no_wrap_lemma. Qed.

(* ---- format: tokenise into Lit c | Hole | Bad, then fill the holes ---- *)
Theorem format_spec : forall rx t g fmt args,
  let call := stdlib_call rx t (fn_name FFormat) g (VStr fmt :: args) in
  let toks := tokenise fmt in
  (existsb is_bad toks = false -> holes toks = length args -> call = Ok (VStr (fill t toks args), g)) /\
  (existsb is_bad toks = false -> holes toks <> length args -> call = Err EInvalidParameters) /\
  (existsb is_bad toks = true -> call = Err EFunctionFailed \/ call = Err EInvalidParameters).
Proof. exact format_spec_lemma. Qed.
Theorem tokenise_no_braces : forall s,
  forallb (fun c => negb (c =? c_open) && negb (c =? c_close)) s = true -> tokenise s = map Lit s.
Proof. exact tokenise_plain. Qed.
Theorem tokenise_braces : forall s,
  tokenise (c_open :: c_open :: s) = Lit c_open :: tokenise s /\
  tokenise (c_close :: c_close :: s) = Lit c_close :: tokenise s /\
  tokenise (c_open :: c_close :: s) = Hole :: tokenise s.
Proof. exact (fun s => conj (tokenise_open s) (conj (tokenise_close s) (tokenise_hole s))). Qed.

(* ---- eq: same-type comparison is Leibniz equality; null compares with anything; else FunctionFailed ---- *)
Theorem eq_spec : forall rx t g a b,
  match stdlib_call rx t (fn_name FEq) g [a; b] with
  | Ok (v, g') => g' = g /\ (is_null a = true \/ is_null b = true \/ tag a = tag b) /\
                  ((v = VBool true /\ a = b) \/ (v = VBool false /\ a <> b))
  | Err e => e = EFunctionFailed /\ is_null a = false /\ is_null b = false /\ tag a <> tag b
  | _ => False
  end.
Proof. exact eq_spec_lemma. Qed.

(* ---- node: the result refers to a node that did not exist, exists afterwards, and nothing else changed ---- *)
Theorem node_fresh : forall rx t g,
  stdlib_call rx t (fn_name FNode) g [] = Ok (VGraph (N.of_nat (length g)), g ++ [new_gnode]) /\
  gnode_at g (N.of_nat (length g)) = None /\
  gnode_at (g ++ [new_gnode]) (N.of_nat (length g)) = Some new_gnode /\
  (forall i x, gnode_at g i = Some x -> gnode_at (g ++ [new_gnode]) i = Some x).
Proof. exact node_fresh_lemma. Qed.

(* ---- named-child-index: "the index that would cause ts_node_named_child to return node" ---- *)
Theorem named_child_index_spec : forall rx t g n x i g',
  node_at t n = Some x ->
  stdlib_call rx t (fn_name FNamedChildIndex) g [VSyn n] = Ok (VInt i, g') ->
  exists p px j, tn_parent x = Some p /\ node_at t p = Some px /\ i = as_u32 j /\ g' = g /\
    nth_error (named_children t px) (N.to_nat j) = Some n /\
    (forall k, (k < N.to_nat j)%nat -> nth_error (named_children t px) k <> Some n).
Proof. exact named_child_index_spec_lemma. Qed.

(* ---- Display of integers (format, join): a decimal numeral without leading zero ---- *)
Theorem dec_roundtrip : forall n, undec (dec n) = n.
Proof. exact dec_roundtrip_lemma. Qed.
Theorem dec_digits : forall n, forallb is_digit (dec n) = true.
Proof. exact dec_digits_lemma. Qed.
Theorem dec_no_leading_zero : forall n, 0 < n -> exists d r, dec n = d :: r /\ d <> 48.
Proof. exact dec_no_leading_zero_lemma. Qed.

(* ---- non-vacuity: the hypotheses are satisfiable on a non-trivial instance, and the contracts
   distinguish the interesting cases ---- *)
Example ex_hypotheses :
  rx_coherent ex_rx /\
  args_valid ex_tree [VSyn 3; VList [VSyn 1]; VInt 7] = true /\
  args_u32 ex_tree [VSyn 3; VList [VSyn 1]; VInt 7] = true.
Proof.
  split; [|split; reflexivity].
  intros text pat r1 r2. unfold ex_rx. destruct (str_eqb pat [40]); [reflexivity | discriminate].
Qed.
Example ex_syntax :
  stdlib_call ex_rx ex_tree Lit.named_child_index [] [VSyn 3] = Ok (VInt 1, []) /\
  stdlib_call ex_rx ex_tree Lit.named_child_index [] [VSyn 2] = Err EFunctionFailed /\
  stdlib_call ex_rx ex_tree Lit.named_child_index [] [VSyn 0] = Err EFunctionFailed /\
  stdlib_call ex_rx ex_tree Lit.source_text [] [VSyn 3] = Ok (VStr [233], []) /\
  stdlib_call ex_rx ex_tree Lit.end_column [] [VSyn 3] = Ok (VInt 4, []) /\
  stdlib_call ex_rx ex_tree Lit.named_child_count [] [VSyn 0] = Ok (VInt 2, []) /\
  stdlib_call ex_rx ex_tree Lit.source_text [] [VSyn 9] = Panic site_syntax_index.
Proof. vm_compute. repeat split; reflexivity. Qed.
Example ex_format :
  (* (format "{}-{{}}{}" 42 [#null, x@3]) *)
  stdlib_call ex_rx ex_tree Lit.format [] [VStr [123; 125; 45; 123; 123; 125; 125; 123; 125]; VInt 42; VList [VNull; VSyn 3]]
    = Ok (VStr ([52; 50; 45; 123; 125] ++ [91; 35; 110; 117; 108; 108; 44; 32] ++ display_syn ex_tree 3 ++ [93]), []) /\
  display_syn ex_tree 3 = [91;115;121;110;116;97;120;32;110;111;100;101;32;105;100;32;40;49;44;32;51;41;93] /\
  tokenise [123; 125; 45; 123; 123; 125; 125; 123; 125] = [Hole; Lit 45; Lit 123; Lit 125; Hole] /\
  stdlib_call ex_rx ex_tree Lit.format [] [VStr [97; 123]] = Err EFunctionFailed /\
  stdlib_call ex_rx ex_tree Lit.format [] [VStr [123; 125]] = Err EInvalidParameters /\
  stdlib_call ex_rx ex_tree Lit.format [] [VStr [97]; VNull] = Err EInvalidParameters.
Proof. vm_compute. repeat split; reflexivity. Qed.
Example ex_plus_eq_node_replace :
  stdlib_call ex_rx ex_tree Lit.plus [] [VInt 4294967294; VInt 1] = Ok (VInt 4294967295, []) /\
  stdlib_call ex_rx ex_tree Lit.plus [] [VInt 4294967295; VInt 1] = Err EFunctionFailed /\
  stdlib_call ex_rx ex_tree Lit.eq [] [VNull; VInt 1] = Ok (VBool false, []) /\
  stdlib_call ex_rx ex_tree Lit.eq [] [VStr [97]; VInt 1] = Err EFunctionFailed /\
  stdlib_call ex_rx ex_tree Lit.eq [] [VList [VInt 1]; VList [VInt 1]] = Ok (VBool true, []) /\
  stdlib_call ex_rx ex_tree Lit.node [new_gnode] [] = Ok (VGraph 1, [new_gnode; new_gnode]) /\
  stdlib_call ex_rx ex_tree Lit.replace [] [VStr [97]; VStr [40]] = Err EFunctionFailed /\
  stdlib_call ex_rx ex_tree Lit.replace [] [VStr [97]; VStr [97]] = Err EInvalidParameters /\
  stdlib_call ex_rx ex_tree Lit.length [] [VList []; VNull] = Err EInvalidParameters /\
  stdlib_call ex_rx ex_tree Lit.not [] [VInt 1; VNull] = Err EExpectedBoolean.
Proof. vm_compute. repeat split; reflexivity. Qed.
