(* Props/C12.v — property theorems only.
   Results are deterministic and a loaded file is reusable without cross-talk.

   What a Coq model can carry of this property is the HASH-ORDER half: the implementation keeps
   attributes, shorthands, scoped variables, used captures, ... in HashMap/HashSet, whose iteration order
   differs between instances, runs and processes.  Below, for every place where /repo/src iterates such a
   container (inventory in Model/HashOrder.v), the observable result is shown to be the same for EVERY
   iteration order: the order is an arbitrary `Permutation` of the association list that models the
   container, keys unique (`NoDup (map fst l)`).

   FULL STATEMENT (DESIGN §7 C12), not proved in this form:
     hash_order_irrelevant : forall pi pi' (iteration oracles for every hash container),
        observe (load pi text) = observe (load pi' text) /\
        observe (run pi file tree globals functions) = observe (run pi' file tree globals functions).
   The interpreter models (Strict.v/Lazy.v) and the checker fragment take no oracle at all: they sort where
   the code sorts and otherwise only look containers up by key.  `hash_order_irrelevant_partial` bundles the
   site-wise theorems that justify this; what is missing for the full statement is (1) a model of the
   loader (parser+checker) as a whole and (2) a simulation argument through the complete interpreters for
   stores that differ by a permutation (LazyMeta's predicate is unary; a relational version was not built).

   `execute_is_a_function` is NOT a theorem: `run_strict`/`run_lazy` (Model/Strict.v, Model/Lazy.v) take
   every input explicitly (file, tree, config, globals, budget, regexes, function table, fuel, matches,
   initial graph) and Gallina has no other state, so `forall inputs, run inputs = run inputs` would be
   vacuous.  Its content is that the MODEL has no hidden state; that the CODE has none either (no state
   left in the `File`, the function table, a `static`, thread-shared data, the process hash seed) can only
   be exhibited by running it: stream C12 of harness/src/c12.rs — repeated loads, repeated and interleaved
   executions of one loaded `File`, 8 threads sharing one `&File`, caller's `Variables`/`Functions` before
   and after, and 3 separate OS processes given the same seed.  Thread schedules and per-process
   `RandomState` are explored dynamically only. *)
From TSG Require Import Model.HashOrder Model.Run Proofs.BaseFacts Proofs.OrderFacts Proofs.Containers Proofs.JsonFacts Proofs.PrettyFacts Proofs.HashOrder.
From Coq Require Import Sorted Permutation.

(* ---------------- the order used for sorting ---------------- *)

(* `Ord for Identifier/String` (byte order = code-point order) is a strict total order *)
Theorem str_order_strict_total : forall a b c,
  (str_cmp a b = Eq <-> a = b) /\
  str_cmp b a = CompOpp (str_cmp a b) /\
  (str_cmp a b = Lt -> str_cmp b c = Lt -> str_cmp a c = Lt).
Proof. exact str_order_lemma. Qed.

(* `keys.sort()` on distinct keys forgets the order in which the hash container yielded them *)
Theorem sort_order_irrelevant : forall (V : Type) (l l' : list (ident * V)),
  Permutation l l' -> NoDup (map fst l) -> sort_alist l = sort_alist l'.
Proof. intros V l l'. exact (sort_alist_perm_eq l l'). Qed.

(* ---------------- 1. Display for Attributes / pretty_print ---------------- *)

Theorem pretty_order_irrelevant : forall E (m m' : amap),
  Permutation m m' -> NoDup (map fst m) -> attr_lines E m = attr_lines E m'.
Proof. exact attr_lines_perm. Qed.

(* whole graphs: g' lists every attribute map of g (nodes and edges) in another order *)
Theorem pretty_graph_order_irrelevant : forall E g g', graph_wf g -> graph_eqv g g' ->
  pretty_lines E g = pretty_lines E g' /\ pretty_text E g = pretty_text E g'.
Proof. exact pretty_graph_perm_lemma. Qed.

(* the canonical graph observation compared by every correspondence stream *)
Theorem canon_graph_order_irrelevant : forall g g', graph_wf g -> graph_eqv g g' -> canon_graph g = canon_graph g'.
Proof. exact canon_graph_perm_lemma. Qed.

(* ---------------- 2. Serialize for Attributes (JSON) ---------------- *)

(* The two encodings differ only in the order of object members (jperm); with members sorted by key they
   are IDENTICAL; and whatever further member order a serializer picks for g', decoding (C14
   json_member_order_irrelevant) gives a graph with the same attribute maps as g. *)
Theorem json_order_irrelevant : forall g g', graph_wf g -> graph_eqv g g' ->
  jsort (encode_graph g) = jsort (encode_graph g') /\
  jperm (encode_graph g) (encode_graph g') /\
  (forall j', jperm (encode_graph g') j' ->
     exists g'', decode_graph j' = Some g'' /\ graph_eqv g g'' /\ graph_same_maps g g'').
Proof. exact json_graph_perm_lemma. Qed.

(* ---------------- 3. the unused-captures diagnostic ---------------- *)

(* both hash sets in any order: same list of names, same message (or same absence of the error) *)
Theorem unused_captures_order_irrelevant : forall all all' used used',
  Permutation all all' -> Permutation used used' -> NoDup all ->
  unused_names all used = unused_names all' used' /\ unused_message all used = unused_message all' used'.
Proof. exact unused_names_perm_lemma. Qed.

(* and the list is what the rule says: '@' + every capture that is neither used nor '_'-prefixed *)
Theorem unused_captures_spec : forall all used s,
  In s (unused_names all used) <->
  exists c, s = 64 :: c /\ In c all /\ ~ In c used /\ starts_with_underscore c = false.
Proof. exact unused_names_spec_lemma. Qed.

(* ---------------- 4. LazyScopedVariables::evaluate_all ---------------- *)

Theorem sorted_names_perm : forall (V : Type) (l l' : list (ident * V)),
  Permutation l l' -> NoDup (map fst l) -> map fst (sort_alist l) = map fst (sort_alist l').
Proof. intros V l l'. exact (sorted_names_perm_lemma l l'). Qed.

(* Two lazy stores holding the same cells in different hash orders: evaluate_all forces the SAME
   strictly ascending list of names in both (it is the iteration of `force_one` over that list) ... *)
Theorem lazy_force_order_irrelevant : forall t fl call fuel (s s' : lstate) p p',
  Permutation (l_scoped s) (l_scoped s') -> NoDup (map fst (l_scoped s)) ->
  exists names,
    StronglySorted str_lt names /\ Permutation (map fst (l_scoped s)) names /\
    scoped_evaluate_all t fl call fuel s p = iterM (force_one t fl call fuel) names s p /\
    scoped_evaluate_all t fl call fuel s' p' = iterM (force_one t fl call fuel) names s' p'.
Proof. exact lazy_force_order_lemma. Qed.

(* ... and an iteration reports the error of the first element, in list order, whose body fails: with
   two faulty scoped variables the reported one is the smaller name, whatever the hash order *)
Theorem first_failing_name_reported : forall (S A : Type) (f : A -> M S unit) pre x post s p s1 p1 e,
  iterM f pre s p = Ok (tt, s1, p1) -> f x s1 p1 = Err e -> iterM f (pre ++ x :: post) s p = Err e.
Proof. intros S A. exact (@iterM_first_error S A). Qed.

(* ---------------- 5. containers that are only looked up by key ---------------- *)

Theorem alist_get_perm : forall (V : Type) (l l' : list (ident * V)) k,
  Permutation l l' -> NoDup (map fst l) -> alist_get k l = alist_get k l'.
Proof. intros V l l' k. exact (alist_get_perm_lemma l l' k). Qed.

(* File.inherited_variables (HashSet): membership *)
Theorem inherited_perm : forall (name : ident) (l l' : list ident),
  Permutation l l' -> existsb (str_eqb name) l = existsb (str_eqb name) l'.
Proof. intros name l l'. exact (existsb_perm_lemma (str_eqb name) l l'). Qed.

(* forced scoped cells: HashMap<SyntaxNodeID, LazyValue> *)
Theorem nmap_get_perm : forall (m m' : list (N * lvalue)) n,
  Permutation m m' -> NoDup (map fst m) -> nmap_get m n = nmap_get m' n.
Proof. exact nmap_get_perm_lemma. Qed.

(* ---------------- the bundle (see the header for the full statement and what is missing) ---------------- *)
Theorem hash_order_irrelevant_partial :
  (* sorted iteration sites *)
  (forall E g g', graph_wf g -> graph_eqv g g' -> pretty_text E g = pretty_text E g') /\
  (forall g g', graph_wf g -> graph_eqv g g' -> jsort (encode_graph g) = jsort (encode_graph g')) /\
  (forall all all' used used', Permutation all all' -> Permutation used used' -> NoDup all ->
     unused_message all used = unused_message all' used') /\
  (forall (cells cells' : list (ident * scoped_values)), Permutation cells cells' -> NoDup (map fst cells) ->
     scoped_force_order cells = scoped_force_order cells') /\
  (* lookup-only containers *)
  (forall (V : Type) (l l' : list (ident * V)) k, Permutation l l' -> NoDup (map fst l) -> alist_get k l = alist_get k l') /\
  (forall name (l l' : list ident), Permutation l l' -> existsb (str_eqb name) l = existsb (str_eqb name) l').
Proof.
  split; [intros E g g' Hw He; exact (proj2 (pretty_graph_perm_lemma E g g' Hw He))|].
  split; [intros g g' Hw He; exact (proj1 (json_graph_perm_lemma g g' Hw He))|].
  split; [intros all all' used used' Ha Hu Hn; exact (proj2 (unused_names_perm_lemma all all' used used' Ha Hu Hn))|].
  split; [intros cells cells'; exact (sorted_names_perm_lemma cells cells')|].
  split; [intros V l l' k; exact (alist_get_perm_lemma l l' k)|].
  intros name l l'. exact (existsb_perm_lemma (str_eqb name) l l').
Qed.

(* ---------------- non-vacuity ---------------- *)
(* attribute map {zeta: 1, alpha: "a", mid: [#null]} in two hash orders *)
Definition ex_m : amap := [([122;101;116;97], VInt 1); ([97;108;112;104;97], VStr [97]); ([109;105;100], VList [VNull])].
Definition ex_m' : amap := [([109;105;100], VList [VNull]); ([122;101;116;97], VInt 1); ([97;108;112;104;97], VStr [97])].
Definition ex_E : penv := {| pe_syn := []; pe_print := [] |}.

Example ex_perm : Permutation ex_m ex_m' /\ NoDup (map fst ex_m) /\ ex_m <> ex_m'.
Proof.
  split; [|split].
  - unfold ex_m, ex_m'. eapply Permutation_trans; [apply perm_skip, perm_swap|]. apply perm_swap.
  - repeat constructor; cbn [In]; intuition discriminate.
  - discriminate.
Qed.
Example ex_sorted_same :
  sort_alist ex_m = sort_alist ex_m' /\
  map fst (sort_alist ex_m) = [[97;108;112;104;97]; [109;105;100]; [122;101;116;97]] /\
  length (attr_lines ex_E ex_m) = 3%nat.
Proof. vm_compute. repeat split; reflexivity. Qed.

(* a graph and the same graph with permuted attribute lists on a node and on an edge *)
Definition ex_g : graph := [ {| g_attrs := ex_m; g_edges := [(1, ex_m)] |}; new_gnode ].
Definition ex_g' : graph := [ {| g_attrs := ex_m'; g_edges := [(1, ex_m')] |}; new_gnode ].
Example ex_graph_hyps : graph_wf ex_g /\ graph_eqv ex_g ex_g' /\ ex_g <> ex_g'.
Proof.
  assert (Hnd : NoDup (map fst ex_m)) by apply ex_perm.
  assert (Hp : Permutation ex_m ex_m') by apply ex_perm.
  split; [|split].
  - repeat constructor; try exact Hnd; cbn [map fst In]; intuition discriminate.
  - repeat constructor; cbn [g_attrs g_edges fst snd]; try exact Hp; try reflexivity.
  - discriminate.
Qed.
Example ex_graph_same_output :
  pretty_text ex_E ex_g = pretty_text ex_E ex_g' /\ length (pretty_lines ex_E ex_g) = 9%nat /\
  encode_graph ex_g <> encode_graph ex_g' /\ jsort (encode_graph ex_g) = jsort (encode_graph ex_g').
Proof.
  split; [vm_compute; reflexivity|]. split; [vm_compute; reflexivity|].
  split; [intros H; vm_compute in H; discriminate | vm_compute; reflexivity].
Qed.

(* unused captures: all = {name, _skip, body, def, zz}, used = {def}, in two orders each *)
Definition ex_all : list ident := [[110;97;109;101]; [95;115;107;105;112]; [98;111;100;121]; [100;101;102]; [122;122]].
Definition ex_all' : list ident := [[122;122]; [100;101;102]; [110;97;109;101]; [98;111;100;121]; [95;115;107;105;112]].
Example ex_unused :
  unused_message ex_all [[100;101;102]] = Some [64;98;111;100;121;32;64;110;97;109;101;32;64;122;122]    (* "@body @name @zz" *)
  /\ unused_message ex_all' [[100;101;102]] = unused_message ex_all [[100;101;102]]
  /\ unused_unsorted ex_all [[100;101;102]] <> unused_unsorted ex_all' [[100;101;102]]                    (* the unsorted vectors differ *)
  /\ unused_message ex_all ex_all = None.
Proof. vm_compute. repeat split; try reflexivity. intros H; discriminate. Qed.

(* the Coq-evaluated component of the stream is not constantly 0 *)
Example ex_verdict_detects :
  c12_verdict 0 (C12Unused ex_all [[100;101;102]] (Some [64;98;111;100;121;32;64;110;97;109;101;32;64;122;122])) = 0 /\
  c12_verdict 0 (C12Unused ex_all [[100;101;102]] (Some [64;122;122;32;64;98;111;100;121;32;64;110;97;109;101])) = 32 /\
  c12_verdict 5 C12None = 5.
Proof. vm_compute. repeat split; reflexivity. Qed.
