(* Props/C10.v — property theorems only.
   C10: scan runs arms for the leftmost match, earlier arm first, and always advances.

   All scan theorems hold for an ARBITRARY regex engine `find` that only satisfies `find_wf`
   (a reported whole match is an ordered span inside the haystack); `rx_captures_wf` discharges
   that hypothesis for the executable matcher used by the correspondence streams. *)
From TSG Require Import Model.Scan Spec.ScanSpec Proofs.Scan Proofs.Regex.

(* The loop computes exactly the declarative sequence: at each position the match that starts
   earliest, the earlier arm on ties, `$0..$n` bound to the group texts (unmatched = ""), continue
   after its end, stop when nothing matches or the string is exhausted; an empty match is the
   error status for the first such arm.  Any fuel above the remaining length gives the same answer. *)
Theorem scan_spec : forall find, find_wf find ->
  forall arms s fuel i evs f,
    (N.to_nat (str_len s - i) < fuel)%nat ->
    (ScanSeq find arms s i evs f <-> scan_loop find fuel arms s i = (evs, f)).
Proof. exact loop_complete. Qed.

(* ... and that sequence is unique: the specification determines the events and the final status *)
Theorem scan_spec_unique : forall find arms s i evs f,
  ScanSeq find arms s i evs f -> forall evs' f', ScanSeq find arms s i evs' f' -> evs = evs' /\ f = f'.
Proof. exact ScanSeq_unique. Qed.

(* every executed arm has end > start, starts at or after the previous end and ends inside the
   string: the position strictly increases *)
Theorem scan_progress : forall find, find_wf find ->
  forall arms s fuel i evs f, scan_loop find fuel arms s i = (evs, f) -> ev_chain s i evs.
Proof. exact loop_chain. Qed.

(* fuel |s| + 1 suffices from the start (|s| - i + 1 from position i): never OutOfFuel *)
Theorem scan_terminates : forall find, find_wf find ->
  forall arms s fuel i, (N.to_nat (str_len s - i) < fuel)%nat -> snd (scan_loop find fuel arms s i) <> SOutOfFuel.
Proof. exact loop_terminates. Qed.

(* an empty match at a position the loop reaches is the error (for the first arm, in order, whose
   match is empty), no arm block runs there; and an arm that IS selected has a non-empty match *)
Theorem empty_match_is_error : forall find, find_wf find ->
  forall arms s fuel i k a g,
    i < str_len s -> arm_match find arms s i k a a g ->
    exists k', k' <= k /\ scan_loop find (S fuel) arms s i = ([], SErrEmpty k') /\
               (exists a' g', arm_match find arms s i k' a' a' g') /\
               scan_select find arms (str_skip i s) = SelEmpty k'.
Proof. exact empty_match_error. Qed.

Theorem selected_arm_is_nonempty : forall find, find_wf find ->
  forall arms suffix k c,
    scan_select find arms suffix = SelArm k c ->
    exists a b g, c = Some (a, b) :: g /\ a < b /\ b <= str_len suffix /\
      (exists r, nth_error arms (N.to_nat k) = Some r /\ find r suffix = Some c).
Proof. exact selected_arm_nonempty. Qed.

(* the checker rule: an arm whose regex matches "" is rejected (NullableRegex); the check accepts
   exactly when no arm matches ""; and whatever passes is still guarded at run time *)
Theorem nullable_rejected_then_guard : forall find, find_wf find ->
  forall arms,
    (forall r, In r arms -> find r [] <> None -> scan_check find arms <> None) /\
    (scan_check find arms = None <-> forall r, In r arms -> find r [] = None) /\
    (forall s fuel i k a g, i < str_len s -> arm_match find arms s i k a a g ->
       exists k', k' <= k /\ scan_loop find (S fuel) arms s i = ([], SErrEmpty k')).
Proof. exact nullable_rejected_then_guard_lemma. Qed.

(* `$k` is the k-th capture string, out of range is UndefinedRegexCapture, identically in both
   modes; the capture strings are the group texts, "" for a group that did not participate *)
Theorem regex_capture_lookup : forall (current : list str) (k : N),
  regex_capture_strict current k = regex_capture_lazy current k /\
  match nth_error current (N.to_nat k) with
  | Some t => regex_capture_strict current k = Ok (VStr t)
  | None => regex_capture_strict current k = Err EUndefinedRegexCapture
  end /\
  ((N.to_nat k < length current)%nat \/ regex_capture_lazy current k = Err EUndefinedRegexCapture).
Proof. exact regex_capture_lookup_lemma. Qed.

Theorem capture_strings : forall suffix c k,
  length (captures_text suffix c) = length c /\
  nth_error (captures_text suffix c) k =
    match nth_error c k with
    | Some (Some (a, b)) => Some (substr suffix a b)
    | Some None => Some []
    | None => None
    end.
Proof. exact capture_strings_lemma. Qed.

(* the executable matcher is a well-formed engine: group 0 always present (the
   `expect("missing regex capture")` sites are unreachable), every span ordered and inside the
   string, exactly 1 + rx_ngroups entries *)
Theorem rx_captures_wf : find_wf rx_captures.
Proof. exact rx_captures_find_wf. Qed.

Theorem rx_captures_group0 : forall r s l,
  rx_captures r s = Some l ->
  Forall (cap_ok (str_len s)) l /\ length l = S (N.to_nat (rx_ngroups r)) /\ exists a b g, l = Some (a, b) :: g.
Proof. exact rx_captures_ok. Qed.

(* hence the model used by the correspondence stream satisfies the specification *)
Theorem scan_spec_rx : forall arms s evs f,
  ScanSeq rx_captures arms s 0 evs f <-> scan_loop rx_captures (S (length s)) arms s 0 = (evs, f).
Proof. exact scan_spec_rx_lemma. Qed.

(* ---------------- non-vacuity ---------------- *)
(* arms  0: (a)(b)?   1: a   2: b     subject "ab/a"
   position 0: arms 0 and 1 both start at 0 -> arm 0 (earlier arm on the tie), $0="ab" $1="a" $2="b";
   position 2: suffix "/a": arms 0 and 1 both match [1,2) -> arm 0 again, its optional group did not
   participate: $2 = "" *)
Definition ex_arms : list regex :=
  [RSeq (RGrp 1 (RChr 97)) (ROpt (RGrp 2 (RChr 98))); RChr 97; RChr 98].
Definition ex_subject : str := [97; 98; 47; 97].

Example c10_tie_and_unmatched_group :
  scan_loop rx_captures 5 ex_arms ex_subject 0 =
  ([(0, 0, 2, [[97; 98]; [97]; [98]]); (0, 3, 4, [[97]; [97]; []])], SDone).
Proof. vm_compute. reflexivity. Qed.

Example c10_tie_is_a_tie :
  rx_captures (RChr 97) ex_subject = Some [Some (0, 1)] /\
  rx_captures (RSeq (RGrp 1 (RChr 97)) (ROpt (RGrp 2 (RChr 98)))) ex_subject = Some [Some (0, 2); Some (0, 1); Some (1, 2)] /\
  rx_captures (RSeq (RGrp 1 (RChr 97)) (ROpt (RGrp 2 (RChr 98)))) (str_skip 2 ex_subject) = Some [Some (1, 2); Some (1, 2); None].
Proof. vm_compute. repeat split. Qed.

(* the same run satisfies the declarative specification (through scan_spec_rx) *)
Example c10_spec_instance :
  ScanSeq rx_captures ex_arms ex_subject 0
    [(0, 0, 2, [[97; 98]; [97]; [98]]); (0, 3, 4, [[97]; [97]; []])] SDone.
Proof. apply scan_spec_rx. vm_compute. reflexivity. Qed.

(* `\b` passes the static check (it does not match "") but matches empty inside "a-": run-time error;
   with an arm `-` in front the error still names the `\b` arm, and no arm ran *)
Example c10_word_boundary_guard :
  scan_check rx_captures [RChr 45; RWb] = None /\
  scan_loop rx_captures 3 [RChr 45; RWb] [97; 45] 0 = ([], SErrEmpty 1).
Proof. vm_compute. split; reflexivity. Qed.

(* a statically nullable arm is rejected: a* matches "" *)
Example c10_nullable_rejected : scan_check rx_captures [RChr 97; RStar (RChr 97)] = Some 1.
Proof. vm_compute. reflexivity. Qed.

(* `$k` beyond the group count *)
Example c10_capture_out_of_range :
  regex_capture_strict [[97; 98]; [97]; []] 2 = Ok (VStr []) /\
  regex_capture_lazy [[97; 98]; [97]; []] 3 = Err EUndefinedRegexCapture.
Proof. vm_compute. split; reflexivity. Qed.
