(* Props/C10.v — property theorems only.
   C10: scan runs arms for the leftmost match, earlier arm first, and always advances.

   All scan theorems hold for an ARBITRARY regex engine `find` that only satisfies `find_wf`
   (a reported whole match is an ordered span inside the haystack); `rx_captures_wf` discharges
   that hypothesis for the executable matcher used by the correspondence streams. *)
From TSG Require Import Model.Scan Spec.ScanSpec Proofs.Scan Proofs.Regex.

(* The loop computes exactly the declarative sequence: at each position the match that starts
   earliest, the earlier arm on ties, `$0..$n` bound to the group texts (unmatched = ""), continue
   after its end, stop when nothing matches or the string is exhausted; an empty match is the
   error status for the first such arm.  Any fuel above the remaining length gives the same answer. *)
Theorem scan_spec : forall find, find_wf find ->
  forall arms s fuel i evs f,
    (N.to_nat (str_len s - i) < fuel)%nat ->
    (ScanSeq find arms s i evs f <-> scan_loop find fuel arms s i = (evs, f)).
Proof. exact loop_complete. Qed.

(* ... and that sequence is unique: the specification determines the events and the final status *)
Theorem scan_spec_unique : forall find arms s i evs f,
  ScanSeq find arms s i evs f -> forall evs' f', ScanSeq find arms s i evs' f' -> evs = evs' /\ f = f'.
Proof. exact ScanSeq_unique. Qed.

(* every executed arm has end > start, starts at or after the previous end and ends inside the
   string: the position strictly increases *)
Theorem scan_progress : forall find, find_wf find ->
  forall arms s fuel i evs f, scan_loop find fuel arms s i = (evs, f) -> ev_chain s i evs.
Proof. exact loop_chain. Qed.

(* fuel |s| + 1 suffices from the start (|s| - i + 1 from position i): never OutOfFuel *)
Theorem scan_terminates : forall find, find_wf find ->
  forall arms s fuel i, (N.to_nat (str_len s - i) < fuel)%nat -> snd (scan_loop find fuel arms s i) <> SOutOfFuel.
Proof. exact loop_terminates. Qed.

(* an empty match at a position the loop reaches is the error (for the first arm, in order, whose
   match is empty), no arm block runs there; and an arm that IS selected has a non-empty match *)
Theorem empty_match_is_error : forall find, find_wf find ->
  forall arms s fuel i k a g,
    i < str_len s -> arm_match find arms s i k a a g ->
    exists k', k' <= k /\ scan_loop find (S fuel) arms s i = ([], SErrEmpty k') /\
               (exists a' g', arm_match find arms s i k' a' a' g') /\
               scan_select find arms (str_skip i s) = SelEmpty k'.
Proof. exact empty_match_error. Qed.

Theorem selected_arm_is_nonempty : forall find, find_wf find ->
  forall arms suffix k c,
    scan_select find arms suffix = SelArm k c ->
    exists a b g, c = Some (a, b) :: g /\ a < b /\ b <= str_len suffix /\
      (exists r, nth_error arms (N.to_nat k) = Some r /\ find r suffix = Some c).
Proof. exact selected_arm_nonempty. Qed.

(* the checker rule: an arm whose regex matches "" is rejected (NullableRegex); the check accepts
   exactly when no arm matches ""; and whatever passes is still guarded at run time *)
Theorem nullable_rejected_then_guard : forall find, find_wf find ->
  forall arms,
    (forall r, In r arms -> find r [] <> None -> scan_check find arms <> None) /\
    (scan_check find arms = None <-> forall r, In r arms -> find r [] = None) /\
    (forall s fuel i k a g, i < str_len s -> arm_match find arms s i k a a g ->
       exists k', k' <= k /\ scan_loop find (S fuel) arms s i = ([], SErrEmpty k')).
Proof. exact nullable_rejected_then_guard_lemma. Qed.

(* `$k` is the k-th capture string, out of range is UndefinedRegexCapture, identically in both
   modes; the capture strings are the group texts, "" for a group that did not participate *)
Theorem regex_capture_lookup : forall (current : list str) (k : N),
  regex_capture_strict current k = regex_capture_lazy current k /\
  match nth_error current (N.to_nat k) with
  | Some t => regex_capture_strict current k = Ok (VStr t)
  | None => regex_capture_strict current k = Err EUndefinedRegexCapture
  end /\
  ((N.to_nat k < length current)%nat \/ regex_capture_lazy current k = Err EUndefinedRegexCapture).
Proof. exact regex_capture_lookup_lemma. Qed.

Theorem capture_strings : forall suffix c k,
  length (captures_text suffix c) = length c /\
  nth_error (captures_text suffix c) k =
    match nth_error c k with
    | Some (Some (a, b)) => Some (substr suffix a b)
    | Some None => Some []
    | None => None
    end.
Proof. exact capture_strings_lemma. Qed.

(* the executable matcher is a well-formed engine: group 0 always present (the
   `expect("missing regex capture")` sites are unreachable), every span ordered and inside the
   string, exactly 1 + rx_ngroups entries *)
Theorem rx_captures_wf : find_wf rx_captures.
Proof. exact rx_captures_find_wf. Qed.

Theorem rx_captures_group0 : forall r s l,
  rx_captures r s = Some l ->
  Forall (cap_ok (str_len s)) l /\ length l = S (N.to_nat (rx_ngroups r)) /\ exists a b g, l = Some (a, b) :: g.
Proof. exact rx_captures_ok. Qed.

(* hence the model used by the correspondence stream satisfies the specification *)
Theorem scan_spec_rx : forall arms s evs f,
  ScanSeq rx_captures arms s 0 evs f <-> scan_loop rx_captures (S (length s)) arms s 0 = (evs, f).
Proof. exact scan_spec_rx_lemma. Qed.

(* ---------------- non-vacuity ---------------- *)
(* arms  0: (a)(b)?   1: a   2: b     subject "ab/a"
   position 0: arms 0 and 1 both start at 0 -> arm 0 (earlier arm on the tie), $0="ab" $1="a" $2="b";
   position 2: suffix "/a": arms 0 and 1 both match [1,2) -> arm 0 again, its optional group did not
   participate: $2 = "" *)
Definition ex_arms : list regex :=
  [RSeq (RGrp 1 (RChr 97)) (ROpt (RGrp 2 (RChr 98))); RChr 97; RChr 98].
Definition ex_subject : str := [97; 98; 47; 97].

Example c10_tie_and_unmatched_group :
  scan_loop rx_captures 5 ex_arms ex_subject 0 =
  ([(0, 0, 2, [[97; 98]; [97]; [98]]); (0, 3, 4, [[97]; [97]; []])], SDone).
Proof. vm_compute. reflexivity. Qed.

Example c10_tie_is_a_tie :
  rx_captures (RChr 97) ex_subject = Some [Some (0, 1)] /\
  rx_captures (RSeq (RGrp 1 (RChr 97)) (ROpt (RGrp 2 (RChr 98)))) ex_subject = Some [Some (0, 2); Some (0, 1); Some (1, 2)] /\
  rx_captures (RSeq (RGrp 1 (RChr 97)) (ROpt (RGrp 2 (RChr 98)))) (str_skip 2 ex_subject) = Some [Some (1, 2); Some (1, 2); None].
Proof. vm_compute. repeat split. Qed.

(* the same run satisfies the declarative specification (through scan_spec_rx) *)
Example c10_spec_instance :
  ScanSeq rx_captures ex_arms ex_subject 0
    [(0, 0, 2, [[97; 98]; [97]; [98]]); (0, 3, 4, [[97]; [97]; []])] SDone.
Proof. apply scan_spec_rx. vm_compute. reflexivity. Qed.

(* `\b` passes the static check (it does not match "") but matches empty inside "a-": run-time error;
   with an arm `-` in front the error still names the `\b` arm, and no arm ran *)
Example c10_word_boundary_guard :
  scan_check rx_captures [RChr 45; RWb] = None /\
  scan_loop rx_captures 3 [RChr 45; RWb] [97; 45] 0 = ([], SErrEmpty 1).
Proof. vm_compute. split; reflexivity. Qed.

(* a statically nullable arm is rejected: a* matches "" *)
Example c10_nullable_rejected : scan_check rx_captures [RChr 97; RStar (RChr 97)] = Some 1.
Proof. vm_compute. reflexivity. Qed.

(* `$k` beyond the group count *)
Example c10_capture_out_of_range :
  regex_capture_strict [[97; 98]; [97]; []] 2 = Ok (VStr []) /\
  regex_capture_lazy [[97; 98]; [97]; []] 3 = Err EUndefinedRegexCapture.
Proof. vm_compute. split; reflexivity. Qed.

(* ================= the scan loops of the INTERPRETER models ================= *)
(* Everything above is about Model/Scan.v.  Model/Strict.v (`scan_loop`, with `arm_select` of
   Model/Exec.v) and Model/Lazy.v (`lscan_loop`) have their own loops; the theorems below link them
   to Model/Scan.v, for an arbitrary engine that reports group 0 for every match (`find_group0`:
   true of the regex crate and of `rx_captures`, see rx_captures_group0 — Model/Scan.v treats a
   match without group 0 as no match, arm_select as an empty match, the code panics; unreachable).
   `strict_scan_fold` / `lazy_scan_fold` (Spec/ScanRun.v): for each event (k, start, end, texts) of
   Model/Scan.v — poll, push a frame, run the body of arm k with `$0..$n` = texts, pop, continue at
   `end`; after the last event: stop / EmptyRegexCapture / out of fuel as the final status says.
   Equalities are pointwise in the state and poll state of the interpreter monad. *)
From TSG Require Import Model.Strict Model.Lazy Spec.ScanRun Proofs.ScanLink.

(* the strict loop = fold of the arm bodies over the events Model/Scan.v computes: same selection
   (earliest start, first arm on ties), same advance, same empty-match error, same fuel use *)
Theorem strict_scan_refines_scan_model : forall find, find_group0 find ->
  forall run_arm arms rs subject fuel i st p,
    Strict.scan_loop find run_arm arms rs subject fuel i st p =
    strict_scan_fold run_arm arms subject i
      (fst (Scan.scan_loop find fuel rs subject i)) (snd (Scan.scan_loop find fuel rs subject i)) st p.
Proof. exact strict_scan_refines. Qed.

(* the lazy loop likewise; it polls once per arm examined (all arms, or up to the first empty match) *)
Theorem lazy_scan_refines_scan_model : forall find, find_group0 find ->
  forall run_arm arms rs subject fuel i st p,
    lscan_loop find run_arm arms rs subject fuel i st p =
    lazy_scan_fold run_arm arms (length rs) subject i
      (fst (Scan.scan_loop find fuel rs subject i)) (snd (Scan.scan_loop find fuel rs subject i)) st p.
Proof. exact lazy_scan_refines. Qed.

(* the arm-selection step both interpreters use is `scan_select` of Model/Scan.v *)
Theorem arm_select_is_scan_select : forall find, find_group0 find ->
  forall rs suffix,
    arm_select find rs suffix =
    match scan_select find rs suffix with
    | SelNone => ASelNone
    | SelEmpty k => ASelEmpty k
    | SelArm k g => ASelArm k g
    end.
Proof. exact arm_select_scan_select. Qed.

(* the `scan` STATEMENT of exec_stmt / lexec_stmt: subject evaluated, arm table looked up, then the
   fold over the events of Model/Scan.v at the fuel the interpreters pass (|subject| + 1, position 0);
   `strict_arm_runner` / `lazy_arm_runner` = the nested-block runner of the statement *)
Theorem strict_scan_stmt_refines_scan_model : forall t fl cfg glob regexes find call, find_group0 find ->
  forall fuel le value arms l st p,
    exec_stmt t fl cfg glob regexes find call (S fuel) le (SScan value arms l) st p =
    (poll L_exec_stmt ;;;
     sv <- eval t fl glob call fuel le value ;; subject <- lift (as_str sv) ;;
     match arm_table regexes arms with
     | None => panic P_regex_table
     | Some rs =>
         let r := Scan.scan_loop find (S (length subject)) rs subject 0 in
         strict_scan_fold (strict_arm_runner t fl cfg glob regexes find call fuel le) arms subject 0 (fst r) (snd r)
     end) st p.
Proof. exact strict_scan_stmt_refines_lemma. Qed.

Theorem lazy_scan_stmt_refines_scan_model : forall t fl cfg glob regexes find call, find_group0 find ->
  forall fuel le value arms l st p,
    lexec_stmt t fl cfg glob regexes find call (S fuel) le (SScan value arms l) st p =
    (lpoll L_exec_stmt ;;;
     sv <- leager t fl glob call fuel le value ;; subject <- lift (as_str sv) ;;
     match arm_table regexes arms with
     | None => panic P_regex_table
     | Some rs =>
         let r := Scan.scan_loop find (S (length subject)) rs subject 0 in
         lazy_scan_fold (lazy_arm_runner t fl cfg glob regexes find call fuel le) arms (length rs) subject 0 (fst r) (snd r)
     end) st p.
Proof. exact lazy_scan_stmt_refines_lemma. Qed.

(* ---- the headline results as corollaries about the interpreters ---- *)
(* scan_spec + scan_spec_unique + scan_terminates: with fuel above the remaining length (the
   interpreters pass |subject| + 1 at position 0) the interpreter's loop is the fold over THE
   declarative sequence ScanSeq; the loop itself does not run out of fuel (final status <> SOutOfFuel;
   only an arm body can) *)
Theorem strict_scan_spec : forall find, find_wf find -> find_group0 find ->
  forall rs subject fuel i, (N.to_nat (str_len subject - i) < fuel)%nat ->
    exists evs f,
      ScanSeq find rs subject i evs f /\ ev_chain subject i evs /\ f <> SOutOfFuel /\
      (forall evs' f', ScanSeq find rs subject i evs' f' -> evs' = evs /\ f' = f) /\
      forall run_arm arms st p,
        Strict.scan_loop find run_arm arms rs subject fuel i st p = strict_scan_fold run_arm arms subject i evs f st p.
Proof. intros find W G. exact (strict_scan_spec_lemma find G W). Qed.

Theorem lazy_scan_spec : forall find, find_wf find -> find_group0 find ->
  forall rs subject fuel i, (N.to_nat (str_len subject - i) < fuel)%nat ->
    exists evs f,
      ScanSeq find rs subject i evs f /\ ev_chain subject i evs /\ f <> SOutOfFuel /\
      (forall evs' f', ScanSeq find rs subject i evs' f' -> evs' = evs /\ f' = f) /\
      forall run_arm arms st p,
        lscan_loop find run_arm arms rs subject fuel i st p = lazy_scan_fold run_arm arms (length rs) subject i evs f st p.
Proof. intros find W G. exact (lazy_scan_spec_lemma find G W). Qed.

(* scan_progress, at every fuel: the arms an interpreter runs are non-empty matches, each starting at or
   after the previous end and ending inside the subject *)
Theorem strict_scan_progress : forall find, find_wf find -> find_group0 find ->
  forall rs subject fuel i,
    exists evs f, ev_chain subject i evs /\
      forall run_arm arms st p,
        Strict.scan_loop find run_arm arms rs subject fuel i st p = strict_scan_fold run_arm arms subject i evs f st p.
Proof. intros find W G. exact (strict_scan_progress_lemma find G W). Qed.

Theorem lazy_scan_progress : forall find, find_wf find -> find_group0 find ->
  forall rs subject fuel i,
    exists evs f, ev_chain subject i evs /\
      forall run_arm arms st p,
        lscan_loop find run_arm arms rs subject fuel i st p = lazy_scan_fold run_arm arms (length rs) subject i evs f st p.
Proof. intros find W G. exact (lazy_scan_progress_lemma find G W). Qed.

(* empty_match_is_error: an empty match of some arm at a position the loop reaches makes the
   interpreter poll and fail with EmptyRegexCapture; no arm body runs there *)
Theorem strict_empty_match_is_error : forall find, find_wf find -> find_group0 find ->
  forall run_arm arms rs subject fuel i k a g st p,
    i < str_len subject -> arm_match find rs subject i k a a g ->
    Strict.scan_loop find run_arm arms rs subject (S fuel) i st p = (poll L_scan ;;; fail EEmptyRegexCapture) st p.
Proof. intros find W G. exact (strict_empty_match_lemma find G W). Qed.

Theorem lazy_empty_match_is_error : forall find, find_wf find -> find_group0 find ->
  forall run_arm arms rs subject fuel i k a g st p,
    i < str_len subject -> arm_match find rs subject i k a a g ->
    exists k', k' <= k /\ (exists a' g', arm_match find rs subject i k' a' a' g') /\
      lscan_loop find run_arm arms rs subject (S fuel) i st p =
      (lpoll_n (S (N.to_nat k')) L_scan ;;; fail EEmptyRegexCapture) st p.
Proof. intros find W G. exact (lazy_empty_match_lemma find G W). Qed.

(* selected_arm_is_nonempty, for the selection function of the interpreters; and the selection rule itself *)
Theorem interp_selected_arm_is_nonempty : forall find, find_wf find -> find_group0 find ->
  forall rs suffix k c,
    arm_select find rs suffix = ASelArm k c ->
    exists a b g, c = Some (a, b) :: g /\ a < b /\ b <= str_len suffix /\
      (exists r, nth_error rs (N.to_nat k) = Some r /\ find r suffix = Some c).
Proof. intros find W G. exact (arm_select_nonempty_lemma find G W). Qed.

Theorem interp_arm_select_spec : forall find, find_wf find -> find_group0 find ->
  forall rs suffix,
    match arm_select find rs suffix with
    | ASelEmpty k => exists a c, arm_hit find rs suffix k a a c /\ forall k' a' c', k' < k -> ~ arm_hit find rs suffix k' a' a' c'
    | ASelNone => forall k a b c, ~ arm_hit find rs suffix k a b c
    | ASelArm k c => exists a b, arm_hit find rs suffix k a b c /\ a < b /\
                       (forall k' a' c', ~ arm_hit find rs suffix k' a' a' c') /\
                       (forall k' a' b' c', arm_hit find rs suffix k' a' b' c' -> a < a' \/ (a = a' /\ k <= k'))
    end.
Proof. intros find W G. exact (arm_select_spec_lemma find G W). Qed.

(* the executable engine satisfies both hypotheses *)
Theorem rx_captures_has_group0 : find_group0 rx_captures.
Proof. intros r s c H. exact (proj2 (proj2 (rx_captures_ok r s c H))). Qed.

(* non-vacuity: the strict and lazy loops on the example above, with an arm runner that records
   nothing, from the initial states: two arms run, then the loop ends (Ok) *)
Example c10_interp_loops_run :
  (exists s p, Strict.scan_loop rx_captures (fun _ _ => ret tt) [(0, [], (0,0)); (1, [], (0,0)); (2, [], (0,0))]
                 ex_arms ex_subject 5 0 (sinit []) (polls0 None) = Ok (tt, s, p) /\ p_count p = 2) /\
  (exists s p, lscan_loop rx_captures (fun _ _ => ret tt) [(0, [], (0,0)); (1, [], (0,0)); (2, [], (0,0))]
                 ex_arms ex_subject 5 0 (linit []) (polls0 None) = Ok (tt, s, p) /\ p_count p = 6).
Proof.
  split.
  - rewrite (strict_scan_refines_scan_model _ rx_captures_has_group0). vm_compute. eexists. eexists. split; reflexivity.
  - rewrite (lazy_scan_refines_scan_model _ rx_captures_has_group0). vm_compute. eexists. eexists. split; reflexivity.
Qed.

(* `$k` in the interpreters: eval / leval on a regex capture ARE the lookup functions of Model/Scan.v
   (regex_capture_lookup) applied to the capture strings of the enclosing arm — those the scan folds
   above pass to the arm runner (le_with_caps / ll_with_caps) *)
Theorem regex_capture_interp : forall t fl glob call fuel i,
  (forall le s p, eval t fl glob call (S fuel) le (ERegexCap i) s p = lift (regex_capture_strict (le_caps le) i) s p) /\
  (forall le s p, leval t fl glob call (S fuel) le (ERegexCap i) s p =
                  (v <- lift (regex_capture_lazy (ll_caps le) i) ;; ret (LValue v)) s p).
Proof.
  intros t fl glob call fuel i. split; intros le s p.
  - cbn [eval]. unfold regex_capture_strict. destruct (nth_error (le_caps le) (N.to_nat i)); reflexivity.
  - cbn [leval]. unfold regex_capture_lazy. destruct (nth_error (ll_caps le) (N.to_nat i)); reflexivity.
Qed.
