(* Props/C11.v — property theorems only.  Cancellation.  `budget = Some k`: the flag signals from
   its k-th poll on; `budget = None`: it never signals.  `call` stands for the caller-supplied
   function library; its errors are ordinary (non-cancellation) errors. *)
From TSG Require Import Model.Strict Model.Lazy Proofs.Cancel.

Section C11.
  Context {rx : Type}.
  Variables (t : tree) (fl : file) (cfg : config) (supplied : globals) (regexes : list rx)
            (find : rx -> str -> option (list (option (N * N))))
            (call : ident -> graph -> list value -> res (value * graph)).
  Hypothesis Hcall : call_errors_ok call.
  Notation run_s := (fun budget fuel ms g0 => run_strict t fl cfg supplied budget regexes find call fuel ms g0).
  Notation run_l := (fun budget fuel ms g0 => run_lazy t fl cfg supplied budget regexes find call fuel ms g0).

  (* for every k between 1 and the number of polls of the uncancelled run: the cancellation error itself *)
  Theorem strict_cancel_at_k : forall fuel ms g0 s p k,
    run_s None fuel ms g0 = Ok (s, p) -> (1 <= k <= p_count p)%N -> exists l, run_s (Some k) fuel ms g0 = Err (ECancelled l).
  Proof. exact (strict_cancel_at_k_lemma t fl cfg supplied regexes find call Hcall). Qed.
  Theorem lazy_cancel_at_k : forall fuel ms g0 s p k,
    run_l None fuel ms g0 = Ok (s, p) -> (1 <= k <= p_count p)%N -> exists l, run_l (Some k) fuel ms g0 = Err (ECancelled l).
  Proof. exact (lazy_cancel_at_k_lemma t fl cfg supplied regexes find call Hcall). Qed.

  (* a flag that never signals within the run does not change the result *)
  Theorem strict_never_cancel_neutral : forall fuel ms g0 s p k,
    run_s None fuel ms g0 = Ok (s, p) -> (p_count p < k)%N -> run_s (Some k) fuel ms g0 = Ok (s, with_budget p (Some k)).
  Proof. exact (strict_never_cancel_neutral_lemma t fl cfg supplied regexes find call Hcall). Qed.
  Theorem lazy_never_cancel_neutral : forall fuel ms g0 s p k,
    run_l None fuel ms g0 = Ok (s, p) -> (p_count p < k)%N -> run_l (Some k) fuel ms g0 = Ok (s, with_budget p (Some k)).
  Proof. exact (lazy_never_cancel_neutral_lemma t fl cfg supplied regexes find call Hcall). Qed.

  (* a run that fails without cancellation fails with the same error or with the bare cancellation *)
  Theorem strict_cancel_or_same_error : forall fuel ms g0 e k, (0 < k)%N -> run_s None fuel ms g0 = Err e ->
    run_s (Some k) fuel ms g0 = Err e \/ exists l, run_s (Some k) fuel ms g0 = Err (ECancelled l).
  Proof. exact (strict_cancel_or_same_error_lemma t fl cfg supplied regexes find call Hcall). Qed.
  Theorem lazy_cancel_or_same_error : forall fuel ms g0 e k, (0 < k)%N -> run_l None fuel ms g0 = Err e ->
    run_l (Some k) fuel ms g0 = Err e \/ exists l, run_l (Some k) fuel ms g0 = Err (ECancelled l).
  Proof. exact (lazy_cancel_or_same_error_lemma t fl cfg supplied regexes find call Hcall). Qed.

  (* the cancellation error is never wrapped in a context (nor hidden as the cause of another error) *)
  Theorem strict_cancel_bare : forall budget fuel ms g0 e, run_s budget fuel ms g0 = Err e ->
    (exists l, e = ECancelled l) \/ (forall l, root_cause e <> ECancelled l).
  Proof. exact (strict_cancel_bare_lemma t fl cfg supplied regexes find call Hcall). Qed.
  Theorem lazy_cancel_bare : forall budget fuel ms g0 e, run_l budget fuel ms g0 = Err e ->
    (exists l, e = ECancelled l) \/ (forall l, root_cause e <> ECancelled l).
  Proof. exact (lazy_cancel_bare_lemma t fl cfg supplied regexes find call Hcall). Qed.

  (* after the k-th poll nothing is polled or evaluated: a successful run made fewer than k polls *)
  Theorem strict_cancel_stops : forall fuel ms g0 s p k, (0 < k)%N -> run_s (Some k) fuel ms g0 = Ok (s, p) -> (p_count p < k)%N.
  Proof. exact (strict_cancel_stops_lemma t fl cfg supplied regexes find call Hcall). Qed.
  Theorem lazy_cancel_stops : forall fuel ms g0 s p k, (0 < k)%N -> run_l (Some k) fuel ms g0 = Ok (s, p) -> (p_count p < k)%N.
  Proof. exact (lazy_cancel_stops_lemma t fl cfg supplied regexes find call Hcall). Qed.
End C11.

Theorem with_context_cancel : forall c l, add_context c (ECancelled l) = ECancelled l.
Proof. reflexivity. Qed.

(* POLLS COVER THE WORK.  Every unit of work begins with a poll of the flag, whatever the program: each
   executed statement, each attribute, each scan iteration; in lazy mode also each match, each deferred
   statement and each deferred value.  (The poll sites of the model are tied to the code by the label
   trace that the correspondence stream compares on every run.)  Together with *_cancel_at_k this is why a
   long run can always be interrupted: no unit of work is entered without asking the flag first. *)
Section Polls.
  Context {rx : Type}.
  Variables (t : tree) (fl : file) (cfg : config) (glob : globals) (regexes : list rx)
            (find : rx -> str -> option (list (option (N * N))))
            (call : ident -> graph -> list value -> res (value * graph)).

  Theorem strict_polls_each_statement : forall fuel le s,
    exists k, exec_stmt t fl cfg glob regexes find call (S fuel) le s = (poll L_exec_stmt ;;; k).
  Proof. intros. eexists. reflexivity. Qed.
  Theorem strict_polls_each_attribute : forall fuel le tgt name value,
    exists k, exec_attr t fl glob call (S fuel) le tgt (Attr name value) = (poll L_exec_attr ;;; k).
  Proof. intros. eexists. reflexivity. Qed.
  Theorem strict_polls_each_scan_iteration : forall run_arm arms rs subject sfuel i,
    N.ltb i (N.of_nat (length subject)) = true ->
    exists k, scan_loop find run_arm arms rs subject (S sfuel) i = (poll L_scan ;;; k).
  Proof. intros run_arm arms rs subject sfuel i H. cbn [scan_loop]. rewrite H. eexists. reflexivity. Qed.

  Theorem lazy_polls_each_match : forall fuel st m,
    exists k, lexec_stanza t fl cfg glob regexes find call fuel st m = (poll L_matches ;;; k).
  Proof. intros. eexists. reflexivity. Qed.
  Theorem lazy_polls_each_statement : forall fuel le s,
    exists k, lexec_stmt t fl cfg glob regexes find call (S fuel) le s = (poll L_exec_stmt ;;; k).
  Proof. intros. eexists. reflexivity. Qed.
  Theorem lazy_polls_each_attribute : forall fuel le name value,
    exists k, lexec_attr t fl glob call (S fuel) le (Attr name value) = (poll L_exec_attr ;;; k).
  Proof. intros. eexists. reflexivity. Qed.
  (* one poll per arm examined: at least one per iteration when the statement has an arm *)
  Theorem lazy_polls_each_scan_iteration : forall run_arm arms r rs subject sfuel i,
    N.ltb i (N.of_nat (length subject)) = true ->
    exists k, forall s p, lscan_loop find run_arm arms (r :: rs) subject (S sfuel) i s p = (poll L_scan ;;; k) s p.
  Proof.
    intros run_arm arms r rs subject sfuel i H. cbn [lscan_loop]. rewrite H.
    destruct (arm_select find (r :: rs) (skipn (N.to_nat i) subject)) as [|k0|k0 caps]; cbn [length lpoll_n]; unfold lpoll.
    all: match goal with |- exists k, forall s p, bind (bind ?a ?f) ?g s p = _ => exists (bind (f tt) g) end;
      intros s p; unfold bind; destruct (poll L_scan s p) as [[[[] s1] p1]|e|x|]; reflexivity.
  Qed.
  Theorem lazy_polls_each_deferred_statement : forall fuel st,
    exists k, eval_lstmt t fl call fuel st = (poll L_eval_stmt ;;; k).
  Proof. intros. eexists. reflexivity. Qed.
  Theorem lazy_polls_each_deferred_value : forall fuel lv,
    exists k, eval_lv t fl call (S fuel) lv = (poll L_eval_value ;;; k).
  Proof. intros. eexists. reflexivity. Qed.
End Polls.

(* polls_cover_work as ONE inequality (p_count of a run >= number of executed statements + attributes +
   scan iterations + ...) is not stated: the number of executed units is not an observable of the run.
   The per-unit statements above are the proved form. *)

(* ================================================================================================================
   THE STANDARD LIBRARY.  `call_errors_ok` holds of the model of the standard function library (`stdlib_call rxo t` of
   Model/Stdlib.v, every regex oracle rxo, on the tree the program runs on): its errors are the eight plain variants
   of C13 error_classes, never Cancelled (Proofs/StdlibHyps.v).  The theorems of Section C11, instantiated: the same
   statements with `call := stdlib_call rxo t`, no hypothesis on functions. *)
From TSG Require Import Model.Stdlib Model.Regex Proofs.StdlibHyps.

Theorem stdlib_errors_ok : forall rxo t, call_errors_ok (stdlib_call rxo t).
Proof. exact stdlib_call_errors_ok. Qed.

Theorem strict_cancel_at_k_stdlib : forall {rx : Type} rxo t fl cfg supplied (regexes : list rx) find fuel ms g0 s p k,
  run_strict t fl cfg supplied None regexes find (stdlib_call rxo t) fuel ms g0 = Ok (s, p) -> (1 <= k <= p_count p)%N ->
  exists l, run_strict t fl cfg supplied (Some k) regexes find (stdlib_call rxo t) fuel ms g0 = Err (ECancelled l).
Proof. intros rx rxo t fl cfg supplied regexes find. exact (strict_cancel_at_k t fl cfg supplied regexes find (stdlib_call rxo t) (stdlib_call_errors_ok rxo t)). Qed.
Theorem lazy_cancel_at_k_stdlib : forall {rx : Type} rxo t fl cfg supplied (regexes : list rx) find fuel ms g0 s p k,
  run_lazy t fl cfg supplied None regexes find (stdlib_call rxo t) fuel ms g0 = Ok (s, p) -> (1 <= k <= p_count p)%N ->
  exists l, run_lazy t fl cfg supplied (Some k) regexes find (stdlib_call rxo t) fuel ms g0 = Err (ECancelled l).
Proof. intros rx rxo t fl cfg supplied regexes find. exact (lazy_cancel_at_k t fl cfg supplied regexes find (stdlib_call rxo t) (stdlib_call_errors_ok rxo t)). Qed.
Theorem strict_never_cancel_neutral_stdlib : forall {rx : Type} rxo t fl cfg supplied (regexes : list rx) find fuel ms g0 s p k,
  run_strict t fl cfg supplied None regexes find (stdlib_call rxo t) fuel ms g0 = Ok (s, p) -> (p_count p < k)%N ->
  run_strict t fl cfg supplied (Some k) regexes find (stdlib_call rxo t) fuel ms g0 = Ok (s, with_budget p (Some k)).
Proof. intros rx rxo t fl cfg supplied regexes find. exact (strict_never_cancel_neutral t fl cfg supplied regexes find (stdlib_call rxo t) (stdlib_call_errors_ok rxo t)). Qed.
Theorem lazy_never_cancel_neutral_stdlib : forall {rx : Type} rxo t fl cfg supplied (regexes : list rx) find fuel ms g0 s p k,
  run_lazy t fl cfg supplied None regexes find (stdlib_call rxo t) fuel ms g0 = Ok (s, p) -> (p_count p < k)%N ->
  run_lazy t fl cfg supplied (Some k) regexes find (stdlib_call rxo t) fuel ms g0 = Ok (s, with_budget p (Some k)).
Proof. intros rx rxo t fl cfg supplied regexes find. exact (lazy_never_cancel_neutral t fl cfg supplied regexes find (stdlib_call rxo t) (stdlib_call_errors_ok rxo t)). Qed.
Theorem strict_cancel_or_same_error_stdlib : forall {rx : Type} rxo t fl cfg supplied (regexes : list rx) find fuel ms g0 e k,
  (0 < k)%N -> run_strict t fl cfg supplied None regexes find (stdlib_call rxo t) fuel ms g0 = Err e ->
  run_strict t fl cfg supplied (Some k) regexes find (stdlib_call rxo t) fuel ms g0 = Err e \/
  exists l, run_strict t fl cfg supplied (Some k) regexes find (stdlib_call rxo t) fuel ms g0 = Err (ECancelled l).
Proof. intros rx rxo t fl cfg supplied regexes find. exact (strict_cancel_or_same_error t fl cfg supplied regexes find (stdlib_call rxo t) (stdlib_call_errors_ok rxo t)). Qed.
Theorem lazy_cancel_or_same_error_stdlib : forall {rx : Type} rxo t fl cfg supplied (regexes : list rx) find fuel ms g0 e k,
  (0 < k)%N -> run_lazy t fl cfg supplied None regexes find (stdlib_call rxo t) fuel ms g0 = Err e ->
  run_lazy t fl cfg supplied (Some k) regexes find (stdlib_call rxo t) fuel ms g0 = Err e \/
  exists l, run_lazy t fl cfg supplied (Some k) regexes find (stdlib_call rxo t) fuel ms g0 = Err (ECancelled l).
Proof. intros rx rxo t fl cfg supplied regexes find. exact (lazy_cancel_or_same_error t fl cfg supplied regexes find (stdlib_call rxo t) (stdlib_call_errors_ok rxo t)). Qed.
Theorem strict_cancel_bare_stdlib : forall {rx : Type} rxo t fl cfg supplied (regexes : list rx) find budget fuel ms g0 e,
  run_strict t fl cfg supplied budget regexes find (stdlib_call rxo t) fuel ms g0 = Err e ->
  (exists l, e = ECancelled l) \/ (forall l, root_cause e <> ECancelled l).
Proof. intros rx rxo t fl cfg supplied regexes find. exact (strict_cancel_bare t fl cfg supplied regexes find (stdlib_call rxo t) (stdlib_call_errors_ok rxo t)). Qed.
Theorem lazy_cancel_bare_stdlib : forall {rx : Type} rxo t fl cfg supplied (regexes : list rx) find budget fuel ms g0 e,
  run_lazy t fl cfg supplied budget regexes find (stdlib_call rxo t) fuel ms g0 = Err e ->
  (exists l, e = ECancelled l) \/ (forall l, root_cause e <> ECancelled l).
Proof. intros rx rxo t fl cfg supplied regexes find. exact (lazy_cancel_bare t fl cfg supplied regexes find (stdlib_call rxo t) (stdlib_call_errors_ok rxo t)). Qed.
Theorem strict_cancel_stops_stdlib : forall {rx : Type} rxo t fl cfg supplied (regexes : list rx) find fuel ms g0 s p k,
  (0 < k)%N -> run_strict t fl cfg supplied (Some k) regexes find (stdlib_call rxo t) fuel ms g0 = Ok (s, p) -> (p_count p < k)%N.
Proof. intros rx rxo t fl cfg supplied regexes find. exact (strict_cancel_stops t fl cfg supplied regexes find (stdlib_call rxo t) (stdlib_call_errors_ok rxo t)). Qed.
Theorem lazy_cancel_stops_stdlib : forall {rx : Type} rxo t fl cfg supplied (regexes : list rx) find fuel ms g0 s p k,
  (0 < k)%N -> run_lazy t fl cfg supplied (Some k) regexes find (stdlib_call rxo t) fuel ms g0 = Ok (s, p) -> (p_count p < k)%N.
Proof. intros rx rxo t fl cfg supplied regexes find. exact (lazy_cancel_stops t fl cfg supplied regexes find (stdlib_call rxo t) (stdlib_call_errors_ok rxo t)). Qed.

(* ---- non-vacuity: a concrete program with a `for` loop, a stdlib call and a `scan`, run with the standard library
       (module) @m {
         node a
         for v in [1, 2] {
           node d
           attr (d) i = (plus v 1)
         }
         scan "ab" {
           "a" { attr (a) t = $0 }
           "b" { print $0 }
         }
       }
   on one match (full-match node 0), model regexes of Model/Regex.v.  The uncancelled strict run makes 14 polls and the
   lazy run 41; both yield the same three-node graph.  Cancelled at k = 1 (the first poll), at a middle k (inside the
   `for` body, inside the scan loop, in the lazy evaluation phase) and at k = number of polls (the last poll), the run
   returns exactly the cancellation with the label of the k-th poll; at k = number of polls + 1 it succeeds with all
   polls made.  The last two conjuncts are strict_cancel_at_k_stdlib / lazy_cancel_at_k_stdlib applied to the run: every
   k in range. *)
Definition c11_tree : tree := {| t_src := []; t_nodes := [] |}.
Definition c11_file : file :=
  {| f_globals := []; f_inherited := []; f_shorthands := [];
     f_stanzas := [{|
       st_stmts := [
         SNode (VarU [97] (1, 7)) [97] (1, 2);
         SFor [118] (2, 6) (EList [EInt 1; EInt 2])
           [SNode (VarU [100] (3, 9)) [100] (3, 4);
            SAttrNode (EUnscoped [100] (4, 10)) [Attr [105] (ECall Lit.plus [EUnscoped [118] (4, 22); EInt 1])] (4, 4)] (2, 2);
         SScan (EStr [97;98])
           [(0%N, [SAttrNode (EUnscoped [97] (7, 18)) [Attr [116] (ERegexCap 0)] (7, 12)], (7, 6));
            (1%N, [SPrint [ERegexCap 0] (8, 12)], (8, 6))] (6, 2) ];
       st_full_stanza_idx := 0; st_full_file_idx := 0; st_start := (0, 0) |}] |}.
Definition c11_regexes : list regex := [RChr 97; RChr 98].
Definition c11_oracle : regex_oracle := fun _ _ _ => None.          (* `replace` is not called *)
Local Notation c11_strict budget :=
  (run_strict c11_tree c11_file config0 [[]] budget c11_regexes rx_captures (stdlib_call c11_oracle c11_tree) 50 [[[(0%N, [0%N])]]] []).
Local Notation c11_lazy budget :=
  (run_lazy c11_tree c11_file config0 [[]] budget c11_regexes rx_captures (stdlib_call c11_oracle c11_tree) 50 [(0%N, [(0%N, [0%N])])] []).
Definition c11_graph : graph :=
  [ {| g_attrs := [([116], VStr [97])]; g_edges := [] |};
    {| g_attrs := [([105], VInt 2)]; g_edges := [] |};
    {| g_attrs := [([105], VInt 3)]; g_edges := [] |} ].

Example c11_nonvacuous :
  (exists s p, c11_strict None = Ok (s, p) /\ p_count p = 14%N /\ s_graph s = c11_graph /\
               rev (p_trace p) = [L_exec_stmt; L_exec_stmt; L_exec_stmt; L_exec_stmt; L_exec_attr; L_exec_stmt; L_exec_stmt; L_exec_attr;
                                  L_exec_stmt; L_scan; L_exec_stmt; L_exec_attr; L_scan; L_exec_stmt]) /\
  (exists s p, c11_lazy None = Ok (s, p) /\ p_count p = 41%N /\ l_graph s = c11_graph) /\
  c11_strict (Some 1%N) = Err (ECancelled L_exec_stmt) /\
  c11_strict (Some 5%N) = Err (ECancelled L_exec_attr) /\
  c11_strict (Some 10%N) = Err (ECancelled L_scan) /\
  c11_strict (Some 14%N) = Err (ECancelled L_exec_stmt) /\
  (exists s p, c11_strict (Some 15%N) = Ok (s, p) /\ p_count p = 14%N /\ s_graph s = c11_graph) /\
  c11_lazy (Some 1%N) = Err (ECancelled L_matches) /\
  c11_lazy (Some 9%N) = Err (ECancelled L_exec_attr) /\
  c11_lazy (Some 15%N) = Err (ECancelled L_scan) /\
  c11_lazy (Some 22%N) = Err (ECancelled L_eval_stmt) /\
  c11_lazy (Some 41%N) = Err (ECancelled L_eval_value) /\
  (exists s p, c11_lazy (Some 42%N) = Ok (s, p) /\ p_count p = 41%N /\ l_graph s = c11_graph) /\
  (forall k, (1 <= k <= 14)%N -> exists l, c11_strict (Some k) = Err (ECancelled l)) /\
  (forall k, (1 <= k <= 41)%N -> exists l, c11_lazy (Some k) = Err (ECancelled l)).
Proof.
  assert (Hs : exists s p, c11_strict None = Ok (s, p) /\ p_count p = 14%N) by (eexists; eexists; split; vm_compute; reflexivity).
  assert (Hl : exists s p, c11_lazy None = Ok (s, p) /\ p_count p = 41%N) by (eexists; eexists; split; vm_compute; reflexivity).
  split; [eexists; eexists; split; [vm_compute; reflexivity|]; split; [vm_compute; reflexivity|]; split; vm_compute; reflexivity|].
  split; [eexists; eexists; split; [vm_compute; reflexivity|]; split; vm_compute; reflexivity|].
  do 4 (split; [vm_compute; reflexivity|]).
  split; [eexists; eexists; split; [vm_compute; reflexivity|]; split; vm_compute; reflexivity|].
  do 5 (split; [vm_compute; reflexivity|]).
  split; [eexists; eexists; split; [vm_compute; reflexivity|]; split; vm_compute; reflexivity|].
  split.
  - destruct Hs as (s & p & E & Hp). intros k Hk. rewrite <- Hp in Hk.
    exact (strict_cancel_at_k_stdlib c11_oracle c11_tree c11_file config0 [[]] c11_regexes rx_captures 50%nat [[[(0%N, [0%N])]]] [] s p k E Hk).
  - destruct Hl as (s & p & E & Hp). intros k Hk. rewrite <- Hp in Hk.
    exact (lazy_cancel_at_k_stdlib c11_oracle c11_tree c11_file config0 [[]] c11_regexes rx_captures 50%nat [(0%N, [(0%N, [0%N])])] [] s p k E Hk).
Qed.
