(* Props/C11.v — property theorems only.  Cancellation.  `budget = Some k`: the flag signals from
   its k-th poll on; `budget = None`: it never signals.  `call` stands for the caller-supplied
   function library; its errors are ordinary (non-cancellation) errors. *)
From TSG Require Import Model.Strict Model.Lazy Proofs.Cancel.

Section C11.
  Context {rx : Type}.
  Variables (t : tree) (fl : file) (cfg : config) (supplied : globals) (regexes : list rx)
            (find : rx -> str -> option (list (option (N * N))))
            (call : ident -> graph -> list value -> res (value * graph)).
  Hypothesis Hcall : call_errors_ok call.
  Notation run_s := (fun budget fuel ms g0 => run_strict t fl cfg supplied budget regexes find call fuel ms g0).
  Notation run_l := (fun budget fuel ms g0 => run_lazy t fl cfg supplied budget regexes find call fuel ms g0).

  (* for every k between 1 and the number of polls of the uncancelled run: the cancellation error itself *)
  Theorem strict_cancel_at_k : forall fuel ms g0 s p k,
    run_s None fuel ms g0 = Ok (s, p) -> (1 <= k <= p_count p)%N -> exists l, run_s (Some k) fuel ms g0 = Err (ECancelled l).
  Proof. exact (strict_cancel_at_k_lemma t fl cfg supplied regexes find call Hcall). Qed.
  Theorem lazy_cancel_at_k : forall fuel ms g0 s p k,
    run_l None fuel ms g0 = Ok (s, p) -> (1 <= k <= p_count p)%N -> exists l, run_l (Some k) fuel ms g0 = Err (ECancelled l).
  Proof. exact (lazy_cancel_at_k_lemma t fl cfg supplied regexes find call Hcall). Qed.

  (* a flag that never signals within the run does not change the result *)
  Theorem strict_never_cancel_neutral : forall fuel ms g0 s p k,
    run_s None fuel ms g0 = Ok (s, p) -> (p_count p < k)%N -> run_s (Some k) fuel ms g0 = Ok (s, with_budget p (Some k)).
  Proof. exact (strict_never_cancel_neutral_lemma t fl cfg supplied regexes find call Hcall). Qed.
  Theorem lazy_never_cancel_neutral : forall fuel ms g0 s p k,
    run_l None fuel ms g0 = Ok (s, p) -> (p_count p < k)%N -> run_l (Some k) fuel ms g0 = Ok (s, with_budget p (Some k)).
  Proof. exact (lazy_never_cancel_neutral_lemma t fl cfg supplied regexes find call Hcall). Qed.

  (* a run that fails without cancellation fails with the same error or with the bare cancellation *)
  Theorem strict_cancel_or_same_error : forall fuel ms g0 e k, (0 < k)%N -> run_s None fuel ms g0 = Err e ->
    run_s (Some k) fuel ms g0 = Err e \/ exists l, run_s (Some k) fuel ms g0 = Err (ECancelled l).
  Proof. exact (strict_cancel_or_same_error_lemma t fl cfg supplied regexes find call Hcall). Qed.
  Theorem lazy_cancel_or_same_error : forall fuel ms g0 e k, (0 < k)%N -> run_l None fuel ms g0 = Err e ->
    run_l (Some k) fuel ms g0 = Err e \/ exists l, run_l (Some k) fuel ms g0 = Err (ECancelled l).
  Proof. exact (lazy_cancel_or_same_error_lemma t fl cfg supplied regexes find call Hcall). Qed.

  (* the cancellation error is never wrapped in a context (nor hidden as the cause of another error) *)
  Theorem strict_cancel_bare : forall budget fuel ms g0 e, run_s budget fuel ms g0 = Err e ->
    (exists l, e = ECancelled l) \/ (forall l, root_cause e <> ECancelled l).
  Proof. exact (strict_cancel_bare_lemma t fl cfg supplied regexes find call Hcall). Qed.
  Theorem lazy_cancel_bare : forall budget fuel ms g0 e, run_l budget fuel ms g0 = Err e ->
    (exists l, e = ECancelled l) \/ (forall l, root_cause e <> ECancelled l).
  Proof. exact (lazy_cancel_bare_lemma t fl cfg supplied regexes find call Hcall). Qed.

  (* after the k-th poll nothing is polled or evaluated: a successful run made fewer than k polls *)
  Theorem strict_cancel_stops : forall fuel ms g0 s p k, (0 < k)%N -> run_s (Some k) fuel ms g0 = Ok (s, p) -> (p_count p < k)%N.
  Proof. exact (strict_cancel_stops_lemma t fl cfg supplied regexes find call Hcall). Qed.
  Theorem lazy_cancel_stops : forall fuel ms g0 s p k, (0 < k)%N -> run_l (Some k) fuel ms g0 = Ok (s, p) -> (p_count p < k)%N.
  Proof. exact (lazy_cancel_stops_lemma t fl cfg supplied regexes find call Hcall). Qed.
End C11.

Theorem with_context_cancel : forall c l, add_context c (ECancelled l) = ECancelled l.
Proof. reflexivity. Qed.

(* POLLS COVER THE WORK.  Every unit of work begins with a poll of the flag, whatever the program: each
   executed statement, each attribute, each scan iteration; in lazy mode also each match, each deferred
   statement and each deferred value.  (The poll sites of the model are tied to the code by the label
   trace that the correspondence stream compares on every run.)  Together with *_cancel_at_k this is why a
   long run can always be interrupted: no unit of work is entered without asking the flag first. *)
Section Polls.
  Context {rx : Type}.
  Variables (t : tree) (fl : file) (cfg : config) (glob : globals) (regexes : list rx)
            (find : rx -> str -> option (list (option (N * N))))
            (call : ident -> graph -> list value -> res (value * graph)).

  Theorem strict_polls_each_statement : forall fuel le s,
    exists k, exec_stmt t fl cfg glob regexes find call (S fuel) le s = (poll L_exec_stmt ;;; k).
  Proof. intros. eexists. reflexivity. Qed.
  Theorem strict_polls_each_attribute : forall fuel le tgt name value,
    exists k, exec_attr t fl glob call (S fuel) le tgt (Attr name value) = (poll L_exec_attr ;;; k).
  Proof. intros. eexists. reflexivity. Qed.
  Theorem strict_polls_each_scan_iteration : forall run_arm arms rs subject sfuel i,
    N.ltb i (N.of_nat (length subject)) = true ->
    exists k, scan_loop find run_arm arms rs subject (S sfuel) i = (poll L_scan ;;; k).
  Proof. intros run_arm arms rs subject sfuel i H. cbn [scan_loop]. rewrite H. eexists. reflexivity. Qed.

  Theorem lazy_polls_each_match : forall fuel st m,
    exists k, lexec_stanza t fl cfg glob regexes find call fuel st m = (poll L_matches ;;; k).
  Proof. intros. eexists. reflexivity. Qed.
  Theorem lazy_polls_each_statement : forall fuel le s,
    exists k, lexec_stmt t fl cfg glob regexes find call (S fuel) le s = (poll L_exec_stmt ;;; k).
  Proof. intros. eexists. reflexivity. Qed.
  Theorem lazy_polls_each_attribute : forall fuel le name value,
    exists k, lexec_attr t fl glob call (S fuel) le (Attr name value) = (poll L_exec_attr ;;; k).
  Proof. intros. eexists. reflexivity. Qed.
  (* one poll per arm examined: at least one per iteration when the statement has an arm *)
  Theorem lazy_polls_each_scan_iteration : forall run_arm arms r rs subject sfuel i,
    N.ltb i (N.of_nat (length subject)) = true ->
    exists k, forall s p, lscan_loop find run_arm arms (r :: rs) subject (S sfuel) i s p = (poll L_scan ;;; k) s p.
  Proof.
    intros run_arm arms r rs subject sfuel i H. cbn [lscan_loop]. rewrite H.
    destruct (arm_select find (r :: rs) (skipn (N.to_nat i) subject)) as [|k0|k0 caps]; cbn [length lpoll_n]; unfold lpoll.
    all: match goal with |- exists k, forall s p, bind (bind ?a ?f) ?g s p = _ => exists (bind (f tt) g) end;
      intros s p; unfold bind; destruct (poll L_scan s p) as [[[[] s1] p1]|e|x|]; reflexivity.
  Qed.
  Theorem lazy_polls_each_deferred_statement : forall fuel st,
    exists k, eval_lstmt t fl call fuel st = (poll L_eval_stmt ;;; k).
  Proof. intros. eexists. reflexivity. Qed.
  Theorem lazy_polls_each_deferred_value : forall fuel lv,
    exists k, eval_lv t fl call (S fuel) lv = (poll L_eval_value ;;; k).
  Proof. intros. eexists. reflexivity. Qed.
End Polls.

(* polls_cover_work as ONE inequality (p_count of a run >= number of executed statements + attributes +
   scan iterations + ...) is not stated: the number of executed units is not an observable of the run.
   The per-unit statements above are the proved form. *)
