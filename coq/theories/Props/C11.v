(* Props/C11.v — property theorems only.  Cancellation.  `budget = Some k`: the flag signals from
   its k-th poll on; `budget = None`: it never signals.  `call` stands for the caller-supplied
   function library; its errors are ordinary (non-cancellation) errors. *)
From TSG Require Import Model.Strict Model.Lazy Proofs.Cancel.

Section C11.
  Context {rx : Type}.
  Variables (t : tree) (fl : file) (cfg : config) (supplied : globals) (regexes : list rx)
            (find : rx -> str -> option (list (option (N * N))))
            (call : ident -> graph -> list value -> res (value * graph)).
  Hypothesis Hcall : call_errors_ok call.
  Notation run_s := (fun budget fuel ms g0 => run_strict t fl cfg supplied budget regexes find call fuel ms g0).
  Notation run_l := (fun budget fuel ms g0 => run_lazy t fl cfg supplied budget regexes find call fuel ms g0).

  (* for every k between 1 and the number of polls of the uncancelled run: the cancellation error itself *)
  Theorem strict_cancel_at_k : forall fuel ms g0 s p k,
    run_s None fuel ms g0 = Ok (s, p) -> (1 <= k <= p_count p)%N -> exists l, run_s (Some k) fuel ms g0 = Err (ECancelled l).
  Proof. exact (strict_cancel_at_k_lemma t fl cfg supplied regexes find call Hcall). Qed.
  Theorem lazy_cancel_at_k : forall fuel ms g0 s p k,
    run_l None fuel ms g0 = Ok (s, p) -> (1 <= k <= p_count p)%N -> exists l, run_l (Some k) fuel ms g0 = Err (ECancelled l).
  Proof. exact (lazy_cancel_at_k_lemma t fl cfg supplied regexes find call Hcall). Qed.

  (* a flag that never signals within the run does not change the result *)
  Theorem strict_never_cancel_neutral : forall fuel ms g0 s p k,
    run_s None fuel ms g0 = Ok (s, p) -> (p_count p < k)%N -> run_s (Some k) fuel ms g0 = Ok (s, with_budget p (Some k)).
  Proof. exact (strict_never_cancel_neutral_lemma t fl cfg supplied regexes find call Hcall). Qed.
  Theorem lazy_never_cancel_neutral : forall fuel ms g0 s p k,
    run_l None fuel ms g0 = Ok (s, p) -> (p_count p < k)%N -> run_l (Some k) fuel ms g0 = Ok (s, with_budget p (Some k)).
  Proof. exact (lazy_never_cancel_neutral_lemma t fl cfg supplied regexes find call Hcall). Qed.

  (* a run that fails without cancellation fails with the same error or with the bare cancellation *)
  Theorem strict_cancel_or_same_error : forall fuel ms g0 e k, (0 < k)%N -> run_s None fuel ms g0 = Err e ->
    run_s (Some k) fuel ms g0 = Err e \/ exists l, run_s (Some k) fuel ms g0 = Err (ECancelled l).
  Proof. exact (strict_cancel_or_same_error_lemma t fl cfg supplied regexes find call Hcall). Qed.
  Theorem lazy_cancel_or_same_error : forall fuel ms g0 e k, (0 < k)%N -> run_l None fuel ms g0 = Err e ->
    run_l (Some k) fuel ms g0 = Err e \/ exists l, run_l (Some k) fuel ms g0 = Err (ECancelled l).
  Proof. exact (lazy_cancel_or_same_error_lemma t fl cfg supplied regexes find call Hcall). Qed.

  (* the cancellation error is never wrapped in a context (nor hidden as the cause of another error) *)
  Theorem strict_cancel_bare : forall budget fuel ms g0 e, run_s budget fuel ms g0 = Err e ->
    (exists l, e = ECancelled l) \/ (forall l, root_cause e <> ECancelled l).
  Proof. exact (strict_cancel_bare_lemma t fl cfg supplied regexes find call Hcall). Qed.
  Theorem lazy_cancel_bare : forall budget fuel ms g0 e, run_l budget fuel ms g0 = Err e ->
    (exists l, e = ECancelled l) \/ (forall l, root_cause e <> ECancelled l).
  Proof. exact (lazy_cancel_bare_lemma t fl cfg supplied regexes find call Hcall). Qed.

  (* after the k-th poll nothing is polled or evaluated: a successful run made fewer than k polls *)
  Theorem strict_cancel_stops : forall fuel ms g0 s p k, (0 < k)%N -> run_s (Some k) fuel ms g0 = Ok (s, p) -> (p_count p < k)%N.
  Proof. exact (strict_cancel_stops_lemma t fl cfg supplied regexes find call Hcall). Qed.
  Theorem lazy_cancel_stops : forall fuel ms g0 s p k, (0 < k)%N -> run_l (Some k) fuel ms g0 = Ok (s, p) -> (p_count p < k)%N.
  Proof. exact (lazy_cancel_stops_lemma t fl cfg supplied regexes find call Hcall). Qed.
End C11.

Theorem with_context_cancel : forall c l, add_context c (ECancelled l) = ECancelled l.
Proof. reflexivity. Qed.

(* polls_cover_work (full statement, NOT yet proved): p_count of a run >= number of executed statements
   + attributes + scan iterations (+ matches + deferred statements + deferred values in lazy mode).
   The poll sites are part of the model (Strict.v: exec_stmt, exec_attr, scan_loop; Lazy.v: lexec_stanza,
   lexec_stmt, lexec_attr, lscan_loop, eval_lstmt, eval_lv) and are tied to the code by the trace
   comparison of the correspondence stream. *)
