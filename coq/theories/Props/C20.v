(* Props/C20.v — property theorems only.  Execution errors identify the stanza, the matched node and the statement.
   `unwrapped e`: e is a plain error possibly inside Context::Other wrappers ("matching .. with arm ..").
   `in_stmt_ctx z n e`: e = InContext(Statement [c], cause) with c.stanza_location = z, c.node = n, `cause` unwrapped.

   STRICT (strict_error_ctx, strict_file_error_ctx, strict_error_stmt_loc, strict_file_error_stmt_loc,
   strict_nested_error_not_plain): the error of a run is the bare cancellation or comes from one (stanza, match)
   block and sits in ONE statement context carrying the stanza's location, the block's full-match node and the
   location of a statement s' of that stanza (any nesting depth) that FAILED DIRECTLY: the cause is the error
   returned by a run of s' itself, in that block, which carries no statement context — whereas whatever a nested
   block of a statement raises is a cancellation or carries a statement context.  So the cited statement is the
   innermost statement whose execution failed.

   LAZY (lazy_error_ctx_valid, lazy_run_error_ctx_valid, lazy_ctx_invariant): an error of `lexec_file` (both
   phases) is the bare cancellation, or sits in one statement context, or — for a conflict between two statements
   (duplicate attribute / duplicate scoped variable found during evaluation) — in a context naming BOTH; the cause
   is unwrapped; and EVERY context c is a valid context of the run (`valid_ctx`): there are an executed
   (stanza, match) pair of the run and a statement s of that stanza (any depth: the failing statement or, in
   nested blocks, a statement enclosing it) with c.stanza_location = start of the stanza, c.node = first full-match
   node of the match, c.statement_location = location of s.  In particular NO non-cancellation error escapes
   without a statement context (the alternative `unwrapped e` of the older `lazy_error_ctx_shape` is impossible).

   Left to the correspondence stream (see `partial`): that in lazy mode the cited statement is the one that
   created the failing thunk / deferred statement (the theorem says: some statement of the right stanza), and the
   node KIND / source position shown for the node (the model identifies nodes by index). *)
From TSG Require Import Model.Strict Model.Lazy Proofs.StrictMeta Proofs.ErrorCtx Proofs.Captures Proofs.ErrorCtxValid.

(* strict: one block execution (stanza st on match m whose full-match node is n) *)
Theorem strict_error_ctx : forall {rx : Type} t fl cfg glob (regexes : list rx) find call fuel st m s p e n rest,
  call_errors_base call ->
  nodes_for_capture m (st_full_stanza_idx st) = n :: rest ->
  exec_stanza t fl cfg glob regexes find call fuel st m s p = Err e ->
  (exists l, e = ECancelled l) \/ in_stmt_ctx (st_start st) n e.
Proof. intros rx. exact (@strict_stanza_error_ctx_lemma rx). Qed.

(* strict: the error of a whole execution comes from one (stanza, match) block and carries its context *)
Theorem strict_file_error_ctx : forall {rx : Type} t fl cfg glob (regexes : list rx) find call fuel sts ms s p e,
  call_errors_base call ->
  exec_file t fl cfg glob regexes find call fuel sts ms s p = Err e ->
  (exists l, e = ECancelled l) \/
  exists st m, In (st, m) (blocks sts ms) /\
    match nodes_for_capture m (st_full_stanza_idx st) with
    | n :: _ => in_stmt_ctx (st_start st) n e
    | [] => False
    end.
Proof. intros rx. exact (@strict_file_error_ctx_lemma rx). Qed.

(* strict: the statement the context cites.  `stmt_in st s'`: s' occurs in the stanza's statements at any depth.
   `fails_directly .. z n m s' e1`: some run of s' ITSELF (environment: match m, error context (loc of s', z, n))
   returned e1 and e1 carries no statement context. *)
Theorem strict_error_stmt_loc : forall {rx : Type} t fl cfg glob (regexes : list rx) find call fuel st m s p e n rest,
  call_errors_base call ->
  nodes_for_capture m (st_full_stanza_idx st) = n :: rest ->
  exec_stanza t fl cfg glob regexes find call fuel st m s p = Err e ->
  (exists l, e = ECancelled l) \/
  exists s' e0 e1,
    stmt_in st s' /\
    e = EInContext (CtxStmts [{| sc_stmt := stmt_loc s'; sc_stanza := st_start st; sc_node := n |}]) e0 /\
    (e0 = e1 \/ e0 = EInContext CtxOther e1) /\
    (exists fuel' le s0 p0,
        exec_stmt t fl cfg glob regexes find call fuel' le s' s0 p0 = Err e1 /\ unwrapped e1 /\
        le_ctx le = {| sc_stmt := stmt_loc s'; sc_stanza := st_start st; sc_node := n |} /\ le_match le = m).
Proof.
  intros rx t fl cfg glob regexes find call fuel st m s p e n rest Hc Hn H.
  exact (strict_stanza_error_loc_lemma t fl cfg glob regexes find call Hc (st_start st) n m fuel st s p e rest eq_refl Hn H).
Qed.

(* ... and that failure is not one of a statement nested in s': the error of a nested block (statements of an
   `if`/`for` body: wrap = identity; of a scan arm: wrap = with_context(Other)) is never without statement context *)
Theorem strict_nested_error_not_plain : forall {rx : Type} t fl cfg glob (regexes : list rx) find call fuel le wrap body s p e,
  call_errors_base call ->
  (wrap = (fun c => c) \/ wrap = ctx_wrap CtxOther) ->
  iterM (fun st => let c := ctx_update (le_ctx le) st in
                   ctx_wrap (CtxStmts [c]) (wrap (exec_stmt t fl cfg glob regexes find call fuel (le_with_ctx le c) st))) body s p = Err e ->
  ~ unwrapped e.
Proof.
  intros rx t fl cfg glob regexes find call fuel le wrap body s p e Hc Hw H.
  apply (located_not_unwrapped t fl cfg glob regexes find call (sc_stanza (le_ctx le)) (sc_node (le_ctx le)) (le_match le) (stmts_all body)).
  refine (strict_block_error_lemma t fl cfg glob regexes find call Hc _ _ _ fuel le wrap body _ eq_refl eq_refl eq_refl s p e H).
  destruct Hw as [-> | ->]; [apply wrap_id|apply wrap_other].
Qed.

(* strict, whole execution phase *)
Theorem strict_file_error_stmt_loc : forall {rx : Type} t fl cfg glob (regexes : list rx) find call fuel sts ms s p e,
  call_errors_base call ->
  exec_file t fl cfg glob regexes find call fuel sts ms s p = Err e ->
  (exists l, e = ECancelled l) \/
  exists st m, In (st, m) (blocks sts ms) /\
    match nodes_for_capture m (st_full_stanza_idx st) with
    | n :: _ =>
        exists s' e0 e1,
          stmt_in st s' /\
          e = EInContext (CtxStmts [{| sc_stmt := stmt_loc s'; sc_stanza := st_start st; sc_node := n |}]) e0 /\
          (e0 = e1 \/ e0 = EInContext CtxOther e1) /\
          fails_directly t fl cfg glob regexes find call (st_start st) n m s' e1
    | [] => False
    end.
Proof. intros rx. exact (@strict_file_error_loc_lemma rx). Qed.

(* lazy (both phases): an error is the bare cancellation, or sits in exactly one statement context, or —
   for a conflict between two statements (duplicate attribute / duplicate scoped variable) — in a
   context naming BOTH statements *)
Theorem lazy_error_ctx_shape : forall {rx : Type} t fl cfg glob (regexes : list rx) find call fuel ms s p e,
  call_errors_base call ->
  lexec_file t fl cfg glob regexes find call fuel ms s p = Err e ->
  (exists l, e = ECancelled l) \/ unwrapped e \/
  exists cs e0, e = EInContext (CtxStmts cs) e0 /\ (length cs = 1 \/ length cs = 2)%nat.
Proof. intros rx t fl cfg glob regexes find call fuel ms s p e Hc H. exact (lexec_file_error_shape t fl cfg glob regexes find call Hc fuel ms s p e H). Qed.

(* lazy: every context of an error is a valid context of the run, and there always is one.
   valid_ctx fl ms c := exists i st m n rest, In (i, m) ms /\ nth_error (f_stanzas fl) (N.to_nat i) = Some st /\
     nodes_for_capture m (st_full_file_idx st) = n :: rest /\ sc_stanza c = st_start st /\ sc_node c = n /\
     stmt_loc_in st (sc_stmt c)                      (the location of a statement of st, at any depth) *)
Theorem lazy_error_ctx_valid : forall {rx : Type} t fl cfg glob (regexes : list rx) find call fuel ms g0 p e,
  call_errors_base call ->
  lexec_file t fl cfg glob regexes find call fuel ms (linit g0) p = Err e ->
  (exists l, e = ECancelled l) \/
  exists cs e0, e = EInContext (CtxStmts cs) e0 /\ unwrapped e0 /\ (length cs = 1 \/ length cs = 2)%nat /\ Forall (valid_ctx fl ms) cs.
Proof. intros rx. exact (@lexec_file_error_valid_lemma rx). Qed.

(* whole lazy run: the only other errors are those of check_globals, raised before any stanza is executed *)
Theorem lazy_run_error_ctx_valid : forall {rx : Type} t fl cfg supplied budget (regexes : list rx) find call fuel ms g0 e,
  call_errors_base call ->
  run_lazy t fl cfg supplied budget regexes find call fuel ms g0 = Err e ->
  check_globals (f_globals fl) (globals_nested supplied) = Err e \/
  (exists l, e = ECancelled l) \/
  exists cs e0, e = EInContext (CtxStmts cs) e0 /\ unwrapped e0 /\ (length cs = 1 \/ length cs = 2)%nat /\ Forall (valid_ctx fl ms) cs.
Proof. intros rx. exact (@run_lazy_error_valid_lemma rx). Qed.

(* the same from ANY state whose stored statement contexts (thunks, deferred statements, pending scoped
   definitions, prev_element_debug_info) are valid and in which no scoped variable is being forced; the invariant
   holds initially and is kept by successful runs *)
Theorem lazy_ctx_invariant : forall {rx : Type} t fl cfg glob (regexes : list rx) find call fuel ms s p,
  call_errors_base call -> lazy_ctx_inv fl ms s ->
  match lexec_file t fl cfg glob regexes find call fuel ms s p with
  | Ok (_, s', _) => lazy_ctx_inv fl ms s'
  | Err e => (exists l, e = ECancelled l) \/
             exists cs e0, e = EInContext (CtxStmts cs) e0 /\ unwrapped e0 /\ (length cs = 1 \/ length cs = 2)%nat /\ Forall (valid_ctx fl ms) cs
  | _ => True
  end.
Proof. intros rx. exact (@lexec_file_ctx_valid_lemma rx). Qed.
Theorem lazy_ctx_invariant_init : forall fl ms g, lazy_ctx_inv fl ms (linit g).
Proof. exact lazy_ctx_inv_init. Qed.

(* the innermost statement context wins: wrapping an error that already has one changes nothing *)
Theorem with_context_keeps_innermost : forall c l e, add_context c (EInContext (CtxStmts l) e) = EInContext (CtxStmts l) e.
Proof. reflexivity. Qed.

Example c20_nonvacuous :
  in_stmt_ctx (3, 0) 7 (add_context (CtxStmts [{| sc_stmt := (4, 2); sc_stanza := (3, 0); sc_node := 7 |}])
                          (add_context CtxOther EExpectedInteger)).
Proof. exists (4, 2), (EInContext CtxOther EExpectedInteger). split; [reflexivity|]. apply U_other, U_base. exact I. Qed.

(* ---- concrete failing runs: the hypotheses are satisfiable and the conclusions say something ---- *)
Definition ex_call : ident -> graph -> list value -> res (value * graph) := fun _ _ _ => Err EUndefinedFunction.
Lemma ex_call_base : call_errors_base ex_call.
Proof. intros f g args e H. inversion H; subst. exact I. Qed.
Definition ex_tree : tree := {| t_src := []; t_nodes := [] |}.

(* lazy: `node x`, then inside an `if` block `attr (x) k = 1` (line 3), then `attr (x) k = 2` (line 4): the conflict
   is found in the evaluation phase and names BOTH statements — the first by the location of the statement nested
   in the `if`; both contexts are valid, and validity is not trivial: a location of no statement is not valid *)
Example c20_lazy_conflict_nonvacuous :
  let x := [120] in let k := [107] in
  let st := {| st_stmts := [SNode (VarU x (1, 2)) x (1, 0);
                            SIf [([CBool ETrue (2, 3)], [SAttrNode (EUnscoped x (3, 7)) [Attr k (EInt 1)] (3, 2)], (2, 0))] (2, 0);
                            SAttrNode (EUnscoped x (4, 5)) [Attr k (EInt 2)] (4, 0)];
               st_full_stanza_idx := 0; st_full_file_idx := 0; st_start := (0, 0) |} in
  let fl := {| f_globals := []; f_inherited := []; f_shorthands := []; f_stanzas := [st] |} in
  let ms := [(0, [(0, [7])])] in
  let c1 := {| sc_stmt := (3, 2); sc_stanza := (0, 0); sc_node := 7 |} in
  let c2 := {| sc_stmt := (4, 0); sc_stanza := (0, 0); sc_node := 7 |} in
  call_errors_base ex_call /\
  run_lazy ex_tree fl config0 [[]] None (@nil unit) (fun _ _ => None) ex_call 50 ms [] = Err (EInContext (CtxStmts [c1; c2]) EDuplicateAttribute) /\
  valid_ctx fl ms c1 /\ valid_ctx fl ms c2 /\
  ~ valid_ctx fl ms {| sc_stmt := (2, 3); sc_stanza := (0, 0); sc_node := 7 |} /\
  ~ valid_ctx fl ms {| sc_stmt := (4, 0); sc_stanza := (0, 0); sc_node := 8 |}.
Proof.
  cbv zeta. split; [exact ex_call_base|]. split; [vm_compute; reflexivity|].
  split; [|split; [|split]].
  - eexists 0, _, _, 7, []. split; [left; reflexivity|]. split; [reflexivity|]. split; [reflexivity|]. split; [reflexivity|]. split; [reflexivity|].
    eexists. split; [right; right; left; reflexivity|reflexivity].
  - eexists 0, _, _, 7, []. split; [left; reflexivity|]. split; [reflexivity|]. split; [reflexivity|]. split; [reflexivity|]. split; [reflexivity|].
    eexists. split; [right; right; right; left; reflexivity|reflexivity].
  - intros (i & st & m & n & rest & [Hin|[]] & Hst & Hn & _ & _ & (s & Hs & Hl)). inversion Hin; subst. cbn in Hst. inversion Hst; subst.
    cbn in Hs, Hl. destruct Hs as [<-|[<-|[<-|[<-|[]]]]]; discriminate.
  - intros (i & st & m & n & rest & [Hin|[]] & Hst & Hn & _ & Hnode & _). inversion Hin; subst. cbn in Hst. inversion Hst; subst.
    cbn in Hn. inversion Hn.
Qed.

(* strict: the failing `attr (5) k = 1` is nested in an `if`; the error cites the nested statement (line 3), not the
   enclosing `if` (line 2), and the nested statement failed directly *)
Example c20_strict_innermost_nonvacuous :
  let x := [120] in let k := [107] in
  let inner := SAttrNode (EInt 5) [Attr k (EInt 1)] (3, 2) in
  let st := {| st_stmts := [SNode (VarU x (1, 2)) x (1, 0); SIf [([CBool ETrue (2, 3)], [inner], (2, 0))] (2, 0)];
               st_full_stanza_idx := 0; st_full_file_idx := 0; st_start := (0, 0) |} in
  let m := [(0, [7])] in
  call_errors_base ex_call /\
  exec_file ex_tree {| f_globals := []; f_inherited := []; f_shorthands := []; f_stanzas := [st] |} config0 [[]] (@nil unit) (fun _ _ => None)
            ex_call 50 [st] [[m]] (sinit []) (polls0 None)
    = Err (EInContext (CtxStmts [{| sc_stmt := (3, 2); sc_stanza := (0, 0); sc_node := 7 |}]) EExpectedGraphNode) /\
  stmt_in st inner /\
  fails_directly ex_tree {| f_globals := []; f_inherited := []; f_shorthands := []; f_stanzas := [st] |} config0 [[]] (@nil unit) (fun _ _ => None)
                 ex_call (0, 0) 7 m inner EExpectedGraphNode.
Proof.
  cbv zeta. split; [exact ex_call_base|]. split; [vm_compute; reflexivity|]. split; [right; right; left; reflexivity|].
  exists 10%nat, {| le_match := [(0, [7])]; le_full := 0; le_caps := []; le_ctx := {| sc_stmt := (3, 2); sc_stanza := (0, 0); sc_node := 7 |} |},
         (sinit []), (polls0 None).
  split; [vm_compute; reflexivity|]. split; [apply U_base; exact I|]. split; reflexivity.
Qed.
