(* Props/C20.v — property theorems only.  Execution errors identify the stanza and matched node.
   `in_stmt_ctx z n e`: e = InContext(Statement [c], cause) with c.stanza_location = z, c.node = n, and
   `cause` a plain error possibly inside Context::Other wrappers ("matching .. with arm ..").
   The claim about the STATEMENT location (innermost failing statement in strict mode, failing or
   enclosing statement in lazy mode) is tied by the correspondence stream, which compares the
   statement/stanza/source locations and node kind of every context with the model's: see `partial`. *)
From TSG Require Import Model.Strict Model.Lazy Proofs.StrictMeta Proofs.ErrorCtx Proofs.Captures.

(* strict: one block execution (stanza st on match m whose full-match node is n) *)
Theorem strict_error_ctx : forall {rx : Type} t fl cfg glob (regexes : list rx) find call fuel st m s p e n rest,
  call_errors_base call ->
  nodes_for_capture m (st_full_stanza_idx st) = n :: rest ->
  exec_stanza t fl cfg glob regexes find call fuel st m s p = Err e ->
  (exists l, e = ECancelled l) \/ in_stmt_ctx (st_start st) n e.
Proof. intros rx. exact (@strict_stanza_error_ctx_lemma rx). Qed.

(* strict: the error of a whole execution comes from one (stanza, match) block and carries its context *)
Theorem strict_file_error_ctx : forall {rx : Type} t fl cfg glob (regexes : list rx) find call fuel sts ms s p e,
  call_errors_base call ->
  exec_file t fl cfg glob regexes find call fuel sts ms s p = Err e ->
  (exists l, e = ECancelled l) \/
  exists st m, In (st, m) (blocks sts ms) /\
    match nodes_for_capture m (st_full_stanza_idx st) with
    | n :: _ => in_stmt_ctx (st_start st) n e
    | [] => False
    end.
Proof. intros rx. exact (@strict_file_error_ctx_lemma rx). Qed.

(* lazy (both phases): an error is the bare cancellation, or sits in exactly one statement context, or —
   for a conflict between two statements (duplicate attribute / duplicate scoped variable) — in a
   context naming BOTH statements *)
Theorem lazy_error_ctx_shape : forall {rx : Type} t fl cfg glob (regexes : list rx) find call fuel ms s p e,
  call_errors_base call ->
  lexec_file t fl cfg glob regexes find call fuel ms s p = Err e ->
  (exists l, e = ECancelled l) \/ unwrapped e \/
  exists cs e0, e = EInContext (CtxStmts cs) e0 /\ (length cs = 1 \/ length cs = 2)%nat.
Proof. intros rx t fl cfg glob regexes find call fuel ms s p e Hc H. exact (lexec_file_error_shape t fl cfg glob regexes find call Hc fuel ms s p e H). Qed.

(* the innermost statement context wins: wrapping an error that already has one changes nothing *)
Theorem with_context_keeps_innermost : forall c l e, add_context c (EInContext (CtxStmts l) e) = EInContext (CtxStmts l) e.
Proof. reflexivity. Qed.

Example c20_nonvacuous :
  in_stmt_ctx (3, 0) 7 (add_context (CtxStmts [{| sc_stmt := (4, 2); sc_stanza := (3, 0); sc_node := 7 |}])
                          (add_context CtxOther EExpectedInteger)).
Proof. exists (4, 2), (EInContext CtxOther EExpectedInteger). split; [reflexivity|]. apply U_other, U_base. exact I. Qed.
