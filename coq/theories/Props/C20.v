(* Props/C20.v — property theorems only.  Execution errors identify the stanza, the matched node and the statement.
   `unwrapped e`: e is a plain error possibly inside Context::Other wrappers ("matching .. with arm ..").
   `in_stmt_ctx z n e`: e = InContext(Statement [c], cause) with c.stanza_location = z, c.node = n, `cause` unwrapped.

   STRICT (strict_error_ctx, strict_file_error_ctx, strict_error_stmt_loc, strict_file_error_stmt_loc,
   strict_nested_error_not_plain): the error of a run is the bare cancellation or comes from one (stanza, match)
   block and sits in ONE statement context carrying the stanza's location, the block's full-match node and the
   location of a statement s' of that stanza (any nesting depth) that FAILED DIRECTLY: the cause is the error
   returned by a run of s' itself, in that block, which carries no statement context — whereas whatever a nested
   block of a statement raises is a cancellation or carries a statement context.  So the cited statement is the
   innermost statement whose execution failed.

   LAZY (lazy_error_ctx_valid, lazy_run_error_ctx_valid, lazy_ctx_invariant): an error of `lexec_file` (both
   phases) is the bare cancellation, or sits in one statement context, or — for a conflict between two statements
   (duplicate attribute / duplicate scoped variable found during evaluation) — in a context naming BOTH; the cause
   is unwrapped; and EVERY context c is a valid context of the run (`valid_ctx`): there are an executed
   (stanza, match) pair of the run and a statement s of that stanza (any depth: the failing statement or, in
   nested blocks, a statement enclosing it) with c.stanza_location = start of the stanza, c.node = first full-match
   node of the match, c.statement_location = location of s.  In particular NO non-cancellation error escapes
   without a statement context (the alternative `unwrapped e` of the older `lazy_error_ctx_shape` is impossible).

   Left to the correspondence stream (see `partial`): that in lazy mode the cited statement is the one that
   created the failing thunk / deferred statement (the theorem says: some statement of the right stanza), and the
   node KIND / source position recorded for the node (the model identifies nodes by index).

   RENDERING (second half of this file; model: Model/ErrRender.v, stream C20r): render_pretty_cites,
   render_pretty_shows_lines, render_pretty_shows_stmt, render_pretty_entries, excerpt_missing_source, ... *)
From TSG Require Import Model.Strict Model.Lazy Proofs.StrictMeta Proofs.ErrorCtx Proofs.Captures Proofs.ErrorCtxValid.
From TSG Require Import Model.ErrRender Proofs.ParseErr Proofs.ErrRender.

(* strict: one block execution (stanza st on match m whose full-match node is n) *)
Theorem strict_error_ctx : forall {rx : Type} t fl cfg glob (regexes : list rx) find call fuel st m s p e n rest,
  call_errors_base call ->
  nodes_for_capture m (st_full_stanza_idx st) = n :: rest ->
  exec_stanza t fl cfg glob regexes find call fuel st m s p = Err e ->
  (exists l, e = ECancelled l) \/ in_stmt_ctx (st_start st) n e.
Proof. intros rx. exact (@strict_stanza_error_ctx_lemma rx). Qed.

(* strict: the error of a whole execution comes from one (stanza, match) block and carries its context *)
Theorem strict_file_error_ctx : forall {rx : Type} t fl cfg glob (regexes : list rx) find call fuel sts ms s p e,
  call_errors_base call ->
  exec_file t fl cfg glob regexes find call fuel sts ms s p = Err e ->
  (exists l, e = ECancelled l) \/
  exists st m, In (st, m) (blocks sts ms) /\
    match nodes_for_capture m (st_full_stanza_idx st) with
    | n :: _ => in_stmt_ctx (st_start st) n e
    | [] => False
    end.
Proof. intros rx. exact (@strict_file_error_ctx_lemma rx). Qed.

(* strict: the statement the context cites.  `stmt_in st s'`: s' occurs in the stanza's statements at any depth.
   `fails_directly .. z n m s' e1`: some run of s' ITSELF (environment: match m, error context (loc of s', z, n))
   returned e1 and e1 carries no statement context. *)
Theorem strict_error_stmt_loc : forall {rx : Type} t fl cfg glob (regexes : list rx) find call fuel st m s p e n rest,
  call_errors_base call ->
  nodes_for_capture m (st_full_stanza_idx st) = n :: rest ->
  exec_stanza t fl cfg glob regexes find call fuel st m s p = Err e ->
  (exists l, e = ECancelled l) \/
  exists s' e0 e1,
    stmt_in st s' /\
    e = EInContext (CtxStmts [{| sc_stmt := stmt_loc s'; sc_stanza := st_start st; sc_node := n |}]) e0 /\
    (e0 = e1 \/ e0 = EInContext CtxOther e1) /\
    (exists fuel' le s0 p0,
        exec_stmt t fl cfg glob regexes find call fuel' le s' s0 p0 = Err e1 /\ unwrapped e1 /\
        le_ctx le = {| sc_stmt := stmt_loc s'; sc_stanza := st_start st; sc_node := n |} /\ le_match le = m).
Proof.
  intros rx t fl cfg glob regexes find call fuel st m s p e n rest Hc Hn H.
  exact (strict_stanza_error_loc_lemma t fl cfg glob regexes find call Hc (st_start st) n m fuel st s p e rest eq_refl Hn H).
Qed.

(* ... and that failure is not one of a statement nested in s': the error of a nested block (statements of an
   `if`/`for` body: wrap = identity; of a scan arm: wrap = with_context(Other)) is never without statement context *)
Theorem strict_nested_error_not_plain : forall {rx : Type} t fl cfg glob (regexes : list rx) find call fuel le wrap body s p e,
  call_errors_base call ->
  (wrap = (fun c => c) \/ wrap = ctx_wrap CtxOther) ->
  iterM (fun st => let c := ctx_update (le_ctx le) st in
                   ctx_wrap (CtxStmts [c]) (wrap (exec_stmt t fl cfg glob regexes find call fuel (le_with_ctx le c) st))) body s p = Err e ->
  ~ unwrapped e.
Proof.
  intros rx t fl cfg glob regexes find call fuel le wrap body s p e Hc Hw H.
  apply (located_not_unwrapped t fl cfg glob regexes find call (sc_stanza (le_ctx le)) (sc_node (le_ctx le)) (le_match le) (stmts_all body)).
  refine (strict_block_error_lemma t fl cfg glob regexes find call Hc _ _ _ fuel le wrap body _ eq_refl eq_refl eq_refl s p e H).
  destruct Hw as [-> | ->]; [apply wrap_id|apply wrap_other].
Qed.

(* strict, whole execution phase *)
Theorem strict_file_error_stmt_loc : forall {rx : Type} t fl cfg glob (regexes : list rx) find call fuel sts ms s p e,
  call_errors_base call ->
  exec_file t fl cfg glob regexes find call fuel sts ms s p = Err e ->
  (exists l, e = ECancelled l) \/
  exists st m, In (st, m) (blocks sts ms) /\
    match nodes_for_capture m (st_full_stanza_idx st) with
    | n :: _ =>
        exists s' e0 e1,
          stmt_in st s' /\
          e = EInContext (CtxStmts [{| sc_stmt := stmt_loc s'; sc_stanza := st_start st; sc_node := n |}]) e0 /\
          (e0 = e1 \/ e0 = EInContext CtxOther e1) /\
          fails_directly t fl cfg glob regexes find call (st_start st) n m s' e1
    | [] => False
    end.
Proof. intros rx. exact (@strict_file_error_loc_lemma rx). Qed.

(* lazy (both phases): an error is the bare cancellation, or sits in exactly one statement context, or —
   for a conflict between two statements (duplicate attribute / duplicate scoped variable) — in a
   context naming BOTH statements *)
Theorem lazy_error_ctx_shape : forall {rx : Type} t fl cfg glob (regexes : list rx) find call fuel ms s p e,
  call_errors_base call ->
  lexec_file t fl cfg glob regexes find call fuel ms s p = Err e ->
  (exists l, e = ECancelled l) \/ unwrapped e \/
  exists cs e0, e = EInContext (CtxStmts cs) e0 /\ (length cs = 1 \/ length cs = 2)%nat.
Proof. intros rx t fl cfg glob regexes find call fuel ms s p e Hc H. exact (lexec_file_error_shape t fl cfg glob regexes find call Hc fuel ms s p e H). Qed.

(* lazy: every context of an error is a valid context of the run, and there always is one.
   valid_ctx fl ms c := exists i st m n rest, In (i, m) ms /\ nth_error (f_stanzas fl) (N.to_nat i) = Some st /\
     nodes_for_capture m (st_full_file_idx st) = n :: rest /\ sc_stanza c = st_start st /\ sc_node c = n /\
     stmt_loc_in st (sc_stmt c)                      (the location of a statement of st, at any depth) *)
Theorem lazy_error_ctx_valid : forall {rx : Type} t fl cfg glob (regexes : list rx) find call fuel ms g0 p e,
  call_errors_base call ->
  lexec_file t fl cfg glob regexes find call fuel ms (linit g0) p = Err e ->
  (exists l, e = ECancelled l) \/
  exists cs e0, e = EInContext (CtxStmts cs) e0 /\ unwrapped e0 /\ (length cs = 1 \/ length cs = 2)%nat /\ Forall (valid_ctx fl ms) cs.
Proof. intros rx. exact (@lexec_file_error_valid_lemma rx). Qed.

(* whole lazy run: the only other errors are those of check_globals, raised before any stanza is executed *)
Theorem lazy_run_error_ctx_valid : forall {rx : Type} t fl cfg supplied budget (regexes : list rx) find call fuel ms g0 e,
  call_errors_base call ->
  run_lazy t fl cfg supplied budget regexes find call fuel ms g0 = Err e ->
  check_globals (f_globals fl) (globals_nested supplied) = Err e \/
  (exists l, e = ECancelled l) \/
  exists cs e0, e = EInContext (CtxStmts cs) e0 /\ unwrapped e0 /\ (length cs = 1 \/ length cs = 2)%nat /\ Forall (valid_ctx fl ms) cs.
Proof. intros rx. exact (@run_lazy_error_valid_lemma rx). Qed.

(* the same from ANY state whose stored statement contexts (thunks, deferred statements, pending scoped
   definitions, prev_element_debug_info) are valid and in which no scoped variable is being forced; the invariant
   holds initially and is kept by successful runs *)
Theorem lazy_ctx_invariant : forall {rx : Type} t fl cfg glob (regexes : list rx) find call fuel ms s p,
  call_errors_base call -> lazy_ctx_inv fl ms s ->
  match lexec_file t fl cfg glob regexes find call fuel ms s p with
  | Ok (_, s', _) => lazy_ctx_inv fl ms s'
  | Err e => (exists l, e = ECancelled l) \/
             exists cs e0, e = EInContext (CtxStmts cs) e0 /\ unwrapped e0 /\ (length cs = 1 \/ length cs = 2)%nat /\ Forall (valid_ctx fl ms) cs
  | _ => True
  end.
Proof. intros rx. exact (@lexec_file_ctx_valid_lemma rx). Qed.
Theorem lazy_ctx_invariant_init : forall fl ms g, lazy_ctx_inv fl ms (linit g).
Proof. exact lazy_ctx_inv_init. Qed.

(* the innermost statement context wins: wrapping an error that already has one changes nothing *)
Theorem with_context_keeps_innermost : forall c l e, add_context c (EInContext (CtxStmts l) e) = EInContext (CtxStmts l) e.
Proof. reflexivity. Qed.

Example c20_nonvacuous :
  in_stmt_ctx (3, 0) 7 (add_context (CtxStmts [{| sc_stmt := (4, 2); sc_stanza := (3, 0); sc_node := 7 |}])
                          (add_context CtxOther EExpectedInteger)).
Proof. exists (4, 2), (EInContext CtxOther EExpectedInteger). split; [reflexivity|]. apply U_other, U_base. exact I. Qed.

(* ---- concrete failing runs: the hypotheses are satisfiable and the conclusions say something ---- *)
Definition ex_call : ident -> graph -> list value -> res (value * graph) := fun _ _ _ => Err EUndefinedFunction.
Lemma ex_call_base : call_errors_base ex_call.
Proof. intros f g args e H. inversion H; subst. exact I. Qed.
Definition ex_tree : tree := {| t_src := []; t_nodes := [] |}.

(* lazy: `node x`, then inside an `if` block `attr (x) k = 1` (line 3), then `attr (x) k = 2` (line 4): the conflict
   is found in the evaluation phase and names BOTH statements — the first by the location of the statement nested
   in the `if`; both contexts are valid, and validity is not trivial: a location of no statement is not valid *)
Example c20_lazy_conflict_nonvacuous :
  let x := [120] in let k := [107] in
  let st := {| st_stmts := [SNode (VarU x (1, 2)) x (1, 0);
                            SIf [([CBool ETrue (2, 3)], [SAttrNode (EUnscoped x (3, 7)) [Attr k (EInt 1)] (3, 2)], (2, 0))] (2, 0);
                            SAttrNode (EUnscoped x (4, 5)) [Attr k (EInt 2)] (4, 0)];
               st_full_stanza_idx := 0; st_full_file_idx := 0; st_start := (0, 0) |} in
  let fl := {| f_globals := []; f_inherited := []; f_shorthands := []; f_stanzas := [st] |} in
  let ms := [(0, [(0, [7])])] in
  let c1 := {| sc_stmt := (3, 2); sc_stanza := (0, 0); sc_node := 7 |} in
  let c2 := {| sc_stmt := (4, 0); sc_stanza := (0, 0); sc_node := 7 |} in
  call_errors_base ex_call /\
  run_lazy ex_tree fl config0 [[]] None (@nil unit) (fun _ _ => None) ex_call 50 ms [] = Err (EInContext (CtxStmts [c1; c2]) EDuplicateAttribute) /\
  valid_ctx fl ms c1 /\ valid_ctx fl ms c2 /\
  ~ valid_ctx fl ms {| sc_stmt := (2, 3); sc_stanza := (0, 0); sc_node := 7 |} /\
  ~ valid_ctx fl ms {| sc_stmt := (4, 0); sc_stanza := (0, 0); sc_node := 8 |}.
Proof.
  cbv zeta. split; [exact ex_call_base|]. split; [vm_compute; reflexivity|].
  split; [|split; [|split]].
  - eexists 0, _, _, 7, []. split; [left; reflexivity|]. split; [reflexivity|]. split; [reflexivity|]. split; [reflexivity|]. split; [reflexivity|].
    eexists. split; [right; right; left; reflexivity|reflexivity].
  - eexists 0, _, _, 7, []. split; [left; reflexivity|]. split; [reflexivity|]. split; [reflexivity|]. split; [reflexivity|]. split; [reflexivity|].
    eexists. split; [right; right; right; left; reflexivity|reflexivity].
  - intros (i & st & m & n & rest & [Hin|[]] & Hst & Hn & _ & _ & (s & Hs & Hl)). inversion Hin; subst. cbn in Hst. inversion Hst; subst.
    cbn in Hs, Hl. destruct Hs as [<-|[<-|[<-|[<-|[]]]]]; discriminate.
  - intros (i & st & m & n & rest & [Hin|[]] & Hst & Hn & _ & Hnode & _). inversion Hin; subst. cbn in Hst. inversion Hst; subst.
    cbn in Hn. inversion Hn.
Qed.

(* strict: the failing `attr (5) k = 1` is nested in an `if`; the error cites the nested statement (line 3), not the
   enclosing `if` (line 2), and the nested statement failed directly *)
Example c20_strict_innermost_nonvacuous :
  let x := [120] in let k := [107] in
  let inner := SAttrNode (EInt 5) [Attr k (EInt 1)] (3, 2) in
  let st := {| st_stmts := [SNode (VarU x (1, 2)) x (1, 0); SIf [([CBool ETrue (2, 3)], [inner], (2, 0))] (2, 0)];
               st_full_stanza_idx := 0; st_full_file_idx := 0; st_start := (0, 0) |} in
  let m := [(0, [7])] in
  call_errors_base ex_call /\
  exec_file ex_tree {| f_globals := []; f_inherited := []; f_shorthands := []; f_stanzas := [st] |} config0 [[]] (@nil unit) (fun _ _ => None)
            ex_call 50 [st] [[m]] (sinit []) (polls0 None)
    = Err (EInContext (CtxStmts [{| sc_stmt := (3, 2); sc_stanza := (0, 0); sc_node := 7 |}]) EExpectedGraphNode) /\
  stmt_in st inner /\
  fails_directly ex_tree {| f_globals := []; f_inherited := []; f_shorthands := []; f_stanzas := [st] |} config0 [[]] (@nil unit) (fun _ _ => None)
                 ex_call (0, 0) 7 m inner EExpectedGraphNode.
Proof.
  cbv zeta. split; [exact ex_call_base|]. split; [vm_compute; reflexivity|]. split; [right; right; left; reflexivity|].
  exists 10%nat, {| le_match := [(0, [7])]; le_full := 0; le_caps := []; le_ctx := {| sc_stmt := (3, 2); sc_stanza := (0, 0); sc_node := 7 |} |},
         (sinit []), (polls0 None).
  split; [vm_compute; reflexivity|]. split; [apply U_base; exact I|]. split; reflexivity.
Qed.

(* ================================================================================================================
   RENDERING (last sentence of the property: "pretty rendering of the error shows the cited DSL and source lines").
   Model/ErrRender.v models /repo/src/execution/error.rs: the chain the Rust code sees (contexts outermost first —
   `Context::Statement` with one or two `StatementContext`s, or `Context::Other` — and the Display of the innermost
   error), `render_pretty` = `ExecutionError::display_pretty` (fmt_entry / fmt_pretty / Excerpt with indent 7),
   `render_plain` = the plain Display.  The wording of the messages is a parameter (`wording`, `wording_plain`): all
   theorems hold for ANY wording.  Stream C20r compares both texts character by character with the implementation.

   (a) TOTALITY.  `render_pretty` and `render_plain` are structural recursions on the chain without fuel and without an
   outcome type: there is no panic site to model.  The only partial operation of the Rust code is
   `source.lines().nth(row)` inside `Excerpt::from_source`; when the row does not exist the excerpt is the header line
   and "<missing source>" (`excerpt_missing_source`) — in particular the location is still cited — and otherwise it is
   the header, the numbered line and a caret line with one caret, or none when the column is not inside the line
   (`excerpt_present`).  The columns are only used as repeat counts, never as slice bounds.
   `contains` (the executable "occurs in") means what it should: `contains_spec`. *)

Theorem contains_spec : forall n h, contains n h = true <-> exists x y, h = x ++ n ++ y.
Proof. intros n h. split; [apply contains_sub|apply sub_contains]. Qed.

(* the generalised excerpt is the one of C18 at indent 0 *)
Theorem excerpt_ind_generalises : forall path src row cs ce, excerpt_ind 0 path src row cs ce = excerpt path src row cs ce.
Proof. exact excerpt_ind_0. Qed.

Theorem excerpt_missing_source : forall ind path src row cs ce,
  (length (lines src) <= N.to_nat row)%nat ->
  excerpt_ind ind path src row cs ce = spaces ind ++ cite path row cs ++ [10] ++ spaces ind ++ missing_source ++ [10].
Proof. intros * H. apply excerpt_ind_missing, nth_error_None, H. Qed.

Theorem excerpt_present : forall ind path src r c,
  (N.to_nat r < length (lines src))%nat ->
  exists l, nth_error (lines src) (N.to_nat r) = Some l /\
    excerpt_loc ind path src (r, c)
    = spaces ind ++ cite path r c ++ [10]
      ++ spaces ind ++ dec (r + 1) ++ [32;124;32] ++ l ++ [10]
      ++ spaces ind ++ spaces (gutter_width r) ++ [32;124;32] ++ spaces c ++ (if c <? utf8_bytes l then [94] else []) ++ [10].
Proof.
  intros * H. destruct (nth_error (lines src) (N.to_nat r)) as [l|] eqn:E.
  - exists l. split; [reflexivity|]. apply excerpt_loc_present, E.
  - apply nth_error_None in E. lia.
Qed.

(* (b) EVERY statement context of the chain (at any depth of the chain, both statements of a conflict) is cited three
   times: "tsg_path:row+1:col+1:" for the statement and for the stanza, "src_path:row+1:col+1:" for the matched node *)
Theorem render_pretty_cites : forall w tsg_path tsg src_path src ch c,
  In c (all_stmt_ctxs (ch_ctxs ch)) ->
  let out := render_pretty w tsg_path tsg src_path src ch in
  contains (cite tsg_path (fst (sx_stmt_loc c)) (snd (sx_stmt_loc c))) out = true /\
  contains (cite tsg_path (fst (sx_stanza_loc c)) (snd (sx_stanza_loc c))) out = true /\
  contains (cite src_path (fst (sx_src_loc c)) (snd (sx_src_loc c))) out = true.
Proof. intros w tp t sp s ch c H. exact (render_pretty_cites_lemma w tp t sp s ch c H). Qed.

(* (c) ... and the cited lines are shown: whenever the row of the statement / the stanza is a line of the given DSL text,
   resp. the row of the node a line of the given source text, the text of that line occurs in the output *)
Theorem render_pretty_shows_lines : forall w tsg_path tsg src_path src ch c,
  In c (all_stmt_ctxs (ch_ctxs ch)) ->
  let out := render_pretty w tsg_path tsg src_path src ch in
  (forall l, nth_error (lines tsg) (N.to_nat (fst (sx_stmt_loc c))) = Some l -> contains l out = true) /\
  (forall l, nth_error (lines tsg) (N.to_nat (fst (sx_stanza_loc c))) = Some l -> contains l out = true) /\
  (forall l, nth_error (lines src) (N.to_nat (fst (sx_src_loc c))) = Some l -> contains l out = true).
Proof. intros w tp t sp s ch c H. exact (render_pretty_shows_lines_lemma w tp t sp s ch c H). Qed.

(* the statement itself (its Display) and the kind of the matched node are shown too *)
Theorem render_pretty_shows_stmt : forall w tsg_path tsg src_path src ch c,
  In c (all_stmt_ctxs (ch_ctxs ch)) ->
  contains (sx_stmt c) (render_pretty w tsg_path tsg src_path src ch) = true /\
  contains (sx_kind c) (render_pretty w tsg_path tsg src_path src ch) = true.
Proof. intros w tp t sp s ch c H. exact (render_pretty_shows_stmt_lemma w tp t sp s ch c H). Qed.

(* the executable form used by the correspondence verdict: code 63 of stream C20r cannot occur *)
Theorem render_pretty_shows_ctx : forall w tsg_path tsg src_path src ch,
  forallb (shows_ctx tsg_path tsg src_path src (render_pretty w tsg_path tsg src_path src ch)) (all_stmt_ctxs (ch_ctxs ch)) = true.
Proof. exact shows_ctx_model. Qed.

(* (d) ORDER.  The output is the concatenation of one entry per context in chain order, OUTERMOST FIRST, numbered
   0, 1, 2, .., followed by the entry of the innermost error, whose number is the number of contexts; an entry (other
   than that of an empty `Statement` vector, which prints nothing) starts with its number right-aligned in 5 columns
   and ": ", the number being the decimal numeral (`undec (dec i) = i`); the entry of a statement context continues with
   the first phrase and the statement; the further statement of a conflict does NOT get a number of its own. *)
Theorem render_pretty_entries : forall w tsg_path tsg src_path src ch,
  render_pretty w tsg_path tsg src_path src ch
  = concat (map (fun p => render_ctx w tsg_path tsg src_path src (fst p) (snd p)) (number_from 0 (ch_ctxs ch)))
    ++ entry_head (N.of_nat (length (ch_ctxs ch))) ++ ch_cause ch ++ [10].
Proof. exact render_pretty_entries_lemma. Qed.

Theorem render_entry_head : forall w tsg_path tsg src_path src i c,
  c <> RStmts [] -> is_prefix (entry_head i) (render_ctx w tsg_path tsg src_path src i c) = true.
Proof. exact render_ctx_head_lemma. Qed.

Theorem render_entry_stmt_head : forall w tsg_path tsg src_path src i d r,
  is_prefix (entry_head i ++ w_first w ++ sx_stmt d ++ [10]) (render_ctx w tsg_path tsg src_path src i (RStmts (d :: r))) = true.
Proof. exact render_ctx_stmt_head_lemma. Qed.

Theorem entry_head_numeral : forall i,
  entry_head i = spaces (5 - N.of_nat (length (dec i))) ++ dec i ++ [58;32] /\ undec (dec i) = i.
Proof. intros i. split; [apply entry_head_eq|apply dec_correct]. Qed.

(* the plain Display (one line) names, for every statement context, the statement, the stanza position, the node kind and
   the node position "(row+1, col+1)", and ends with the innermost error *)
Theorem render_plain_shows : forall w ch c,
  In c (all_stmt_ctxs (ch_ctxs ch)) ->
  contains (sx_stmt c) (render_plain w ch) = true /\
  contains (show_loc (sx_stanza_loc c)) (render_plain w ch) = true /\
  contains (sx_kind c) (render_plain w ch) = true /\
  contains (show_loc (sx_src_loc c)) (render_plain w ch) = true.
Proof. exact render_plain_shows_lemma. Qed.

Theorem render_plain_cause : forall w ch, exists x, render_plain w ch = x ++ ch_cause ch.
Proof. exact render_plain_cause_lemma. Qed.

(* ---- non-vacuity: two REAL chains (the expected texts below are the output of the implementation, not of the model).
   A. strict run of
     (module) @_mod {
       scan "é" {
         "é" {
           let x = (plus "a" 1)
         }
       }
     }
   on `pass`, rendered with an EMPTY source text and the paths r.tsg / é.py:
         0: Error executing statement let x = (plus "a" 1) at (4, 7)
            r.tsg:4:7:
            4 |       let x = (plus "a" 1)
              |       ^
            in stanza
            r.tsg:1:1:
            1 | (module) @_mod {
              | ^
            matching (module) node
            é.py:1:1:
            <missing source>
         1: matching é with arm "é"
         2: Expected an integer got a
   B. lazy run (conflict of two statements, one inside a scan arm) of
     (module) @_mod {
       node nd
       scan "é" {
         "é" {
           attr (nd) kk = 1
         }
       }
       attr (nd) kk = 2
     }
   on `pass`, paths `my rules/r.tsg` / `src/é.py`:
         0: Error executing statement attr (nd) kk = 1 at (5, 7)
            my rules/r.tsg:5:7:
            5 |       attr (nd) kk = 1
              |       ^
            in stanza
            my rules/r.tsg:1:1:
            1 | (module) @_mod {
              | ^
            matching (module) node
            src/é.py:1:1:
            1 | pass
              | ^
          > and executing statement attr (nd) kk = 2 at (8, 3)
            my rules/r.tsg:8:3:
            8 |   attr (nd) kk = 2
              |   ^
            in stanza
            my rules/r.tsg:1:1:
            1 | (module) @_mod {
              | ^
            matching (module) node
            src/é.py:1:1:
            1 | pass
              | ^
         1: Duplicate attribute kk on [graph node 0] *)
Definition exA_tsg : str := [40;109;111;100;117;108;101;41;32;64;95;109;111;100;32;123;10;32;32;115;99;97;110;32;34;233;34;32;123;10;32;32;32;32;34;233;34;32;123;10;32;32;32;32;32;32;108;101;116;32;120;32;61;32;40;112;108;117;115;32;34;97;34;32;49;41;10;32;32;32;32;125;10;32;32;125;10;125;10].
Definition exA_chain : chain :=
  {| ch_ctxs := [RStmts [{| sx_stmt := [108;101;116;32;120;32;61;32;40;112;108;117;115;32;34;97;34;32;49;41;32;97;116;32;40;52;44;32;55;41]; sx_stmt_loc := (3, 6); sx_stanza_loc := (0, 0); sx_src_loc := (0, 0); sx_kind := [109;111;100;117;108;101] |}];
                 ROther [109;97;116;99;104;105;110;103;32;233;32;119;105;116;104;32;97;114;109;32;34;233;34]];
     ch_cause := [69;120;112;101;99;116;101;100;32;97;110;32;105;110;116;101;103;101;114;32;103;111;116;32;97] |}.
Example render_pretty_example_A :
  render_pretty default_wording [114;46;116;115;103] exA_tsg [233;46;112;121] [] exA_chain
  = [32;32;32;32;48;58;32;69;114;114;111;114;32;101;120;101;99;117;116;105;110;103;32;115;116;97;116;101;109;101;110;116;32;108;101;116;32;120;32;61;32;40;112;108;117;115;32;34;97;34;32;49;41;32;97;116;32;40;52;44;32;55;41;10;32;32;32;32;32;32;32;114;46;116;115;103;58;52;58;55;58;10;32;32;32;32;32;32;32;52;32;124;32;32;32;32;32;32;32;108;101;116;32;120;32;61;32;40;112;108;117;115;32;34;97;34;32;49;41;10;32;32;32;32;32;32;32;32;32;124;32;32;32;32;32;32;32;94;10;32;32;32;32;32;32;32;105;110;32;115;116;97;110;122;97;10;32;32;32;32;32;32;32;114;46;116;115;103;58;49;58;49;58;10;32;32;32;32;32;32;32;49;32;124;32;40;109;111;100;117;108;101;41;32;64;95;109;111;100;32;123;10;32;32;32;32;32;32;32;32;32;124;32;94;10;32;32;32;32;32;32;32;109;97;116;99;104;105;110;103;32;40;109;111;100;117;108;101;41;32;110;111;100;101;10;32;32;32;32;32;32;32;233;46;112;121;58;49;58;49;58;10;32;32;32;32;32;32;32;60;109;105;115;115;105;110;103;32;115;111;117;114;99;101;62;10;32;32;32;32;49;58;32;109;97;116;99;104;105;110;103;32;233;32;119;105;116;104;32;97;114;109;32;34;233;34;10;32;32;32;32;50;58;32;69;120;112;101;99;116;101;100;32;97;110;32;105;110;116;101;103;101;114;32;103;111;116;32;97;10]
  /\ render_plain default_wording_plain exA_chain
  = [69;114;114;111;114;32;101;120;101;99;117;116;105;110;103;32;108;101;116;32;120;32;61;32;40;112;108;117;115;32;34;97;34;32;49;41;32;97;116;32;40;52;44;32;55;41;32;105;110;32;115;116;97;110;122;97;32;97;116;32;40;49;44;32;49;41;32;109;97;116;99;104;105;110;103;32;40;109;111;100;117;108;101;41;32;110;111;100;101;32;97;116;32;40;49;44;32;49;41;46;32;67;97;117;115;101;100;32;98;121;58;32;109;97;116;99;104;105;110;103;32;233;32;119;105;116;104;32;97;114;109;32;34;233;34;46;32;67;97;117;115;101;100;32;98;121;58;32;69;120;112;101;99;116;101;100;32;97;110;32;105;110;116;101;103;101;114;32;103;111;116;32;97].
Proof. split; vm_compute; reflexivity. Qed.

(* the hypotheses of the theorems are satisfiable and `contains` is not trivially true: the statement is cited at
   row 3, column 6 ("r.tsg:4:7:") and not at column 7; the source row does not exist ("<missing source>") *)
Example render_pretty_cites_nonvacuous :
  let out := render_pretty default_wording [114;46;116;115;103] exA_tsg [233;46;112;121] [] exA_chain in
  length (all_stmt_ctxs (ch_ctxs exA_chain)) = 1%nat /\
  contains (cite [114;46;116;115;103] 3 6) out = true /\ contains (cite [114;46;116;115;103] 3 7) out = false /\
  nth_error (lines exA_tsg) 3 = Some [32;32;32;32;32;32;108;101;116;32;120;32;61;32;40;112;108;117;115;32;34;97;34;32;49;41] /\
  contains [32;32;32;32;32;32;108;101;116;32;120;32;61;32;40;112;108;117;115;32;34;97;34;32;49;41] out = true /\
  nth_error (lines []) 0 = None /\ contains missing_source out = true.
Proof. vm_compute. repeat split. Qed.

Definition exB_tsg : str := [40;109;111;100;117;108;101;41;32;64;95;109;111;100;32;123;10;32;32;110;111;100;101;32;110;100;10;32;32;115;99;97;110;32;34;233;34;32;123;10;32;32;32;32;34;233;34;32;123;10;32;32;32;32;32;32;97;116;116;114;32;40;110;100;41;32;107;107;32;61;32;49;10;32;32;32;32;125;10;32;32;125;10;32;32;97;116;116;114;32;40;110;100;41;32;107;107;32;61;32;50;10;125;10].
Definition exB_chain : chain :=
  {| ch_ctxs := [RStmts [{| sx_stmt := [97;116;116;114;32;40;110;100;41;32;107;107;32;61;32;49;32;97;116;32;40;53;44;32;55;41]; sx_stmt_loc := (4, 6); sx_stanza_loc := (0, 0); sx_src_loc := (0, 0); sx_kind := [109;111;100;117;108;101] |};
                         {| sx_stmt := [97;116;116;114;32;40;110;100;41;32;107;107;32;61;32;50;32;97;116;32;40;56;44;32;51;41]; sx_stmt_loc := (7, 2); sx_stanza_loc := (0, 0); sx_src_loc := (0, 0); sx_kind := [109;111;100;117;108;101] |}]];
     ch_cause := [68;117;112;108;105;99;97;116;101;32;97;116;116;114;105;98;117;116;101;32;107;107;32;111;110;32;91;103;114;97;112;104;32;110;111;100;101;32;48;93] |}.
Example render_pretty_example_B :
  render_pretty default_wording [109;121;32;114;117;108;101;115;47;114;46;116;115;103] exB_tsg [115;114;99;47;233;46;112;121] [112;97;115;115;10] exB_chain
  = [32;32;32;32;48;58;32;69;114;114;111;114;32;101;120;101;99;117;116;105;110;103;32;115;116;97;116;101;109;101;110;116;32;97;116;116;114;32;40;110;100;41;32;107;107;32;61;32;49;32;97;116;32;40;53;44;32;55;41;10;32;32;32;32;32;32;32;109;121;32;114;117;108;101;115;47;114;46;116;115;103;58;53;58;55;58;10;32;32;32;32;32;32;32;53;32;124;32;32;32;32;32;32;32;97;116;116;114;32;40;110;100;41;32;107;107;32;61;32;49;10;32;32;32;32;32;32;32;32;32;124;32;32;32;32;32;32;32;94;10;32;32;32;32;32;32;32;105;110;32;115;116;97;110;122;97;10;32;32;32;32;32;32;32;109;121;32;114;117;108;101;115;47;114;46;116;115;103;58;49;58;49;58;10;32;32;32;32;32;32;32;49;32;124;32;40;109;111;100;117;108;101;41;32;64;95;109;111;100;32;123;10;32;32;32;32;32;32;32;32;32;124;32;94;10;32;32;32;32;32;32;32;109;97;116;99;104;105;110;103;32;40;109;111;100;117;108;101;41;32;110;111;100;101;10;32;32;32;32;32;32;32;115;114;99;47;233;46;112;121;58;49;58;49;58;10;32;32;32;32;32;32;32;49;32;124;32;112;97;115;115;10;32;32;32;32;32;32;32;32;32;124;32;94;10;32;32;32;32;32;62;32;97;110;100;32;101;120;101;99;117;116;105;110;103;32;115;116;97;116;101;109;101;110;116;32;97;116;116;114;32;40;110;100;41;32;107;107;32;61;32;50;32;97;116;32;40;56;44;32;51;41;10;32;32;32;32;32;32;32;109;121;32;114;117;108;101;115;47;114;46;116;115;103;58;56;58;51;58;10;32;32;32;32;32;32;32;56;32;124;32;32;32;97;116;116;114;32;40;110;100;41;32;107;107;32;61;32;50;10;32;32;32;32;32;32;32;32;32;124;32;32;32;94;10;32;32;32;32;32;32;32;105;110;32;115;116;97;110;122;97;10;32;32;32;32;32;32;32;109;121;32;114;117;108;101;115;47;114;46;116;115;103;58;49;58;49;58;10;32;32;32;32;32;32;32;49;32;124;32;40;109;111;100;117;108;101;41;32;64;95;109;111;100;32;123;10;32;32;32;32;32;32;32;32;32;124;32;94;10;32;32;32;32;32;32;32;109;97;116;99;104;105;110;103;32;40;109;111;100;117;108;101;41;32;110;111;100;101;10;32;32;32;32;32;32;32;115;114;99;47;233;46;112;121;58;49;58;49;58;10;32;32;32;32;32;32;32;49;32;124;32;112;97;115;115;10;32;32;32;32;32;32;32;32;32;124;32;94;10;32;32;32;32;49;58;32;68;117;112;108;105;99;97;116;101;32;97;116;116;114;105;98;117;116;101;32;107;107;32;111;110;32;91;103;114;97;112;104;32;110;111;100;101;32;48;93;10]
  /\ render_plain default_wording_plain exB_chain
  = [69;114;114;111;114;32;101;120;101;99;117;116;105;110;103;32;97;116;116;114;32;40;110;100;41;32;107;107;32;61;32;49;32;97;116;32;40;53;44;32;55;41;32;105;110;32;115;116;97;110;122;97;32;97;116;32;40;49;44;32;49;41;32;109;97;116;99;104;105;110;103;32;40;109;111;100;117;108;101;41;32;110;111;100;101;32;97;116;32;40;49;44;32;49;41;32;97;110;100;32;101;120;101;99;117;116;105;110;103;32;97;116;116;114;32;40;110;100;41;32;107;107;32;61;32;50;32;97;116;32;40;56;44;32;51;41;32;105;110;32;115;116;97;110;122;97;32;97;116;32;40;49;44;32;49;41;32;109;97;116;99;104;105;110;103;32;40;109;111;100;117;108;101;41;32;110;111;100;101;32;97;116;32;40;49;44;32;49;41;46;32;67;97;117;115;101;100;32;98;121;58;32;68;117;112;108;105;99;97;116;101;32;97;116;116;114;105;98;117;116;101;32;107;107;32;111;110;32;91;103;114;97;112;104;32;110;111;100;101;32;48;93].
Proof. split; vm_compute; reflexivity. Qed.

(* the correspondence verdict distinguishes: the real text agrees (0), a text with another column does not (61) *)
Example c20r_verdict_nonvacuous :
  let real := render_pretty default_wording [109;121;32;114;117;108;101;115;47;114;46;116;115;103] exB_tsg [115;114;99;47;233;46;112;121] [112;97;115;115;10] exB_chain in
  let plain := render_plain default_wording_plain exB_chain in
  c20r_verdict default_wording default_wording_plain [109;121;32;114;117;108;101;115;47;114;46;116;115;103] exB_tsg [115;114;99;47;233;46;112;121] [112;97;115;115;10] exB_chain real plain = 0 /\
  c20r_verdict default_wording default_wording_plain [109;121;32;114;117;108;101;115;47;114;46;116;115;103] exB_tsg [115;114;99;47;233;46;112;121] [112;97;115;115;10] exB_chain (real ++ [32]) plain = 61 /\
  c20r_verdict default_wording default_wording_plain [109;121;32;114;117;108;101;115;47;114;46;116;115;103] exB_tsg [115;114;99;47;233;46;112;121] [112;97;115;115;10] exB_chain real (32 :: plain) = 62.
Proof. vm_compute. repeat split. Qed.
