(* Props/C20.v — property theorems only.  Execution errors identify the stanza, the matched node and the statement.
   `unwrapped e`: e is a plain error possibly inside Context::Other wrappers ("matching .. with arm ..").
   `in_stmt_ctx z n e`: e = InContext(Statement [c], cause) with c.stanza_location = z, c.node = n, `cause` unwrapped.

   STRICT (strict_error_ctx, strict_file_error_ctx, strict_error_stmt_loc, strict_file_error_stmt_loc,
   strict_nested_error_not_plain): the error of a run is the bare cancellation or comes from one (stanza, match)
   block and sits in ONE statement context carrying the stanza's location, the block's full-match node and the
   location of a statement s' of that stanza (any nesting depth) that FAILED DIRECTLY: the cause is the error
   returned by a run of s' itself, in that block, which carries no statement context — whereas whatever a nested
   block of a statement raises is a cancellation or carries a statement context.  So the cited statement is the
   innermost statement whose execution failed.

   LAZY (lazy_error_ctx_valid, lazy_run_error_ctx_valid, lazy_ctx_invariant): an error of `lexec_file` (both
   phases) is the bare cancellation, or sits in one statement context, or — for a conflict between two statements
   (duplicate attribute / duplicate scoped variable found during evaluation) — in a context naming BOTH; the cause
   is unwrapped; and EVERY context c is a valid context of the run (`valid_ctx`): there are an executed
   (stanza, match) pair of the run and a statement s of that stanza (any depth: the failing statement or, in
   nested blocks, a statement enclosing it) with c.stanza_location = start of the stanza, c.node = first full-match
   node of the match, c.statement_location = location of s.  In particular NO non-cancellation error escapes
   without a statement context (the alternative `unwrapped e` of the older `lazy_error_ctx_shape` is impossible).

   LAZY, WHICH statement is cited (second half of the file; Proofs/CiteEval.v, CiteStmt.v, CiteExec.v, CiteRun.v).
   with_context keeps the innermost statement context, and in lazy mode the contexts are added by
     (a) Stanza::execute_lazy around each TOP-LEVEL statement, and the scan statement around each direct child of an arm
         (`if`/`for` bodies only update error_context, they add no context);
     (b) LazyStatement::evaluate around each deferred graph statement (debug info = error_context when it was pushed);
     (c) LazyStore::evaluate around each thunk (debug info = error_context of the statement that created it);
     (d) LazyScopedVariables::force around the scope of each pending definition (debug info of the definition), and for
         two definitions of one variable on one node a context naming both, the earlier definition first.
   Vocabulary: `origin s e` (CiteEval): e = InContext(Statement [d], e1), d the debug info of a thunk of s whose OWN body
   returned e1 WITHOUT statement context (`thunk_direct`: so e1 was not raised inside another thunk), or the same for the
   scope of a pending scoped definition of s (cause inside Context::Other), or the DuplicateVariable pair; `forced e` =
   origin in some state; `key_sets st k`: the deferred attribute statement st sets the attribute name of key k;
   `cites_deferred init all e`: e cites a statement st of `all` by its own debug info with an unwrapped cause, or is the
   DuplicateAttribute pair [debug info of an attribute statement evaluated no later than st that sets the same key; st];
   `top_cited`/`arm_cited z n m L e`: e = InContext(Statement (loc s', z, n), cause) for s' in L whose own run, with its own
   location in the error context, returned the cause e1 without statement context (`lfails_directly`) — for arm children
   inside Context::Other; `arm_stmts s`: the direct children of scan arms nested in s.
     lazy_deferred_error_cites_own_statement, lazy_eval_phase_error_cites_deferred   (1)
     lazy_thunk_error_cites_creator, lazy_value_error_cites_creator, lazy_creator_context_wins, lazy_thunk_error_not_plain   (2)
     lazy_stmt_error_cites_statement, lazy_exec_error_cites_statement   (3)
     lazy_run_error_cites   (whole run from the initial state: one of the above, no other case)
     lazy_created_values_cite_statement   (what "creator" means: every thunk, pending scoped definition and deferred
       statement stored while a statement runs carries the error context of that statement, or — for `if`/`for`/`scan` — of a
       statement nested in it, whose location the nested block put into error_context; `ctx_stored s d`: d is stored in s)

   Left to the correspondence stream: the node KIND / source position shown for the node (the model identifies nodes by
   index) and the statement TEXT of a context (the model keeps locations only).

   RENDERING (last part of this file; model: Model/ErrRender.v, stream C20r): render_pretty_cites,
   render_pretty_shows_lines, render_pretty_shows_stmt, render_pretty_entries, excerpt_missing_source, ... *)
From TSG Require Import Model.Strict Model.Lazy Proofs.StrictMeta Proofs.ErrorCtx Proofs.Captures Proofs.ErrorCtxValid.
From TSG Require Import Proofs.CiteEval Proofs.CiteStmt Proofs.CiteExec Proofs.CiteRun.

(* strict: one block execution (stanza st on match m whose full-match node is n) *)
Theorem strict_error_ctx : forall {rx : Type} t fl cfg glob (regexes : list rx) find call fuel st m s p e n rest,
  call_errors_base call ->
  nodes_for_capture m (st_full_stanza_idx st) = n :: rest ->
  exec_stanza t fl cfg glob regexes find call fuel st m s p = Err e ->
  (exists l, e = ECancelled l) \/ in_stmt_ctx (st_start st) n e.
Proof. intros rx. exact (@strict_stanza_error_ctx_lemma rx). Qed.

(* strict: the error of a whole execution comes from one (stanza, match) block and carries its context *)
Theorem strict_file_error_ctx : forall {rx : Type} t fl cfg glob (regexes : list rx) find call fuel sts ms s p e,
  call_errors_base call ->
  exec_file t fl cfg glob regexes find call fuel sts ms s p = Err e ->
  (exists l, e = ECancelled l) \/
  exists st m, In (st, m) (blocks sts ms) /\
    match nodes_for_capture m (st_full_stanza_idx st) with
    | n :: _ => in_stmt_ctx (st_start st) n e
    | [] => False
    end.
Proof. intros rx. exact (@strict_file_error_ctx_lemma rx). Qed.

(* strict: the statement the context cites.  `stmt_in st s'`: s' occurs in the stanza's statements at any depth.
   `fails_directly .. z n m s' e1`: some run of s' ITSELF (environment: match m, error context (loc of s', z, n))
   returned e1 and e1 carries no statement context. *)
Theorem strict_error_stmt_loc : forall {rx : Type} t fl cfg glob (regexes : list rx) find call fuel st m s p e n rest,
  call_errors_base call ->
  nodes_for_capture m (st_full_stanza_idx st) = n :: rest ->
  exec_stanza t fl cfg glob regexes find call fuel st m s p = Err e ->
  (exists l, e = ECancelled l) \/
  exists s' e0 e1,
    stmt_in st s' /\
    e = EInContext (CtxStmts [{| sc_stmt := stmt_loc s'; sc_stanza := st_start st; sc_node := n |}]) e0 /\
    (e0 = e1 \/ e0 = EInContext CtxOther e1) /\
    (exists fuel' le s0 p0,
        exec_stmt t fl cfg glob regexes find call fuel' le s' s0 p0 = Err e1 /\ unwrapped e1 /\
        le_ctx le = {| sc_stmt := stmt_loc s'; sc_stanza := st_start st; sc_node := n |} /\ le_match le = m).
Proof.
  intros rx t fl cfg glob regexes find call fuel st m s p e n rest Hc Hn H.
  exact (strict_stanza_error_loc_lemma t fl cfg glob regexes find call Hc (st_start st) n m fuel st s p e rest eq_refl Hn H).
Qed.

(* ... and that failure is not one of a statement nested in s': the error of a nested block (statements of an
   `if`/`for` body: wrap = identity; of a scan arm: wrap = with_context(Other)) is never without statement context *)
Theorem strict_nested_error_not_plain : forall {rx : Type} t fl cfg glob (regexes : list rx) find call fuel le wrap body s p e,
  call_errors_base call ->
  (wrap = (fun c => c) \/ wrap = ctx_wrap CtxOther) ->
  iterM (fun st => let c := ctx_update (le_ctx le) st in
                   ctx_wrap (CtxStmts [c]) (wrap (exec_stmt t fl cfg glob regexes find call fuel (le_with_ctx le c) st))) body s p = Err e ->
  ~ unwrapped e.
Proof.
  intros rx t fl cfg glob regexes find call fuel le wrap body s p e Hc Hw H.
  apply (located_not_unwrapped t fl cfg glob regexes find call (sc_stanza (le_ctx le)) (sc_node (le_ctx le)) (le_match le) (stmts_all body)).
  refine (strict_block_error_lemma t fl cfg glob regexes find call Hc _ _ _ fuel le wrap body _ eq_refl eq_refl eq_refl s p e H).
  destruct Hw as [-> | ->]; [apply wrap_id|apply wrap_other].
Qed.

(* strict, whole execution phase *)
Theorem strict_file_error_stmt_loc : forall {rx : Type} t fl cfg glob (regexes : list rx) find call fuel sts ms s p e,
  call_errors_base call ->
  exec_file t fl cfg glob regexes find call fuel sts ms s p = Err e ->
  (exists l, e = ECancelled l) \/
  exists st m, In (st, m) (blocks sts ms) /\
    match nodes_for_capture m (st_full_stanza_idx st) with
    | n :: _ =>
        exists s' e0 e1,
          stmt_in st s' /\
          e = EInContext (CtxStmts [{| sc_stmt := stmt_loc s'; sc_stanza := st_start st; sc_node := n |}]) e0 /\
          (e0 = e1 \/ e0 = EInContext CtxOther e1) /\
          fails_directly t fl cfg glob regexes find call (st_start st) n m s' e1
    | [] => False
    end.
Proof. intros rx. exact (@strict_file_error_loc_lemma rx). Qed.

(* lazy (both phases): an error is the bare cancellation, or sits in exactly one statement context, or —
   for a conflict between two statements (duplicate attribute / duplicate scoped variable) — in a
   context naming BOTH statements *)
Theorem lazy_error_ctx_shape : forall {rx : Type} t fl cfg glob (regexes : list rx) find call fuel ms s p e,
  call_errors_base call ->
  lexec_file t fl cfg glob regexes find call fuel ms s p = Err e ->
  (exists l, e = ECancelled l) \/ unwrapped e \/
  exists cs e0, e = EInContext (CtxStmts cs) e0 /\ (length cs = 1 \/ length cs = 2)%nat.
Proof. intros rx t fl cfg glob regexes find call fuel ms s p e Hc H. exact (lexec_file_error_shape t fl cfg glob regexes find call Hc fuel ms s p e H). Qed.

(* lazy: every context of an error is a valid context of the run, and there always is one.
   valid_ctx fl ms c := exists i st m n rest, In (i, m) ms /\ nth_error (f_stanzas fl) (N.to_nat i) = Some st /\
     nodes_for_capture m (st_full_file_idx st) = n :: rest /\ sc_stanza c = st_start st /\ sc_node c = n /\
     stmt_loc_in st (sc_stmt c)                      (the location of a statement of st, at any depth) *)
Theorem lazy_error_ctx_valid : forall {rx : Type} t fl cfg glob (regexes : list rx) find call fuel ms g0 p e,
  call_errors_base call ->
  lexec_file t fl cfg glob regexes find call fuel ms (linit g0) p = Err e ->
  (exists l, e = ECancelled l) \/
  exists cs e0, e = EInContext (CtxStmts cs) e0 /\ unwrapped e0 /\ (length cs = 1 \/ length cs = 2)%nat /\ Forall (valid_ctx fl ms) cs.
Proof. intros rx. exact (@lexec_file_error_valid_lemma rx). Qed.

(* whole lazy run: the only other errors are those of check_globals, raised before any stanza is executed *)
Theorem lazy_run_error_ctx_valid : forall {rx : Type} t fl cfg supplied budget (regexes : list rx) find call fuel ms g0 e,
  call_errors_base call ->
  run_lazy t fl cfg supplied budget regexes find call fuel ms g0 = Err e ->
  check_globals (f_globals fl) (globals_nested supplied) = Err e \/
  (exists l, e = ECancelled l) \/
  exists cs e0, e = EInContext (CtxStmts cs) e0 /\ unwrapped e0 /\ (length cs = 1 \/ length cs = 2)%nat /\ Forall (valid_ctx fl ms) cs.
Proof. intros rx. exact (@run_lazy_error_valid_lemma rx). Qed.

(* the same from ANY state whose stored statement contexts (thunks, deferred statements, pending scoped
   definitions, prev_element_debug_info) are valid and in which no scoped variable is being forced; the invariant
   holds initially and is kept by successful runs *)
Theorem lazy_ctx_invariant : forall {rx : Type} t fl cfg glob (regexes : list rx) find call fuel ms s p,
  call_errors_base call -> lazy_ctx_inv fl ms s ->
  match lexec_file t fl cfg glob regexes find call fuel ms s p with
  | Ok (_, s', _) => lazy_ctx_inv fl ms s'
  | Err e => (exists l, e = ECancelled l) \/
             exists cs e0, e = EInContext (CtxStmts cs) e0 /\ unwrapped e0 /\ (length cs = 1 \/ length cs = 2)%nat /\ Forall (valid_ctx fl ms) cs
  | _ => True
  end.
Proof. intros rx. exact (@lexec_file_ctx_valid_lemma rx). Qed.
Theorem lazy_ctx_invariant_init : forall fl ms g, lazy_ctx_inv fl ms (linit g).
Proof. exact lazy_ctx_inv_init. Qed.

(* the innermost statement context wins: wrapping an error that already has one changes nothing *)
Theorem with_context_keeps_innermost : forall c l e, add_context c (EInContext (CtxStmts l) e) = EInContext (CtxStmts l) e.
Proof. reflexivity. Qed.

Example c20_nonvacuous :
  in_stmt_ctx (3, 0) 7 (add_context (CtxStmts [{| sc_stmt := (4, 2); sc_stanza := (3, 0); sc_node := 7 |}])
                          (add_context CtxOther EExpectedInteger)).
Proof. exists (4, 2), (EInContext CtxOther EExpectedInteger). split; [reflexivity|]. apply U_other, U_base. exact I. Qed.

(* ---- concrete failing runs: the hypotheses are satisfiable and the conclusions say something ---- *)
Definition ex_call : ident -> graph -> list value -> res (value * graph) := fun _ _ _ => Err EUndefinedFunction.
Lemma ex_call_base : call_errors_base ex_call.
Proof. intros f g args e H. inversion H; subst. exact I. Qed.
Definition ex_tree : tree := {| t_src := []; t_nodes := [] |}.

(* lazy: `node x`, then inside an `if` block `attr (x) k = 1` (line 3), then `attr (x) k = 2` (line 4): the conflict
   is found in the evaluation phase and names BOTH statements — the first by the location of the statement nested
   in the `if`; both contexts are valid, and validity is not trivial: a location of no statement is not valid *)
Example c20_lazy_conflict_nonvacuous :
  let x := [120] in let k := [107] in
  let st := {| st_stmts := [SNode (VarU x (1, 2)) x (1, 0);
                            SIf [([CBool ETrue (2, 3)], [SAttrNode (EUnscoped x (3, 7)) [Attr k (EInt 1)] (3, 2)], (2, 0))] (2, 0);
                            SAttrNode (EUnscoped x (4, 5)) [Attr k (EInt 2)] (4, 0)];
               st_full_stanza_idx := 0; st_full_file_idx := 0; st_start := (0, 0) |} in
  let fl := {| f_globals := []; f_inherited := []; f_shorthands := []; f_stanzas := [st] |} in
  let ms := [(0, [(0, [7])])] in
  let c1 := {| sc_stmt := (3, 2); sc_stanza := (0, 0); sc_node := 7 |} in
  let c2 := {| sc_stmt := (4, 0); sc_stanza := (0, 0); sc_node := 7 |} in
  call_errors_base ex_call /\
  run_lazy ex_tree fl config0 [[]] None (@nil unit) (fun _ _ => None) ex_call 50 ms [] = Err (EInContext (CtxStmts [c1; c2]) EDuplicateAttribute) /\
  valid_ctx fl ms c1 /\ valid_ctx fl ms c2 /\
  ~ valid_ctx fl ms {| sc_stmt := (2, 3); sc_stanza := (0, 0); sc_node := 7 |} /\
  ~ valid_ctx fl ms {| sc_stmt := (4, 0); sc_stanza := (0, 0); sc_node := 8 |}.
Proof.
  cbv zeta. split; [exact ex_call_base|]. split; [vm_compute; reflexivity|].
  split; [|split; [|split]].
  - eexists 0, _, _, 7, []. split; [left; reflexivity|]. split; [reflexivity|]. split; [reflexivity|]. split; [reflexivity|]. split; [reflexivity|].
    eexists. split; [right; right; left; reflexivity|reflexivity].
  - eexists 0, _, _, 7, []. split; [left; reflexivity|]. split; [reflexivity|]. split; [reflexivity|]. split; [reflexivity|]. split; [reflexivity|].
    eexists. split; [right; right; right; left; reflexivity|reflexivity].
  - intros (i & st & m & n & rest & [Hin|[]] & Hst & Hn & _ & _ & (s & Hs & Hl)). inversion Hin; subst. cbn in Hst. inversion Hst; subst.
    cbn in Hs, Hl. destruct Hs as [<-|[<-|[<-|[<-|[]]]]]; discriminate.
  - intros (i & st & m & n & rest & [Hin|[]] & Hst & Hn & _ & Hnode & _). inversion Hin; subst. cbn in Hst. inversion Hst; subst.
    cbn in Hn. inversion Hn.
Qed.

(* strict: the failing `attr (5) k = 1` is nested in an `if`; the error cites the nested statement (line 3), not the
   enclosing `if` (line 2), and the nested statement failed directly *)
Example c20_strict_innermost_nonvacuous :
  let x := [120] in let k := [107] in
  let inner := SAttrNode (EInt 5) [Attr k (EInt 1)] (3, 2) in
  let st := {| st_stmts := [SNode (VarU x (1, 2)) x (1, 0); SIf [([CBool ETrue (2, 3)], [inner], (2, 0))] (2, 0)];
               st_full_stanza_idx := 0; st_full_file_idx := 0; st_start := (0, 0) |} in
  let m := [(0, [7])] in
  call_errors_base ex_call /\
  exec_file ex_tree {| f_globals := []; f_inherited := []; f_shorthands := []; f_stanzas := [st] |} config0 [[]] (@nil unit) (fun _ _ => None)
            ex_call 50 [st] [[m]] (sinit []) (polls0 None)
    = Err (EInContext (CtxStmts [{| sc_stmt := (3, 2); sc_stanza := (0, 0); sc_node := 7 |}]) EExpectedGraphNode) /\
  stmt_in st inner /\
  fails_directly ex_tree {| f_globals := []; f_inherited := []; f_shorthands := []; f_stanzas := [st] |} config0 [[]] (@nil unit) (fun _ _ => None)
                 ex_call (0, 0) 7 m inner EExpectedGraphNode.
Proof.
  cbv zeta. split; [exact ex_call_base|]. split; [vm_compute; reflexivity|]. split; [right; right; left; reflexivity|].
  exists 10%nat, {| le_match := [(0, [7])]; le_full := 0; le_caps := []; le_ctx := {| sc_stmt := (3, 2); sc_stanza := (0, 0); sc_node := 7 |} |},
         (sinit []), (polls0 None).
  split; [vm_compute; reflexivity|]. split; [apply U_base; exact I|]. split; reflexivity.
Qed.

(* ================================================================ lazy mode: WHICH statement is cited *)

(* (1) a deferred graph statement st (edge / attr / print) fails when it is evaluated: the error is the cancellation,
   or carries EXACTLY the debug info of st around a cause without statement context, or is the duplicate-attribute
   conflict [prev; st] — prev first: the debug info recorded in prev_element_debug_info under a key k that st sets
   (or st itself when it sets one name twice) —, or it cites the creator of a thunk / scoped definition of s that
   failed directly, and then the context of st is not added at all *)
Theorem lazy_deferred_error_cites_own_statement : forall t fl call fuel st s p e,
  call_errors_base call ->
  eval_lstmt t fl call fuel st s p = Err e ->
  (exists l, e = ECancelled l) \/
  (exists e1, e = EInContext (CtxStmts [ls_dbg st]) e1 /\ unwrapped e1) \/
  (exists k prev, e = EInContext (CtxStmts [prev; ls_dbg st]) EDuplicateAttribute /\ key_sets st k /\
                  (In (k, prev) (l_prev s) \/ prev = ls_dbg st)) \/
  origin t fl call s e.
Proof. intros t fl call fuel st s p e Hc. exact (eval_lstmt_cites t fl call Hc fuel st s p e). Qed.

(* (1) the whole evaluation phase: the cited deferred statement is one of l_edges ++ l_attrs ++ l_prints (the evaluation
   order); in a conflict the first context is that of an attribute statement evaluated no later that sets the same key
   (or an entry of the initial prev_element_debug_info).  `unwrapped e` needs a scoped variable left in the Forcing
   state in s: impossible in a run from the initial state (lazy_run_error_cites) *)
Theorem lazy_eval_phase_error_cites_deferred : forall t fl call fuel s p e,
  call_errors_base call ->
  evaluate_phase t fl call fuel s p = Err e ->
  (exists l, e = ECancelled l) \/ unwrapped e \/
  cites_deferred (l_prev s) (l_edges s ++ l_attrs s ++ l_prints s) e \/
  origin t fl call s e.
Proof. intros t fl call fuel s p e Hc. exact (evaluate_phase_cites t fl call Hc fuel s p e). Qed.

(* (2) forcing thunk `loc` fails: the error is the cancellation, or the debug info stored with THIS thunk around the error
   e1 of its own body, which carries no statement context, or the unchanged error of the body, which cites the creator
   of an inner thunk / scoped definition that failed directly — the creator of the innermost failing value wins *)
Theorem lazy_thunk_error_cites_creator : forall t fl call fuel loc s p e,
  call_errors_base call ->
  force_thunk t fl call fuel loc s p = Err e ->
  exists fuel' th, fuel = S fuel' /\ nth_error (l_store s) (N.to_nat loc) = Some th /\
    ((exists l, e = ECancelled l) \/
     (exists e1, e = EInContext (CtxStmts [th_dbg th]) e1 /\ unwrapped e1 /\ thunk_body t fl call fuel' loc th s p = Err e1) \/
     (thunk_body t fl call fuel' loc th s p = Err e /\ origin t fl call s e)).
Proof. intros t fl call fuel loc s p e Hc. exact (force_thunk_cites t fl call Hc fuel loc s p e). Qed.

(* (2) every error of the value evaluator: cancellation, no statement context yet (the caller — deferred statement, thunk
   or scoped definition — adds its own), or the creator of the thunk / scoped definition that failed directly *)
Theorem lazy_value_error_cites_creator : forall t fl call fuel lv s p e,
  call_errors_base call ->
  eval_lv t fl call fuel lv s p = Err e ->
  (exists l, e = ECancelled l) \/ unwrapped e \/ origin t fl call s e.
Proof. intros t fl call fuel lv s p e Hc. exact (eval_lv_cites t fl call Hc fuel lv s p e). Qed.

(* (2) the creator's context is INSIDE whatever triggered the forcing: no enclosing with_context (deferred statement, outer
   thunk, scoped definition, executing statement) changes an error that cites a creator *)
Theorem lazy_creator_context_wins : forall t fl call (A : Type) c (m : M lstate A) s0 s p e,
  m s p = Err e -> origin t fl call s0 e -> ctx_wrap c m s p = Err e.
Proof. intros t fl call A c m s0 s p e. exact (origin_survives_context t fl call A c m s0 s p e). Qed.
(* ... and an error without statement context never comes out of a thunk, so `unwrapped e1` above means: not raised
   inside another thunk *)
Theorem lazy_thunk_error_not_plain : forall t fl call fuel loc s p e,
  call_errors_base call -> force_thunk t fl call fuel loc s p = Err e -> ~ unwrapped e.
Proof. intros t fl call fuel loc s p e Hc. exact (force_thunk_error_not_plain t fl call Hc fuel loc s p e). Qed.

(* (3) one statement s run in a block (stanza location z, node n, match m): its error is the cancellation, carries no
   statement context yet (raised by s or in its `if`/`for` bodies: the enclosing top-level / arm statement will be
   cited), comes from forcing, or cites a scan-arm child nested in s that failed directly *)
Theorem lazy_stmt_error_cites_statement : forall {rx : Type} t fl cfg glob (regexes : list rx) find call z n m fuel le s s0 p0 e,
  call_errors_base call -> env_zn z n m le ->
  lexec_stmt t fl cfg glob regexes find call fuel le s s0 p0 = Err e ->
  (exists l, e = ECancelled l) \/ unwrapped e \/ forced t fl call e \/
  arm_cited t fl cfg glob regexes find call z n m (arm_stmts s) e.
Proof.
  intros rx t fl cfg glob regexes find call z n m fuel le s s0 p0 e Hc He H.
  exact (lazy_stmt_error_cite t fl cfg glob regexes find call Hc z n m fuel le s He s0 p0 e H).
Qed.

(* (3) one (stanza, match) block: the error cites a TOP-LEVEL statement of the stanza whose own run returned the cause
   without statement context — also when the failure happened in an `if`/`for` body nested in it —, or a direct child of
   a scan arm (cause inside "matching .. with arm .."), or comes from forcing a value *)
Theorem lazy_exec_error_cites_statement : forall {rx : Type} t fl cfg glob (regexes : list rx) find call fuel st m s p e n rest,
  call_errors_base call ->
  nodes_for_capture m (st_full_file_idx st) = n :: rest ->
  lexec_stanza t fl cfg glob regexes find call fuel st m s p = Err e ->
  (exists l, e = ECancelled l) \/ forced t fl call e \/
  top_cited t fl cfg glob regexes find call (st_start st) n m (st_stmts st) e \/
  arm_cited t fl cfg glob regexes find call (st_start st) n m (flat_map arm_stmts (st_stmts st)) e.
Proof.
  intros rx t fl cfg glob regexes find call fuel st m s p e n rest Hc Hn H.
  exact (lazy_stanza_error_cite t fl cfg glob regexes find call Hc (st_start st) n m fuel st s p e rest eq_refl Hn H).
Qed.

(* the whole lazy execution from the initial state: the error is the cancellation, cites the creator of a value that
   failed directly, cites a top-level / scan-arm statement of an executed block, or — after the execution phase ended
   in s1 — cites a deferred statement of s1 (for a conflict: the earlier attribute statement first) *)
Theorem lazy_run_error_cites : forall {rx : Type} t fl cfg glob (regexes : list rx) find call fuel ms g0 p e,
  call_errors_base call ->
  lexec_file t fl cfg glob regexes find call fuel ms (linit g0) p = Err e ->
  (exists l, e = ECancelled l) \/ forced t fl call e \/
  cites_executed t fl cfg glob regexes find call ms e \/
  exists s1 p1, lexec_blocks t fl cfg glob regexes find call fuel ms (linit g0) p = Ok (tt, s1, p1) /\
                cites_deferred [] (l_edges s1 ++ l_attrs s1 ++ l_prints s1) e.
Proof.
  intros rx t fl cfg glob regexes find call fuel ms g0 p e Hc.
  exact (lexec_file_init_error_cite t fl cfg glob regexes find call Hc fuel ms g0 p e).
Qed.

(* ---- concrete failing runs for the theorems above ---- *)
Definition ex_fl0 : file := {| f_globals := []; f_inherited := []; f_shorthands := []; f_stanzas := [] |}.
Definition ex_d (line : N) : stmt_ctx := {| sc_stmt := (line, 0); sc_stanza := (0, 0); sc_node := 7 |}.
(* store: thunk 0 = (f) created by the statement of line 1, thunk 1 = variable 0 created by line 3 *)
Definition ex_store_state : lstate :=
  {| l_graph := []; l_locals := [[]];
     l_store := [{| th_state := TUnforced (LCall [102] []); th_dbg := ex_d 1 |}; {| th_state := TUnforced (LVar 0); th_dbg := ex_d 3 |}];
     l_scoped := []; l_edges := []; l_attrs := []; l_prints := []; l_params := []; l_prev := [] |}.
Lemma ex_origin : origin ex_tree ex_fl0 ex_call ex_store_state (EInContext (CtxStmts [ex_d 1]) EUndefinedFunction).
Proof.
  eapply (O_thunk _ _ _ _ _ 0 (ex_d 1) EUndefinedFunction); [reflexivity| |reflexivity].
  split; [apply U_base; exact I|]. eexists 3%nat, _, ex_store_state, (polls0 None).
  split; [apply same_dbgs_refl|]. split; [reflexivity|]. split; [reflexivity|]. vm_compute. reflexivity.
Qed.

(* (2) forcing thunk 1 (created on line 3) forces thunk 0 (created on line 1), whose call fails: the error cites line 1,
   the creator of the innermost failing value; a deferred `print` of line 2 that forces thunk 1 reports the same error *)
Example c20_lazy_thunk_creator_nonvacuous :
  let e := EInContext (CtxStmts [ex_d 1]) EUndefinedFunction in
  call_errors_base ex_call /\
  force_thunk ex_tree ex_fl0 ex_call 5 1 ex_store_state (polls0 None) = Err e /\
  force_thunk ex_tree ex_fl0 ex_call 5 0 ex_store_state (polls0 None) = Err e /\
  thunk_body ex_tree ex_fl0 ex_call 4 0 {| th_state := TUnforced (LCall [102] []); th_dbg := ex_d 1 |} ex_store_state (polls0 None) = Err EUndefinedFunction /\
  eval_lstmt ex_tree ex_fl0 ex_call 5 (LSPrint [Some (LVar 1)] (ex_d 2)) ex_store_state (polls0 None) = Err e /\
  origin ex_tree ex_fl0 ex_call ex_store_state e.
Proof.
  cbv zeta. split; [exact ex_call_base|]. split; [vm_compute; reflexivity|]. split; [vm_compute; reflexivity|].
  split; [vm_compute; reflexivity|]. split; [vm_compute; reflexivity|]. exact ex_origin.
Qed.

(* (1) a deferred `print (f)` of line 2 fails by itself: exactly its own debug info; and `attr (n) k = 2` of line 2 after
   `attr (n) k = 1` of line 1: the pair, line 1 first, recorded under the key (node 0, k) that line 2 sets *)
Example c20_lazy_deferred_own_nonvacuous :
  let k := [107] in
  let st1 := LSAttrNode (LValue (VGraph 0)) [(k, LValue (VInt 1))] (ex_d 1) in
  let st2 := LSAttrNode (LValue (VGraph 0)) [(k, LValue (VInt 2))] (ex_d 2) in
  eval_lstmt ex_tree ex_fl0 ex_call 5 (LSPrint [Some (LCall [102] [])] (ex_d 2)) ex_store_state (polls0 None)
    = Err (EInContext (CtxStmts [ex_d 2]) EUndefinedFunction) /\
  exists s1 p1,
    eval_lstmt ex_tree ex_fl0 ex_call 5 st1 (linit (fst (add_graph_node []))) (polls0 None) = Ok (tt, s1, p1) /\
    eval_lstmt ex_tree ex_fl0 ex_call 5 st2 s1 p1 = Err (EInContext (CtxStmts [ex_d 1; ex_d 2]) EDuplicateAttribute) /\
    key_sets st2 (KNode 0 k) /\ In (KNode 0 k, ex_d 1) (l_prev s1).
Proof.
  cbv zeta. split; [vm_compute; reflexivity|]. eexists; eexists. split; [vm_compute; reflexivity|].
  split; [vm_compute; reflexivity|]. split; [left; reflexivity|left; reflexivity].
Qed.

(* (3) `set k = 1` (k undefined) on line 3 inside the `if` of line 2: in lazy mode the error cites the enclosing TOP-LEVEL
   `if` (line 2) — strict mode cites line 3, see c20_strict_innermost_nonvacuous —; inside a scan arm it cites the arm's
   statement (line 3) with the cause inside Context::Other *)
Example c20_lazy_exec_enclosing_nonvacuous :
  let x := [120] in let k := [107] in
  let bad l := SSet (VarU k (3, 6)) (EInt 1) l in
  let sif := SIf [([CBool ETrue (2, 3)], [bad (3, 2)], (2, 0))] (2, 0) in
  let st := {| st_stmts := [SNode (VarU x (1, 5)) x (1, 0); sif]; st_full_stanza_idx := 0; st_full_file_idx := 0; st_start := (0, 0) |} in
  let fl := {| f_globals := []; f_inherited := []; f_shorthands := []; f_stanzas := [st] |} in
  let sscan := SScan (EStr [97]) [(0, [bad (3, 4)], (3, 2))] (2, 0) in
  let st' := {| st_stmts := [sscan]; st_full_stanza_idx := 0; st_full_file_idx := 0; st_start := (0, 0) |} in
  let fl' := {| f_globals := []; f_inherited := []; f_shorthands := []; f_stanzas := [st'] |} in
  let m := [(0, [7])] in
  let e := EInContext (CtxStmts [{| sc_stmt := (2, 0); sc_stanza := (0, 0); sc_node := 7 |}]) EUndefinedVariable in
  let e' := EInContext (CtxStmts [{| sc_stmt := (3, 4); sc_stanza := (0, 0); sc_node := 7 |}]) (EInContext CtxOther EUndefinedVariable) in
  lexec_stanza ex_tree fl config0 [[]] (@nil unit) (fun _ _ => None) ex_call 20 st m (linit []) (polls0 None) = Err e /\
  top_cited ex_tree fl config0 [[]] (@nil unit) (fun _ _ => None) ex_call (0, 0) 7 m (st_stmts st) e /\
  lexec_stanza ex_tree fl' config0 [[]] [tt] (fun _ _ => Some [Some (0, 1)]) ex_call 20 st' m (linit []) (polls0 None) = Err e' /\
  arm_cited ex_tree fl' config0 [[]] [tt] (fun _ _ => Some [Some (0, 1)]) ex_call (0, 0) 7 m (flat_map arm_stmts (st_stmts st')) e'.
Proof.
  cbv zeta. split; [vm_compute; reflexivity|]. split.
  - eexists _, EUndefinedVariable. split; [right; left; reflexivity|]. split; [reflexivity|]. split; [apply U_base; exact I|].
    exists 10%nat, {| ll_match := [(0, [7])]; ll_full := 0; ll_caps := []; ll_ctx := lmk (0, 0) 7 (2, 0) |}, (linit []), (polls0 None).
    split; [vm_compute; reflexivity|]. split; reflexivity.
  - split; [vm_compute; reflexivity|].
    eexists _, EUndefinedVariable. split; [left; reflexivity|]. split; [reflexivity|]. split; [apply U_base; exact I|].
    exists 10%nat, {| ll_match := [(0, [7])]; ll_full := 0; ll_caps := []; ll_ctx := lmk (0, 0) 7 (3, 4) |}, (linit []), (polls0 None).
    split; [vm_compute; reflexivity|]. split; reflexivity.
Qed.

(* whole run: `let x = (f)` on line 1, `print x` on line 2: the deferred print forces the thunk and the error cites
   line 1, the statement that created the failing value, not the print *)
Example c20_lazy_run_creator_nonvacuous :
  let x := [120] in
  let st := {| st_stmts := [SLet (VarU x (1, 4)) (ECall [102] []) (1, 0); SPrint [EUnscoped x (2, 6)] (2, 0)];
               st_full_stanza_idx := 0; st_full_file_idx := 0; st_start := (0, 0) |} in
  let fl := {| f_globals := []; f_inherited := []; f_shorthands := []; f_stanzas := [st] |} in
  let e := EInContext (CtxStmts [ex_d 1]) EUndefinedFunction in
  lexec_file ex_tree fl config0 [[]] (@nil unit) (fun _ _ => None) ex_call 20 [(0, [(0, [7])])] (linit []) (polls0 None) = Err e /\
  forced ex_tree fl ex_call e.
Proof.
  cbv zeta. split; [vm_compute; reflexivity|]. exists ex_store_state.
  eapply (O_thunk _ _ _ _ _ 0 (ex_d 1) EUndefinedFunction); [reflexivity| |reflexivity].
  split; [apply U_base; exact I|]. eexists 3%nat, _, ex_store_state, (polls0 None).
  split; [apply same_dbgs_refl|]. split; [reflexivity|]. split; [reflexivity|]. vm_compute. reflexivity.
Qed.

(* whole run, conflict (the program of c20_lazy_conflict_nonvacuous): after the execution phase the two deferred `attr`
   statements are evaluated in order; the error is the pair [line 3; line 4]: the second statement is the cited one, the
   first context is that of the EARLIER statement, and both set the attribute k *)
Example c20_lazy_run_conflict_nonvacuous :
  let x := [120] in let k := [107] in
  let st := {| st_stmts := [SNode (VarU x (1, 2)) x (1, 0);
                            SIf [([CBool ETrue (2, 3)], [SAttrNode (EUnscoped x (3, 7)) [Attr k (EInt 1)] (3, 2)], (2, 0))] (2, 0);
                            SAttrNode (EUnscoped x (4, 5)) [Attr k (EInt 2)] (4, 0)];
               st_full_stanza_idx := 0; st_full_file_idx := 0; st_start := (0, 0) |} in
  let fl := {| f_globals := []; f_inherited := []; f_shorthands := []; f_stanzas := [st] |} in
  let ms := [(0, [(0, [7])])] in
  let c1 := {| sc_stmt := (3, 2); sc_stanza := (0, 0); sc_node := 7 |} in
  let c2 := {| sc_stmt := (4, 0); sc_stanza := (0, 0); sc_node := 7 |} in
  let e := EInContext (CtxStmts [c1; c2]) EDuplicateAttribute in
  lexec_file ex_tree fl config0 [[]] (@nil unit) (fun _ _ => None) ex_call 50 ms (linit []) (polls0 None) = Err e /\
  exists s1 p1, lexec_blocks ex_tree fl config0 [[]] (@nil unit) (fun _ _ => None) ex_call 50 ms (linit []) (polls0 None) = Ok (tt, s1, p1) /\
    cites_deferred [] (l_edges s1 ++ l_attrs s1 ++ l_prints s1) e.
Proof.
  cbv zeta. split; [vm_compute; reflexivity|]. eexists; eexists. split; [vm_compute; reflexivity|].
  cbn [l_edges l_attrs l_prints app].
  eexists [_], _, []. split; [reflexivity|]. right. exists (KNode 0 [107]), {| sc_stmt := (3, 2); sc_stanza := (0, 0); sc_node := 7 |}.
  split; [reflexivity|]. split; [left; reflexivity|]. right. eexists. split; [left; reflexivity|]. split; [reflexivity|left; reflexivity].
Qed.

(* who the "creator" is: whatever the run of statement s stores (thunk debug infos, pending scoped definitions, deferred
   statements) was there before or carries the error context of s — statement location included, as the enclosing block
   set it — or that context moved to a statement nested in s; for a statement without nested blocks: exactly ll_ctx le *)
Theorem lazy_created_values_cite_statement : forall {rx : Type} t fl cfg glob (regexes : list rx) find call fuel le s s0 p0 s1 p1 d,
  call_errors_base call ->
  lexec_stmt t fl cfg glob regexes find call fuel le s s0 p0 = Ok (tt, s1, p1) ->
  ctx_stored s1 d ->
  ctx_stored s0 d \/ d = ll_ctx le \/ exists s', In s' (stmt_subs s) /\ d = ctx_update (ll_ctx le) s'.
Proof.
  intros rx t fl cfg glob regexes find call fuel le s s0 p0 s1 p1 d Hc.
  exact (lexec_stmt_stores_own_ctx t fl cfg glob regexes find call Hc fuel le s s0 p0 s1 p1 d).
Qed.

(* `let x = (f)` run with the error context of line 1 stores one thunk, with exactly that context *)
Example c20_lazy_created_nonvacuous :
  let le := {| ll_match := [(0, [7])]; ll_full := 0; ll_caps := []; ll_ctx := ex_d 1 |} in
  exists s1 p1,
    lexec_stmt ex_tree ex_fl0 config0 [[]] (@nil unit) (fun _ _ => None) ex_call 10 le (SLet (VarU [120] (1, 4)) (ECall [102] []) (1, 0)) (linit []) (polls0 None)
      = Ok (tt, s1, p1) /\
    store_dbgs s1 = [ex_d 1] /\ ctx_stored s1 (ex_d 1) /\ ~ ctx_stored (linit []) (ex_d 1).
Proof.
  cbv zeta. eexists; eexists. split; [vm_compute; reflexivity|]. split; [reflexivity|]. split; [left; left; reflexivity|].
  intros [H|[(name & ps & x & H & _)|[H|H]]]; try contradiction. discriminate.
Qed.


From TSG Require Import Model.ErrRender Proofs.ParseErr Proofs.ErrRender.

(* ================================================================================================================
   RENDERING (last sentence of the property: "pretty rendering of the error shows the cited DSL and source lines").
   Model/ErrRender.v models /repo/src/execution/error.rs: the chain the Rust code sees (contexts outermost first —
   `Context::Statement` with one or two `StatementContext`s, or `Context::Other` — and the Display of the innermost
   error), `render_pretty` = `ExecutionError::display_pretty` (fmt_entry / fmt_pretty / Excerpt with indent 7),
   `render_plain` = the plain Display.  The wording of the messages is a parameter (`wording`, `wording_plain`): all
   theorems hold for ANY wording.  Stream C20r compares both texts character by character with the implementation.

   (a) TOTALITY.  `render_pretty` and `render_plain` are structural recursions on the chain without fuel and without an
   outcome type: there is no panic site to model.  The only partial operation of the Rust code is
   `source.lines().nth(row)` inside `Excerpt::from_source`; when the row does not exist the excerpt is the header line
   and "<missing source>" (`excerpt_missing_source`) — in particular the location is still cited — and otherwise it is
   the header, the numbered line and a caret line with one caret, or none when the column is not inside the line
   (`excerpt_present`).  The columns are only used as repeat counts, never as slice bounds.
   `contains` (the executable "occurs in") means what it should: `contains_spec`. *)

Theorem contains_spec : forall n h, contains n h = true <-> exists x y, h = x ++ n ++ y.
Proof. intros n h. split; [apply contains_sub|apply sub_contains]. Qed.

(* the generalised excerpt is the one of C18 at indent 0 *)
Theorem excerpt_ind_generalises : forall path src row cs ce, excerpt_ind 0 path src row cs ce = excerpt path src row cs ce.
Proof. exact excerpt_ind_0. Qed.

Theorem excerpt_missing_source : forall ind path src row cs ce,
  (length (lines src) <= N.to_nat row)%nat ->
  excerpt_ind ind path src row cs ce = spaces ind ++ cite path row cs ++ [10] ++ spaces ind ++ missing_source ++ [10].
Proof. intros * H. apply excerpt_ind_missing, nth_error_None, H. Qed.

Theorem excerpt_present : forall ind path src r c,
  (N.to_nat r < length (lines src))%nat ->
  exists l, nth_error (lines src) (N.to_nat r) = Some l /\
    excerpt_loc ind path src (r, c)
    = spaces ind ++ cite path r c ++ [10]
      ++ spaces ind ++ dec (r + 1) ++ [32;124;32] ++ l ++ [10]
      ++ spaces ind ++ spaces (gutter_width r) ++ [32;124;32] ++ spaces c ++ (if c <? utf8_bytes l then [94] else []) ++ [10].
Proof.
  intros * H. destruct (nth_error (lines src) (N.to_nat r)) as [l|] eqn:E.
  - exists l. split; [reflexivity|]. apply excerpt_loc_present, E.
  - apply nth_error_None in E. lia.
Qed.

(* (b) EVERY statement context of the chain (at any depth of the chain, both statements of a conflict) is cited three
   times: "tsg_path:row+1:col+1:" for the statement and for the stanza, "src_path:row+1:col+1:" for the matched node *)
Theorem render_pretty_cites : forall w tsg_path tsg src_path src ch c,
  In c (all_stmt_ctxs (ch_ctxs ch)) ->
  let out := render_pretty w tsg_path tsg src_path src ch in
  contains (cite tsg_path (fst (sx_stmt_loc c)) (snd (sx_stmt_loc c))) out = true /\
  contains (cite tsg_path (fst (sx_stanza_loc c)) (snd (sx_stanza_loc c))) out = true /\
  contains (cite src_path (fst (sx_src_loc c)) (snd (sx_src_loc c))) out = true.
Proof. intros w tp t sp s ch c H. exact (render_pretty_cites_lemma w tp t sp s ch c H). Qed.

(* (c) ... and the cited lines are shown: whenever the row of the statement / the stanza is a line of the given DSL text,
   resp. the row of the node a line of the given source text, the text of that line occurs in the output *)
Theorem render_pretty_shows_lines : forall w tsg_path tsg src_path src ch c,
  In c (all_stmt_ctxs (ch_ctxs ch)) ->
  let out := render_pretty w tsg_path tsg src_path src ch in
  (forall l, nth_error (lines tsg) (N.to_nat (fst (sx_stmt_loc c))) = Some l -> contains l out = true) /\
  (forall l, nth_error (lines tsg) (N.to_nat (fst (sx_stanza_loc c))) = Some l -> contains l out = true) /\
  (forall l, nth_error (lines src) (N.to_nat (fst (sx_src_loc c))) = Some l -> contains l out = true).
Proof. intros w tp t sp s ch c H. exact (render_pretty_shows_lines_lemma w tp t sp s ch c H). Qed.

(* the statement itself (its Display) and the kind of the matched node are shown too *)
Theorem render_pretty_shows_stmt : forall w tsg_path tsg src_path src ch c,
  In c (all_stmt_ctxs (ch_ctxs ch)) ->
  contains (sx_stmt c) (render_pretty w tsg_path tsg src_path src ch) = true /\
  contains (sx_kind c) (render_pretty w tsg_path tsg src_path src ch) = true.
Proof. intros w tp t sp s ch c H. exact (render_pretty_shows_stmt_lemma w tp t sp s ch c H). Qed.

(* the executable form used by the correspondence verdict: code 63 of stream C20r cannot occur *)
Theorem render_pretty_shows_ctx : forall w tsg_path tsg src_path src ch,
  forallb (shows_ctx tsg_path tsg src_path src (render_pretty w tsg_path tsg src_path src ch)) (all_stmt_ctxs (ch_ctxs ch)) = true.
Proof. exact shows_ctx_model. Qed.

(* (d) ORDER.  The output is the concatenation of one entry per context in chain order, OUTERMOST FIRST, numbered
   0, 1, 2, .., followed by the entry of the innermost error, whose number is the number of contexts; an entry (other
   than that of an empty `Statement` vector, which prints nothing) starts with its number right-aligned in 5 columns
   and ": ", the number being the decimal numeral (`undec (dec i) = i`); the entry of a statement context continues with
   the first phrase and the statement; the further statement of a conflict does NOT get a number of its own. *)
Theorem render_pretty_entries : forall w tsg_path tsg src_path src ch,
  render_pretty w tsg_path tsg src_path src ch
  = concat (map (fun p => render_ctx w tsg_path tsg src_path src (fst p) (snd p)) (number_from 0 (ch_ctxs ch)))
    ++ entry_head (N.of_nat (length (ch_ctxs ch))) ++ ch_cause ch ++ [10].
Proof. exact render_pretty_entries_lemma. Qed.

Theorem render_entry_head : forall w tsg_path tsg src_path src i c,
  c <> RStmts [] -> is_prefix (entry_head i) (render_ctx w tsg_path tsg src_path src i c) = true.
Proof. exact render_ctx_head_lemma. Qed.

Theorem render_entry_stmt_head : forall w tsg_path tsg src_path src i d r,
  is_prefix (entry_head i ++ w_first w ++ sx_stmt d ++ [10]) (render_ctx w tsg_path tsg src_path src i (RStmts (d :: r))) = true.
Proof. exact render_ctx_stmt_head_lemma. Qed.

Theorem entry_head_numeral : forall i,
  entry_head i = spaces (5 - N.of_nat (length (dec i))) ++ dec i ++ [58;32] /\ undec (dec i) = i.
Proof. intros i. split; [apply entry_head_eq|apply dec_correct]. Qed.

(* the plain Display (one line) names, for every statement context, the statement, the stanza position, the node kind and
   the node position "(row+1, col+1)", and ends with the innermost error *)
Theorem render_plain_shows : forall w ch c,
  In c (all_stmt_ctxs (ch_ctxs ch)) ->
  contains (sx_stmt c) (render_plain w ch) = true /\
  contains (show_loc (sx_stanza_loc c)) (render_plain w ch) = true /\
  contains (sx_kind c) (render_plain w ch) = true /\
  contains (show_loc (sx_src_loc c)) (render_plain w ch) = true.
Proof. exact render_plain_shows_lemma. Qed.

Theorem render_plain_cause : forall w ch, exists x, render_plain w ch = x ++ ch_cause ch.
Proof. exact render_plain_cause_lemma. Qed.

(* ---- non-vacuity: two REAL chains (the expected texts below are the output of the implementation, not of the model).
   A. strict run of
     (module) @_mod {
       scan "é" {
         "é" {
           let x = (plus "a" 1)
         }
       }
     }
   on `pass`, rendered with an EMPTY source text and the paths r.tsg / é.py:
         0: Error executing statement let x = (plus "a" 1) at (4, 7)
            r.tsg:4:7:
            4 |       let x = (plus "a" 1)
              |       ^
            in stanza
            r.tsg:1:1:
            1 | (module) @_mod {
              | ^
            matching (module) node
            é.py:1:1:
            <missing source>
         1: matching é with arm "é"
         2: Expected an integer got a
   B. lazy run (conflict of two statements, one inside a scan arm) of
     (module) @_mod {
       node nd
       scan "é" {
         "é" {
           attr (nd) kk = 1
         }
       }
       attr (nd) kk = 2
     }
   on `pass`, paths `my rules/r.tsg` / `src/é.py`:
         0: Error executing statement attr (nd) kk = 1 at (5, 7)
            my rules/r.tsg:5:7:
            5 |       attr (nd) kk = 1
              |       ^
            in stanza
            my rules/r.tsg:1:1:
            1 | (module) @_mod {
              | ^
            matching (module) node
            src/é.py:1:1:
            1 | pass
              | ^
          > and executing statement attr (nd) kk = 2 at (8, 3)
            my rules/r.tsg:8:3:
            8 |   attr (nd) kk = 2
              |   ^
            in stanza
            my rules/r.tsg:1:1:
            1 | (module) @_mod {
              | ^
            matching (module) node
            src/é.py:1:1:
            1 | pass
              | ^
         1: Duplicate attribute kk on [graph node 0] *)
Definition exA_tsg : str := [40;109;111;100;117;108;101;41;32;64;95;109;111;100;32;123;10;32;32;115;99;97;110;32;34;233;34;32;123;10;32;32;32;32;34;233;34;32;123;10;32;32;32;32;32;32;108;101;116;32;120;32;61;32;40;112;108;117;115;32;34;97;34;32;49;41;10;32;32;32;32;125;10;32;32;125;10;125;10].
Definition exA_chain : chain :=
  {| ch_ctxs := [RStmts [{| sx_stmt := [108;101;116;32;120;32;61;32;40;112;108;117;115;32;34;97;34;32;49;41;32;97;116;32;40;52;44;32;55;41]; sx_stmt_loc := (3, 6); sx_stanza_loc := (0, 0); sx_src_loc := (0, 0); sx_kind := [109;111;100;117;108;101] |}];
                 ROther [109;97;116;99;104;105;110;103;32;233;32;119;105;116;104;32;97;114;109;32;34;233;34]];
     ch_cause := [69;120;112;101;99;116;101;100;32;97;110;32;105;110;116;101;103;101;114;32;103;111;116;32;97] |}.
Example render_pretty_example_A :
  render_pretty default_wording [114;46;116;115;103] exA_tsg [233;46;112;121] [] exA_chain
  = [32;32;32;32;48;58;32;69;114;114;111;114;32;101;120;101;99;117;116;105;110;103;32;115;116;97;116;101;109;101;110;116;32;108;101;116;32;120;32;61;32;40;112;108;117;115;32;34;97;34;32;49;41;32;97;116;32;40;52;44;32;55;41;10;32;32;32;32;32;32;32;114;46;116;115;103;58;52;58;55;58;10;32;32;32;32;32;32;32;52;32;124;32;32;32;32;32;32;32;108;101;116;32;120;32;61;32;40;112;108;117;115;32;34;97;34;32;49;41;10;32;32;32;32;32;32;32;32;32;124;32;32;32;32;32;32;32;94;10;32;32;32;32;32;32;32;105;110;32;115;116;97;110;122;97;10;32;32;32;32;32;32;32;114;46;116;115;103;58;49;58;49;58;10;32;32;32;32;32;32;32;49;32;124;32;40;109;111;100;117;108;101;41;32;64;95;109;111;100;32;123;10;32;32;32;32;32;32;32;32;32;124;32;94;10;32;32;32;32;32;32;32;109;97;116;99;104;105;110;103;32;40;109;111;100;117;108;101;41;32;110;111;100;101;10;32;32;32;32;32;32;32;233;46;112;121;58;49;58;49;58;10;32;32;32;32;32;32;32;60;109;105;115;115;105;110;103;32;115;111;117;114;99;101;62;10;32;32;32;32;49;58;32;109;97;116;99;104;105;110;103;32;233;32;119;105;116;104;32;97;114;109;32;34;233;34;10;32;32;32;32;50;58;32;69;120;112;101;99;116;101;100;32;97;110;32;105;110;116;101;103;101;114;32;103;111;116;32;97;10]
  /\ render_plain default_wording_plain exA_chain
  = [69;114;114;111;114;32;101;120;101;99;117;116;105;110;103;32;108;101;116;32;120;32;61;32;40;112;108;117;115;32;34;97;34;32;49;41;32;97;116;32;40;52;44;32;55;41;32;105;110;32;115;116;97;110;122;97;32;97;116;32;40;49;44;32;49;41;32;109;97;116;99;104;105;110;103;32;40;109;111;100;117;108;101;41;32;110;111;100;101;32;97;116;32;40;49;44;32;49;41;46;32;67;97;117;115;101;100;32;98;121;58;32;109;97;116;99;104;105;110;103;32;233;32;119;105;116;104;32;97;114;109;32;34;233;34;46;32;67;97;117;115;101;100;32;98;121;58;32;69;120;112;101;99;116;101;100;32;97;110;32;105;110;116;101;103;101;114;32;103;111;116;32;97].
Proof. split; vm_compute; reflexivity. Qed.

(* the hypotheses of the theorems are satisfiable and `contains` is not trivially true: the statement is cited at
   row 3, column 6 ("r.tsg:4:7:") and not at column 7; the source row does not exist ("<missing source>") *)
Example render_pretty_cites_nonvacuous :
  let out := render_pretty default_wording [114;46;116;115;103] exA_tsg [233;46;112;121] [] exA_chain in
  length (all_stmt_ctxs (ch_ctxs exA_chain)) = 1%nat /\
  contains (cite [114;46;116;115;103] 3 6) out = true /\ contains (cite [114;46;116;115;103] 3 7) out = false /\
  nth_error (lines exA_tsg) 3 = Some [32;32;32;32;32;32;108;101;116;32;120;32;61;32;40;112;108;117;115;32;34;97;34;32;49;41] /\
  contains [32;32;32;32;32;32;108;101;116;32;120;32;61;32;40;112;108;117;115;32;34;97;34;32;49;41] out = true /\
  nth_error (lines []) 0 = None /\ contains missing_source out = true.
Proof. vm_compute. repeat split. Qed.

Definition exB_tsg : str := [40;109;111;100;117;108;101;41;32;64;95;109;111;100;32;123;10;32;32;110;111;100;101;32;110;100;10;32;32;115;99;97;110;32;34;233;34;32;123;10;32;32;32;32;34;233;34;32;123;10;32;32;32;32;32;32;97;116;116;114;32;40;110;100;41;32;107;107;32;61;32;49;10;32;32;32;32;125;10;32;32;125;10;32;32;97;116;116;114;32;40;110;100;41;32;107;107;32;61;32;50;10;125;10].
Definition exB_chain : chain :=
  {| ch_ctxs := [RStmts [{| sx_stmt := [97;116;116;114;32;40;110;100;41;32;107;107;32;61;32;49;32;97;116;32;40;53;44;32;55;41]; sx_stmt_loc := (4, 6); sx_stanza_loc := (0, 0); sx_src_loc := (0, 0); sx_kind := [109;111;100;117;108;101] |};
                         {| sx_stmt := [97;116;116;114;32;40;110;100;41;32;107;107;32;61;32;50;32;97;116;32;40;56;44;32;51;41]; sx_stmt_loc := (7, 2); sx_stanza_loc := (0, 0); sx_src_loc := (0, 0); sx_kind := [109;111;100;117;108;101] |}]];
     ch_cause := [68;117;112;108;105;99;97;116;101;32;97;116;116;114;105;98;117;116;101;32;107;107;32;111;110;32;91;103;114;97;112;104;32;110;111;100;101;32;48;93] |}.
Example render_pretty_example_B :
  render_pretty default_wording [109;121;32;114;117;108;101;115;47;114;46;116;115;103] exB_tsg [115;114;99;47;233;46;112;121] [112;97;115;115;10] exB_chain
  = [32;32;32;32;48;58;32;69;114;114;111;114;32;101;120;101;99;117;116;105;110;103;32;115;116;97;116;101;109;101;110;116;32;97;116;116;114;32;40;110;100;41;32;107;107;32;61;32;49;32;97;116;32;40;53;44;32;55;41;10;32;32;32;32;32;32;32;109;121;32;114;117;108;101;115;47;114;46;116;115;103;58;53;58;55;58;10;32;32;32;32;32;32;32;53;32;124;32;32;32;32;32;32;32;97;116;116;114;32;40;110;100;41;32;107;107;32;61;32;49;10;32;32;32;32;32;32;32;32;32;124;32;32;32;32;32;32;32;94;10;32;32;32;32;32;32;32;105;110;32;115;116;97;110;122;97;10;32;32;32;32;32;32;32;109;121;32;114;117;108;101;115;47;114;46;116;115;103;58;49;58;49;58;10;32;32;32;32;32;32;32;49;32;124;32;40;109;111;100;117;108;101;41;32;64;95;109;111;100;32;123;10;32;32;32;32;32;32;32;32;32;124;32;94;10;32;32;32;32;32;32;32;109;97;116;99;104;105;110;103;32;40;109;111;100;117;108;101;41;32;110;111;100;101;10;32;32;32;32;32;32;32;115;114;99;47;233;46;112;121;58;49;58;49;58;10;32;32;32;32;32;32;32;49;32;124;32;112;97;115;115;10;32;32;32;32;32;32;32;32;32;124;32;94;10;32;32;32;32;32;62;32;97;110;100;32;101;120;101;99;117;116;105;110;103;32;115;116;97;116;101;109;101;110;116;32;97;116;116;114;32;40;110;100;41;32;107;107;32;61;32;50;32;97;116;32;40;56;44;32;51;41;10;32;32;32;32;32;32;32;109;121;32;114;117;108;101;115;47;114;46;116;115;103;58;56;58;51;58;10;32;32;32;32;32;32;32;56;32;124;32;32;32;97;116;116;114;32;40;110;100;41;32;107;107;32;61;32;50;10;32;32;32;32;32;32;32;32;32;124;32;32;32;94;10;32;32;32;32;32;32;32;105;110;32;115;116;97;110;122;97;10;32;32;32;32;32;32;32;109;121;32;114;117;108;101;115;47;114;46;116;115;103;58;49;58;49;58;10;32;32;32;32;32;32;32;49;32;124;32;40;109;111;100;117;108;101;41;32;64;95;109;111;100;32;123;10;32;32;32;32;32;32;32;32;32;124;32;94;10;32;32;32;32;32;32;32;109;97;116;99;104;105;110;103;32;40;109;111;100;117;108;101;41;32;110;111;100;101;10;32;32;32;32;32;32;32;115;114;99;47;233;46;112;121;58;49;58;49;58;10;32;32;32;32;32;32;32;49;32;124;32;112;97;115;115;10;32;32;32;32;32;32;32;32;32;124;32;94;10;32;32;32;32;49;58;32;68;117;112;108;105;99;97;116;101;32;97;116;116;114;105;98;117;116;101;32;107;107;32;111;110;32;91;103;114;97;112;104;32;110;111;100;101;32;48;93;10]
  /\ render_plain default_wording_plain exB_chain
  = [69;114;114;111;114;32;101;120;101;99;117;116;105;110;103;32;97;116;116;114;32;40;110;100;41;32;107;107;32;61;32;49;32;97;116;32;40;53;44;32;55;41;32;105;110;32;115;116;97;110;122;97;32;97;116;32;40;49;44;32;49;41;32;109;97;116;99;104;105;110;103;32;40;109;111;100;117;108;101;41;32;110;111;100;101;32;97;116;32;40;49;44;32;49;41;32;97;110;100;32;101;120;101;99;117;116;105;110;103;32;97;116;116;114;32;40;110;100;41;32;107;107;32;61;32;50;32;97;116;32;40;56;44;32;51;41;32;105;110;32;115;116;97;110;122;97;32;97;116;32;40;49;44;32;49;41;32;109;97;116;99;104;105;110;103;32;40;109;111;100;117;108;101;41;32;110;111;100;101;32;97;116;32;40;49;44;32;49;41;46;32;67;97;117;115;101;100;32;98;121;58;32;68;117;112;108;105;99;97;116;101;32;97;116;116;114;105;98;117;116;101;32;107;107;32;111;110;32;91;103;114;97;112;104;32;110;111;100;101;32;48;93].
Proof. split; vm_compute; reflexivity. Qed.

(* the correspondence verdict distinguishes: the real text agrees (0), a text with another column does not (61) *)
Example c20r_verdict_nonvacuous :
  let real := render_pretty default_wording [109;121;32;114;117;108;101;115;47;114;46;116;115;103] exB_tsg [115;114;99;47;233;46;112;121] [112;97;115;115;10] exB_chain in
  let plain := render_plain default_wording_plain exB_chain in
  c20r_verdict default_wording default_wording_plain [109;121;32;114;117;108;101;115;47;114;46;116;115;103] exB_tsg [115;114;99;47;233;46;112;121] [112;97;115;115;10] exB_chain real plain = 0 /\
  c20r_verdict default_wording default_wording_plain [109;121;32;114;117;108;101;115;47;114;46;116;115;103] exB_tsg [115;114;99;47;233;46;112;121] [112;97;115;115;10] exB_chain (real ++ [32]) plain = 61 /\
  c20r_verdict default_wording default_wording_plain [109;121;32;114;117;108;101;115;47;114;46;116;115;103] exB_tsg [115;114;99;47;233;46;112;121] [112;97;115;115;10] exB_chain real (32 :: plain) = 62.
Proof. vm_compute. repeat split. Qed.

(* ================================================================================================================
   END TO END: from a run of the execution model to the text.  `chain_of_error` (Model/ErrChain.v) maps the model's
   error value to the chain that is rendered; the texts the execution model does not have are ARGUMENTS (arbitrary
   functions, nothing is assumed about them): stmt_text (Display of the statement at a location), cause_text (Display of
   the innermost error), node_kind / node_pos (kind and start position of a node index), other_msg (message of the
   Context::Other at an entry).  Stream C20r checks on every failing run that `chain_of_error` of the MODEL's error,
   with node kind/position from the recorded tree, is the chain read off the REAL error (code 65).

   cites3 tp sp out sl zl pl := out contains "tp:row+1:col+1:" for sl and for zl and "sp:row+1:col+1:" for pl;
   shows3 tsg src out sl zl pl := for each of the three rows that is a line of tsg (sl, zl) resp. src (pl), the text of
   that line occurs in out. *)
From TSG Require Import Model.ErrChain Proofs.ErrChain.

(* any model error, any statement context in it (any depth; both statements of a conflict) *)
Theorem error_rendering_cites_all : forall stmt_text cause_text node_kind node_pos other_msg w tsg_path tsg src_path src e c,
  In c (err_stmt_ctxs e) ->
  let out := render_pretty w tsg_path tsg src_path src (chain_of_error stmt_text cause_text node_kind node_pos other_msg e) in
  cites3 tsg_path src_path out (sc_stmt c) (sc_stanza c) (node_pos (sc_node c)) /\
  shows3 tsg src out (sc_stmt c) (sc_stanza c) (node_pos (sc_node c)).
Proof.
  intros st ct nk np om w tp t sp s e c H. split; [apply chain_cites_lemma|apply chain_shows_lemma]; exact H.
Qed.

(* STRICT: the text rendered for the error of a run cites a statement s' of the stanza of an EXECUTED (stanza, match)
   block (the innermost statement that failed: strict_file_error_stmt_loc), that stanza's location and the position
   of the block's full-match node *)
Theorem strict_error_rendering_cites : forall {rx : Type} t fl cfg glob (regexes : list rx) find call fuel sts ms s p e
    stmt_text cause_text node_kind node_pos other_msg w tsg_path tsg src_path src,
  call_errors_base call ->
  exec_file t fl cfg glob regexes find call fuel sts ms s p = Err e ->
  (exists l, e = ECancelled l) \/
  exists st m, In (st, m) (blocks sts ms) /\
    match nodes_for_capture m (st_full_stanza_idx st) with
    | n :: _ =>
        exists s', stmt_in st s' /\
          cites3 tsg_path src_path
                 (render_pretty w tsg_path tsg src_path src (chain_of_error stmt_text cause_text node_kind node_pos other_msg e))
                 (stmt_loc s') (st_start st) (node_pos n)
    | [] => False
    end.
Proof.
  intros rx t fl cfg glob regexes find call fuel sts ms s p e st ct nk np om w tp tsg sp src Hc H.
  destruct (@strict_file_error_loc_lemma rx t fl cfg glob regexes find call fuel sts ms s p e Hc H) as [Hl|(sz & m & Hin & Hm)]; [left; exact Hl|].
  right. exists sz, m. split; [exact Hin|].
  destruct (nodes_for_capture m (st_full_stanza_idx sz)) as [|n rest]; [exact Hm|].
  destruct Hm as (s' & e0 & e1 & Hs & -> & _ & _). exists s'. split; [exact Hs|].
  exact (chain_cites_lemma st ct nk np om w tp tsg sp src _ _ (outer_in _ _ _ (in_eq _ _))).
Qed.

Theorem strict_error_rendering_shows_lines : forall {rx : Type} t fl cfg glob (regexes : list rx) find call fuel sts ms s p e
    stmt_text cause_text node_kind node_pos other_msg w tsg_path tsg src_path src,
  call_errors_base call ->
  exec_file t fl cfg glob regexes find call fuel sts ms s p = Err e ->
  (exists l, e = ECancelled l) \/
  exists st m, In (st, m) (blocks sts ms) /\
    match nodes_for_capture m (st_full_stanza_idx st) with
    | n :: _ =>
        exists s', stmt_in st s' /\
          shows3 tsg src
                 (render_pretty w tsg_path tsg src_path src (chain_of_error stmt_text cause_text node_kind node_pos other_msg e))
                 (stmt_loc s') (st_start st) (node_pos n)
    | [] => False
    end.
Proof.
  intros rx t fl cfg glob regexes find call fuel sts ms s p e st ct nk np om w tp tsg sp src Hc H.
  destruct (@strict_file_error_loc_lemma rx t fl cfg glob regexes find call fuel sts ms s p e Hc H) as [Hl|(sz & m & Hin & Hm)]; [left; exact Hl|].
  right. exists sz, m. split; [exact Hin|].
  destruct (nodes_for_capture m (st_full_stanza_idx sz)) as [|n rest]; [exact Hm|].
  destruct Hm as (s' & e0 & e1 & Hs & -> & _ & _). exists s'. split; [exact Hs|].
  exact (chain_shows_lemma st ct nk np om w tp tsg sp src _ _ (outer_in _ _ _ (in_eq _ _))).
Qed.

(* LAZY (whole run): unless the error is raised by check_globals before any stanza runs or is the cancellation, it has
   one context, or two for a conflict, and for EACH context c: c is valid (the stanza location and first full-match
   node of an executed (stanza, match) pair and the location of a statement of that stanza: `valid_ctx`, see above)
   and the rendered text cites its statement, its stanza and the position of its node *)
Theorem lazy_error_rendering_cites : forall {rx : Type} t fl cfg supplied budget (regexes : list rx) find call fuel ms g0 e
    stmt_text cause_text node_kind node_pos other_msg w tsg_path tsg src_path src,
  call_errors_base call ->
  run_lazy t fl cfg supplied budget regexes find call fuel ms g0 = Err e ->
  check_globals (f_globals fl) (globals_nested supplied) = Err e \/
  (exists l, e = ECancelled l) \/
  exists cs e0, e = EInContext (CtxStmts cs) e0 /\ (length cs = 1 \/ length cs = 2)%nat /\
    Forall (fun c => valid_ctx fl ms c /\
                     cites3 tsg_path src_path
                            (render_pretty w tsg_path tsg src_path src (chain_of_error stmt_text cause_text node_kind node_pos other_msg e))
                            (sc_stmt c) (sc_stanza c) (node_pos (sc_node c))) cs.
Proof.
  intros rx t fl cfg supplied budget regexes find call fuel ms g0 e st ct nk np om w tp tsg sp src Hc H.
  destruct (@run_lazy_error_valid_lemma rx t fl cfg supplied budget regexes find call fuel ms g0 e Hc H) as [Hg|[Hl|(cs & e0 & -> & _ & Hlen & Hv)]];
    [left; exact Hg|right; left; exact Hl|].
  right. right. exists cs, e0. split; [reflexivity|]. split; [exact Hlen|].
  apply Forall_forall. intros c Hin. split; [exact (proj1 (Forall_forall _ _) Hv c Hin)|].
  exact (chain_cites_lemma st ct nk np om w tp tsg sp src _ _ (outer_in _ _ _ Hin)).
Qed.

Theorem lazy_error_rendering_shows_lines : forall {rx : Type} t fl cfg supplied budget (regexes : list rx) find call fuel ms g0 e
    stmt_text cause_text node_kind node_pos other_msg w tsg_path tsg src_path src,
  call_errors_base call ->
  run_lazy t fl cfg supplied budget regexes find call fuel ms g0 = Err e ->
  check_globals (f_globals fl) (globals_nested supplied) = Err e \/
  (exists l, e = ECancelled l) \/
  exists cs e0, e = EInContext (CtxStmts cs) e0 /\ (length cs = 1 \/ length cs = 2)%nat /\
    Forall (fun c => valid_ctx fl ms c /\
                     shows3 tsg src
                            (render_pretty w tsg_path tsg src_path src (chain_of_error stmt_text cause_text node_kind node_pos other_msg e))
                            (sc_stmt c) (sc_stanza c) (node_pos (sc_node c))) cs.
Proof.
  intros rx t fl cfg supplied budget regexes find call fuel ms g0 e st ct nk np om w tp tsg sp src Hc H.
  destruct (@run_lazy_error_valid_lemma rx t fl cfg supplied budget regexes find call fuel ms g0 e Hc H) as [Hg|[Hl|(cs & e0 & -> & _ & Hlen & Hv)]];
    [left; exact Hg|right; left; exact Hl|].
  right. right. exists cs, e0. split; [reflexivity|]. split; [exact Hlen|].
  apply Forall_forall. intros c Hin. split; [exact (proj1 (Forall_forall _ _) Hv c Hin)|].
  exact (chain_shows_lemma st ct nk np om w tp tsg sp src _ _ (outer_in _ _ _ Hin)).
Qed.

(* non-vacuity: the chain of a model error (statement context around a Context::Other around the base error), with
   concrete texts, and what its rendering cites (node 7 at position (7, 1)) and does not cite *)
Example c20_end_to_end_nonvacuous :
  let e := EInContext (CtxStmts [{| sc_stmt := (3, 2); sc_stanza := (0, 0); sc_node := 7 |}]) (EInContext CtxOther EExpectedGraphNode) in
  let ch := chain_of_error (fun _ => [83]) (fun b => [48 + error_code b]) (fun _ => [75]) (fun n => (n, 1)) (fun i => [48 + i]) e in
  let out := render_pretty default_wording [114] [] [115] [] ch in
  ch = {| ch_ctxs := [RStmts [{| sx_stmt := [83]; sx_stmt_loc := (3, 2); sx_stanza_loc := (0, 0); sx_src_loc := (7, 1); sx_kind := [75] |}];
                      ROther [49]];
          ch_cause := [56] |} /\
  err_stmt_ctxs e = [{| sc_stmt := (3, 2); sc_stanza := (0, 0); sc_node := 7 |}] /\
  contains (cite [114] 3 2) out = true /\ contains (cite [114] 0 0) out = true /\ contains (cite [115] 7 1) out = true /\
  contains (cite [115] 3 2) out = false.
Proof. vm_compute. repeat split. Qed.


(* ================================================================================================================
   THE STANDARD LIBRARY.  The hypothesis `call_errors_base call` of the theorems above holds of the model of the
   standard function library (`stdlib_call rxo t` of Model/Stdlib.v, for every regex oracle rxo, on the tree t the
   program runs on): Proofs/StdlibHyps.v, from C13 error_classes.  Below: each theorem above that carries the
   hypothesis, instantiated — the same statement with `call := stdlib_call rxo t` and no hypothesis on functions. *)
From TSG Require Import Model.Stdlib Proofs.StdlibHyps.

Theorem stdlib_errors_base : forall rxo t, call_errors_base (stdlib_call rxo t).
Proof. exact stdlib_call_errors_base. Qed.

Theorem strict_error_ctx_stdlib : forall {rx : Type} rxo t fl cfg glob (regexes : list rx) find fuel st m s p e n rest,
  nodes_for_capture m (st_full_stanza_idx st) = n :: rest ->
  exec_stanza t fl cfg glob regexes find (stdlib_call rxo t) fuel st m s p = Err e ->
  (exists l, e = ECancelled l) \/ in_stmt_ctx (st_start st) n e.
Proof.
  intros rx rxo t fl cfg glob regexes find fuel st m s p e n rest.
  exact (@strict_error_ctx rx t fl cfg glob regexes find (stdlib_call rxo t) fuel st m s p e n rest (stdlib_call_errors_base rxo t)).
Qed.

Theorem strict_file_error_ctx_stdlib : forall {rx : Type} rxo t fl cfg glob (regexes : list rx) find fuel sts ms s p e,
  exec_file t fl cfg glob regexes find (stdlib_call rxo t) fuel sts ms s p = Err e ->
  (exists l, e = ECancelled l) \/
  exists st m, In (st, m) (blocks sts ms) /\
    match nodes_for_capture m (st_full_stanza_idx st) with
    | n :: _ => in_stmt_ctx (st_start st) n e
    | [] => False
    end.
Proof.
  intros rx rxo t fl cfg glob regexes find fuel sts ms s p e.
  exact (@strict_file_error_ctx rx t fl cfg glob regexes find (stdlib_call rxo t) fuel sts ms s p e (stdlib_call_errors_base rxo t)).
Qed.

Theorem strict_error_stmt_loc_stdlib : forall {rx : Type} rxo t fl cfg glob (regexes : list rx) find fuel st m s p e n rest,
  nodes_for_capture m (st_full_stanza_idx st) = n :: rest ->
  exec_stanza t fl cfg glob regexes find (stdlib_call rxo t) fuel st m s p = Err e ->
  (exists l, e = ECancelled l) \/
  exists s' e0 e1,
    stmt_in st s' /\
    e = EInContext (CtxStmts [{| sc_stmt := stmt_loc s'; sc_stanza := st_start st; sc_node := n |}]) e0 /\
    (e0 = e1 \/ e0 = EInContext CtxOther e1) /\
    (exists fuel' le s0 p0,
        exec_stmt t fl cfg glob regexes find (stdlib_call rxo t) fuel' le s' s0 p0 = Err e1 /\ unwrapped e1 /\
        le_ctx le = {| sc_stmt := stmt_loc s'; sc_stanza := st_start st; sc_node := n |} /\ le_match le = m).
Proof.
  intros rx rxo t fl cfg glob regexes find fuel st m s p e n rest.
  exact (@strict_error_stmt_loc rx t fl cfg glob regexes find (stdlib_call rxo t) fuel st m s p e n rest (stdlib_call_errors_base rxo t)).
Qed.

Theorem strict_nested_error_not_plain_stdlib : forall {rx : Type} rxo t fl cfg glob (regexes : list rx) find fuel le wrap body s p e,
  (wrap = (fun c => c) \/ wrap = ctx_wrap CtxOther) ->
  iterM (fun st => let c := ctx_update (le_ctx le) st in
                   ctx_wrap (CtxStmts [c]) (wrap (exec_stmt t fl cfg glob regexes find (stdlib_call rxo t) fuel (le_with_ctx le c) st))) body s p = Err e ->
  ~ unwrapped e.
Proof.
  intros rx rxo t fl cfg glob regexes find fuel le wrap body s p e.
  exact (@strict_nested_error_not_plain rx t fl cfg glob regexes find (stdlib_call rxo t) fuel le wrap body s p e (stdlib_call_errors_base rxo t)).
Qed.

Theorem strict_file_error_stmt_loc_stdlib : forall {rx : Type} rxo t fl cfg glob (regexes : list rx) find fuel sts ms s p e,
  exec_file t fl cfg glob regexes find (stdlib_call rxo t) fuel sts ms s p = Err e ->
  (exists l, e = ECancelled l) \/
  exists st m, In (st, m) (blocks sts ms) /\
    match nodes_for_capture m (st_full_stanza_idx st) with
    | n :: _ =>
        exists s' e0 e1,
          stmt_in st s' /\
          e = EInContext (CtxStmts [{| sc_stmt := stmt_loc s'; sc_stanza := st_start st; sc_node := n |}]) e0 /\
          (e0 = e1 \/ e0 = EInContext CtxOther e1) /\
          fails_directly t fl cfg glob regexes find (stdlib_call rxo t) (st_start st) n m s' e1
    | [] => False
    end.
Proof.
  intros rx rxo t fl cfg glob regexes find fuel sts ms s p e.
  exact (@strict_file_error_stmt_loc rx t fl cfg glob regexes find (stdlib_call rxo t) fuel sts ms s p e (stdlib_call_errors_base rxo t)).
Qed.

Theorem lazy_error_ctx_shape_stdlib : forall {rx : Type} rxo t fl cfg glob (regexes : list rx) find fuel ms s p e,
  lexec_file t fl cfg glob regexes find (stdlib_call rxo t) fuel ms s p = Err e ->
  (exists l, e = ECancelled l) \/ unwrapped e \/
  exists cs e0, e = EInContext (CtxStmts cs) e0 /\ (length cs = 1 \/ length cs = 2)%nat.
Proof.
  intros rx rxo t fl cfg glob regexes find fuel ms s p e.
  exact (@lazy_error_ctx_shape rx t fl cfg glob regexes find (stdlib_call rxo t) fuel ms s p e (stdlib_call_errors_base rxo t)).
Qed.

Theorem lazy_error_ctx_valid_stdlib : forall {rx : Type} rxo t fl cfg glob (regexes : list rx) find fuel ms g0 p e,
  lexec_file t fl cfg glob regexes find (stdlib_call rxo t) fuel ms (linit g0) p = Err e ->
  (exists l, e = ECancelled l) \/
  exists cs e0, e = EInContext (CtxStmts cs) e0 /\ unwrapped e0 /\ (length cs = 1 \/ length cs = 2)%nat /\ Forall (valid_ctx fl ms) cs.
Proof.
  intros rx rxo t fl cfg glob regexes find fuel ms g0 p e.
  exact (@lazy_error_ctx_valid rx t fl cfg glob regexes find (stdlib_call rxo t) fuel ms g0 p e (stdlib_call_errors_base rxo t)).
Qed.

Theorem lazy_run_error_ctx_valid_stdlib : forall {rx : Type} rxo t fl cfg supplied budget (regexes : list rx) find fuel ms g0 e,
  run_lazy t fl cfg supplied budget regexes find (stdlib_call rxo t) fuel ms g0 = Err e ->
  check_globals (f_globals fl) (globals_nested supplied) = Err e \/
  (exists l, e = ECancelled l) \/
  exists cs e0, e = EInContext (CtxStmts cs) e0 /\ unwrapped e0 /\ (length cs = 1 \/ length cs = 2)%nat /\ Forall (valid_ctx fl ms) cs.
Proof.
  intros rx rxo t fl cfg supplied budget regexes find fuel ms g0 e.
  exact (@lazy_run_error_ctx_valid rx t fl cfg supplied budget regexes find (stdlib_call rxo t) fuel ms g0 e (stdlib_call_errors_base rxo t)).
Qed.

Theorem lazy_ctx_invariant_stdlib : forall {rx : Type} rxo t fl cfg glob (regexes : list rx) find fuel ms s p,
  lazy_ctx_inv fl ms s ->
  match lexec_file t fl cfg glob regexes find (stdlib_call rxo t) fuel ms s p with
  | Ok (_, s', _) => lazy_ctx_inv fl ms s'
  | Err e => (exists l, e = ECancelled l) \/
             exists cs e0, e = EInContext (CtxStmts cs) e0 /\ unwrapped e0 /\ (length cs = 1 \/ length cs = 2)%nat /\ Forall (valid_ctx fl ms) cs
  | _ => True
  end.
Proof.
  intros rx rxo t fl cfg glob regexes find fuel ms s p.
  exact (@lazy_ctx_invariant rx t fl cfg glob regexes find (stdlib_call rxo t) fuel ms s p (stdlib_call_errors_base rxo t)).
Qed.

Theorem lazy_deferred_error_cites_own_statement_stdlib : forall rxo t fl fuel st s p e,
  eval_lstmt t fl (stdlib_call rxo t) fuel st s p = Err e ->
  (exists l, e = ECancelled l) \/
  (exists e1, e = EInContext (CtxStmts [ls_dbg st]) e1 /\ unwrapped e1) \/
  (exists k prev, e = EInContext (CtxStmts [prev; ls_dbg st]) EDuplicateAttribute /\ key_sets st k /\
                  (In (k, prev) (l_prev s) \/ prev = ls_dbg st)) \/
  origin t fl (stdlib_call rxo t) s e.
Proof.
  intros rxo t fl fuel st s p e.
  exact (@lazy_deferred_error_cites_own_statement t fl (stdlib_call rxo t) fuel st s p e (stdlib_call_errors_base rxo t)).
Qed.

Theorem lazy_eval_phase_error_cites_deferred_stdlib : forall rxo t fl fuel s p e,
  evaluate_phase t fl (stdlib_call rxo t) fuel s p = Err e ->
  (exists l, e = ECancelled l) \/ unwrapped e \/
  cites_deferred (l_prev s) (l_edges s ++ l_attrs s ++ l_prints s) e \/
  origin t fl (stdlib_call rxo t) s e.
Proof.
  intros rxo t fl fuel s p e.
  exact (@lazy_eval_phase_error_cites_deferred t fl (stdlib_call rxo t) fuel s p e (stdlib_call_errors_base rxo t)).
Qed.

Theorem lazy_thunk_error_cites_creator_stdlib : forall rxo t fl fuel loc s p e,
  force_thunk t fl (stdlib_call rxo t) fuel loc s p = Err e ->
  exists fuel' th, fuel = S fuel' /\ nth_error (l_store s) (N.to_nat loc) = Some th /\
    ((exists l, e = ECancelled l) \/
     (exists e1, e = EInContext (CtxStmts [th_dbg th]) e1 /\ unwrapped e1 /\ thunk_body t fl (stdlib_call rxo t) fuel' loc th s p = Err e1) \/
     (thunk_body t fl (stdlib_call rxo t) fuel' loc th s p = Err e /\ origin t fl (stdlib_call rxo t) s e)).
Proof.
  intros rxo t fl fuel loc s p e.
  exact (@lazy_thunk_error_cites_creator t fl (stdlib_call rxo t) fuel loc s p e (stdlib_call_errors_base rxo t)).
Qed.

Theorem lazy_value_error_cites_creator_stdlib : forall rxo t fl fuel lv s p e,
  eval_lv t fl (stdlib_call rxo t) fuel lv s p = Err e ->
  (exists l, e = ECancelled l) \/ unwrapped e \/ origin t fl (stdlib_call rxo t) s e.
Proof.
  intros rxo t fl fuel lv s p e.
  exact (@lazy_value_error_cites_creator t fl (stdlib_call rxo t) fuel lv s p e (stdlib_call_errors_base rxo t)).
Qed.

Theorem lazy_thunk_error_not_plain_stdlib : forall rxo t fl fuel loc s p e,
  force_thunk t fl (stdlib_call rxo t) fuel loc s p = Err e -> ~ unwrapped e.
Proof.
  intros rxo t fl fuel loc s p e.
  exact (@lazy_thunk_error_not_plain t fl (stdlib_call rxo t) fuel loc s p e (stdlib_call_errors_base rxo t)).
Qed.

Theorem lazy_stmt_error_cites_statement_stdlib : forall {rx : Type} rxo t fl cfg glob (regexes : list rx) find z n m fuel le s s0 p0 e,
  env_zn z n m le ->
  lexec_stmt t fl cfg glob regexes find (stdlib_call rxo t) fuel le s s0 p0 = Err e ->
  (exists l, e = ECancelled l) \/ unwrapped e \/ forced t fl (stdlib_call rxo t) e \/
  arm_cited t fl cfg glob regexes find (stdlib_call rxo t) z n m (arm_stmts s) e.
Proof.
  intros rx rxo t fl cfg glob regexes find z n m fuel le s s0 p0 e.
  exact (@lazy_stmt_error_cites_statement rx t fl cfg glob regexes find (stdlib_call rxo t) z n m fuel le s s0 p0 e (stdlib_call_errors_base rxo t)).
Qed.

Theorem lazy_exec_error_cites_statement_stdlib : forall {rx : Type} rxo t fl cfg glob (regexes : list rx) find fuel st m s p e n rest,
  nodes_for_capture m (st_full_file_idx st) = n :: rest ->
  lexec_stanza t fl cfg glob regexes find (stdlib_call rxo t) fuel st m s p = Err e ->
  (exists l, e = ECancelled l) \/ forced t fl (stdlib_call rxo t) e \/
  top_cited t fl cfg glob regexes find (stdlib_call rxo t) (st_start st) n m (st_stmts st) e \/
  arm_cited t fl cfg glob regexes find (stdlib_call rxo t) (st_start st) n m (flat_map arm_stmts (st_stmts st)) e.
Proof.
  intros rx rxo t fl cfg glob regexes find fuel st m s p e n rest.
  exact (@lazy_exec_error_cites_statement rx t fl cfg glob regexes find (stdlib_call rxo t) fuel st m s p e n rest (stdlib_call_errors_base rxo t)).
Qed.

Theorem lazy_run_error_cites_stdlib : forall {rx : Type} rxo t fl cfg glob (regexes : list rx) find fuel ms g0 p e,
  lexec_file t fl cfg glob regexes find (stdlib_call rxo t) fuel ms (linit g0) p = Err e ->
  (exists l, e = ECancelled l) \/ forced t fl (stdlib_call rxo t) e \/
  cites_executed t fl cfg glob regexes find (stdlib_call rxo t) ms e \/
  exists s1 p1, lexec_blocks t fl cfg glob regexes find (stdlib_call rxo t) fuel ms (linit g0) p = Ok (tt, s1, p1) /\
                cites_deferred [] (l_edges s1 ++ l_attrs s1 ++ l_prints s1) e.
Proof.
  intros rx rxo t fl cfg glob regexes find fuel ms g0 p e.
  exact (@lazy_run_error_cites rx t fl cfg glob regexes find (stdlib_call rxo t) fuel ms g0 p e (stdlib_call_errors_base rxo t)).
Qed.

Theorem lazy_created_values_cite_statement_stdlib : forall {rx : Type} rxo t fl cfg glob (regexes : list rx) find fuel le s s0 p0 s1 p1 d,
  lexec_stmt t fl cfg glob regexes find (stdlib_call rxo t) fuel le s s0 p0 = Ok (tt, s1, p1) ->
  ctx_stored s1 d ->
  ctx_stored s0 d \/ d = ll_ctx le \/ exists s', In s' (stmt_subs s) /\ d = ctx_update (ll_ctx le) s'.
Proof.
  intros rx rxo t fl cfg glob regexes find fuel le s s0 p0 s1 p1 d.
  exact (@lazy_created_values_cite_statement rx t fl cfg glob regexes find (stdlib_call rxo t) fuel le s s0 p0 s1 p1 d (stdlib_call_errors_base rxo t)).
Qed.

Theorem strict_error_rendering_cites_stdlib : forall {rx : Type} rxo t fl cfg glob (regexes : list rx) find fuel sts ms s p e
    stmt_text cause_text node_kind node_pos other_msg w tsg_path tsg src_path src,
  exec_file t fl cfg glob regexes find (stdlib_call rxo t) fuel sts ms s p = Err e ->
  (exists l, e = ECancelled l) \/
  exists st m, In (st, m) (blocks sts ms) /\
    match nodes_for_capture m (st_full_stanza_idx st) with
    | n :: _ =>
        exists s', stmt_in st s' /\
          cites3 tsg_path src_path
                 (render_pretty w tsg_path tsg src_path src (chain_of_error stmt_text cause_text node_kind node_pos other_msg e))
                 (stmt_loc s') (st_start st) (node_pos n)
    | [] => False
    end.
Proof.
  intros rx rxo t fl cfg glob regexes find fuel sts ms s p e stmt_text cause_text node_kind node_pos other_msg w tsg_path tsg src_path src.
  exact (@strict_error_rendering_cites rx t fl cfg glob regexes find (stdlib_call rxo t) fuel sts ms s p e stmt_text cause_text node_kind node_pos other_msg w tsg_path tsg src_path src (stdlib_call_errors_base rxo t)).
Qed.

Theorem strict_error_rendering_shows_lines_stdlib : forall {rx : Type} rxo t fl cfg glob (regexes : list rx) find fuel sts ms s p e
    stmt_text cause_text node_kind node_pos other_msg w tsg_path tsg src_path src,
  exec_file t fl cfg glob regexes find (stdlib_call rxo t) fuel sts ms s p = Err e ->
  (exists l, e = ECancelled l) \/
  exists st m, In (st, m) (blocks sts ms) /\
    match nodes_for_capture m (st_full_stanza_idx st) with
    | n :: _ =>
        exists s', stmt_in st s' /\
          shows3 tsg src
                 (render_pretty w tsg_path tsg src_path src (chain_of_error stmt_text cause_text node_kind node_pos other_msg e))
                 (stmt_loc s') (st_start st) (node_pos n)
    | [] => False
    end.
Proof.
  intros rx rxo t fl cfg glob regexes find fuel sts ms s p e stmt_text cause_text node_kind node_pos other_msg w tsg_path tsg src_path src.
  exact (@strict_error_rendering_shows_lines rx t fl cfg glob regexes find (stdlib_call rxo t) fuel sts ms s p e stmt_text cause_text node_kind node_pos other_msg w tsg_path tsg src_path src (stdlib_call_errors_base rxo t)).
Qed.

Theorem lazy_error_rendering_cites_stdlib : forall {rx : Type} rxo t fl cfg supplied budget (regexes : list rx) find fuel ms g0 e
    stmt_text cause_text node_kind node_pos other_msg w tsg_path tsg src_path src,
  run_lazy t fl cfg supplied budget regexes find (stdlib_call rxo t) fuel ms g0 = Err e ->
  check_globals (f_globals fl) (globals_nested supplied) = Err e \/
  (exists l, e = ECancelled l) \/
  exists cs e0, e = EInContext (CtxStmts cs) e0 /\ (length cs = 1 \/ length cs = 2)%nat /\
    Forall (fun c => valid_ctx fl ms c /\
                     cites3 tsg_path src_path
                            (render_pretty w tsg_path tsg src_path src (chain_of_error stmt_text cause_text node_kind node_pos other_msg e))
                            (sc_stmt c) (sc_stanza c) (node_pos (sc_node c))) cs.
Proof.
  intros rx rxo t fl cfg supplied budget regexes find fuel ms g0 e stmt_text cause_text node_kind node_pos other_msg w tsg_path tsg src_path src.
  exact (@lazy_error_rendering_cites rx t fl cfg supplied budget regexes find (stdlib_call rxo t) fuel ms g0 e stmt_text cause_text node_kind node_pos other_msg w tsg_path tsg src_path src (stdlib_call_errors_base rxo t)).
Qed.

Theorem lazy_error_rendering_shows_lines_stdlib : forall {rx : Type} rxo t fl cfg supplied budget (regexes : list rx) find fuel ms g0 e
    stmt_text cause_text node_kind node_pos other_msg w tsg_path tsg src_path src,
  run_lazy t fl cfg supplied budget regexes find (stdlib_call rxo t) fuel ms g0 = Err e ->
  check_globals (f_globals fl) (globals_nested supplied) = Err e \/
  (exists l, e = ECancelled l) \/
  exists cs e0, e = EInContext (CtxStmts cs) e0 /\ (length cs = 1 \/ length cs = 2)%nat /\
    Forall (fun c => valid_ctx fl ms c /\
                     shows3 tsg src
                            (render_pretty w tsg_path tsg src_path src (chain_of_error stmt_text cause_text node_kind node_pos other_msg e))
                            (sc_stmt c) (sc_stanza c) (node_pos (sc_node c))) cs.
Proof.
  intros rx rxo t fl cfg supplied budget regexes find fuel ms g0 e stmt_text cause_text node_kind node_pos other_msg w tsg_path tsg src_path src.
  exact (@lazy_error_rendering_shows_lines rx t fl cfg supplied budget regexes find (stdlib_call rxo t) fuel ms g0 e stmt_text cause_text node_kind node_pos other_msg w tsg_path tsg src_path src (stdlib_call_errors_base rxo t)).
Qed.

