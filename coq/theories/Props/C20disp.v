(* Props/C20disp.v — property C20, continued (Props/C20.v is at its size limit): the TEXT of the statement shown in an
   error context.  Property theorems only. *)
From TSG Require Import Model.Strict Model.Lazy Proofs.StrictMeta Proofs.ErrorCtx Proofs.Captures Proofs.ErrorCtxValid.
From TSG Require Import Model.ErrRender Proofs.ParseErr Proofs.ErrRender Model.ErrChain Proofs.ErrChain.
From TSG Require Import Props.C20.

(* ================================================================================================================
   THE STATEMENT TEXT.  `StatementContext::statement` is `format!("{}", stmt)`: Model/AstDisplay.v models the Display impls of
   ast.rs character by character (`display_stmt`, `display_expr`, ..; E carries only the table "which non-ASCII characters
   does <str as Debug> print verbatim").  Stream C20d compares it with the implementation on every statement (any depth) of
   every generated file, stream C20r on every statement context of every failing run (code 66).

   display_stmt_total: a total function (no fuel, no outcome type: every impl is a sequence of write!) and never empty.
   display_stmt_head: the text starts with the statement's keyword — "let ", "var ", "set ", "node ", "edge ", "attr ",
     "print ", "if ", "for ", "scan " (`stmt_keyword`, spelled out in stmt_keywords_spelled) — except for an `if` without
     arms, which the parser never builds and whose text is just " at (r, c)".
   display_stmt_ends_with_location: the text ends with " at (row+1, col+1)" of the statement's own location.
   display_stmt_single_line_partial: string constants are printed by <str as Debug>, which escapes every control character
     (LF as \n, CR as \r, ..): whatever the string constants are, the text contains NO character below U+0020 — in
     particular no line break — provided the identifiers printed in the header (variable, attribute, function and capture
     names: `stmt_names`) contain none.  Partial: that identifiers of a PARSED file are clean (identifier characters are
     `_`, `-` and alphanumerics) is not derived from the parser model here; and characters >= U+0080 that some terminals treat
     as line breaks (U+0085, U+2028) are governed by the Unicode table inside E. *)
From TSG Require Import Model.AstDisplay Proofs.AstDisplay Proofs.AstDisplayCite.

Theorem display_stmt_total : forall E s, exists text, display_stmt E s = text /\ text <> [].
Proof. intros E s. exists (display_stmt E s). split; [reflexivity|apply display_stmt_nonempty]. Qed.

Theorem display_stmt_head : forall E s, (forall l, s <> SIf [] l) -> is_prefix (stmt_keyword s) (display_stmt E s) = true.
Proof. exact display_stmt_head_lemma. Qed.

Example stmt_keywords_spelled :
  map stmt_keyword [SLet (VarU [] (0,0)) ENull (0,0); SVar (VarU [] (0,0)) ENull (0,0); SSet (VarU [] (0,0)) ENull (0,0); SNode (VarU [] (0,0)) [] (0,0);
                    SEdge ENull ENull (0,0); SAttrNode ENull [] (0,0); SAttrEdge ENull ENull [] (0,0); SPrint [] (0,0); SIf [] (0,0);
                    SFor [] (0,0) ENull [] (0,0); SScan ENull [] (0,0)]
  = [[108;101;116;32]; [118;97;114;32]; [115;101;116;32]; [110;111;100;101;32]; [101;100;103;101;32]; [97;116;116;114;32]; [97;116;116;114;32];
     [112;114;105;110;116;32]; [105;102;32]; [102;111;114;32]; [115;99;97;110;32]]
  /\ display_stmt (dpenv_of []) (SIf [] (4, 2)) = [32;97;116;32;40;53;44;32;51;41].                      (* " at (5, 3)" *)
Proof. split; reflexivity. Qed.

Theorem display_stmt_ends_with_location : forall E s, exists x, display_stmt E s = x ++ [32;97;116;32] ++ show_loc (stmt_loc s).
Proof. exact display_stmt_tail_lemma. Qed.

Theorem display_stmt_single_line_partial : forall E s,
  (forall x, In x (stmt_names s) -> Forall (fun c => 32 <= c) x) ->
  Forall (fun c => 32 <= c) (display_stmt E s) /\ ~ In 10 (display_stmt E s) /\ ~ In 13 (display_stmt E s).
Proof. intros E s H. pose proof (clean_display_stmt E s H) as Hc. split; [exact Hc|exact (clean_no_newline _ Hc)]. Qed.

(* the same with the executable form of the hypothesis (stream C20d evaluates it on every parsed file: code 71) *)
Theorem display_stmt_single_line_checked_partial : forall E s,
  stmt_names_cleanb s = true -> ~ In 10 (display_stmt E s) /\ ~ In 13 (display_stmt E s).
Proof. intros E s H. exact (clean_no_newline _ (clean_display_stmt E s (stmt_names_cleanb_spec s H))). Qed.

(* the string constant below contains LF, CR, NUL, a quote and a backslash: the text of the statement is one line;
   the hypothesis about identifiers is needed: a (non-parseable) variable name with a line break is printed as is *)
Example display_stmt_single_line_nonvacuous :
  let s := SLet (VarU [120] (0, 4)) (EStr [97;10;13;0;34;92;98]) (0, 0) in
  (forall x, In x (stmt_names s) -> Forall (fun c => 32 <= c) x) /\
  display_stmt (dpenv_of []) s = [108;101;116;32;120;32;61;32;34;97;92;110;92;114;92;48;92;34;92;92;98;34;32;97;116;32;40;49;44;32;49;41]
                                                                                   (* let x = DQ a \n \r \0 \DQ \\ b DQ at (1, 1), DQ = the double quote *)
  /\ In 10 (display_stmt (dpenv_of []) (SLet (VarU [120;10] (0, 4)) ENull (0, 0))).
Proof.
  cbv zeta. split; [|split; [reflexivity|vm_compute; tauto]].
  intros x [<-|[]]. repeat constructor. lia.
Qed.

(* ---- END TO END with the statement text.  `chain_of_error_disp E fl ..` is `chain_of_error` with stmt_text := "display_stmt of
   the statement of fl at that location" (`stmt_text_of`, lookup `stmt_at` = first statement of the file, any depth, with
   that location).  `locs_unique fl = true` (decidable): no two statements of fl share a location — true of every parsed
   file (checked on every file by streams C20d / C20r, code 69), not implied by the type `file`.
   STRICT: the rendering cites the location of a statement s' of the stanza of an executed block (the innermost statement
   that failed, strict_file_error_stmt_loc), s' is what `stmt_at` finds there, and the rendering CONTAINS display_stmt s'. *)
Theorem strict_error_rendering_cites_disp : forall {rx : Type} t fl cfg glob (regexes : list rx) find call fuel sts ms s p e
    E cause_text node_kind node_pos other_msg w tsg_path tsg src_path src,
  call_errors_base call ->
  locs_unique fl = true -> incl sts (f_stanzas fl) ->
  exec_file t fl cfg glob regexes find call fuel sts ms s p = Err e ->
  (exists l, e = ECancelled l) \/
  exists st m, In (st, m) (blocks sts ms) /\
    match nodes_for_capture m (st_full_stanza_idx st) with
    | n :: _ =>
        exists s', stmt_in st s' /\ stmt_at fl (stmt_loc s') = Some s' /\
          let out := render_pretty w tsg_path tsg src_path src (chain_of_error_disp E fl cause_text node_kind node_pos other_msg e) in
          cites3 tsg_path src_path out (stmt_loc s') (st_start st) (node_pos n) /\
          contains (display_stmt E s') out = true
    | [] => False
    end.
Proof. intros rx. exact (@strict_error_rendering_cites_disp_lemma rx). Qed.

(* LAZY: for EACH context c of the error (one, or two for a conflict): c is valid, its three locations are cited, and the
   statement s' that `stmt_at` finds at c's statement location is a statement of a stanza of the file whose Display the
   rendering contains *)
Theorem lazy_error_rendering_cites_disp : forall {rx : Type} t fl cfg supplied budget (regexes : list rx) find call fuel ms g0 e
    E cause_text node_kind node_pos other_msg w tsg_path tsg src_path src,
  call_errors_base call ->
  locs_unique fl = true ->
  run_lazy t fl cfg supplied budget regexes find call fuel ms g0 = Err e ->
  check_globals (f_globals fl) (globals_nested supplied) = Err e \/
  (exists l, e = ECancelled l) \/
  exists cs e0, e = EInContext (CtxStmts cs) e0 /\ (length cs = 1 \/ length cs = 2)%nat /\
    Forall (fun c => valid_ctx fl ms c /\
              let out := render_pretty w tsg_path tsg src_path src (chain_of_error_disp E fl cause_text node_kind node_pos other_msg e) in
              cites3 tsg_path src_path out (sc_stmt c) (sc_stanza c) (node_pos (sc_node c)) /\
              exists s', stmt_at fl (sc_stmt c) = Some s' /\ (exists st, In st (f_stanzas fl) /\ stmt_in st s') /\
                         contains (display_stmt E s') out = true) cs.
Proof. intros rx. exact (@lazy_error_rendering_cites_disp_lemma rx). Qed.

(* under locs_unique the lookup is exact, and without it it still returns a statement at that location *)
Theorem stmt_at_spec : forall fl,
  (forall l s, stmt_at fl l = Some s -> In s (file_stmts fl) /\ stmt_loc s = l) /\
  (locs_unique fl = true -> forall s, In s (file_stmts fl) -> stmt_at fl (stmt_loc s) = Some s).
Proof. intros fl. split; [exact (stmt_at_sound fl)|intros Hu s; exact (stmt_at_unique fl s Hu)]. Qed.

(* non-vacuity: the files of c20_strict_innermost_nonvacuous and c20_lazy_conflict_nonvacuous have unique statement
   locations; the strict error's rendering contains the text of the nested `attr` (line 4 of the DSL) and not the text of
   the enclosing `if`; the lazy conflict's rendering contains the texts of BOTH attr statements *)
Example c20_disp_nonvacuous :
  let x := [120] in let k := [107] in
  let inner := SAttrNode (EInt 5) [Attr k (EInt 1)] (3, 2) in
  let sif := SIf [([CBool ETrue (2, 3)], [inner], (2, 0))] (2, 0) in
  let st := {| st_stmts := [SNode (VarU x (1, 2)) x (1, 0); sif]; st_full_stanza_idx := 0; st_full_file_idx := 0; st_start := (0, 0) |} in
  let fl := {| f_globals := []; f_inherited := []; f_shorthands := []; f_stanzas := [st] |} in
  let E := dpenv_of [] in
  let e := EInContext (CtxStmts [{| sc_stmt := (3, 2); sc_stanza := (0, 0); sc_node := 7 |}]) EExpectedGraphNode in
  let out := render_pretty default_wording [114] [] [115] [] (chain_of_error_disp E fl (fun _ => [63]) (fun _ => [75]) (fun n => (n, 0)) (fun _ => []) e) in
  locs_unique fl = true /\
  exec_file ex_tree fl config0 [[]] (@nil unit) (fun _ _ => None) ex_call 50 [st] [[[(0, [7])]]] (sinit []) (polls0 None) = Err e /\
  stmt_at fl (3, 2) = Some inner /\
  display_stmt E inner = [97;116;116;114;32;40;53;41;32;107;32;61;32;49;32;97;116;32;40;52;44;32;51;41] /\     (* attr (5) k = 1 at (4, 3) *)
  display_stmt E sif = [105;102;32;116;114;117;101;32;123;32;46;46;46;32;125;32;97;116;32;40;51;44;32;49;41] /\  (* if true { ... } at (3, 1) *)
  contains (display_stmt E inner) out = true /\ contains (display_stmt E sif) out = false /\
  (* a file with two statements at one location: the hypothesis fails and the lookup returns the first *)
  locs_unique {| f_globals := []; f_inherited := []; f_shorthands := []; f_stanzas := [{| st_stmts := [sif; inner; inner]; st_full_stanza_idx := 0; st_full_file_idx := 0; st_start := (0, 0) |}] |} = false.
Proof. vm_compute. repeat split. Qed.

Example c20_disp_lazy_nonvacuous :
  let x := [120] in let k := [107] in
  let a1 := SAttrNode (EUnscoped x (3, 7)) [Attr k (EInt 1)] (3, 2) in
  let a2 := SAttrNode (EUnscoped x (4, 5)) [Attr k (EInt 2)] (4, 0) in
  let st := {| st_stmts := [SNode (VarU x (1, 2)) x (1, 0); SIf [([CBool ETrue (2, 3)], [a1], (2, 0))] (2, 0); a2];
               st_full_stanza_idx := 0; st_full_file_idx := 0; st_start := (0, 0) |} in
  let fl := {| f_globals := []; f_inherited := []; f_shorthands := []; f_stanzas := [st] |} in
  let E := dpenv_of [] in
  let e := EInContext (CtxStmts [{| sc_stmt := (3, 2); sc_stanza := (0, 0); sc_node := 7 |}; {| sc_stmt := (4, 0); sc_stanza := (0, 0); sc_node := 7 |}]) EDuplicateAttribute in
  let out := render_pretty default_wording [114] [] [115] [] (chain_of_error_disp E fl (fun _ => [63]) (fun _ => [75]) (fun n => (n, 0)) (fun _ => []) e) in
  locs_unique fl = true /\
  run_lazy ex_tree fl config0 [[]] None (@nil unit) (fun _ _ => None) ex_call 50 [(0, [(0, [7])])] [] = Err e /\
  stmt_at fl (3, 2) = Some a1 /\ stmt_at fl (4, 0) = Some a2 /\
  display_stmt E a1 = [97;116;116;114;32;40;120;41;32;107;32;61;32;49;32;97;116;32;40;52;44;32;51;41] /\        (* attr (x) k = 1 at (4, 3) *)
  contains (display_stmt E a1) out = true /\ contains (display_stmt E a2) out = true.
Proof. vm_compute. repeat split. Qed.

(* ---- is the statement text injective up to locations?  NO.  `stmt_erase` replaces every location by (0, 0).  Besides the
   intended elision of nested blocks ("{ ... }"), two flat, parseable statements have the same text: `print #true` and
   `print true` (a variable named true; likewise #false / false — while #null keeps its hash).  An error context cannot
   tell them apart.  (The implementation prints the same: case FIXED[6] of stream C20d.) *)
Theorem display_stmt_injective_refuted :
  ~ (forall E s1 s2, substmts s1 = [] -> substmts s2 = [] -> display_stmt E s1 = display_stmt E s2 -> stmt_erase s1 = stmt_erase s2).
Proof.
  intros H. destruct display_stmt_injective_refuted_lemma as (s1 & s2 & Heq & Hne & H1 & H2).
  exact (Hne (H (dpenv_of []) s1 s2 H1 H2 (Heq _))).
Qed.

Example display_stmt_injective_witness :
  let E := dpenv_of [] in
  display_stmt E (SPrint [ETrue] (0, 0)) = [112;114;105;110;116;32;116;114;117;101;44;32;97;116;32;40;49;44;32;49;41] /\    (* print true, at (1, 1) *)
  display_stmt E (SPrint [EUnscoped [116;114;117;101] (0, 6)] (0, 0)) = display_stmt E (SPrint [ETrue] (0, 0)) /\
  display_stmt E (SPrint [ENull] (0, 0)) = [112;114;105;110;116;32;35;110;117;108;108;44;32;97;116;32;40;49;44;32;49;41].    (* print #null, at (1, 1) *)
Proof. vm_compute. repeat split. Qed.

(* ================================================================================================================
   PARSED FILES.  The hypothesis `locs_unique fl = true` of the two end-to-end theorems above is a THEOREM about the parser
   model (Model/Parser.v, tied to parser.rs by streams C07/C05p): a statement's location is the parser position at its
   keyword, every token consumes at least one character, positions move strictly upwards in (row, column) with every
   character, and statements are parsed left to right - so the statement locations of a parsed file, in preorder (a
   statement, then the statements of its nested blocks; stanza after stanza), are STRICTLY INCREASING
   (parsed_locs_increasing), in particular pairwise different (parsed_locs_unique).  Any externals X (Unicode tables,
   tree-sitter, regex crate), any fuel: only accepted texts are described.  Proofs/ParseLoc.v, Proofs/ParseLocStmt.v. *)
From TSG Require Model.Parser Proofs.ParseLocStmt.

Theorem parsed_locs_unique : forall X fuel text fl pats,
  Parser.parse X fuel text = Parser.POk fl pats -> locs_unique fl = true.
Proof. exact ParseLocStmt.parsed_locs_unique_lemma. Qed.

Theorem parsed_locs_increasing : forall X fuel text fl pats,
  Parser.parse X fuel text = Parser.POk fl pats ->
  forall i j a b, (i < j)%nat ->
    nth_error (map stmt_loc (file_stmts fl)) i = Some a -> nth_error (map stmt_loc (file_stmts fl)) j = Some b ->
    fst a < fst b \/ (fst a = fst b /\ snd a < snd b).
Proof. exact ParseLocStmt.parsed_locs_increasing_lemma. Qed.

(* strict_error_rendering_cites_disp / lazy_error_rendering_cites_disp for a file the parser model returns: no side
   condition on the file is left *)
Theorem strict_error_rendering_cites_disp_parsed : forall {rx : Type} X pfuel text pats t fl cfg glob (regexes : list rx) find call fuel sts ms s p e
    E cause_text node_kind node_pos other_msg w tsg_path tsg src_path src,
  call_errors_base call ->
  Parser.parse X pfuel text = Parser.POk fl pats -> incl sts (f_stanzas fl) ->
  exec_file t fl cfg glob regexes find call fuel sts ms s p = Err e ->
  (exists l, e = ECancelled l) \/
  exists st m, In (st, m) (blocks sts ms) /\
    match nodes_for_capture m (st_full_stanza_idx st) with
    | n :: _ =>
        exists s', stmt_in st s' /\ stmt_at fl (stmt_loc s') = Some s' /\
          let out := render_pretty w tsg_path tsg src_path src (chain_of_error_disp E fl cause_text node_kind node_pos other_msg e) in
          cites3 tsg_path src_path out (stmt_loc s') (st_start st) (node_pos n) /\
          contains (display_stmt E s') out = true
    | [] => False
    end.
Proof.
  intros rx X pfuel text pats t fl cfg glob regexes find call fuel sts ms s p e E cause_text node_kind node_pos other_msg w
    tsg_path tsg src_path src Hc Hp. apply strict_error_rendering_cites_disp; [exact Hc|exact (parsed_locs_unique _ _ _ _ _ Hp)].
Qed.

Theorem lazy_error_rendering_cites_disp_parsed : forall {rx : Type} X pfuel text pats t fl cfg supplied budget (regexes : list rx) find call fuel ms g0 e
    E cause_text node_kind node_pos other_msg w tsg_path tsg src_path src,
  call_errors_base call ->
  Parser.parse X pfuel text = Parser.POk fl pats ->
  run_lazy t fl cfg supplied budget regexes find call fuel ms g0 = Err e ->
  check_globals (f_globals fl) (globals_nested supplied) = Err e \/
  (exists l, e = ECancelled l) \/
  exists cs e0, e = EInContext (CtxStmts cs) e0 /\ (length cs = 1 \/ length cs = 2)%nat /\
    Forall (fun c => valid_ctx fl ms c /\
              let out := render_pretty w tsg_path tsg src_path src (chain_of_error_disp E fl cause_text node_kind node_pos other_msg e) in
              cites3 tsg_path src_path out (sc_stmt c) (sc_stanza c) (node_pos (sc_node c)) /\
              exists s', stmt_at fl (sc_stmt c) = Some s' /\ (exists st, In st (f_stanzas fl) /\ stmt_in st s') /\
                         contains (display_stmt E s') out = true) cs.
Proof.
  intros rx X pfuel text pats t fl cfg supplied budget regexes find call fuel ms g0 e E cause_text node_kind node_pos other_msg w
    tsg_path tsg src_path src Hc Hp. apply lazy_error_rendering_cites_disp; [exact Hc|exact (parsed_locs_unique _ _ _ _ _ Hp)].
Qed.

(* non-vacuity: two stanzas, `if`/`elif`/`else` with a `for` containing a `scan`, a scan arm containing an `if`:
     (a) @x {
       if some @x {
         for y in [1] {
           scan "s" {
             "a" { print y }
           }
         }
       } elif none @x {
         print "e"
       } else {
         node n
       }
       print 1
     }
     (b) @_z {
       scan "t" { "b" { if #true { let w = 1 } } }
     }
   is accepted; its ten statements have the locations below (preorder), increasing and pairwise different *)
Definition pex_ext : Parser.ext :=
  {| Parser.x_alpha := fun _ => false; Parser.x_alnum := fun _ => false; Parser.x_ws := fun _ => false;
     Parser.x_query := fun _ _ => Some (Parser.QOk 1 (Some 1)); Parser.x_merged := fun _ => Some true;
     Parser.x_regex := fun _ => Some true; Parser.x_print := [] |}.
Definition pex_text : str := [40; 97; 41; 32; 64; 120; 32; 123; 10; 32; 32; 105; 102; 32; 115; 111; 109; 101; 32; 64; 120; 32; 123; 10; 32; 32; 32; 32; 102; 111; 114; 32; 121; 32; 105; 110; 32; 91; 49; 93; 32; 123; 10; 32; 32; 32; 32; 32; 32; 115; 99; 97; 110; 32; 34; 115; 34; 32; 123; 10; 32; 32; 32; 32; 32; 32; 32; 32; 34; 97; 34; 32; 123; 32; 112; 114; 105; 110; 116; 32; 121; 32; 125; 10; 32; 32; 32; 32; 32; 32; 125; 10; 32; 32; 32; 32; 125; 10; 32; 32; 125; 32; 101; 108; 105; 102; 32; 110; 111; 110; 101; 32; 64; 120; 32; 123; 10; 32; 32; 32; 32; 112; 114; 105; 110; 116; 32; 34; 101; 34; 10; 32; 32; 125; 32; 101; 108; 115; 101; 32; 123; 10; 32; 32; 32; 32; 110; 111; 100; 101; 32; 110; 10; 32; 32; 125; 10; 32; 32; 112; 114; 105; 110; 116; 32; 49; 10; 125; 10; 40; 98; 41; 32; 64; 95; 122; 32; 123; 10; 32; 32; 115; 99; 97; 110; 32; 34; 116; 34; 32; 123; 32; 34; 98; 34; 32; 123; 32; 105; 102; 32; 35; 116; 114; 117; 101; 32; 123; 32; 108; 101; 116; 32; 119; 32; 61; 32; 49; 32; 125; 32; 125; 32; 125; 10; 125; 10].
Example parsed_locs_unique_nonvacuous :
  exists fl, Parser.parse pex_ext (Parser.fuel_of pex_text) pex_text = Parser.POk fl [[97]; [98]] /\
    map stmt_loc (file_stmts fl) = [(1, 2); (2, 4); (3, 6); (4, 14); (8, 4); (10, 4); (12, 2); (15, 2); (15, 19); (15, 30)] /\
    locs_unique fl = true.
Proof.
  destruct (Parser.parse pex_ext (Parser.fuel_of pex_text) pex_text) as [fl pats| | | |] eqn:E; try (vm_compute in E; discriminate).
  exists fl. assert (H : Parser.POk fl pats = Parser.parse pex_ext (Parser.fuel_of pex_text) pex_text) by (symmetry; exact E).
  vm_compute in H. injection H as -> ->. repeat split.
Qed.

(* ---- identifiers of a parsed file.  An identifier is `_` or an alphabetic character followed by `_`, `-` and alphanumeric
   characters (parse_name / parse_capture of the parser model); below U+0080 these classes are ASCII letters, digits, `_`
   and `-`, and the external Unicode tables are consulted for code points >= U+0080 only: NO hypothesis on the tables is
   needed for "no identifier character is below U+0020".  Hence every statement of a parsed file, at any depth, satisfies
   the hypothesis of display_stmt_single_line_partial (parsed_names_clean), and its text - whatever its string constants
   are - contains no character below U+0020, in particular no LF and no CR: it is a single line
   (parsed_stmt_text_single_line).  As before, characters >= U+0080 that some terminals treat as line breaks are governed by
   the Unicode tables (X for identifiers, E for string constants).  Proofs/ParseLoc.v, Proofs/ParseClean.v. *)
From TSG Require Proofs.ParseClean.

Theorem parsed_names_clean : forall X fuel text fl pats s,
  Parser.parse X fuel text = Parser.POk fl pats -> In s (file_stmts fl) -> stmt_names_cleanb s = true.
Proof.
  intros X fuel text fl pats s Hp Hin. pose proof (ParseClean.parsed_names_clean_lemma _ _ _ _ _ Hp) as H.
  rewrite forallb_forall in H. exact (H s Hin).
Qed.

Theorem parsed_stmt_text_single_line : forall X fuel text fl pats E s,
  Parser.parse X fuel text = Parser.POk fl pats -> In s (file_stmts fl) ->
  Forall (fun c => 32 <= c) (display_stmt E s) /\ ~ In 10 (display_stmt E s) /\ ~ In 13 (display_stmt E s).
Proof.
  intros X fuel text fl pats E s Hp Hin. pose proof (parsed_names_clean _ _ _ _ _ _ Hp Hin) as Hc.
  split; [exact (clean_display_stmt E s (stmt_names_cleanb_spec s Hc))|exact (display_stmt_single_line_checked_partial E s Hc)].
Qed.

(* non-vacuity: the statements of the file of parsed_locs_unique_nonvacuous; the text of the `for` (its nested blocks elided) *)
Example parsed_stmt_text_nonvacuous :
  exists fl, Parser.parse pex_ext (Parser.fuel_of pex_text) pex_text = Parser.POk fl [[97]; [98]] /\
    length (file_stmts fl) = 10%nat /\ forallb stmt_names_cleanb (file_stmts fl) = true /\
    option_map (display_stmt (dpenv_of [])) (nth_error (file_stmts fl) 1)
    = Some [102;111;114;32;121;32;105;110;32;91;49;93;32;123;32;46;46;46;32;125;32;97;116;32;40;51;44;32;53;41].   (* for y in [1] { ... } at (3, 5) *)
Proof.
  destruct (Parser.parse pex_ext (Parser.fuel_of pex_text) pex_text) as [fl pats| | | |] eqn:E; try (vm_compute in E; discriminate).
  exists fl. assert (H : Parser.POk fl pats = Parser.parse pex_ext (Parser.fuel_of pex_text) pex_text) by (symmetry; exact E).
  vm_compute in H. injection H as -> ->. vm_compute. repeat split.
Qed.

(* ================================================================================================================
   LOADED FILES.  The file that is EXECUTED is the parsed file after File::check.  Model/Loader.v `load X q fuel text` is the
   parser model followed by the checker model (q = the query tables tree-sitter provides; Props/C05render.v load_spec).  The
   checker rewrites capture resolutions only (check_resolves, Props/C06.v), so statement locations and printed identifiers
   are those of the parsed file (Proofs/LoadedFile.v): the facts above hold of the loaded file, and the end-to-end theorems
   hold for every text the model's loader accepts - no hypothesis about the file is left. *)
From TSG Require Model.Loader Proofs.LoadedFile Proofs.ParseNodeText.

Theorem loaded_locs_unique : forall X q fuel text fl pats,
  Loader.load X q fuel text = Loader.LdOk fl pats -> locs_unique fl = true.
Proof. exact LoadedFile.loaded_locs_unique_lemma. Qed.

Theorem loaded_locs_increasing : forall X q fuel text fl pats,
  Loader.load X q fuel text = Loader.LdOk fl pats ->
  forall i j a b, (i < j)%nat ->
    nth_error (map stmt_loc (file_stmts fl)) i = Some a -> nth_error (map stmt_loc (file_stmts fl)) j = Some b ->
    fst a < fst b \/ (fst a = fst b /\ snd a < snd b).
Proof. exact LoadedFile.loaded_locs_increasing_lemma. Qed.

Theorem loaded_stmt_text_single_line : forall X q fuel text fl pats E s,
  Loader.load X q fuel text = Loader.LdOk fl pats -> In s (file_stmts fl) ->
  stmt_names_cleanb s = true /\
  Forall (fun c => 32 <= c) (display_stmt E s) /\ ~ In 10 (display_stmt E s) /\ ~ In 13 (display_stmt E s).
Proof.
  intros X q fuel text fl pats E s Hl Hin. pose proof (LoadedFile.loaded_names_clean_lemma _ _ _ _ _ _ Hl) as H.
  rewrite forallb_forall in H. pose proof (H s Hin) as Hc.
  split; [exact Hc|]. split; [exact (clean_display_stmt E s (stmt_names_cleanb_spec s Hc))|exact (display_stmt_single_line_checked_partial E s Hc)].
Qed.

Theorem strict_error_rendering_cites_disp_loaded : forall {rx : Type} X q pfuel text pats t fl cfg glob (regexes : list rx) find call fuel sts ms s p e
    E cause_text node_kind node_pos other_msg w tsg_path tsg src_path src,
  call_errors_base call ->
  Loader.load X q pfuel text = Loader.LdOk fl pats -> incl sts (f_stanzas fl) ->
  exec_file t fl cfg glob regexes find call fuel sts ms s p = Err e ->
  (exists l, e = ECancelled l) \/
  exists st m, In (st, m) (blocks sts ms) /\
    match nodes_for_capture m (st_full_stanza_idx st) with
    | n :: _ =>
        exists s', stmt_in st s' /\ stmt_at fl (stmt_loc s') = Some s' /\
          let out := render_pretty w tsg_path tsg src_path src (chain_of_error_disp E fl cause_text node_kind node_pos other_msg e) in
          cites3 tsg_path src_path out (stmt_loc s') (st_start st) (node_pos n) /\
          contains (display_stmt E s') out = true
    | [] => False
    end.
Proof.
  intros rx X q pfuel text pats t fl cfg glob regexes find call fuel sts ms s p e E cause_text node_kind node_pos other_msg w
    tsg_path tsg src_path src Hc Hp. apply strict_error_rendering_cites_disp; [exact Hc|exact (loaded_locs_unique _ _ _ _ _ _ Hp)].
Qed.

Theorem lazy_error_rendering_cites_disp_loaded : forall {rx : Type} X q pfuel text pats t fl cfg supplied budget (regexes : list rx) find call fuel ms g0 e
    E cause_text node_kind node_pos other_msg w tsg_path tsg src_path src,
  call_errors_base call ->
  Loader.load X q pfuel text = Loader.LdOk fl pats ->
  run_lazy t fl cfg supplied budget regexes find call fuel ms g0 = Err e ->
  check_globals (f_globals fl) (globals_nested supplied) = Err e \/
  (exists l, e = ECancelled l) \/
  exists cs e0, e = EInContext (CtxStmts cs) e0 /\ (length cs = 1 \/ length cs = 2)%nat /\
    Forall (fun c => valid_ctx fl ms c /\
              let out := render_pretty w tsg_path tsg src_path src (chain_of_error_disp E fl cause_text node_kind node_pos other_msg e) in
              cites3 tsg_path src_path out (sc_stmt c) (sc_stanza c) (node_pos (sc_node c)) /\
              exists s', stmt_at fl (sc_stmt c) = Some s' /\ (exists st, In st (f_stanzas fl) /\ stmt_in st s') /\
                         contains (display_stmt E s') out = true) cs.
Proof.
  intros rx X q pfuel text pats t fl cfg supplied budget regexes find call fuel ms g0 e E cause_text node_kind node_pos other_msg w
    tsg_path tsg src_path src Hc Hp. apply lazy_error_rendering_cites_disp; [exact Hc|exact (loaded_locs_unique _ _ _ _ _ _ Hp)].
Qed.

(* non-vacuity: the text of parsed_locs_unique_nonvacuous is accepted by the loader (capture @x resolved against the
   query tables below); same ten locations *)
Definition pex_q : Checker.query_tables :=
  {| Checker.qt_stanza_names := [[[120]; Checker.FULL_MATCH]; [[95;122]; Checker.FULL_MATCH]];
     Checker.qt_file_names := [[120]; Checker.FULL_MATCH; [95;122]];
     Checker.qt_file_quants := [[QOpt; QOne; QZero]; [QZero; QOne; QOne]]; Checker.qt_nullable := [false; false] |}.
Example loaded_locs_unique_nonvacuous :
  exists fl, Loader.load pex_ext pex_q (Parser.fuel_of pex_text) pex_text = Loader.LdOk fl [[97]; [98]] /\
    map stmt_loc (file_stmts fl) = [(1, 2); (2, 4); (3, 6); (4, 14); (8, 4); (10, 4); (12, 2); (15, 2); (15, 19); (15, 30)].
Proof.
  destruct (Loader.load pex_ext pex_q (Parser.fuel_of pex_text) pex_text) as [fl pats| | | |] eqn:E; try (vm_compute in E; discriminate).
  exists fl. assert (H : Loader.LdOk fl pats = Loader.load pex_ext pex_q (Parser.fuel_of pex_text) pex_text) by (symmetry; exact E).
  vm_compute in H. injection H as -> ->. repeat split.
Qed.

(* the text field of `node` statements (the text the interpreters write into the debug attribute "variable name", C15): in
   the file the loader returns, EVERY `node` statement, at any depth, carries the Display text of its variable - the parser
   model fills the field with display_variable (compared with `format!("{}", node)` of the real AST by stream C07), and the
   checker rewrites capture resolutions only, which Display does not read.  The <str as Debug> table is the loader's external
   x_print (only string constants inside the scope expression of a scoped variable read it). *)
(* already for the parser alone, and for EVERY accepted text (not only the renderings of Props/C07.v parse_render_file) *)
Theorem parsed_node_text : forall X fuel text f pats,
  Parser.parse X fuel text = Parser.POk f pats ->
  forall v t l, In (SNode v t l) (file_stmts f) -> t = display_variable (dpenv_of (Parser.x_print X)) v.
Proof.
  intros X fuel text f pats H v t l Hin. pose proof (ParseNodeText.parsed_node_text_lemma _ _ _ _ _ H) as Hall.
  rewrite forallb_forall in Hall. apply (ParseNodeText.node_textb_spec _ v t l). exact (Hall _ Hin).
Qed.

Theorem loaded_node_text : forall X q fuel text fl pats,
  Loader.load X q fuel text = Loader.LdOk fl pats ->
  forall v t l, In (SNode v t l) (file_stmts fl) -> t = display_variable (dpenv_of (Parser.x_print X)) v.
Proof. exact LoadedFile.loaded_node_text_lemma. Qed.

(* non-vacuity: the `node n` at (10, 4) of the loaded example file carries the text "n" *)
Example loaded_node_text_nonvacuous :
  exists fl, Loader.load pex_ext pex_q (Parser.fuel_of pex_text) pex_text = Loader.LdOk fl [[97]; [98]] /\
    In (SNode (VarU [110] (10, 9)) [110] (10, 4)) (file_stmts fl).
Proof.
  destruct (Loader.load pex_ext pex_q (Parser.fuel_of pex_text) pex_text) as [fl pats| | | |] eqn:E; try (vm_compute in E; discriminate).
  exists fl. assert (H : Loader.LdOk fl pats = Loader.load pex_ext pex_q (Parser.fuel_of pex_text) pex_text) by (symmetry; exact E).
  vm_compute in H. injection H as -> ->. split; [reflexivity|]. vm_compute. tauto.
Qed.


(* ================================================================================================================
   THE STANDARD LIBRARY (see the end of Props/C20.v): the theorems above that carry `call_errors_base call`, with
   `call := stdlib_call rxo t` — no hypothesis on functions is left. *)
From TSG Require Import Model.Stdlib Proofs.StdlibHyps.

Theorem strict_error_rendering_cites_disp_stdlib : forall {rx : Type} rxo t fl cfg glob (regexes : list rx) find fuel sts ms s p e
    E cause_text node_kind node_pos other_msg w tsg_path tsg src_path src,
  locs_unique fl = true -> incl sts (f_stanzas fl) ->
  exec_file t fl cfg glob regexes find (stdlib_call rxo t) fuel sts ms s p = Err e ->
  (exists l, e = ECancelled l) \/
  exists st m, In (st, m) (blocks sts ms) /\
    match nodes_for_capture m (st_full_stanza_idx st) with
    | n :: _ =>
        exists s', stmt_in st s' /\ stmt_at fl (stmt_loc s') = Some s' /\
          let out := render_pretty w tsg_path tsg src_path src (chain_of_error_disp E fl cause_text node_kind node_pos other_msg e) in
          cites3 tsg_path src_path out (stmt_loc s') (st_start st) (node_pos n) /\
          contains (display_stmt E s') out = true
    | [] => False
    end.
Proof.
  intros rx rxo t fl cfg glob regexes find fuel sts ms s p e E cause_text node_kind node_pos other_msg w tsg_path tsg src_path src.
  exact (@strict_error_rendering_cites_disp rx t fl cfg glob regexes find (stdlib_call rxo t) fuel sts ms s p e E cause_text node_kind node_pos other_msg w tsg_path tsg src_path src (stdlib_call_errors_base rxo t)).
Qed.

Theorem lazy_error_rendering_cites_disp_stdlib : forall {rx : Type} rxo t fl cfg supplied budget (regexes : list rx) find fuel ms g0 e
    E cause_text node_kind node_pos other_msg w tsg_path tsg src_path src,
  locs_unique fl = true ->
  run_lazy t fl cfg supplied budget regexes find (stdlib_call rxo t) fuel ms g0 = Err e ->
  check_globals (f_globals fl) (globals_nested supplied) = Err e \/
  (exists l, e = ECancelled l) \/
  exists cs e0, e = EInContext (CtxStmts cs) e0 /\ (length cs = 1 \/ length cs = 2)%nat /\
    Forall (fun c => valid_ctx fl ms c /\
              let out := render_pretty w tsg_path tsg src_path src (chain_of_error_disp E fl cause_text node_kind node_pos other_msg e) in
              cites3 tsg_path src_path out (sc_stmt c) (sc_stanza c) (node_pos (sc_node c)) /\
              exists s', stmt_at fl (sc_stmt c) = Some s' /\ (exists st, In st (f_stanzas fl) /\ stmt_in st s') /\
                         contains (display_stmt E s') out = true) cs.
Proof.
  intros rx rxo t fl cfg supplied budget regexes find fuel ms g0 e E cause_text node_kind node_pos other_msg w tsg_path tsg src_path src.
  exact (@lazy_error_rendering_cites_disp rx t fl cfg supplied budget regexes find (stdlib_call rxo t) fuel ms g0 e E cause_text node_kind node_pos other_msg w tsg_path tsg src_path src (stdlib_call_errors_base rxo t)).
Qed.

Theorem strict_error_rendering_cites_disp_parsed_stdlib : forall {rx : Type} X pfuel text pats rxo t fl cfg glob (regexes : list rx) find fuel sts ms s p e
    E cause_text node_kind node_pos other_msg w tsg_path tsg src_path src,
  Parser.parse X pfuel text = Parser.POk fl pats -> incl sts (f_stanzas fl) ->
  exec_file t fl cfg glob regexes find (stdlib_call rxo t) fuel sts ms s p = Err e ->
  (exists l, e = ECancelled l) \/
  exists st m, In (st, m) (blocks sts ms) /\
    match nodes_for_capture m (st_full_stanza_idx st) with
    | n :: _ =>
        exists s', stmt_in st s' /\ stmt_at fl (stmt_loc s') = Some s' /\
          let out := render_pretty w tsg_path tsg src_path src (chain_of_error_disp E fl cause_text node_kind node_pos other_msg e) in
          cites3 tsg_path src_path out (stmt_loc s') (st_start st) (node_pos n) /\
          contains (display_stmt E s') out = true
    | [] => False
    end.
Proof.
  intros rx X pfuel text pats rxo t fl cfg glob regexes find fuel sts ms s p e E cause_text node_kind node_pos other_msg w tsg_path tsg src_path src.
  exact (@strict_error_rendering_cites_disp_parsed rx X pfuel text pats t fl cfg glob regexes find (stdlib_call rxo t) fuel sts ms s p e E cause_text node_kind node_pos other_msg w tsg_path tsg src_path src (stdlib_call_errors_base rxo t)).
Qed.

Theorem lazy_error_rendering_cites_disp_parsed_stdlib : forall {rx : Type} X pfuel text pats rxo t fl cfg supplied budget (regexes : list rx) find fuel ms g0 e
    E cause_text node_kind node_pos other_msg w tsg_path tsg src_path src,
  Parser.parse X pfuel text = Parser.POk fl pats ->
  run_lazy t fl cfg supplied budget regexes find (stdlib_call rxo t) fuel ms g0 = Err e ->
  check_globals (f_globals fl) (globals_nested supplied) = Err e \/
  (exists l, e = ECancelled l) \/
  exists cs e0, e = EInContext (CtxStmts cs) e0 /\ (length cs = 1 \/ length cs = 2)%nat /\
    Forall (fun c => valid_ctx fl ms c /\
              let out := render_pretty w tsg_path tsg src_path src (chain_of_error_disp E fl cause_text node_kind node_pos other_msg e) in
              cites3 tsg_path src_path out (sc_stmt c) (sc_stanza c) (node_pos (sc_node c)) /\
              exists s', stmt_at fl (sc_stmt c) = Some s' /\ (exists st, In st (f_stanzas fl) /\ stmt_in st s') /\
                         contains (display_stmt E s') out = true) cs.
Proof.
  intros rx X pfuel text pats rxo t fl cfg supplied budget regexes find fuel ms g0 e E cause_text node_kind node_pos other_msg w tsg_path tsg src_path src.
  exact (@lazy_error_rendering_cites_disp_parsed rx X pfuel text pats t fl cfg supplied budget regexes find (stdlib_call rxo t) fuel ms g0 e E cause_text node_kind node_pos other_msg w tsg_path tsg src_path src (stdlib_call_errors_base rxo t)).
Qed.

Theorem strict_error_rendering_cites_disp_loaded_stdlib : forall {rx : Type} X q pfuel text pats rxo t fl cfg glob (regexes : list rx) find fuel sts ms s p e
    E cause_text node_kind node_pos other_msg w tsg_path tsg src_path src,
  Loader.load X q pfuel text = Loader.LdOk fl pats -> incl sts (f_stanzas fl) ->
  exec_file t fl cfg glob regexes find (stdlib_call rxo t) fuel sts ms s p = Err e ->
  (exists l, e = ECancelled l) \/
  exists st m, In (st, m) (blocks sts ms) /\
    match nodes_for_capture m (st_full_stanza_idx st) with
    | n :: _ =>
        exists s', stmt_in st s' /\ stmt_at fl (stmt_loc s') = Some s' /\
          let out := render_pretty w tsg_path tsg src_path src (chain_of_error_disp E fl cause_text node_kind node_pos other_msg e) in
          cites3 tsg_path src_path out (stmt_loc s') (st_start st) (node_pos n) /\
          contains (display_stmt E s') out = true
    | [] => False
    end.
Proof.
  intros rx X q pfuel text pats rxo t fl cfg glob regexes find fuel sts ms s p e E cause_text node_kind node_pos other_msg w tsg_path tsg src_path src.
  exact (@strict_error_rendering_cites_disp_loaded rx X q pfuel text pats t fl cfg glob regexes find (stdlib_call rxo t) fuel sts ms s p e E cause_text node_kind node_pos other_msg w tsg_path tsg src_path src (stdlib_call_errors_base rxo t)).
Qed.

Theorem lazy_error_rendering_cites_disp_loaded_stdlib : forall {rx : Type} X q pfuel text pats rxo t fl cfg supplied budget (regexes : list rx) find fuel ms g0 e
    E cause_text node_kind node_pos other_msg w tsg_path tsg src_path src,
  Loader.load X q pfuel text = Loader.LdOk fl pats ->
  run_lazy t fl cfg supplied budget regexes find (stdlib_call rxo t) fuel ms g0 = Err e ->
  check_globals (f_globals fl) (globals_nested supplied) = Err e \/
  (exists l, e = ECancelled l) \/
  exists cs e0, e = EInContext (CtxStmts cs) e0 /\ (length cs = 1 \/ length cs = 2)%nat /\
    Forall (fun c => valid_ctx fl ms c /\
              let out := render_pretty w tsg_path tsg src_path src (chain_of_error_disp E fl cause_text node_kind node_pos other_msg e) in
              cites3 tsg_path src_path out (sc_stmt c) (sc_stanza c) (node_pos (sc_node c)) /\
              exists s', stmt_at fl (sc_stmt c) = Some s' /\ (exists st, In st (f_stanzas fl) /\ stmt_in st s') /\
                         contains (display_stmt E s') out = true) cs.
Proof.
  intros rx X q pfuel text pats rxo t fl cfg supplied budget regexes find fuel ms g0 e E cause_text node_kind node_pos other_msg w tsg_path tsg src_path src.
  exact (@lazy_error_rendering_cites_disp_loaded rx X q pfuel text pats t fl cfg supplied budget regexes find (stdlib_call rxo t) fuel ms g0 e E cause_text node_kind node_pos other_msg w tsg_path tsg src_path src (stdlib_call_errors_base rxo t)).
Qed.

