(* Props/C09.v — property theorems only.  Edges are a set, attributes are single-assignment,
   execute_into only adds.  `graph_ext g g'`: every node index of g exists in g' (new nodes are
   numbered after the old ones), every attribute value and every edge of g is still there, every
   attribute of every old edge keeps its value.  `graph_wf` / `graph_sorted`: each node's edge vector
   is strictly ascending by sink, i.e. at most one edge per ordered pair. *)
From TSG Require Import Model.Strict Model.Lazy Proofs.BaseFacts Proofs.Containers Proofs.Extends Proofs.ExtendsLazy.
From Coq Require Import Sorted.

(* strict mode, any program, tree, globals, functions that only extend the graph, any cancellation
   budget, any fuel, any pre-populated well-formed graph g0 *)
Theorem run_extends_strict : forall {rx} t fl cfg supplied budget (regexes : list rx) find call fuel matches g0 s p,
  call_extends call -> graph_wf g0 ->
  run_strict t fl cfg supplied budget regexes find call fuel matches g0 = Ok (s, p) ->
  graph_wf (s_graph s) /\ graph_ext g0 (s_graph s).
Proof. intros rx. exact (@run_strict_extends_lemma rx). Qed.

(* lazy mode (execution phase and evaluation phase) *)
Theorem run_extends_lazy : forall {rx} t fl cfg supplied budget (regexes : list rx) find call fuel matches g0 s p,
  call_extends_sorted call -> graph_sorted g0 ->
  run_lazy t fl cfg supplied budget regexes find call fuel matches g0 = Ok (s, p) ->
  graph_sorted (l_graph s) /\ graph_ext g0 (l_graph s).
Proof. intros rx. exact (@run_lazy_extends_lemma rx). Qed.

(* histories: extension is a preorder, so any sequence of execute_into calls only adds *)
Theorem extension_preorder : (forall g, graph_ext g g) /\ (forall a b c, graph_ext a b -> graph_ext b c -> graph_ext a c).
Proof. split; [exact graph_ext_refl|exact graph_ext_trans]. Qed.

(* new nodes are numbered after the existing ones and old indices keep their node *)
Theorem new_nodes_after : forall g g', graph_ext g g' ->
  (length g <= length g')%nat /\ forall i n, nth_error g i = Some n -> exists n', nth_error g' i = Some n' /\ gnode_ext n n'.
Proof. intros g g' H. exact H. Qed.

(* single assignment at the level of one Attributes::add: an equal value is accepted and changes
   nothing, a different value is reported (the statement then fails with DuplicateAttribute) *)
Theorem attr_single_assignment : forall m k v,
  (attrs_get m k = None \/ attrs_get m k = Some v -> snd (attrs_add m k v) = None /\ attrs_ext m (fst (attrs_add m k v))) /\
  (forall old, attrs_get m k = Some old -> old <> v -> snd (attrs_add m k v) = Some old).
Proof.
  intros m k v. split.
  - intros H. assert (Hn : snd (attrs_add m k v) = None).
    { destruct (snd (attrs_add m k v)) as [old|] eqn:E; [|reflexivity]. apply attr_add_conflict_iff_lemma in E as [E1 E2].
      destruct H as [H|H]; rewrite H in E1; [discriminate|]. inversion E1; subst. contradiction. }
    split; [exact Hn|]. apply attrs_add_ext, Hn.
  - intros old H1 H2. apply attr_add_conflict_iff_lemma. auto.
Qed.

(* one edge per ordered pair: re-adding an existing edge keeps it and its attributes *)
Theorem edge_set : forall b es, edges_wf es ->
  edges_wf (snd (edges_add b es)) /\ edges_ext es (snd (edges_add b es)) /\
  (forall a, edges_get b es = Some a -> fst (edges_add b es) = false /\ edges_get b (snd (edges_add b es)) = Some a).
Proof.
  intros b es H. split; [apply edges_add_wf, H|]. split; [apply edges_add_ext, H|].
  intros a Ha. pose proof (edges_add_spec b es H) as S. destruct (edges_add b es) as [isnew es']. cbn [fst snd].
  destruct S as (_ & Hnew & Hget & _). split.
  - destruct isnew; [|reflexivity]. assert (true = true) as Ht by reflexivity. apply Hnew in Ht. congruence.
  - rewrite Hget, N.eqb_refl, Ha. reflexivity.
Qed.

(* non-vacuity: a pre-populated graph with an attributed edge is well formed *)
Example c09_nonvacuous :
  graph_wf [ {| g_attrs := [([107], VInt 1)]; g_edges := [(0, [([107], VInt 2)]); (1, [])] |}; new_gnode ].
Proof.
  repeat constructor; cbn; try (intros [H|[]]; discriminate); try (intros []); try lia.
Qed.

(* ---- THE STANDARD LIBRARY satisfies both hypotheses on functions (every regex oracle rxo, every tree t): a successful
   call returns the graph it was given or — `node` only — that graph with one fresh node appended
   (Proofs/StdlibHyps.v).  The two run theorems, instantiated: no hypothesis on functions is left. *)
From TSG Require Import Model.Stdlib Proofs.StdlibHyps.

Theorem stdlib_extends : forall rxo t, call_extends (stdlib_call rxo t).
Proof. exact stdlib_call_extends. Qed.
Theorem stdlib_extends_sorted : forall rxo t, call_extends_sorted (stdlib_call rxo t).
Proof. exact stdlib_call_extends_sorted. Qed.
(* ... in detail: the graph a stdlib call returns *)
Theorem stdlib_call_result_graph : forall rxo t f g args v g',
  stdlib_call rxo t f g args = Ok (v, g') -> g' = g \/ g' = g ++ [new_gnode].
Proof. exact stdlib_call_graph. Qed.

Theorem run_extends_strict_stdlib : forall {rx} rxo t fl cfg supplied budget (regexes : list rx) find fuel matches g0 s p,
  graph_wf g0 ->
  run_strict t fl cfg supplied budget regexes find (stdlib_call rxo t) fuel matches g0 = Ok (s, p) ->
  graph_wf (s_graph s) /\ graph_ext g0 (s_graph s).
Proof.
  intros rx rxo t fl cfg supplied budget regexes find fuel matches g0 s p.
  exact (@run_extends_strict rx t fl cfg supplied budget regexes find (stdlib_call rxo t) fuel matches g0 s p (stdlib_call_extends rxo t)).
Qed.

Theorem run_extends_lazy_stdlib : forall {rx} rxo t fl cfg supplied budget (regexes : list rx) find fuel matches g0 s p,
  graph_sorted g0 ->
  run_lazy t fl cfg supplied budget regexes find (stdlib_call rxo t) fuel matches g0 = Ok (s, p) ->
  graph_sorted (l_graph s) /\ graph_ext g0 (l_graph s).
Proof.
  intros rx rxo t fl cfg supplied budget regexes find fuel matches g0 s p.
  exact (@run_extends_lazy rx t fl cfg supplied budget regexes find (stdlib_call rxo t) fuel matches g0 s p (stdlib_call_extends_sorted rxo t)).
Qed.


(* ... the instantiated theorems apply to a run that calls `node`, the one library function that changes the graph:
       (module) @m { let x = (node)  attr (x) k = (plus 1 2)  edge x -> x }
   started on the pre-populated graph of c09_nonvacuous *)
Definition c09_tree : tree := {| t_src := []; t_nodes := [] |}.
Definition c09_file : file :=
  {| f_globals := []; f_inherited := []; f_shorthands := [];
     f_stanzas := [{|
       st_stmts := [ SLet (VarU [120] (1, 6)) (ECall Lit.node []) (1, 2);
                     SAttrNode (EUnscoped [120] (2, 8)) [Attr [107] (ECall Lit.plus [EInt 1; EInt 2])] (2, 2);
                     SEdge (EUnscoped [120] (3, 7)) (EUnscoped [120] (3, 12)) (3, 2) ];
       st_full_stanza_idx := 0; st_full_file_idx := 0; st_start := (0, 0) |}] |}.
Definition c09_g0 : graph := [ {| g_attrs := [([107], VInt 1)]; g_edges := [(0, [([107], VInt 2)]); (1, [])] |}; new_gnode ].
Definition c09_oracle : regex_oracle := fun _ _ _ => None.
Local Notation c09_strict :=
  (run_strict c09_tree c09_file config0 [[]] None (@nil unit) (fun _ _ => None) (stdlib_call c09_oracle c09_tree) 50 [[[(0, [0])]]] c09_g0).
Local Notation c09_lazy :=
  (run_lazy c09_tree c09_file config0 [[]] None (@nil unit) (fun _ _ => None) (stdlib_call c09_oracle c09_tree) 50 [(0, [(0, [0])])] c09_g0).
Example c09_stdlib_nonvacuous :
  (exists s p, c09_strict = Ok (s, p) /\
     s_graph s = c09_g0 ++ [ {| g_attrs := [([107], VInt 3)]; g_edges := [(2, [])] |} ] /\
     graph_wf (s_graph s) /\ graph_ext c09_g0 (s_graph s)) /\
  (exists s p, c09_lazy = Ok (s, p) /\
     l_graph s = c09_g0 ++ [ {| g_attrs := [([107], VInt 3)]; g_edges := [(2, [])] |} ] /\
     graph_sorted (l_graph s) /\ graph_ext c09_g0 (l_graph s)).
Proof.
  assert (Hs : exists s p, c09_strict = Ok (s, p)) by (eexists; eexists; vm_compute; reflexivity).
  assert (Hl : exists s p, c09_lazy = Ok (s, p)) by (eexists; eexists; vm_compute; reflexivity).
  split.
  - destruct Hs as (s & p & E). exists s, p. split; [exact E|]. split.
    + assert (X : c09_strict = Ok (s, p)) by exact E. vm_compute in X. inversion X. reflexivity.
    + exact (run_extends_strict_stdlib c09_oracle c09_tree c09_file config0 [[]] None (@nil unit) (fun _ _ => None) 50%nat [[[(0, [0])]]] c09_g0 s p c09_nonvacuous E).
  - destruct Hl as (s & p & E). exists s, p. split; [exact E|]. split.
    + assert (X : c09_lazy = Ok (s, p)) by exact E. vm_compute in X. inversion X. reflexivity.
    + exact (run_extends_lazy_stdlib c09_oracle c09_tree c09_file config0 [[]] None (@nil unit) (fun _ _ => None) 50%nat [(0, [(0, [0])])] c09_g0 s p (graph_wf_sorted _ c09_nonvacuous) E).
Qed.
