(* Props/C09.v — property theorems only.  Edges are a set, attributes are single-assignment,
   execute_into only adds.  `graph_ext g g'`: every node index of g exists in g' (new nodes are
   numbered after the old ones), every attribute value and every edge of g is still there, every
   attribute of every old edge keeps its value.  `graph_wf` / `graph_sorted`: each node's edge vector
   is strictly ascending by sink, i.e. at most one edge per ordered pair. *)
From TSG Require Import Model.Strict Model.Lazy Proofs.BaseFacts Proofs.Containers Proofs.Extends Proofs.ExtendsLazy.
From Coq Require Import Sorted.

(* strict mode, any program, tree, globals, functions that only extend the graph, any cancellation
   budget, any fuel, any pre-populated well-formed graph g0 *)
Theorem run_extends_strict : forall {rx} t fl cfg supplied budget (regexes : list rx) find call fuel matches g0 s p,
  call_extends call -> graph_wf g0 ->
  run_strict t fl cfg supplied budget regexes find call fuel matches g0 = Ok (s, p) ->
  graph_wf (s_graph s) /\ graph_ext g0 (s_graph s).
Proof. intros rx. exact (@run_strict_extends_lemma rx). Qed.

(* lazy mode (execution phase and evaluation phase) *)
Theorem run_extends_lazy : forall {rx} t fl cfg supplied budget (regexes : list rx) find call fuel matches g0 s p,
  call_extends_sorted call -> graph_sorted g0 ->
  run_lazy t fl cfg supplied budget regexes find call fuel matches g0 = Ok (s, p) ->
  graph_sorted (l_graph s) /\ graph_ext g0 (l_graph s).
Proof. intros rx. exact (@run_lazy_extends_lemma rx). Qed.

(* histories: extension is a preorder, so any sequence of execute_into calls only adds *)
Theorem extension_preorder : (forall g, graph_ext g g) /\ (forall a b c, graph_ext a b -> graph_ext b c -> graph_ext a c).
Proof. split; [exact graph_ext_refl|exact graph_ext_trans]. Qed.

(* new nodes are numbered after the existing ones and old indices keep their node *)
Theorem new_nodes_after : forall g g', graph_ext g g' ->
  (length g <= length g')%nat /\ forall i n, nth_error g i = Some n -> exists n', nth_error g' i = Some n' /\ gnode_ext n n'.
Proof. intros g g' H. exact H. Qed.

(* single assignment at the level of one Attributes::add: an equal value is accepted and changes
   nothing, a different value is reported (the statement then fails with DuplicateAttribute) *)
Theorem attr_single_assignment : forall m k v,
  (attrs_get m k = None \/ attrs_get m k = Some v -> snd (attrs_add m k v) = None /\ attrs_ext m (fst (attrs_add m k v))) /\
  (forall old, attrs_get m k = Some old -> old <> v -> snd (attrs_add m k v) = Some old).
Proof.
  intros m k v. split.
  - intros H. assert (Hn : snd (attrs_add m k v) = None).
    { destruct (snd (attrs_add m k v)) as [old|] eqn:E; [|reflexivity]. apply attr_add_conflict_iff_lemma in E as [E1 E2].
      destruct H as [H|H]; rewrite H in E1; [discriminate|]. inversion E1; subst. contradiction. }
    split; [exact Hn|]. apply attrs_add_ext, Hn.
  - intros old H1 H2. apply attr_add_conflict_iff_lemma. auto.
Qed.

(* one edge per ordered pair: re-adding an existing edge keeps it and its attributes *)
Theorem edge_set : forall b es, edges_wf es ->
  edges_wf (snd (edges_add b es)) /\ edges_ext es (snd (edges_add b es)) /\
  (forall a, edges_get b es = Some a -> fst (edges_add b es) = false /\ edges_get b (snd (edges_add b es)) = Some a).
Proof.
  intros b es H. split; [apply edges_add_wf, H|]. split; [apply edges_add_ext, H|].
  intros a Ha. pose proof (edges_add_spec b es H) as S. destruct (edges_add b es) as [isnew es']. cbn [fst snd].
  destruct S as (_ & Hnew & Hget & _). split.
  - destruct isnew; [|reflexivity]. assert (true = true) as Ht by reflexivity. apply Hnew in Ht. congruence.
  - rewrite Hget, N.eqb_refl, Ha. reflexivity.
Qed.

(* non-vacuity: a pre-populated graph with an attributed edge is well formed *)
Example c09_nonvacuous :
  graph_wf [ {| g_attrs := [([107], VInt 1)]; g_edges := [(0, [([107], VInt 2)]); (1, [])] |}; new_gnode ].
Proof.
  repeat constructor; cbn; try (intros [H|[]]; discriminate); try (intros []); try lia.
Qed.

(* ---- THE STANDARD LIBRARY satisfies both hypotheses on functions (every regex oracle rxo, every tree t): a successful
   call returns the graph it was given or — `node` only — that graph with one fresh node appended
   (Proofs/StdlibHyps.v).  The two run theorems, instantiated: no hypothesis on functions is left. *)
From TSG Require Import Model.Stdlib Proofs.StdlibHyps.

Theorem stdlib_extends : forall rxo t, call_extends (stdlib_call rxo t).
Proof. exact stdlib_call_extends. Qed.
Theorem stdlib_extends_sorted : forall rxo t, call_extends_sorted (stdlib_call rxo t).
Proof. exact stdlib_call_extends_sorted. Qed.
(* ... in detail: the graph a stdlib call returns *)
Theorem stdlib_call_result_graph : forall rxo t f g args v g',
  stdlib_call rxo t f g args = Ok (v, g') -> g' = g \/ g' = g ++ [new_gnode].
Proof. exact stdlib_call_graph. Qed.

Theorem run_extends_strict_stdlib : forall {rx} rxo t fl cfg supplied budget (regexes : list rx) find fuel matches g0 s p,
  graph_wf g0 ->
  run_strict t fl cfg supplied budget regexes find (stdlib_call rxo t) fuel matches g0 = Ok (s, p) ->
  graph_wf (s_graph s) /\ graph_ext g0 (s_graph s).
Proof.
  intros rx rxo t fl cfg supplied budget regexes find fuel matches g0 s p.
  exact (@run_extends_strict rx t fl cfg supplied budget regexes find (stdlib_call rxo t) fuel matches g0 s p (stdlib_call_extends rxo t)).
Qed.

Theorem run_extends_lazy_stdlib : forall {rx} rxo t fl cfg supplied budget (regexes : list rx) find fuel matches g0 s p,
  graph_sorted g0 ->
  run_lazy t fl cfg supplied budget regexes find (stdlib_call rxo t) fuel matches g0 = Ok (s, p) ->
  graph_sorted (l_graph s) /\ graph_ext g0 (l_graph s).
Proof.
  intros rx rxo t fl cfg supplied budget regexes find fuel matches g0 s p.
  exact (@run_extends_lazy rx t fl cfg supplied budget regexes find (stdlib_call rxo t) fuel matches g0 s p (stdlib_call_extends_sorted rxo t)).
Qed.


(* ... the instantiated theorems apply to a run that calls `node`, the one library function that changes the graph:
       (module) @m { let x = (node)  attr (x) k = (plus 1 2)  edge x -> x }
   started on the pre-populated graph of c09_nonvacuous *)
Definition c09_tree : tree := {| t_src := []; t_nodes := [] |}.
Definition c09_file : file :=
  {| f_globals := []; f_inherited := []; f_shorthands := [];
     f_stanzas := [{|
       st_stmts := [ SLet (VarU [120] (1, 6)) (ECall Lit.node []) (1, 2);
                     SAttrNode (EUnscoped [120] (2, 8)) [Attr [107] (ECall Lit.plus [EInt 1; EInt 2])] (2, 2);
                     SEdge (EUnscoped [120] (3, 7)) (EUnscoped [120] (3, 12)) (3, 2) ];
       st_full_stanza_idx := 0; st_full_file_idx := 0; st_start := (0, 0) |}] |}.
Definition c09_g0 : graph := [ {| g_attrs := [([107], VInt 1)]; g_edges := [(0, [([107], VInt 2)]); (1, [])] |}; new_gnode ].
Definition c09_oracle : regex_oracle := fun _ _ _ => None.
Local Notation c09_strict :=
  (run_strict c09_tree c09_file config0 [[]] None (@nil unit) (fun _ _ => None) (stdlib_call c09_oracle c09_tree) 50 [[[(0, [0])]]] c09_g0).
Local Notation c09_lazy :=
  (run_lazy c09_tree c09_file config0 [[]] None (@nil unit) (fun _ _ => None) (stdlib_call c09_oracle c09_tree) 50 [(0, [(0, [0])])] c09_g0).
Example c09_stdlib_nonvacuous :
  (exists s p, c09_strict = Ok (s, p) /\
     s_graph s = c09_g0 ++ [ {| g_attrs := [([107], VInt 3)]; g_edges := [(2, [])] |} ] /\
     graph_wf (s_graph s) /\ graph_ext c09_g0 (s_graph s)) /\
  (exists s p, c09_lazy = Ok (s, p) /\
     l_graph s = c09_g0 ++ [ {| g_attrs := [([107], VInt 3)]; g_edges := [(2, [])] |} ] /\
     graph_sorted (l_graph s) /\ graph_ext c09_g0 (l_graph s)).
Proof.
  assert (Hs : exists s p, c09_strict = Ok (s, p)) by (eexists; eexists; vm_compute; reflexivity).
  assert (Hl : exists s p, c09_lazy = Ok (s, p)) by (eexists; eexists; vm_compute; reflexivity).
  split.
  - destruct Hs as (s & p & E). exists s, p. split; [exact E|]. split.
    + assert (X : c09_strict = Ok (s, p)) by exact E. vm_compute in X. inversion X. reflexivity.
    + exact (run_extends_strict_stdlib c09_oracle c09_tree c09_file config0 [[]] None (@nil unit) (fun _ _ => None) 50%nat [[[(0, [0])]]] c09_g0 s p c09_nonvacuous E).
  - destruct Hl as (s & p & E). exists s, p. split; [exact E|]. split.
    + assert (X : c09_lazy = Ok (s, p)) by exact E. vm_compute in X. inversion X. reflexivity.
    + exact (run_extends_lazy_stdlib c09_oracle c09_tree c09_file config0 [[]] None (@nil unit) (fun _ _ => None) 50%nat [(0, [(0, [0])])] c09_g0 s p (graph_wf_sorted _ c09_nonvacuous) E).
Qed.

(* ================================================================================================================
   SINGLE ASSIGNMENT AT STATEMENT AND RUN LEVEL (audit follow-up; Proofs/AttrConflict.v).
   target_attr g (TNode n) k / target_attr g (TEdge a b) k = the value of attribute k of that node / edge in g.
   An attribute statement whose value differs from the value the element already has — set earlier in this run or already
   on the graph handed to execute_into — FAILS with DuplicateAttribute: it never succeeds and never overwrites (the
   state is discarded with the error); an equal value is accepted and the graph stays as it is. *)
From TSG Require Import Proofs.AttrConflict.

(* strict `attr (node) pre.., k = e, post..` (k not a shorthand): node evaluates to n, the attributes before k ran, e
   evaluates to v, node n has k = old <> v  ==>  the statement fails with exactly DuplicateAttribute *)
Theorem strict_attr_conflict_fails : forall {rx} t fl cfg glob (regexes : list rx) find call fuel le node pre k e post l s p n s1 p1 s2 p2 v s3 p3 old,
  snd (poll_step L_exec_stmt p) = false ->
  eval t fl glob call (S fuel) le node s (fst (poll_step L_exec_stmt p)) = Ok (VGraph n, s1, p1) ->
  iterM (exec_attr t fl glob call (S fuel) le (TNode n)) pre s1 p1 = Ok (tt, s2, p2) ->
  snd (poll_step L_exec_attr p2) = false -> find_shorthand k (f_shorthands fl) = None ->
  eval t fl glob call fuel le e s2 (fst (poll_step L_exec_attr p2)) = Ok (v, s3, p3) ->
  target_attr (s_graph s3) (TNode n) k = Some old -> old <> v ->
  exec_stmt t fl cfg glob regexes find call (S (S fuel)) le (SAttrNode node (pre ++ Attr k e :: post) l) s p = Err EDuplicateAttribute.
Proof. intros rx. exact (@strict_attr_node_conflict rx). Qed.

Theorem strict_edge_attr_conflict_fails : forall {rx} t fl cfg glob (regexes : list rx) find call fuel le src snk pre k e post l s p a b sa pa s1 p1 s2 p2 v s3 p3 old,
  snd (poll_step L_exec_stmt p) = false ->
  eval t fl glob call (S fuel) le src s (fst (poll_step L_exec_stmt p)) = Ok (VGraph a, sa, pa) ->
  eval t fl glob call (S fuel) le snk sa pa = Ok (VGraph b, s1, p1) ->
  iterM (exec_attr t fl glob call (S fuel) le (TEdge a b)) pre s1 p1 = Ok (tt, s2, p2) ->
  snd (poll_step L_exec_attr p2) = false -> find_shorthand k (f_shorthands fl) = None ->
  eval t fl glob call fuel le e s2 (fst (poll_step L_exec_attr p2)) = Ok (v, s3, p3) ->
  target_attr (s_graph s3) (TEdge a b) k = Some old -> old <> v ->
  exec_stmt t fl cfg glob regexes find call (S (S fuel)) le (SAttrEdge src snk (pre ++ Attr k e :: post) l) s p = Err EDuplicateAttribute.
Proof. intros rx. exact (@strict_attr_edge_conflict rx). Qed.

(* positive halves: an equal value is accepted; the graph (and the variables) after the statement are those after
   evaluating the value expression: the assignment itself changes nothing *)
Theorem strict_attr_equal_value_accepted : forall {rx} t fl cfg glob (regexes : list rx) find call fuel le node k e l s p n s1 p1 v s2 p2,
  snd (poll_step L_exec_stmt p) = false ->
  eval t fl glob call (S fuel) le node s (fst (poll_step L_exec_stmt p)) = Ok (VGraph n, s1, p1) ->
  snd (poll_step L_exec_attr p1) = false -> find_shorthand k (f_shorthands fl) = None ->
  eval t fl glob call fuel le e s1 (fst (poll_step L_exec_attr p1)) = Ok (v, s2, p2) ->
  target_attr (s_graph s2) (TNode n) k = Some v ->
  exec_stmt t fl cfg glob regexes find call (S (S fuel)) le (SAttrNode node [Attr k e] l) s p =
  Ok (tt, {| s_graph := s_graph s2; s_locals := s_locals s2; s_scoped := s_scoped s2; s_params := s_params s2 |}, p2).
Proof. intros rx. exact (@strict_attr_node_equal rx). Qed.

Theorem strict_edge_attr_equal_value_accepted : forall {rx} t fl cfg glob (regexes : list rx) find call fuel le src snk k e l s p a b sa pa s1 p1 v s2 p2,
  snd (poll_step L_exec_stmt p) = false ->
  eval t fl glob call (S fuel) le src s (fst (poll_step L_exec_stmt p)) = Ok (VGraph a, sa, pa) ->
  eval t fl glob call (S fuel) le snk sa pa = Ok (VGraph b, s1, p1) ->
  snd (poll_step L_exec_attr p1) = false -> find_shorthand k (f_shorthands fl) = None ->
  eval t fl glob call fuel le e s1 (fst (poll_step L_exec_attr p1)) = Ok (v, s2, p2) ->
  target_attr (s_graph s2) (TEdge a b) k = Some v ->
  exec_stmt t fl cfg glob regexes find call (S (S fuel)) le (SAttrEdge src snk [Attr k e] l) s p =
  Ok (tt, {| s_graph := s_graph s2; s_locals := s_locals s2; s_scoped := s_scoped s2; s_params := s_params s2 |}, p2).
Proof. intros rx. exact (@strict_attr_edge_equal rx). Qed.

(* RUN level, strict: the run got as far as the top-level statement x of stanza st on its match q (stanzas stpre ran on
   all their matches, st ran on the matches mpre, and the statements spre before x ran on q), and x fails with e.  Then
   the RUN returns Err with the same root cause; nothing after x is executed and no graph is returned.
   top_le st q n x is the environment Stanza::execute gives x; stanza_prefix st spre is st cut down to spre. *)
Theorem strict_run_failing_statement_fails_run : forall {rx} t fl cfg supplied budget (regexes : list rx) find call fuel matches g0 glob
    stpre mspre st sts mpre q mpost ms sA pA sB pB n rest spre x spost s p e,
  check_globals (f_globals fl) (globals_nested supplied) = Ok glob ->
  f_stanzas fl = stpre ++ st :: sts -> matches = mspre ++ (mpre ++ q :: mpost) :: ms -> length stpre = length mspre ->
  exec_file t fl cfg glob regexes find call fuel stpre mspre (sinit g0) (polls0 budget) = Ok (tt, sA, pA) ->
  iterM (exec_stanza t fl cfg glob regexes find call fuel st) mpre sA pA = Ok (tt, sB, pB) ->
  nodes_for_capture q (st_full_stanza_idx st) = n :: rest ->
  st_stmts st = spre ++ x :: spost ->
  exec_stanza t fl cfg glob regexes find call fuel (stanza_prefix st spre) q sB pB = Ok (tt, s, p) ->
  exec_stmt t fl cfg glob regexes find call fuel (top_le st q n x) x s p = Err e ->
  exists e', run_strict t fl cfg supplied budget regexes find call fuel matches g0 = Err e' /\ root_cause e' = root_cause e.
Proof. intros rx. exact (@strict_run_stmt_fails rx). Qed.

(* ... so a conflicting top-level `attr (node) ..` makes the strict RUN fail with root cause DuplicateAttribute *)
Theorem strict_run_attr_conflict_fails : forall {rx} t fl cfg supplied budget (regexes : list rx) find call fuel matches g0 glob
    stpre mspre st sts mpre q mpost ms sA pA sB pB n rest spre spost s p node pre k e post l gn s1 p1 s2 p2 v s3 p3 old,
  check_globals (f_globals fl) (globals_nested supplied) = Ok glob ->
  f_stanzas fl = stpre ++ st :: sts -> matches = mspre ++ (mpre ++ q :: mpost) :: ms -> length stpre = length mspre ->
  exec_file t fl cfg glob regexes find call (S (S fuel)) stpre mspre (sinit g0) (polls0 budget) = Ok (tt, sA, pA) ->
  iterM (exec_stanza t fl cfg glob regexes find call (S (S fuel)) st) mpre sA pA = Ok (tt, sB, pB) ->
  nodes_for_capture q (st_full_stanza_idx st) = n :: rest ->
  let x := SAttrNode node (pre ++ Attr k e :: post) l in
  let le := top_le st q n x in
  st_stmts st = spre ++ x :: spost ->
  exec_stanza t fl cfg glob regexes find call (S (S fuel)) (stanza_prefix st spre) q sB pB = Ok (tt, s, p) ->
  snd (poll_step L_exec_stmt p) = false ->
  eval t fl glob call (S fuel) le node s (fst (poll_step L_exec_stmt p)) = Ok (VGraph gn, s1, p1) ->
  iterM (exec_attr t fl glob call (S fuel) le (TNode gn)) pre s1 p1 = Ok (tt, s2, p2) ->
  snd (poll_step L_exec_attr p2) = false -> find_shorthand k (f_shorthands fl) = None ->
  eval t fl glob call fuel le e s2 (fst (poll_step L_exec_attr p2)) = Ok (v, s3, p3) ->
  target_attr (s_graph s3) (TNode gn) k = Some old -> old <> v ->
  exists e', run_strict t fl cfg supplied budget regexes find call (S (S fuel)) matches g0 = Err e' /\ root_cause e' = EDuplicateAttribute.
Proof.
  intros rx t fl cfg supplied budget regexes find call fuel matches g0 glob stpre mspre st sts mpre q mpost ms sA pA sB pB n rest spre spost s p
    node pre k e post l gn s1 p1 s2 p2 v s3 p3 old Hg Hf Hm Hl HA HB Hn x le Hst Hpre Hp En Hit Hp2 Hs Ev Ht Hne.
  eapply (strict_run_failing_statement_fails_run t fl cfg supplied budget regexes find call (S (S fuel)) matches g0 glob
            stpre mspre st sts mpre q mpost ms sA pA sB pB n rest spre x spost s p EDuplicateAttribute); eauto.
  exact (strict_attr_conflict_fails t fl cfg glob regexes find call fuel le node pre k e post l s p gn s1 p1 s2 p2 v s3 p3 old Hp En Hit Hp2 Hs Ev Ht Hne).
Qed.

(* lazy: attribute statements are deferred; the single-assignment check happens when the deferred statement
   LSAttrNode node attrs dbg is EVALUATED.  node evaluates to n, the attributes before (k, lv) were applied, lv evaluates
   to v, node n has k = old <> v — whether old was set by a statement of this run (prev = that statement) or was already
   on the graph passed to execute_into (prev = None, fix F9) —  ==>  the evaluation fails with DuplicateAttribute in the
   context of the statement(s): dup_attr_error prev dbg = EInContext (CtxStmts ([prev;] dbg)) EDuplicateAttribute *)
Theorem lazy_attr_conflict_fails : forall t fl call fuel node pre k lv post dbg s p n s1 p1 s2 p2 v s3 p3 old,
  snd (poll_step L_eval_stmt p) = false ->
  eval_as_gnode t fl call fuel node s (fst (poll_step L_eval_stmt p)) = Ok (n, s1, p1) ->
  iterM (node_attr_step t fl call fuel n dbg) pre s1 p1 = Ok (tt, s2, p2) ->
  eval_lv t fl call fuel lv s2 p2 = Ok (v, s3, p3) ->
  target_attr (l_graph s3) (TNode n) k = Some old -> old <> v ->
  exists prev, eval_lstmt t fl call fuel (LSAttrNode node (pre ++ (k, lv) :: post) dbg) s p = Err (dup_attr_error prev dbg).
Proof. exact lazy_attr_node_conflict. Qed.

Theorem lazy_edge_attr_conflict_fails : forall t fl call fuel src snk pre k lv post dbg s p a b sa pa s1 p1 s2 p2 v s3 p3 old,
  snd (poll_step L_eval_stmt p) = false ->
  eval_as_gnode t fl call fuel src s (fst (poll_step L_eval_stmt p)) = Ok (a, sa, pa) ->
  eval_as_gnode t fl call fuel snk sa pa = Ok (b, s1, p1) ->
  iterM (edge_attr_step t fl call fuel a b dbg) pre s1 p1 = Ok (tt, s2, p2) ->
  eval_lv t fl call fuel lv s2 p2 = Ok (v, s3, p3) ->
  target_attr (l_graph s3) (TEdge a b) k = Some old -> old <> v ->
  exists prev, eval_lstmt t fl call fuel (LSAttrEdge src snk (pre ++ (k, lv) :: post) dbg) s p = Err (dup_attr_error prev dbg).
Proof. exact lazy_attr_edge_conflict. Qed.

Theorem dup_attr_error_root_cause : forall prev dbg, root_cause (dup_attr_error prev dbg) = EDuplicateAttribute.
Proof. reflexivity. Qed.

Theorem lazy_attr_equal_value_accepted : forall t fl call fuel node k lv dbg s p n s1 p1 v s2 p2,
  snd (poll_step L_eval_stmt p) = false ->
  eval_as_gnode t fl call fuel node s (fst (poll_step L_eval_stmt p)) = Ok (n, s1, p1) ->
  eval_lv t fl call fuel lv s1 p1 = Ok (v, s2, p2) ->
  target_attr (l_graph s2) (TNode n) k = Some v ->
  exists s', eval_lstmt t fl call fuel (LSAttrNode node [(k, lv)] dbg) s p = Ok (tt, s', p2) /\ l_graph s' = l_graph s2.
Proof. exact lazy_attr_node_equal. Qed.

Theorem lazy_edge_attr_equal_value_accepted : forall t fl call fuel src snk k lv dbg s p a b sa pa s1 p1 v s2 p2,
  snd (poll_step L_eval_stmt p) = false ->
  eval_as_gnode t fl call fuel src s (fst (poll_step L_eval_stmt p)) = Ok (a, sa, pa) ->
  eval_as_gnode t fl call fuel snk sa pa = Ok (b, s1, p1) ->
  eval_lv t fl call fuel lv s1 p1 = Ok (v, s2, p2) ->
  target_attr (l_graph s2) (TEdge a b) k = Some v ->
  exists s', eval_lstmt t fl call fuel (LSAttrEdge src snk [(k, lv)] dbg) s p = Ok (tt, s', p2) /\ l_graph s' = l_graph s2.
Proof. exact lazy_attr_edge_equal. Qed.

(* RUN level, lazy: the execution phase succeeded (state s: l_attrs s is the list of ALL deferred attribute statements of
   the run, in order), the edge statements and the attribute statements apre were evaluated, and the deferred statement x
   fails with e: the RUN returns exactly Err e *)
Theorem lazy_run_failing_attr_statement_fails_run : forall {rx} t fl cfg supplied budget (regexes : list rx) find call fuel matches g0 glob s p s1 p1 apre x apost s2 p2 e,
  check_globals (f_globals fl) (globals_nested supplied) = Ok glob ->
  iterM (fun pm : N * qmatch =>
           match nth_error (f_stanzas fl) (N.to_nat (fst pm)) with
           | Some st => lexec_stanza t fl cfg glob regexes find call fuel st (snd pm)
           | None => panic P_stanza_index
           end) matches (linit g0) (polls0 budget) = Ok (tt, s, p) ->
  iterM (eval_lstmt t fl call (fuel + default_eval_fuel)) (l_edges s) s p = Ok (tt, s1, p1) ->
  l_attrs s = apre ++ x :: apost ->
  iterM (eval_lstmt t fl call (fuel + default_eval_fuel)) apre s1 p1 = Ok (tt, s2, p2) ->
  eval_lstmt t fl call (fuel + default_eval_fuel) x s2 p2 = Err e ->
  run_lazy t fl cfg supplied budget regexes find call fuel matches g0 = Err e.
Proof. intros rx. exact (@lazy_run_attr_stmt_fails rx). Qed.

(* non-vacuity: the hypotheses of the statement-level theorems hold on a concrete state (node 0 has k = 1, x is bound to
   node 0): `attr (x) k = 2` fails, `attr (x) k = 1` is accepted *)
Definition c09_s1 : sstate :=
  {| s_graph := [ {| g_attrs := [([107], VInt 1)]; g_edges := [(0, [([107], VInt 1)])] |} ];
     s_locals := [[([120], (VGraph 0, false))]]; s_scoped := []; s_params := [] |}.
Definition c09_le : lenv := {| le_match := []; le_full := 0; le_caps := []; le_ctx := {| sc_stmt := (0, 0); sc_stanza := (0, 0); sc_node := 0 |} |}.
Example c09_strict_stmt_nonvacuous :
  exec_stmt c09_tree c09_file config0 [] (@nil unit) (fun _ _ => None) (stdlib_call c09_oracle c09_tree) 3 c09_le
    (SAttrNode (EUnscoped [120] (0, 0)) ([] ++ Attr [107] (EInt 2) :: []) (0, 0)) c09_s1 (polls0 None) = Err EDuplicateAttribute /\
  exec_stmt c09_tree c09_file config0 [] (@nil unit) (fun _ _ => None) (stdlib_call c09_oracle c09_tree) 3 c09_le
    (SAttrEdge (EUnscoped [120] (0, 0)) (EUnscoped [120] (0, 0)) ([] ++ Attr [107] (EInt 2) :: []) (0, 0)) c09_s1 (polls0 None) = Err EDuplicateAttribute /\
  (exists s' p', exec_stmt c09_tree c09_file config0 [] (@nil unit) (fun _ _ => None) (stdlib_call c09_oracle c09_tree) 3 c09_le
    (SAttrNode (EUnscoped [120] (0, 0)) [Attr [107] (EInt 1)] (0, 0)) c09_s1 (polls0 None) = Ok (tt, s', p') /\ s_graph s' = s_graph c09_s1).
Proof.
  split; [|split].
  - eapply (strict_attr_conflict_fails c09_tree c09_file config0 [] (@nil unit) (fun _ _ => None) (stdlib_call c09_oracle c09_tree) 1 c09_le
              (EUnscoped [120] (0, 0)) [] [107] (EInt 2) [] (0, 0) c09_s1 (polls0 None) 0 _ _ _ _ (VInt 2) _ _ (VInt 1)).
    all: try (vm_compute; reflexivity). discriminate.
  - eapply (strict_edge_attr_conflict_fails c09_tree c09_file config0 [] (@nil unit) (fun _ _ => None) (stdlib_call c09_oracle c09_tree) 1 c09_le
              (EUnscoped [120] (0, 0)) (EUnscoped [120] (0, 0)) [] [107] (EInt 2) [] (0, 0) c09_s1 (polls0 None) 0 0 _ _ _ _ _ _ (VInt 2) _ _ (VInt 1)).
    all: try (vm_compute; reflexivity). discriminate.
  - eexists. eexists. split.
    + eapply (strict_attr_equal_value_accepted c09_tree c09_file config0 [] (@nil unit) (fun _ _ => None) (stdlib_call c09_oracle c09_tree) 1 c09_le
                (EUnscoped [120] (0, 0)) [107] (EInt 1) (0, 0) c09_s1 (polls0 None) 0 _ _ (VInt 1)).
      all: vm_compute; reflexivity.
    + reflexivity.
Qed.

(* non-vacuity at run level, both interpreters:  (module) @m { let x = (node)  attr (x) k = 1  attr (x) k = 2 }  fails
   with root cause DuplicateAttribute;  with `attr (x) k = 1` twice it succeeds and k = 1 *)
Definition c09_file2 (second : N) : file :=
  {| f_globals := []; f_inherited := []; f_shorthands := [];
     f_stanzas := [{|
       st_stmts := [ SLet (VarU [120] (1, 6)) (ECall Lit.node []) (1, 2);
                     SAttrNode (EUnscoped [120] (2, 8)) [Attr [107] (EInt 1)] (2, 2);
                     SAttrNode (EUnscoped [120] (3, 8)) [Attr [107] (EInt second)] (3, 2) ];
       st_full_stanza_idx := 0; st_full_file_idx := 0; st_start := (0, 0) |}] |}.
Example c09_run_conflict_nonvacuous :
  (exists e, run_strict c09_tree (c09_file2 2) config0 [[]] None (@nil unit) (fun _ _ => None) (stdlib_call c09_oracle c09_tree) 50 [[[(0, [0])]]] [] = Err e /\
             root_cause e = EDuplicateAttribute) /\
  (exists e, run_lazy c09_tree (c09_file2 2) config0 [[]] None (@nil unit) (fun _ _ => None) (stdlib_call c09_oracle c09_tree) 50 [(0, [(0, [0])])] [] = Err e /\
             root_cause e = EDuplicateAttribute) /\
  (exists s p, run_strict c09_tree (c09_file2 1) config0 [[]] None (@nil unit) (fun _ _ => None) (stdlib_call c09_oracle c09_tree) 50 [[[(0, [0])]]] [] = Ok (s, p) /\
             s_graph s = [ {| g_attrs := [([107], VInt 1)]; g_edges := [] |} ]) /\
  (exists s p, run_lazy c09_tree (c09_file2 1) config0 [[]] None (@nil unit) (fun _ _ => None) (stdlib_call c09_oracle c09_tree) 50 [(0, [(0, [0])])] [] = Ok (s, p) /\
             l_graph s = [ {| g_attrs := [([107], VInt 1)]; g_edges := [] |} ]).
Proof.
  split; [|split; [|split]].
  - eexists. split; vm_compute; reflexivity.
  - eexists. split; vm_compute; reflexivity.
  - eexists. eexists. split; vm_compute; reflexivity.
  - eexists. eexists. split; vm_compute; reflexivity.
Qed.

(* ================================================================================================================
   WHOLE-RUN SINGLE ASSIGNMENT, POSITIVE FORM (second audit, finding (g); Proofs/MonoSubRun.v, AssignedStrict.v,
   AssignedLazy.v).  Ghost relations, the model is unchanged:

   assigned_strict .. tgt k v   the strict run (File::execute: globals checked, then exec_file from sinit g0) EXECUTES
                                Attributes::add of value v under name k on element tgt (`add_attr tgt k v` — the only
                                operation that writes an attribute: attribute statements, shorthand expansions, debug
                                attributes) from a state reached by the run;
   assigned_lazy .. tgt k v     the lazy run (both phases) executes lattr_node_add / lattr_edge_add (evaluation of a
                                deferred attribute statement) or ladd_node_attr (debug attribute of `node`) with k, v on tgt.
   "Executes from a reached state" is a derivation msubrun (Proofs/SubRun.v's subrun + "everything executed around it
   only extends the graph").  The theorems: if the run returns Ok, EVERY such assignment is still in the final graph;
   so two assignments of one successful run to the same (element, name) wrote equal values.
   The _is_assignment theorems say which executed statements are assignments.  Strict: any executed `k = e` of an attribute
   list at any depth GIVEN a derivation down to it (strict_executed_attr_is_assignment), and derivations are provided for
   top-level `attr` statements of stanzas (strict_top_attr_.._is_assignment); derivation rules through the bodies of
   if / for / scan are NOT provided.  Lazy: every deferred attribute statement (they are flat, whatever the nesting in the
   program). *)
From TSG Require Import Proofs.SubRun Proofs.MonoSubRun Proofs.AssignedStrict Proofs.AssignedLazy.

Theorem strict_ok_run_keeps_every_assignment : forall {rx} t fl cfg supplied budget (regexes : list rx) find call fuel matches g0 s p tgt k v,
  graph_wf g0 ->
  run_strict t fl cfg supplied budget regexes find call fuel matches g0 = Ok (s, p) ->
  assigned_strict t fl cfg supplied budget regexes find call fuel matches g0 tgt k v ->
  target_attr (s_graph s) tgt k = Some v.
Proof. intros rx. exact (@strict_ok_run_keeps_lemma rx). Qed.

Theorem strict_ok_run_assignments_agree : forall {rx} t fl cfg supplied budget (regexes : list rx) find call fuel matches g0 s p tgt k v1 v2,
  graph_wf g0 ->
  run_strict t fl cfg supplied budget regexes find call fuel matches g0 = Ok (s, p) ->
  assigned_strict t fl cfg supplied budget regexes find call fuel matches g0 tgt k v1 ->
  assigned_strict t fl cfg supplied budget regexes find call fuel matches g0 tgt k v2 ->
  v1 = v2.
Proof.
  intros rx t fl cfg supplied budget regexes find call fuel matches g0 s p tgt k v1 v2 Hwf Hrun H1 H2.
  pose proof (strict_ok_run_keeps_every_assignment _ _ _ _ _ _ _ _ _ _ _ _ _ _ _ _ Hwf Hrun H1) as K1.
  pose proof (strict_ok_run_keeps_every_assignment _ _ _ _ _ _ _ _ _ _ _ _ _ _ _ _ Hwf Hrun H2) as K2. congruence.
Qed.

(* an assignment was reached by the run in the sense of Proofs/SubRun.v (so, e.g., had it failed the run would have failed) *)
Theorem strict_assignment_is_subrun : forall {A} (c : M sstate A) s0 p0 tgt k v,
  writes c s0 p0 tgt k v -> exists s' p', subrun (add_attr tgt k v) s' p' c s0 p0.
Proof. intros A c s0 p0 tgt k v (s' & p' & H). exists s', p'. eapply msubrun_subrun, H. Qed.

(* the run c executes (anywhere, derivation given) the attribute `k = e` of an attribute list on tgt, k is not a shorthand and
   e evaluated to v: that is an assignment of v *)
Theorem strict_executed_attr_is_assignment : forall {A} t fl glob call (c : M sstate A) s0 p0 fuel le tgt k e s1 p1 v s2 p2,
  call_extends call ->
  msubrun sinv sR (exec_attr t fl glob call (S fuel) le tgt (Attr k e)) s1 p1 c s0 p0 ->
  snd (poll_step L_exec_attr p1) = false -> find_shorthand k (f_shorthands fl) = None ->
  eval t fl glob call fuel le e s1 (fst (poll_step L_exec_attr p1)) = Ok (v, s2, p2) ->
  writes c s0 p0 tgt k v.
Proof.
  intros A t fl glob call c s0 p0 fuel le tgt k e s1 p1 v s2 p2 Hc Hsub Hp Hs Ev.
  eapply writes_sub; [exact Hsub|]. exists s2, p2. apply esub_exec_attr_write; assumption.
Qed.

(* a top-level `attr (node) pre.., k = e, post..` of stanza st that the run reached on match q (hypotheses as in
   strict_run_attr_conflict_fails, without the conflict): its `k = e`, evaluated to v, is an assignment of the run *)
Theorem strict_top_attr_node_is_assignment : forall {rx} t fl cfg supplied budget (regexes : list rx) find call fuel matches g0 glob
    stpre mspre st sts mpre q mpost ms sA pA sB pB n rest spre spost s p node pre k e post l gn s1 p1 s2 p2 v s3 p3,
  call_extends call ->
  check_globals (f_globals fl) (globals_nested supplied) = Ok glob ->
  f_stanzas fl = stpre ++ st :: sts -> matches = mspre ++ (mpre ++ q :: mpost) :: ms -> length stpre = length mspre ->
  exec_file t fl cfg glob regexes find call (S (S fuel)) stpre mspre (sinit g0) (polls0 budget) = Ok (tt, sA, pA) ->
  iterM (exec_stanza t fl cfg glob regexes find call (S (S fuel)) st) mpre sA pA = Ok (tt, sB, pB) ->
  nodes_for_capture q (st_full_stanza_idx st) = n :: rest ->
  let x := SAttrNode node (pre ++ Attr k e :: post) l in
  let le := top_le st q n x in
  st_stmts st = spre ++ x :: spost ->
  exec_stanza t fl cfg glob regexes find call (S (S fuel)) (stanza_prefix st spre) q sB pB = Ok (tt, s, p) ->
  snd (poll_step L_exec_stmt p) = false ->
  eval t fl glob call (S fuel) le node s (fst (poll_step L_exec_stmt p)) = Ok (VGraph gn, s1, p1) ->
  iterM (exec_attr t fl glob call (S fuel) le (TNode gn)) pre s1 p1 = Ok (tt, s2, p2) ->
  snd (poll_step L_exec_attr p2) = false -> find_shorthand k (f_shorthands fl) = None ->
  eval t fl glob call fuel le e s2 (fst (poll_step L_exec_attr p2)) = Ok (v, s3, p3) ->
  assigned_strict t fl cfg supplied budget regexes find call (S (S fuel)) matches g0 (TNode gn) k v.
Proof. intros rx. exact (@strict_top_attr_node_assigned rx). Qed.

Theorem strict_top_attr_edge_is_assignment : forall {rx} t fl cfg supplied budget (regexes : list rx) find call fuel matches g0 glob
    stpre mspre st sts mpre q mpost ms sA pA sB pB n rest spre spost s p src snk pre k e post l a b sa pa s1 p1 s2 p2 v s3 p3,
  call_extends call ->
  check_globals (f_globals fl) (globals_nested supplied) = Ok glob ->
  f_stanzas fl = stpre ++ st :: sts -> matches = mspre ++ (mpre ++ q :: mpost) :: ms -> length stpre = length mspre ->
  exec_file t fl cfg glob regexes find call (S (S fuel)) stpre mspre (sinit g0) (polls0 budget) = Ok (tt, sA, pA) ->
  iterM (exec_stanza t fl cfg glob regexes find call (S (S fuel)) st) mpre sA pA = Ok (tt, sB, pB) ->
  nodes_for_capture q (st_full_stanza_idx st) = n :: rest ->
  let x := SAttrEdge src snk (pre ++ Attr k e :: post) l in
  let le := top_le st q n x in
  st_stmts st = spre ++ x :: spost ->
  exec_stanza t fl cfg glob regexes find call (S (S fuel)) (stanza_prefix st spre) q sB pB = Ok (tt, s, p) ->
  snd (poll_step L_exec_stmt p) = false ->
  eval t fl glob call (S fuel) le src s (fst (poll_step L_exec_stmt p)) = Ok (VGraph a, sa, pa) ->
  eval t fl glob call (S fuel) le snk sa pa = Ok (VGraph b, s1, p1) ->
  iterM (exec_attr t fl glob call (S fuel) le (TEdge a b)) pre s1 p1 = Ok (tt, s2, p2) ->
  snd (poll_step L_exec_attr p2) = false -> find_shorthand k (f_shorthands fl) = None ->
  eval t fl glob call fuel le e s2 (fst (poll_step L_exec_attr p2)) = Ok (v, s3, p3) ->
  assigned_strict t fl cfg supplied budget regexes find call (S (S fuel)) matches g0 (TEdge a b) k v.
Proof. intros rx. exact (@strict_top_attr_edge_assigned rx). Qed.

(* lazy *)
Theorem lazy_ok_run_keeps_every_assignment : forall {rx} t fl cfg supplied budget (regexes : list rx) find call fuel matches g0 s p tgt k v,
  graph_sorted g0 ->
  run_lazy t fl cfg supplied budget regexes find call fuel matches g0 = Ok (s, p) ->
  assigned_lazy t fl cfg supplied budget regexes find call fuel matches g0 tgt k v ->
  target_attr (l_graph s) tgt k = Some v.
Proof. intros rx. exact (@lazy_ok_run_keeps_lemma rx). Qed.

Theorem lazy_ok_run_assignments_agree : forall {rx} t fl cfg supplied budget (regexes : list rx) find call fuel matches g0 s p tgt k v1 v2,
  graph_sorted g0 ->
  run_lazy t fl cfg supplied budget regexes find call fuel matches g0 = Ok (s, p) ->
  assigned_lazy t fl cfg supplied budget regexes find call fuel matches g0 tgt k v1 ->
  assigned_lazy t fl cfg supplied budget regexes find call fuel matches g0 tgt k v2 ->
  v1 = v2.
Proof.
  intros rx t fl cfg supplied budget regexes find call fuel matches g0 s p tgt k v1 v2 Hwf Hrun H1 H2.
  pose proof (lazy_ok_run_keeps_every_assignment _ _ _ _ _ _ _ _ _ _ _ _ _ _ _ _ Hwf Hrun H1) as K1.
  pose proof (lazy_ok_run_keeps_every_assignment _ _ _ _ _ _ _ _ _ _ _ _ _ _ _ _ Hwf Hrun H2) as K2. congruence.
Qed.

Theorem lazy_assignment_is_subrun : forall {A} (c : M lstate A) s0 p0 tgt k v,
  lwrites c s0 p0 tgt k v -> exists d s' p', lazy_write tgt k v d /\ subrun d s' p' c s0 p0.
Proof. intros A c s0 p0 tgt k v (d & s' & p' & Hw & H). exists d, s', p'. split; [exact Hw|]. eapply msubrun_subrun, H. Qed.

(* the deferred statement `attr (node) pre.., k = lv, post..` of the run (execution phase done: state s; edge statements
   evaluated; the attribute statements apre before it evaluated), whose node evaluated to n and whose lv evaluated to v
   (hypotheses as in lazy_attr_conflict_fails / lazy_run_failing_attr_statement_fails_run): an assignment of the run *)
Theorem lazy_deferred_attr_node_is_assignment : forall {rx} t fl cfg supplied budget (regexes : list rx) find call fuel matches g0 glob
    s p s1 p1 apre apost s2 p2 node pre k lv post dbg n s3 p3 s4 p4 v s5 p5,
  call_extends_sorted call ->
  check_globals (f_globals fl) (globals_nested supplied) = Ok glob ->
  iterM (fun pm : N * qmatch =>
           match nth_error (f_stanzas fl) (N.to_nat (fst pm)) with
           | Some st => lexec_stanza t fl cfg glob regexes find call fuel st (snd pm)
           | None => panic P_stanza_index
           end) matches (linit g0) (polls0 budget) = Ok (tt, s, p) ->
  iterM (eval_lstmt t fl call (fuel + default_eval_fuel)) (l_edges s) s p = Ok (tt, s1, p1) ->
  l_attrs s = apre ++ LSAttrNode node (pre ++ (k, lv) :: post) dbg :: apost ->
  iterM (eval_lstmt t fl call (fuel + default_eval_fuel)) apre s1 p1 = Ok (tt, s2, p2) ->
  snd (poll_step L_eval_stmt p2) = false ->
  eval_as_gnode t fl call (fuel + default_eval_fuel) node s2 (fst (poll_step L_eval_stmt p2)) = Ok (n, s3, p3) ->
  iterM (node_attr_step t fl call (fuel + default_eval_fuel) n dbg) pre s3 p3 = Ok (tt, s4, p4) ->
  eval_lv t fl call (fuel + default_eval_fuel) lv s4 p4 = Ok (v, s5, p5) ->
  assigned_lazy t fl cfg supplied budget regexes find call fuel matches g0 (TNode n) k v.
Proof. intros rx. exact (@lazy_deferred_attr_node_assigned rx). Qed.

(* ... `attr (src -> snk) ..`; the edge a -> b exists when (k, lv) is reached (m = its attributes then) *)
Theorem lazy_deferred_attr_edge_is_assignment : forall {rx} t fl cfg supplied budget (regexes : list rx) find call fuel matches g0 glob
    s p s1 p1 apre apost s2 p2 src snk pre k lv post dbg a b sa pa s3 p3 s4 p4 v s5 p5 m,
  call_extends_sorted call ->
  check_globals (f_globals fl) (globals_nested supplied) = Ok glob ->
  iterM (fun pm : N * qmatch =>
           match nth_error (f_stanzas fl) (N.to_nat (fst pm)) with
           | Some st => lexec_stanza t fl cfg glob regexes find call fuel st (snd pm)
           | None => panic P_stanza_index
           end) matches (linit g0) (polls0 budget) = Ok (tt, s, p) ->
  iterM (eval_lstmt t fl call (fuel + default_eval_fuel)) (l_edges s) s p = Ok (tt, s1, p1) ->
  l_attrs s = apre ++ LSAttrEdge src snk (pre ++ (k, lv) :: post) dbg :: apost ->
  iterM (eval_lstmt t fl call (fuel + default_eval_fuel)) apre s1 p1 = Ok (tt, s2, p2) ->
  snd (poll_step L_eval_stmt p2) = false ->
  eval_as_gnode t fl call (fuel + default_eval_fuel) src s2 (fst (poll_step L_eval_stmt p2)) = Ok (a, sa, pa) ->
  eval_as_gnode t fl call (fuel + default_eval_fuel) snk sa pa = Ok (b, s3, p3) ->
  iterM (edge_attr_step t fl call (fuel + default_eval_fuel) a b dbg) pre s3 p3 = Ok (tt, s4, p4) ->
  eval_lv t fl call (fuel + default_eval_fuel) lv s4 p4 = Ok (v, s5, p5) ->
  target_attrs (l_graph s5) (TEdge a b) = Some m ->
  assigned_lazy t fl cfg supplied budget regexes find call fuel matches g0 (TEdge a b) k v.
Proof. intros rx. exact (@lazy_deferred_attr_edge_assigned rx). Qed.

(* non-vacuity: the successful runs of  (module) @m { let x = (node)  attr (x) k = 1  attr (x) k = 1 }  (c09_file2 1) in both
   modes: the second `attr` statement is an assignment of the run (the _is_assignment theorems apply, with the standard
   library; the hypotheses are discharged one after the other by computation), so the keeps theorems give k = 1 on node 0
   of the final graph of THE run *)
Definition c09_call := stdlib_call c09_oracle c09_tree.
Definition c09_st2 : stanza :=
  hd {| st_stmts := []; st_full_stanza_idx := 0; st_full_file_idx := 0; st_start := (0, 0) |} (f_stanzas (c09_file2 1)).
Example c09_assigned_strict_nonvacuous :
  assigned_strict c09_tree (c09_file2 1) config0 [[]] None (@nil unit) (fun _ _ => None) c09_call 50 [[[(0, [0])]]] [] (TNode 0) [107] (VInt 1) /\
  exists s p, run_strict c09_tree (c09_file2 1) config0 [[]] None (@nil unit) (fun _ _ => None) c09_call 50 [[[(0, [0])]]] [] = Ok (s, p) /\
              target_attr (s_graph s) (TNode 0) [107] = Some (VInt 1).
Proof.
  assert (HA : assigned_strict c09_tree (c09_file2 1) config0 [[]] None (@nil unit) (fun _ _ => None) c09_call 50 [[[(0, [0])]]] [] (TNode 0) [107] (VInt 1)).
  { change 50%nat with (S (S 48)).
    eapply (strict_top_attr_node_is_assignment c09_tree (c09_file2 1) config0 [[]] None (@nil unit) (fun _ _ => None) c09_call 48 [[[(0, [0])]]] [] _
              [] [] c09_st2 [] [] [(0,[0])] [] [] _ _ _ _ 0 []
              [ SLet (VarU [120] (1, 6)) (ECall Lit.node []) (1, 2); SAttrNode (EUnscoped [120] (2, 8)) [Attr [107] (EInt 1)] (2, 2) ] []
              _ _ (EUnscoped [120] (3, 8)) [] [107] (EInt 1) [] (3,2) 0 _ _ _ _ (VInt 1) _ _ (stdlib_extends c09_oracle c09_tree)).
    (* one goal after the other: each fixes the states the next one starts from *)
    { vm_compute; reflexivity. } { vm_compute; reflexivity. } { vm_compute; reflexivity. } { vm_compute; reflexivity. } { vm_compute; reflexivity. }
    { vm_compute; reflexivity. } { vm_compute; reflexivity. } { vm_compute; reflexivity. } { vm_compute; reflexivity. } { vm_compute; reflexivity. }
    { vm_compute; reflexivity. } { vm_compute; reflexivity. } { vm_compute; reflexivity. } { vm_compute; reflexivity. } { vm_compute; reflexivity. } }
  split; [exact HA|].
  assert (Hr : exists s p, run_strict c09_tree (c09_file2 1) config0 [[]] None (@nil unit) (fun _ _ => None) c09_call 50 [[[(0, [0])]]] [] = Ok (s, p))
    by (eexists; eexists; vm_compute; reflexivity).
  destruct Hr as (s & p & Hrun). exists s, p. split; [exact Hrun|].
  exact (strict_ok_run_keeps_every_assignment c09_tree (c09_file2 1) config0 [[]] None (@nil unit) (fun _ _ => None) c09_call 50%nat [[[(0, [0])]]] []
           s p (TNode 0) [107] (VInt 1) (Forall_nil _) Hrun HA).
Qed.

Example c09_assigned_lazy_nonvacuous :
  assigned_lazy c09_tree (c09_file2 1) config0 [[]] None (@nil unit) (fun _ _ => None) c09_call 50 [(0, [(0, [0])])] [] (TNode 0) [107] (VInt 1) /\
  exists s p, run_lazy c09_tree (c09_file2 1) config0 [[]] None (@nil unit) (fun _ _ => None) c09_call 50 [(0, [(0, [0])])] [] = Ok (s, p) /\
              target_attr (l_graph s) (TNode 0) [107] = Some (VInt 1).
Proof.
  assert (HA : assigned_lazy c09_tree (c09_file2 1) config0 [[]] None (@nil unit) (fun _ _ => None) c09_call 50 [(0, [(0, [0])])] [] (TNode 0) [107] (VInt 1)).
  { (* the SECOND deferred attribute statement *)
    eapply (lazy_deferred_attr_node_is_assignment c09_tree (c09_file2 1) config0 [[]] None (@nil unit) (fun _ _ => None) c09_call 50%nat [(0, [(0, [0])])] [] _
              _ _ _ _ [LSAttrNode (LVar 0) [([107], LValue (VInt 1))] {| sc_stmt := (2, 2); sc_stanza := (0, 0); sc_node := 0 |}] [] _ _
              (LVar 0) [] [107] (LValue (VInt 1)) [] {| sc_stmt := (3, 2); sc_stanza := (0, 0); sc_node := 0 |} 0 _ _ _ _ (VInt 1) _ _
              (stdlib_extends_sorted c09_oracle c09_tree)).
    { vm_compute; reflexivity. } { vm_compute; reflexivity. } { vm_compute; reflexivity. } { vm_compute; reflexivity. } { vm_compute; reflexivity. }
    { vm_compute; reflexivity. } { vm_compute; reflexivity. } { vm_compute; reflexivity. } { vm_compute; reflexivity. } }
  split; [exact HA|].
  assert (Hr : exists s p, run_lazy c09_tree (c09_file2 1) config0 [[]] None (@nil unit) (fun _ _ => None) c09_call 50 [(0, [(0, [0])])] [] = Ok (s, p))
    by (eexists; eexists; vm_compute; reflexivity).
  destruct Hr as (s & p & Hrun). exists s, p. split; [exact Hrun|].
  exact (lazy_ok_run_keeps_every_assignment c09_tree (c09_file2 1) config0 [[]] None (@nil unit) (fun _ _ => None) c09_call 50%nat [(0, [(0, [0])])] []
           s p (TNode 0) [107] (VInt 1) (Forall_nil _) Hrun HA).
Qed.
