(* Props/C08.v — property theorems only.  Lazy evaluation does not depend on stanza order.
   Reordering the stanzas of a file PERMUTES the list of blocks (stanza index, match) that `run_lazy` executes.
   PARTIAL: the full statement
     lazy_block_order_iso : Permutation ms ms' -> run_lazy .. ms g0 = Ok (ls, _) ->
                            exists ls', run_lazy .. ms' g0 = Ok (ls', _) (for enough fuel) /\ l_graph ls ~ l_graph ls'  (and: an error for one order -> no success for the other)
   is proved on a FRAGMENT (lazy_block_order_iso_partial):
     - statements `fstmt` of Proofs/SLExpr.v: everything except scoped variables (local variables, `if`, `for`, `scan`, comprehensions, `print`,
       `node`, `edge`, `attr`, shorthands; sets of graph nodes allowed);
     - called functions satisfy `call_ok` (graph-pure, commute with order-preserving renamings of graph-node ids, invent no graph-node id):
       proved for every stdlib function except `node`, `format`, `join` (stdlib_call_ok_partial; format/join render a node reference as text showing its number);
     - global variables only mention nodes of the initial graph g0, and g0 only mentions its own nodes (gclosed);
     - no debug attributes (config0): with a location attribute an edge created by two stanzas keeps the attribute of the creating statement evaluated FIRST
       (c08_debug_attribute_depends_on_order), and textual reordering changes every location anyway;
     - no cancellation budget;
     - fuel: lazy_block_order_iso_partial says that the permuted run succeeds FROM SOME FUEL ON (the fuel needed does depend on the order in the model: a thunk may be
       forced first at a deeper nesting); lazy_block_order_fail_partial: an error or a panic for one order excludes success for every other order at every fuel;
       lazy_fuel_mono_partial: a run that does not run out of fuel has the same outcome at every larger fuel.
   The graphs are related by graph_iso r: r is a bijection of node ids fixing the nodes of g0, node i corresponds to node r i, attribute maps are equal as maps
   after renaming the node references inside values, each edge vector holds the renamed sinks with equal attribute maps.
   Parts: STEP 1 lazy_block_shift_partial / lazy_block_swap_partial (one block started at other sizes appends the same delta with shifted ids; adjacent transposition),
   STEP 2 lazy_exec_phase_perm_partial (any permutation of the execution phase: the blocks' canonical deltas laid out in list order, all configurations),
   lazy_eval_extract_partial (a successful lazy evaluation phase read back as store valuation + graph operations), STEP 3 lazy_block_order_iso_partial.
   Earlier theorems (kept): scoped-variable forcing and the deferred graph operations are order independent.
   NOT proved: blocks that communicate through scoped variables (STEP 4).  The execution phase would extend (cells collect pairs in block order; eager positions must be
   scoped-free so that no cell is forced early: the K4b class), but the evaluation phase needs new forcing lemmas: with a reader before its definer the value thunk of a
   definition lies AFTER the reading thunk in the store, so the store is no longer acyclic by index (the well-foundedness used by SLForce/SL2Force and here), and a set value
   may then mix nodes of several blocks, so values would have to be compared up to re-sorting of sets.  Debug attributes: see c08_debug_attribute_depends_on_order. *)
From TSG Require Import Model.Lazy Model.Run Model.Stdlib Proofs.Scoped Proofs.PermFacts Proofs.SLGraph Proofs.SLForce Proofs.SLExpr Proofs.SLStmt Proofs.StrictLazy Proofs.EvalPerm Proofs.EvalPermLazy
  Proofs.BlockPermRen Proofs.BlockPermSim Proofs.BlockPermSwap Proofs.BlockPermExec Proofs.BlockPermDen Proofs.BlockPermGraph Proofs.BlockPermEval Proofs.BlockPermStd Proofs.BlockPermExample Proofs.BlockPermFuel Proofs.BlockPermRun.
From Coq Require Import Permutation.

(* forcing the definitions collected for one scoped-variable name: whether it succeeds (no duplicate
   definition on one node) and the value found for every node are the same for every order in which
   the stanzas/matches contributed the definitions *)
Theorem scoped_force_perm_partial : forall node_of ps ps', Permutation ps ps' ->
  ((exists m, build node_of ps [] [] = inl m) <-> (exists m', build node_of ps' [] [] = inl m')) /\
  (forall m m' n, build node_of ps [] [] = inl m -> build node_of ps' [] [] = inl m' -> nmap_get m n = nmap_get m' n).
Proof. exact scoped_force_perm_lemma. Qed.

(* definitions are only collected until the variable is first forced: adding afterwards is an error
   (the checker prevents it; never a silently ignored definition) *)
Theorem add_after_force_is_error_partial : forall sc name v dbg s p m,
  alist_get name (l_scoped s) = Some (SVForced m) ->
  scoped_store_add sc name v dbg s p = Err EVariableScopesAlreadyForced.
Proof. intros sc name v dbg s p m H. unfold scoped_store_add, cell_get, bind, get_state, ret. rewrite H. reflexivity. Qed.

(* phase separation: deferred edge statements are evaluated before deferred attribute statements,
   whatever order the stanzas pushed them in *)
Theorem edges_before_attributes_partial : forall st s p u s' p',
  push_lstmt st s p = Ok (u, s', p') ->
  match st with
  | LSEdge _ _ _ _ => l_edges s' = l_edges s ++ [st] /\ l_attrs s' = l_attrs s /\ l_prints s' = l_prints s
  | LSAttrNode _ _ _ | LSAttrEdge _ _ _ _ => l_edges s' = l_edges s /\ l_attrs s' = l_attrs s ++ [st] /\ l_prints s' = l_prints s
  | LSPrint _ _ => l_edges s' = l_edges s /\ l_attrs s' = l_attrs s /\ l_prints s' = l_prints s ++ [st]
  end.
Proof. intros st s p u s' p' H. unfold push_lstmt, upd, modify in H. inversion H; subst. destruct st; cbn; auto. Qed.

(* DEFERRED GRAPH OPERATIONS IN ANY ORDER.  `geq` = same nodes, same edges (same sinks in the same order), same
   attribute values under every name; only the order in which an attribute map lists its entries may differ. *)
Theorem deferred_ops_any_order : forall es es' ops ops' g g1 g2,
  Permutation es es' -> Permutation ops ops' -> edges_sorted g ->
  apply_edges es g = Some g1 -> apply_attrs ops g1 = Some g2 ->
  exists g2', apply_edges es' g = Some g1 /\ apply_attrs ops' g1 = Some g2' /\ geq g2 g2'.
Proof. exact deferred_ops_any_order_lemma. Qed.
(* a conflict (two different values for one attribute of one element) is found in every order *)
Theorem deferred_attrs_fail_any_order : forall ops ops' g, Permutation ops ops' -> apply_attrs ops g = None -> apply_attrs ops' g = None.
Proof. exact deferred_attrs_fail_any_order_lemma. Qed.
(* the evaluation phase of the lazy interpreter on deferred statements with pure values (fragment of
   strict_lazy_same_graph): whatever order the stanzas pushed them in, evaluation never fails or panics and
   produces the same graph, once one order succeeds as graph operations *)
Theorem lazy_eval_any_order_partial : forall t fl call F rho g ls pl E E' A A' eops aopss g1 g2,
  vinv call rho g ls -> nob pl -> edges_sorted g ->
  Forall2 (den_edge call rho) E eops -> Forall2 (den_astmt call rho) A aopss ->
  apply_edges eops g = Some g1 -> apply_attrs (concat aopss) g1 = Some g2 ->
  Permutation E E' -> Permutation A A' ->
  lres ((iterM (eval_lstmt t fl call F) E' ;;; iterM (eval_lstmt t fl call F) A') ls pl)
       (fun _ ls' _ => geq g2 (l_graph ls')).
Proof. exact lazy_eval_any_order_lemma. Qed.

(* non-vacuity: an attribute on an edge listed BEFORE the statement creating the edge, two attributes of one
   node in both orders: both orders succeed and the results differ only in the order of the attribute entries *)
Example c08_ops_nonvacuous :
  let g := [new_gnode; new_gnode] in
  exists g1 g2 g2', apply_edges [(0, 1); (1, 0)] g = Some g1 /\ apply_edges [(1, 0); (0, 1)] g = Some g1 /\
    apply_attrs [AN 0 [97] (VInt 1); AN 0 [98] (VInt 2); AE 0 1 [99] (VInt 3)] g1 = Some g2 /\
    apply_attrs [AE 0 1 [99] (VInt 3); AN 0 [98] (VInt 2); AN 0 [97] (VInt 1)] g1 = Some g2' /\ geq g2 g2' /\ g2 <> g2' /\
    apply_attrs [AN 0 [97] (VInt 1); AN 0 [97] (VInt 2)] g1 = None /\ apply_attrs [AN 0 [97] (VInt 2); AN 0 [97] (VInt 1)] g1 = None.
Proof.
  cbv zeta. eexists. eexists. eexists. split; [vm_compute; reflexivity|]. split; [vm_compute; reflexivity|].
  split; [vm_compute; reflexivity|]. split; [vm_compute; reflexivity|].
  split; [|split; [discriminate|split; vm_compute; reflexivity]].
  unfold geq, node_eq, edges_eq, edge_eq. repeat first [apply Forall2_nil | apply Forall2_cons | split]; cbn [g_attrs g_edges fst snd]; try reflexivity.
  all: intros k; cbn [alist_get]; repeat match goal with |- context [str_eqb k ?x] => destruct (BaseFacts.str_eqb_spec k x); subst end; try reflexivity; try congruence; try discriminate.
Qed.

Example c08_nonvacuous :
  build (fun lv => match lv with LValue (VSyn n) => n | _ => 0 end)
        [(LValue (VSyn 2), LValue (VInt 1), {| sc_stmt := (1,1); sc_stanza := (0,0); sc_node := 0 |});
         (LValue (VSyn 5), LValue (VInt 2), {| sc_stmt := (2,1); sc_stanza := (0,0); sc_node := 0 |})] [] []
  = inl [(2, LValue (VInt 1)); (5, LValue (VInt 2))].
Proof. reflexivity. Qed.

(* ================= the execution phase under a permutation of the blocks ================= *)
(* STEP 1a.  The same block (stanza, match) started from two states B1, B2 (any contents; graph ids < n0 are shared nodes) proceeds in lockstep:
   same errors, same panics, same polls; it appends a delta d to B1 and the same delta, with its own graph ids and store locations shifted to the
   sizes of B2, to B2.  `delta_ok`: fresh nodes carry id-free attributes, values only mention shared nodes or the block's own nodes, thunk j only mentions
   earlier thunks of the block. *)
Theorem lazy_block_shift_partial : forall (rx : Type) (t : tree) (fl : file) (cfg : config) (glob : globals) (regexes : list rx)
    (find : rx -> str -> option (list (option (N * N)))) (call : ident -> graph -> list value -> res (value * graph))
    (eaok : amap -> Prop) (okfn : ident -> Prop) (n0 : N),
  (forall l : loc, eaok match c_loc_attr cfg with Some k => [(k, VStr (loc_text l))] | None => [] end) ->
  (forall f : ident, okfn f -> call_ok call f) ->
  (forall (name : ident) (v : value), globals_get glob name = Some v -> vall (fun i : N => i < n0) v) ->
  forall (st : stanza) (qm : qmatch) (fuel : nat) (B1 B2 : lstate) (p : polls),
  block_ok fl okfn st qm -> n0 <= gn B1 -> n0 <= gn B2 -> one_frame B1 -> one_frame B2 ->
  match lexec_stanza t fl cfg glob regexes find call fuel st qm B1 p with
  | Ok (_, s1', p') =>
      exists (d : delta) (s2' : lstate),
        lexec_stanza t fl cfg glob regexes find call fuel st qm B2 p = Ok (tt, s2', p') /\ extends B1 d s1' /\
        extends B2 (dren (shg (gn B1) (gn B2)) (shl (sn B1) (sn B2)) d) s2' /\ delta_ok eaok okfn n0 (gn B1) (sn B1) d
  | Err e => lexec_stanza t fl cfg glob regexes find call fuel st qm B2 p = Err e
  | Panic x => lexec_stanza t fl cfg glob regexes find call fuel st qm B2 p = Panic x
  | OutOfFuel => lexec_stanza t fl cfg glob regexes find call fuel st qm B2 p = OutOfFuel
  end.
Proof. exact @block_shift. Qed.

(* STEP 1b: adjacent transposition.  dA, dB: what the two blocks append when run alone from s. *)
Theorem lazy_block_swap_partial : forall (rx : Type) (t : tree) (fl : file) (cfg : config) (glob : globals) (regexes : list rx)
    (find : rx -> str -> option (list (option (N * N)))) (call : ident -> graph -> list value -> res (value * graph))
    (eaok : amap -> Prop) (okfn : ident -> Prop) (n0 : N),
  (forall l : loc, eaok match c_loc_attr cfg with Some k => [(k, VStr (loc_text l))] | None => [] end) ->
  (forall f : ident, okfn f -> call_ok call f) ->
  (forall (name : ident) (v : value), globals_get glob name = Some v -> vall (fun i : N => i < n0) v) ->
  forall (stA : stanza) (qA : qmatch) (stB : stanza) (qB : qmatch) (fuel : nat) (s : lstate) (p : polls),
  block_ok fl okfn stA qA -> block_ok fl okfn stB qB -> n0 <= gn s -> one_frame s -> nob p ->
  match (lexec_stanza t fl cfg glob regexes find call fuel stA qA;;; lexec_stanza t fl cfg glob regexes find call fuel stB qB) s p with
  | Ok (_, sAB, _) =>
      exists (dA dB : delta) (sA sB sBA : lstate) (pBA : polls),
        (lexec_stanza t fl cfg glob regexes find call fuel stB qB;;; lexec_stanza t fl cfg glob regexes find call fuel stA qA) s p = Ok (tt, sBA, pBA) /\
        delta_ok eaok okfn n0 (gn s) (sn s) dA /\ delta_ok eaok okfn n0 (gn s) (sn s) dB /\
        extends s dA sA /\ extends sA (dren (shg (gn s) (gn sA)) (shl (sn s) (sn sA)) dB) sAB /\
        extends s dB sB /\ extends sB (dren (shg (gn s) (gn sB)) (shl (sn s) (sn sB)) dA) sBA
  | _ => forall r : unit * lstate * polls,
      (lexec_stanza t fl cfg glob regexes find call fuel stB qB;;; lexec_stanza t fl cfg glob regexes find call fuel stA qA) s p <> Ok r
  end.
Proof. exact @block_swap. Qed.

(* STEP 2: any permutation of the execution phase.  `block_delta` = the block succeeds alone from s0 and appends d; running the list from s0 succeeds
   iff every block does, and yields s0 followed by the deltas in list order, each shifted to the sizes reached before it (`lay`). *)
Theorem lazy_exec_phase_perm_partial : forall (rx : Type) (t : tree) (fl : file) (cfg : config) (glob : globals) (regexes : list rx)
    (find : rx -> str -> option (list (option (N * N)))) (call : ident -> graph -> list value -> res (value * graph))
    (eaok : amap -> Prop) (okfn : ident -> Prop) (n0 : N),
  (forall l : loc, eaok match c_loc_attr cfg with Some k => [(k, VStr (loc_text l))] | None => [] end) ->
  (forall f : ident, okfn f -> call_ok call f) ->
  (forall (name : ident) (v : value), globals_get glob name = Some v -> vall (fun i : N => i < n0) v) ->
  forall s0 : lstate, n0 <= gn s0 -> one_frame s0 ->
  forall (fuel : nat) (ms ms' : list (N * qmatch)) (p : polls),
  Permutation ms ms' -> Forall (pm_ok fl okfn) ms -> nob p ->
  match iterM (bstep t fl cfg glob regexes find call fuel) ms s0 p with
  | Ok (_, s', _) =>
      exists (ds ds' : list delta) (s'' : lstate) (p'' : polls),
        Forall2 (block_delta t fl cfg glob regexes find call eaok okfn n0 s0 fuel) ms ds /\
        Forall2 (block_delta t fl cfg glob regexes find call eaok okfn n0 s0 fuel) ms' ds' /\ Permutation ds ds' /\
        extends s0 (dcat (lay (gn s0) (sn s0) (gn s0) (sn s0) ds)) s' /\
        iterM (bstep t fl cfg glob regexes find call fuel) ms' s0 p = Ok (tt, s'', p'') /\ nob p'' /\
        extends s0 (dcat (lay (gn s0) (sn s0) (gn s0) (sn s0) ds')) s''
  | _ => forall r : unit * lstate * polls, iterM (bstep t fl cfg glob regexes find call fuel) ms' s0 p <> Ok r
  end.
Proof. exact @exec_phase_perm. Qed.

(* A successful lazy evaluation phase computed a store valuation rho for which the initial store is well formed, the deferred statements denote graph
   operations, and the final graph is the result of the operations (the converse of the forcing lemmas of C02) *)
Theorem lazy_eval_extract_partial : forall (t : tree) (fl : file) (call : ident -> graph -> list value -> res (value * graph)) (okfn : ident -> Prop),
  (forall f : ident, okfn f -> call_ok call f) ->
  forall (F : nat) (s : lstate) (p : polls) (u : unit) (fin : lstate) (p' : polls),
  evaluate_phase t fl call F s p = Ok (u, fin, p') -> evalable okfn s ->
  exists (rho : list value) (eops : list (N * N)) (aopss : list (list aop)) (g1 : graph),
    denotes call s rho eops aopss /\ apply_edges eops (l_graph s) = Some g1 /\ apply_attrs (concat aopss) g1 = Some (l_graph fin).
Proof. exact eval_extract. Qed.

(* STEPS 1-3 with separate fuels: same execution fuel, every large enough evaluation fuel *)
Theorem lazy_block_order_iso_two_fuels_partial : forall (rx : Type) (t : tree) (fl : file) (supplied : globals) (regexes : list rx)
    (find : rx -> str -> option (list (option (N * N)))) (call : ident -> graph -> list value -> res (value * graph))
    (okfn : ident -> Prop) (fuel : nat) (ms ms' : list (N * qmatch)) (g0 : graph) (ls : lstate) (p : polls),
  (forall f, okfn f -> call_ok call f) -> gclosed (N.of_nat (length g0)) g0 ->
  (forall glob, check_globals (f_globals fl) (globals_nested supplied) = Ok glob ->
     forall name v, globals_get glob name = Some v -> vall (fun i => i < N.of_nat (length g0)) v) ->
  Permutation ms ms' -> Forall (pm_ok fl okfn) ms ->
  run_lazy t fl config0 supplied None regexes find call fuel ms g0 = Ok (ls, p) ->
  exists r r', (forall i, r' (r i) = i) /\ (forall i, r (r' i) = i) /\ (forall i, i < N.of_nat (length g0) -> r i = i) /\
    exists F0, forall F, (F0 <= F)%nat -> exists ls' p', run_lazy2 t fl config0 supplied None regexes find call fuel F ms' g0 = Ok (ls', p') /\
      graph_iso r (l_graph ls) (l_graph ls').
Proof. exact @lazy_run_perm. Qed.
(* run_lazy is run_lazy2 with evaluation fuel `fuel + default_eval_fuel` *)
Theorem run_lazy_two_fuels : forall (rx : Type) t fl cfg supplied budget (regexes : list rx) find call fuel ms g0,
  run_lazy t fl cfg supplied budget regexes find call fuel ms g0 = run_lazy2 t fl cfg supplied budget regexes find call fuel (fuel + default_eval_fuel) ms g0.
Proof. exact @run_lazy_2. Qed.

(* a run that does not run out of fuel has the same outcome at every larger fuel (all programs, all configurations) *)
Theorem lazy_fuel_mono_partial : forall (rx : Type) t fl cfg supplied budget (regexes : list rx) find call F F' ms g0, (F <= F')%nat ->
  run_lazy t fl cfg supplied budget regexes find call F ms g0 = OutOfFuel \/
  run_lazy t fl cfg supplied budget regexes find call F ms g0 = run_lazy t fl cfg supplied budget regexes find call F' ms g0.
Proof. exact @run_lazy_fuel_mono. Qed.

(* THE WHOLE-RUN THEOREM on the fragment: if the run on ms succeeds, then from some fuel on the run on any permutation ms' succeeds, and the graphs are
   isomorphic under a renumbering of the graph nodes that fixes the nodes of the initial graph *)
Theorem lazy_block_order_iso_partial : forall (rx : Type) (t : tree) (fl : file) (supplied : globals) (regexes : list rx)
    (find : rx -> str -> option (list (option (N * N)))) (call : ident -> graph -> list value -> res (value * graph)) (okfn : ident -> Prop),
  (forall f, okfn f -> call_ok call f) ->
  forall g0 : graph, gclosed (N.of_nat (length g0)) g0 ->
  (forall glob, check_globals (f_globals fl) (globals_nested supplied) = Ok glob ->
     forall name v, globals_get glob name = Some v -> vall (fun i => i < N.of_nat (length g0)) v) ->
  forall (fuel : nat) (ms ms' : list (N * qmatch)) (ls : lstate) (p : polls),
  Permutation ms ms' -> Forall (pm_ok fl okfn) ms ->
  run_lazy t fl config0 supplied None regexes find call fuel ms g0 = Ok (ls, p) ->
  exists r r', (forall i, r' (r i) = i) /\ (forall i, r (r' i) = i) /\ (forall i, i < N.of_nat (length g0) -> r i = i) /\
    exists fuel0, forall fuel', (fuel0 <= fuel')%nat -> exists ls' p',
      run_lazy t fl config0 supplied None regexes find call fuel' ms' g0 = Ok (ls', p') /\ graph_iso r (l_graph ls) (l_graph ls').
Proof. exact @lazy_run_perm_fuel. Qed.
(* ... and the failure direction: an error or a panic for one order excludes success for every other order, whatever the fuel *)
Theorem lazy_block_order_fail_partial : forall (rx : Type) (t : tree) (fl : file) (supplied : globals) (regexes : list rx)
    (find : rx -> str -> option (list (option (N * N)))) (call : ident -> graph -> list value -> res (value * graph)) (okfn : ident -> Prop),
  (forall f, okfn f -> call_ok call f) ->
  forall g0 : graph, gclosed (N.of_nat (length g0)) g0 ->
  (forall glob, check_globals (f_globals fl) (globals_nested supplied) = Ok glob ->
     forall name v, globals_get glob name = Some v -> vall (fun i => i < N.of_nat (length g0)) v) ->
  forall (fuel : nat) (ms ms' : list (N * qmatch)),
  Permutation ms ms' -> Forall (pm_ok fl okfn) ms ->
  (forall r, run_lazy t fl config0 supplied None regexes find call fuel ms g0 <> Ok r) ->
  run_lazy t fl config0 supplied None regexes find call fuel ms g0 <> OutOfFuel ->
  forall fuel' r, run_lazy t fl config0 supplied None regexes find call fuel' ms' g0 <> Ok r.
Proof. exact @lazy_run_perm_fail. Qed.

(* the hypothesis on function calls holds for the standard library, `node`, `format` and `join` excepted *)
Theorem stdlib_call_ok_partial : forall rxo t f, (forall fn, fn_of_name f = Some fn -> fn_ok fn) -> call_ok (stdlib_call rxo t) f.
Proof. exact stdlib_call_ok. Qed.

(* non-vacuity: a two-stanza program whose two orders number the nodes differently; the graphs differ and are isomorphic under 0->2, 1->0, 2->1;
   the hypotheses of lazy_block_order_iso_partial hold for it *)
Example c08_two_orders :
  lgraph_of (run_lazy K7.k7_tree c8_file config0 [[]] None ([] : list Regex.regex) Regex.rx_captures c8_call default_fuel c8_ms []) = Ok c8_g /\
  lgraph_of (run_lazy K7.k7_tree c8_file config0 [[]] None ([] : list Regex.regex) Regex.rx_captures c8_call default_fuel c8_ms' []) = Ok c8_g' /\
  Permutation c8_ms c8_ms' /\ c8_g <> c8_g' /\ graph_iso c8_r c8_g c8_g'.
Proof. split; [exact c8_run|]. split; [exact c8_run'|]. split; [apply perm_swap|]. split; [exact c8_differ|exact c8_iso]. Qed.
Example c08_theorem_applies :
  exists r r', (forall i, r' (r i) = i) /\ (forall i, r (r' i) = i) /\
    exists F0, forall F, (F0 <= F)%nat -> exists ls' p',
      run_lazy2 K7.k7_tree c8_file config0 [[]] None ([] : list Regex.regex) Regex.rx_captures c8_call default_fuel F c8_ms' [] = Ok (ls', p') /\
      graph_iso r c8_g (l_graph ls').
Proof. exact c8_theorem_applies. Qed.
(* outside the fragment (limit of the property): with the location debug attribute configured, an edge created by two stanzas carries the location of the creating
   statement that is evaluated FIRST (LazyCreateEdge::evaluate only sets the attributes of a new edge; confirmed on the implementation, strict and lazy: the statement of the
   textually first stanza wins): permuting the blocks (statement locations kept) gives graphs that are not isomorphic.  WHICH statement an edge's debug location names
   depends on the stanza order; textual reordering changes every location anyway, so C08 can only be meant without debug attributes (config0, as in Step 3). *)
Example c08_debug_attribute_depends_on_order :
  dx_run [(0, c8_m); (1, c8_m)] = Ok [{| g_attrs := []; g_edges := [(0, [([108], VStr (dx_loc 50))])] |}] /\
  dx_run [(1, c8_m); (0, c8_m)] = Ok [{| g_attrs := []; g_edges := [(0, [([108], VStr (dx_loc 54))])] |}].
Proof. exact dx_order_observable. Qed.
