(* Props/C08.v — property theorems only.  Lazy evaluation does not depend on stanza order.
   PARTIAL: the full statement
     lazy_perm_invariant : Permutation blocks blocks' -> (run_l blocks = Ok g -> exists g', run_l blocks' = Ok g' /\ g ≅ g') /\ (is_err .. <-> is_err ..)
   is not proved yet.  Proved here: the order-independence of the scoped-variable store, which is the
   mechanism the property names ("a scoped variable may be read by a stanza that textually precedes the
   one defining it").  The whole-run statement is explored by the direct permutation stream. *)
From TSG Require Import Model.Lazy Proofs.Scoped Proofs.PermFacts.
From Coq Require Import Permutation.

(* forcing the definitions collected for one scoped-variable name: whether it succeeds (no duplicate
   definition on one node) and the value found for every node are the same for every order in which
   the stanzas/matches contributed the definitions *)
Theorem scoped_force_perm_partial : forall node_of ps ps', Permutation ps ps' ->
  ((exists m, build node_of ps [] [] = inl m) <-> (exists m', build node_of ps' [] [] = inl m')) /\
  (forall m m' n, build node_of ps [] [] = inl m -> build node_of ps' [] [] = inl m' -> nmap_get m n = nmap_get m' n).
Proof. exact scoped_force_perm_lemma. Qed.

(* definitions are only collected until the variable is first forced: adding afterwards is an error
   (the checker prevents it; never a silently ignored definition) *)
Theorem add_after_force_is_error_partial : forall sc name v dbg s p m,
  alist_get name (l_scoped s) = Some (SVForced m) ->
  scoped_store_add sc name v dbg s p = Err EVariableScopesAlreadyForced.
Proof. intros sc name v dbg s p m H. unfold scoped_store_add, cell_get, bind, get_state, ret. rewrite H. reflexivity. Qed.

(* phase separation: deferred edge statements are evaluated before deferred attribute statements,
   whatever order the stanzas pushed them in *)
Theorem edges_before_attributes_partial : forall st s p u s' p',
  push_lstmt st s p = Ok (u, s', p') ->
  match st with
  | LSEdge _ _ _ _ => l_edges s' = l_edges s ++ [st] /\ l_attrs s' = l_attrs s /\ l_prints s' = l_prints s
  | LSAttrNode _ _ _ | LSAttrEdge _ _ _ _ => l_edges s' = l_edges s /\ l_attrs s' = l_attrs s ++ [st] /\ l_prints s' = l_prints s
  | LSPrint _ _ => l_edges s' = l_edges s /\ l_attrs s' = l_attrs s /\ l_prints s' = l_prints s ++ [st]
  end.
Proof. intros st s p u s' p' H. unfold push_lstmt, upd, modify in H. inversion H; subst. destruct st; cbn; auto. Qed.

Example c08_nonvacuous :
  build (fun lv => match lv with LValue (VSyn n) => n | _ => 0 end)
        [(LValue (VSyn 2), LValue (VInt 1), {| sc_stmt := (1,1); sc_stanza := (0,0); sc_node := 0 |});
         (LValue (VSyn 5), LValue (VInt 2), {| sc_stmt := (2,1); sc_stanza := (0,0); sc_node := 0 |})] [] []
  = inl [(2, LValue (VInt 1)); (5, LValue (VInt 2))].
Proof. reflexivity. Qed.
