(* Props/C08.v — property theorems only.  Lazy evaluation does not depend on stanza order.
   Reordering the stanzas of a file PERMUTES the list of blocks (stanza index, match) that `run_lazy` executes.
   PARTIAL: the full statement
     lazy_block_order_iso : Permutation ms ms' -> run_lazy .. ms g0 = Ok (ls, _) ->
                            exists ls', run_lazy .. ms' g0 = Ok (ls', _) (for enough fuel) /\ l_graph ls ~ l_graph ls'  (and: an error for one order -> no success for the other)
   is proved on a FRAGMENT (lazy_block_order_iso_partial):
     - statements `fstmt` of Proofs/SLExpr.v: everything except scoped variables (local variables, `if`, `for`, `scan`, comprehensions, `print`,
       `node`, `edge`, `attr`, shorthands; sets of graph nodes allowed);
     - called functions satisfy `call_ok` (graph-pure, commute with order-preserving renamings of graph-node ids, invent no graph-node id):
       proved for every stdlib function except `node`, `format`, `join` (stdlib_call_ok_partial; format/join render a node reference as text showing its number);
     - global variables only mention nodes of the initial graph g0, and g0 only mentions its own nodes (gclosed);
     - no debug attributes (config0): with a location attribute an edge created by two stanzas keeps the attribute of the creating statement evaluated FIRST
       (c08_debug_attribute_depends_on_order), and textual reordering changes every location anyway;
     - no cancellation budget;
     - fuel: lazy_block_order_iso_partial says that the permuted run succeeds FROM SOME FUEL ON (the fuel needed does depend on the order in the model: a thunk may be
       forced first at a deeper nesting); lazy_block_order_fail_partial: an error or a panic for one order excludes success for every other order at every fuel;
       lazy_fuel_mono_partial: a run that does not run out of fuel has the same outcome at every larger fuel.
   The graphs are related by graph_iso r: r is a bijection of node ids fixing the nodes of g0, node i corresponds to node r i, attribute maps are equal as maps
   after renaming the node references inside values, each edge vector holds the renamed sinks with equal attribute maps.
   Parts: STEP 1 lazy_block_shift_partial / lazy_block_swap_partial (one block started at other sizes appends the same delta with shifted ids; adjacent transposition),
   STEP 2 lazy_exec_phase_perm_partial (any permutation of the execution phase: the blocks' canonical deltas laid out in list order, all configurations),
   lazy_eval_extract_partial (a successful lazy evaluation phase read back as store valuation + graph operations), STEP 3 lazy_block_order_iso_partial.
   Earlier theorems (kept): scoped-variable forcing and the deferred graph operations are order independent.
   STEP 4 (blocks that communicate through scoped variables): lazy_block_order_iso_scoped_partial / lazy_block_order_fail_scoped_partial at the end of this file, on the
   fragment `sstmt` of Proofs/ScPermSim.v (definitions `let @cap.x = e`, `node @cap.x`; reads `@(scope).x` in deferred positions, possibly BEFORE the defining block ran;
   inherited names allowed).  The by-index acyclicity of the thunk store is replaced by a reference evaluator over a static environment (Proofs/ScPermCbn.v).
   STEP 5 (lazy_block_order_iso_scoped_thunks_partial): scoped reads inside thunks (values of local variables or of other scoped definitions).
   Still NOT proved: scoped reads as arguments of calls or elements of sets (a value may then mix
   nodes of several blocks, so values would have to be compared up to re-sorting of sets), definitions whose scope is not a capture.  Debug attributes: see c08_debug_attribute_depends_on_order. *)
From TSG Require Import Model.Lazy Model.Run Model.Stdlib Proofs.Scoped Proofs.PermFacts Proofs.SLGraph Proofs.SLForce Proofs.SLExpr Proofs.SLStmt Proofs.StrictLazy Proofs.EvalPerm Proofs.EvalPermLazy
  Proofs.BlockPermRen Proofs.BlockPermSim Proofs.BlockPermSwap Proofs.BlockPermExec Proofs.BlockPermDen Proofs.BlockPermGraph Proofs.BlockPermEval Proofs.BlockPermStd Proofs.BlockPermExample Proofs.BlockPermFuel Proofs.BlockPermRun
  Proofs.ScPermCbn Proofs.ScPermSound Proofs.ScPermAdeq Proofs.ScPermRen Proofs.ScPermSim Proofs.ScPermSwap Proofs.ScPermTyped Proofs.ScPermSR Proofs.ScPermExec Proofs.ScPermEvalSwap Proofs.ScPermRun Proofs.ScPermExample
  Proofs.ScThSim Proofs.ScThSwap Proofs.ScThTyped Proofs.ScThSR Proofs.ScThExec Proofs.ScThEval Proofs.ScThRun Proofs.ScThExample.
From Coq Require Import Permutation.

(* forcing the definitions collected for one scoped-variable name: whether it succeeds (no duplicate
   definition on one node) and the value found for every node are the same for every order in which
   the stanzas/matches contributed the definitions *)
Theorem scoped_force_perm_partial : forall node_of ps ps', Permutation ps ps' ->
  ((exists m, build node_of ps [] [] = inl m) <-> (exists m', build node_of ps' [] [] = inl m')) /\
  (forall m m' n, build node_of ps [] [] = inl m -> build node_of ps' [] [] = inl m' -> nmap_get m n = nmap_get m' n).
Proof. exact scoped_force_perm_lemma. Qed.

(* definitions are only collected until the variable is first forced: adding afterwards is an error
   (the checker prevents it; never a silently ignored definition) *)
Theorem add_after_force_is_error_partial : forall sc name v dbg s p m,
  alist_get name (l_scoped s) = Some (SVForced m) ->
  scoped_store_add sc name v dbg s p = Err EVariableScopesAlreadyForced.
Proof. intros sc name v dbg s p m H. unfold scoped_store_add, cell_get, bind, get_state, ret. rewrite H. reflexivity. Qed.

(* phase separation: deferred edge statements are evaluated before deferred attribute statements,
   whatever order the stanzas pushed them in *)
Theorem edges_before_attributes_partial : forall st s p u s' p',
  push_lstmt st s p = Ok (u, s', p') ->
  match st with
  | LSEdge _ _ _ _ => l_edges s' = l_edges s ++ [st] /\ l_attrs s' = l_attrs s /\ l_prints s' = l_prints s
  | LSAttrNode _ _ _ | LSAttrEdge _ _ _ _ => l_edges s' = l_edges s /\ l_attrs s' = l_attrs s ++ [st] /\ l_prints s' = l_prints s
  | LSPrint _ _ => l_edges s' = l_edges s /\ l_attrs s' = l_attrs s /\ l_prints s' = l_prints s ++ [st]
  end.
Proof. intros st s p u s' p' H. unfold push_lstmt, upd, modify in H. inversion H; subst. destruct st; cbn; auto. Qed.

(* DEFERRED GRAPH OPERATIONS IN ANY ORDER.  `geq` = same nodes, same edges (same sinks in the same order), same
   attribute values under every name; only the order in which an attribute map lists its entries may differ. *)
Theorem deferred_ops_any_order : forall es es' ops ops' g g1 g2,
  Permutation es es' -> Permutation ops ops' -> edges_sorted g ->
  apply_edges es g = Some g1 -> apply_attrs ops g1 = Some g2 ->
  exists g2', apply_edges es' g = Some g1 /\ apply_attrs ops' g1 = Some g2' /\ geq g2 g2'.
Proof. exact deferred_ops_any_order_lemma. Qed.
(* a conflict (two different values for one attribute of one element) is found in every order *)
Theorem deferred_attrs_fail_any_order : forall ops ops' g, Permutation ops ops' -> apply_attrs ops g = None -> apply_attrs ops' g = None.
Proof. exact deferred_attrs_fail_any_order_lemma. Qed.
(* the evaluation phase of the lazy interpreter on deferred statements with pure values (fragment of
   strict_lazy_same_graph): whatever order the stanzas pushed them in, evaluation never fails or panics and
   produces the same graph, once one order succeeds as graph operations *)
Theorem lazy_eval_any_order_partial : forall t fl call F rho g ls pl E E' A A' eops aopss g1 g2,
  vinv call rho g ls -> nob pl -> edges_sorted g ->
  Forall2 (den_edge call rho) E eops -> Forall2 (den_astmt call rho) A aopss ->
  apply_edges eops g = Some g1 -> apply_attrs (concat aopss) g1 = Some g2 ->
  Permutation E E' -> Permutation A A' ->
  lres ((iterM (eval_lstmt t fl call F) E' ;;; iterM (eval_lstmt t fl call F) A') ls pl)
       (fun _ ls' _ => geq g2 (l_graph ls')).
Proof. exact lazy_eval_any_order_lemma. Qed.

(* non-vacuity: an attribute on an edge listed BEFORE the statement creating the edge, two attributes of one
   node in both orders: both orders succeed and the results differ only in the order of the attribute entries *)
Example c08_ops_nonvacuous :
  let g := [new_gnode; new_gnode] in
  exists g1 g2 g2', apply_edges [(0, 1); (1, 0)] g = Some g1 /\ apply_edges [(1, 0); (0, 1)] g = Some g1 /\
    apply_attrs [AN 0 [97] (VInt 1); AN 0 [98] (VInt 2); AE 0 1 [99] (VInt 3)] g1 = Some g2 /\
    apply_attrs [AE 0 1 [99] (VInt 3); AN 0 [98] (VInt 2); AN 0 [97] (VInt 1)] g1 = Some g2' /\ geq g2 g2' /\ g2 <> g2' /\
    apply_attrs [AN 0 [97] (VInt 1); AN 0 [97] (VInt 2)] g1 = None /\ apply_attrs [AN 0 [97] (VInt 2); AN 0 [97] (VInt 1)] g1 = None.
Proof.
  cbv zeta. eexists. eexists. eexists. split; [vm_compute; reflexivity|]. split; [vm_compute; reflexivity|].
  split; [vm_compute; reflexivity|]. split; [vm_compute; reflexivity|].
  split; [|split; [discriminate|split; vm_compute; reflexivity]].
  unfold geq, node_eq, edges_eq, edge_eq. repeat first [apply Forall2_nil | apply Forall2_cons | split]; cbn [g_attrs g_edges fst snd]; try reflexivity.
  all: intros k; cbn [alist_get]; repeat match goal with |- context [str_eqb k ?x] => destruct (BaseFacts.str_eqb_spec k x); subst end; try reflexivity; try congruence; try discriminate.
Qed.

Example c08_nonvacuous :
  build (fun lv => match lv with LValue (VSyn n) => n | _ => 0 end)
        [(LValue (VSyn 2), LValue (VInt 1), {| sc_stmt := (1,1); sc_stanza := (0,0); sc_node := 0 |});
         (LValue (VSyn 5), LValue (VInt 2), {| sc_stmt := (2,1); sc_stanza := (0,0); sc_node := 0 |})] [] []
  = inl [(2, LValue (VInt 1)); (5, LValue (VInt 2))].
Proof. reflexivity. Qed.

(* ================= the execution phase under a permutation of the blocks ================= *)
(* STEP 1a.  The same block (stanza, match) started from two states B1, B2 (any contents; graph ids < n0 are shared nodes) proceeds in lockstep:
   same errors, same panics, same polls; it appends a delta d to B1 and the same delta, with its own graph ids and store locations shifted to the
   sizes of B2, to B2.  `delta_ok`: fresh nodes carry id-free attributes, values only mention shared nodes or the block's own nodes, thunk j only mentions
   earlier thunks of the block. *)
Theorem lazy_block_shift_partial : forall (rx : Type) (t : tree) (fl : file) (cfg : config) (glob : globals) (regexes : list rx)
    (find : rx -> str -> option (list (option (N * N)))) (call : ident -> graph -> list value -> res (value * graph))
    (eaok : amap -> Prop) (okfn : ident -> Prop) (n0 : N),
  (forall l : loc, eaok match c_loc_attr cfg with Some k => [(k, VStr (loc_text l))] | None => [] end) ->
  (forall f : ident, okfn f -> call_ok call f) ->
  (forall (name : ident) (v : value), globals_get glob name = Some v -> vall (fun i : N => i < n0) v) ->
  forall (st : stanza) (qm : qmatch) (fuel : nat) (B1 B2 : lstate) (p : polls),
  block_ok fl okfn st qm -> n0 <= gn B1 -> n0 <= gn B2 -> one_frame B1 -> one_frame B2 ->
  match lexec_stanza t fl cfg glob regexes find call fuel st qm B1 p with
  | Ok (_, s1', p') =>
      exists (d : delta) (s2' : lstate),
        lexec_stanza t fl cfg glob regexes find call fuel st qm B2 p = Ok (tt, s2', p') /\ extends B1 d s1' /\
        extends B2 (dren (shg (gn B1) (gn B2)) (shl (sn B1) (sn B2)) d) s2' /\ delta_ok eaok okfn n0 (gn B1) (sn B1) d
  | Err e => lexec_stanza t fl cfg glob regexes find call fuel st qm B2 p = Err e
  | Panic x => lexec_stanza t fl cfg glob regexes find call fuel st qm B2 p = Panic x
  | OutOfFuel => lexec_stanza t fl cfg glob regexes find call fuel st qm B2 p = OutOfFuel
  end.
Proof. exact @block_shift. Qed.

(* STEP 1b: adjacent transposition.  dA, dB: what the two blocks append when run alone from s. *)
Theorem lazy_block_swap_partial : forall (rx : Type) (t : tree) (fl : file) (cfg : config) (glob : globals) (regexes : list rx)
    (find : rx -> str -> option (list (option (N * N)))) (call : ident -> graph -> list value -> res (value * graph))
    (eaok : amap -> Prop) (okfn : ident -> Prop) (n0 : N),
  (forall l : loc, eaok match c_loc_attr cfg with Some k => [(k, VStr (loc_text l))] | None => [] end) ->
  (forall f : ident, okfn f -> call_ok call f) ->
  (forall (name : ident) (v : value), globals_get glob name = Some v -> vall (fun i : N => i < n0) v) ->
  forall (stA : stanza) (qA : qmatch) (stB : stanza) (qB : qmatch) (fuel : nat) (s : lstate) (p : polls),
  block_ok fl okfn stA qA -> block_ok fl okfn stB qB -> n0 <= gn s -> one_frame s -> nob p ->
  match (lexec_stanza t fl cfg glob regexes find call fuel stA qA;;; lexec_stanza t fl cfg glob regexes find call fuel stB qB) s p with
  | Ok (_, sAB, _) =>
      exists (dA dB : delta) (sA sB sBA : lstate) (pBA : polls),
        (lexec_stanza t fl cfg glob regexes find call fuel stB qB;;; lexec_stanza t fl cfg glob regexes find call fuel stA qA) s p = Ok (tt, sBA, pBA) /\
        delta_ok eaok okfn n0 (gn s) (sn s) dA /\ delta_ok eaok okfn n0 (gn s) (sn s) dB /\
        extends s dA sA /\ extends sA (dren (shg (gn s) (gn sA)) (shl (sn s) (sn sA)) dB) sAB /\
        extends s dB sB /\ extends sB (dren (shg (gn s) (gn sB)) (shl (sn s) (sn sB)) dA) sBA
  | _ => forall r : unit * lstate * polls,
      (lexec_stanza t fl cfg glob regexes find call fuel stB qB;;; lexec_stanza t fl cfg glob regexes find call fuel stA qA) s p <> Ok r
  end.
Proof. exact @block_swap. Qed.

(* STEP 2: any permutation of the execution phase.  `block_delta` = the block succeeds alone from s0 and appends d; running the list from s0 succeeds
   iff every block does, and yields s0 followed by the deltas in list order, each shifted to the sizes reached before it (`lay`). *)
Theorem lazy_exec_phase_perm_partial : forall (rx : Type) (t : tree) (fl : file) (cfg : config) (glob : globals) (regexes : list rx)
    (find : rx -> str -> option (list (option (N * N)))) (call : ident -> graph -> list value -> res (value * graph))
    (eaok : amap -> Prop) (okfn : ident -> Prop) (n0 : N),
  (forall l : loc, eaok match c_loc_attr cfg with Some k => [(k, VStr (loc_text l))] | None => [] end) ->
  (forall f : ident, okfn f -> call_ok call f) ->
  (forall (name : ident) (v : value), globals_get glob name = Some v -> vall (fun i : N => i < n0) v) ->
  forall s0 : lstate, n0 <= gn s0 -> one_frame s0 ->
  forall (fuel : nat) (ms ms' : list (N * qmatch)) (p : polls),
  Permutation ms ms' -> Forall (pm_ok fl okfn) ms -> nob p ->
  match iterM (bstep t fl cfg glob regexes find call fuel) ms s0 p with
  | Ok (_, s', _) =>
      exists (ds ds' : list delta) (s'' : lstate) (p'' : polls),
        Forall2 (block_delta t fl cfg glob regexes find call eaok okfn n0 s0 fuel) ms ds /\
        Forall2 (block_delta t fl cfg glob regexes find call eaok okfn n0 s0 fuel) ms' ds' /\ Permutation ds ds' /\
        extends s0 (dcat (lay (gn s0) (sn s0) (gn s0) (sn s0) ds)) s' /\
        iterM (bstep t fl cfg glob regexes find call fuel) ms' s0 p = Ok (tt, s'', p'') /\ nob p'' /\
        extends s0 (dcat (lay (gn s0) (sn s0) (gn s0) (sn s0) ds')) s''
  | _ => forall r : unit * lstate * polls, iterM (bstep t fl cfg glob regexes find call fuel) ms' s0 p <> Ok r
  end.
Proof. exact @exec_phase_perm. Qed.

(* A successful lazy evaluation phase computed a store valuation rho for which the initial store is well formed, the deferred statements denote graph
   operations, and the final graph is the result of the operations (the converse of the forcing lemmas of C02) *)
Theorem lazy_eval_extract_partial : forall (t : tree) (fl : file) (call : ident -> graph -> list value -> res (value * graph)) (okfn : ident -> Prop),
  (forall f : ident, okfn f -> call_ok call f) ->
  forall (F : nat) (s : lstate) (p : polls) (u : unit) (fin : lstate) (p' : polls),
  evaluate_phase t fl call F s p = Ok (u, fin, p') -> evalable okfn s ->
  exists (rho : list value) (eops : list (N * N)) (aopss : list (list aop)) (g1 : graph),
    denotes call s rho eops aopss /\ apply_edges eops (l_graph s) = Some g1 /\ apply_attrs (concat aopss) g1 = Some (l_graph fin).
Proof. exact eval_extract. Qed.

(* STEPS 1-3 with separate fuels: same execution fuel, every large enough evaluation fuel *)
Theorem lazy_block_order_iso_two_fuels_partial : forall (rx : Type) (t : tree) (fl : file) (supplied : globals) (regexes : list rx)
    (find : rx -> str -> option (list (option (N * N)))) (call : ident -> graph -> list value -> res (value * graph))
    (okfn : ident -> Prop) (fuel : nat) (ms ms' : list (N * qmatch)) (g0 : graph) (ls : lstate) (p : polls),
  (forall f, okfn f -> call_ok call f) -> gclosed (N.of_nat (length g0)) g0 ->
  (forall glob, check_globals (f_globals fl) (globals_nested supplied) = Ok glob ->
     forall name v, globals_get glob name = Some v -> vall (fun i => i < N.of_nat (length g0)) v) ->
  Permutation ms ms' -> Forall (pm_ok fl okfn) ms ->
  run_lazy t fl config0 supplied None regexes find call fuel ms g0 = Ok (ls, p) ->
  exists r r', (forall i, r' (r i) = i) /\ (forall i, r (r' i) = i) /\ (forall i, i < N.of_nat (length g0) -> r i = i) /\
    exists F0, forall F, (F0 <= F)%nat -> exists ls' p', run_lazy2 t fl config0 supplied None regexes find call fuel F ms' g0 = Ok (ls', p') /\
      graph_iso r (l_graph ls) (l_graph ls').
Proof. exact @lazy_run_perm. Qed.
(* run_lazy is run_lazy2 with evaluation fuel `fuel + default_eval_fuel` *)
Theorem run_lazy_two_fuels : forall (rx : Type) t fl cfg supplied budget (regexes : list rx) find call fuel ms g0,
  run_lazy t fl cfg supplied budget regexes find call fuel ms g0 = run_lazy2 t fl cfg supplied budget regexes find call fuel (fuel + default_eval_fuel) ms g0.
Proof. exact @run_lazy_2. Qed.

(* a run that does not run out of fuel has the same outcome at every larger fuel (all programs, all configurations) *)
Theorem lazy_fuel_mono_partial : forall (rx : Type) t fl cfg supplied budget (regexes : list rx) find call F F' ms g0, (F <= F')%nat ->
  run_lazy t fl cfg supplied budget regexes find call F ms g0 = OutOfFuel \/
  run_lazy t fl cfg supplied budget regexes find call F ms g0 = run_lazy t fl cfg supplied budget regexes find call F' ms g0.
Proof. exact @run_lazy_fuel_mono. Qed.

(* THE WHOLE-RUN THEOREM on the fragment: if the run on ms succeeds, then from some fuel on the run on any permutation ms' succeeds, and the graphs are
   isomorphic under a renumbering of the graph nodes that fixes the nodes of the initial graph *)
Theorem lazy_block_order_iso_partial : forall (rx : Type) (t : tree) (fl : file) (supplied : globals) (regexes : list rx)
    (find : rx -> str -> option (list (option (N * N)))) (call : ident -> graph -> list value -> res (value * graph)) (okfn : ident -> Prop),
  (forall f, okfn f -> call_ok call f) ->
  forall g0 : graph, gclosed (N.of_nat (length g0)) g0 ->
  (forall glob, check_globals (f_globals fl) (globals_nested supplied) = Ok glob ->
     forall name v, globals_get glob name = Some v -> vall (fun i => i < N.of_nat (length g0)) v) ->
  forall (fuel : nat) (ms ms' : list (N * qmatch)) (ls : lstate) (p : polls),
  Permutation ms ms' -> Forall (pm_ok fl okfn) ms ->
  run_lazy t fl config0 supplied None regexes find call fuel ms g0 = Ok (ls, p) ->
  exists r r', (forall i, r' (r i) = i) /\ (forall i, r (r' i) = i) /\ (forall i, i < N.of_nat (length g0) -> r i = i) /\
    exists fuel0, forall fuel', (fuel0 <= fuel')%nat -> exists ls' p',
      run_lazy t fl config0 supplied None regexes find call fuel' ms' g0 = Ok (ls', p') /\ graph_iso r (l_graph ls) (l_graph ls').
Proof. exact @lazy_run_perm_fuel. Qed.
(* ... and the failure direction: an error or a panic for one order excludes success for every other order, whatever the fuel *)
Theorem lazy_block_order_fail_partial : forall (rx : Type) (t : tree) (fl : file) (supplied : globals) (regexes : list rx)
    (find : rx -> str -> option (list (option (N * N)))) (call : ident -> graph -> list value -> res (value * graph)) (okfn : ident -> Prop),
  (forall f, okfn f -> call_ok call f) ->
  forall g0 : graph, gclosed (N.of_nat (length g0)) g0 ->
  (forall glob, check_globals (f_globals fl) (globals_nested supplied) = Ok glob ->
     forall name v, globals_get glob name = Some v -> vall (fun i => i < N.of_nat (length g0)) v) ->
  forall (fuel : nat) (ms ms' : list (N * qmatch)),
  Permutation ms ms' -> Forall (pm_ok fl okfn) ms ->
  (forall r, run_lazy t fl config0 supplied None regexes find call fuel ms g0 <> Ok r) ->
  run_lazy t fl config0 supplied None regexes find call fuel ms g0 <> OutOfFuel ->
  forall fuel' r, run_lazy t fl config0 supplied None regexes find call fuel' ms' g0 <> Ok r.
Proof. exact @lazy_run_perm_fail. Qed.

(* the hypothesis on function calls holds for the standard library, `node`, `format` and `join` excepted *)
Theorem stdlib_call_ok_partial : forall rxo t f, (forall fn, fn_of_name f = Some fn -> fn_ok fn) -> call_ok (stdlib_call rxo t) f.
Proof. exact stdlib_call_ok. Qed.

(* non-vacuity: a two-stanza program whose two orders number the nodes differently; the graphs differ and are isomorphic under 0->2, 1->0, 2->1;
   the hypotheses of lazy_block_order_iso_partial hold for it *)
Example c08_two_orders :
  lgraph_of (run_lazy K7.k7_tree c8_file config0 [[]] None ([] : list Regex.regex) Regex.rx_captures c8_call default_fuel c8_ms []) = Ok c8_g /\
  lgraph_of (run_lazy K7.k7_tree c8_file config0 [[]] None ([] : list Regex.regex) Regex.rx_captures c8_call default_fuel c8_ms' []) = Ok c8_g' /\
  Permutation c8_ms c8_ms' /\ c8_g <> c8_g' /\ graph_iso c8_r c8_g c8_g'.
Proof. split; [exact c8_run|]. split; [exact c8_run'|]. split; [apply perm_swap|]. split; [exact c8_differ|exact c8_iso]. Qed.
Example c08_theorem_applies :
  exists r r', (forall i, r' (r i) = i) /\ (forall i, r (r' i) = i) /\
    exists F0, forall F, (F0 <= F)%nat -> exists ls' p',
      run_lazy2 K7.k7_tree c8_file config0 [[]] None ([] : list Regex.regex) Regex.rx_captures c8_call default_fuel F c8_ms' [] = Ok (ls', p') /\
      graph_iso r c8_g (l_graph ls').
Proof. exact c8_theorem_applies. Qed.
(* outside the fragment (limit of the property): with the location debug attribute configured, an edge created by two stanzas carries the location of the creating
   statement that is evaluated FIRST (LazyCreateEdge::evaluate only sets the attributes of a new edge; confirmed on the implementation, strict and lazy: the statement of the
   textually first stanza wins): permuting the blocks (statement locations kept) gives graphs that are not isomorphic.  WHICH statement an edge's debug location names
   depends on the stanza order; textual reordering changes every location anyway, so C08 can only be meant without debug attributes (config0, as in Step 3). *)
Example c08_debug_attribute_depends_on_order :
  dx_run [(0, c8_m); (1, c8_m)] = Ok [{| g_attrs := []; g_edges := [(0, [([108], VStr (dx_loc 50))])] |}] /\
  dx_run [(1, c8_m); (0, c8_m)] = Ok [{| g_attrs := []; g_edges := [(0, [([108], VStr (dx_loc 54))])] |}].
Proof. exact dx_order_observable. Qed.

(* ================= STEP 4: the whole run WITH scoped variables =================
   "a scoped variable may be read by a stanza that textually precedes the one defining it".
   FRAGMENT (`pm_ok2` = every executed block satisfies `sstmt`, Proofs/ScPermSim.v; decidable on the program up to the choice of okfn):
     - everything of the fragment `fstmt` of Step 3 (local variables, `if`, `for`, `scan`, comprehensions, shorthands, sets of graph nodes, calls of functions in okfn);
     - DEFINITIONS of scoped variables `let @cap.x = e` and `node @cap.x`: the scope is a capture (a syntax node known at execution time: finding the cell forces nothing),
       the value e contains no scoped read; immutable only (`var @..`/`set @..` are errors in every order anyway); any nesting inside `if`/`for`/`scan`;
     - READS `@(scope).x` — the scope any expression of the fragment (a capture, a local variable holding a syntax node, ..) or again a read (`@(@cap.a).b`) —
       in DEFERRED positions: the node of `attr (..)`, source and sink of `edge` and `attr (.. -> ..)`, the values of attributes that are not shorthands,
       print arguments — also inside list literals; in particular an edge may end in a node that a LATER block creates and stores in a scoped variable;
     - names declared `inherit` are allowed (the ancestor walk only reads the forced map);
     - as in Step 3: called functions graph-pure and equivariant under order-preserving renamings (`call_ok`), globals only mention nodes of g0, no debug attributes,
       no cancellation budget.
   NOT covered by THIS theorem: a scoped read inside the value of a local variable or of another scoped definition (a thunk that reads a cell: see STEP 5 below); open: as an argument
   of a call or an element of a set (such values mix graph nodes of several blocks; the renumbering is monotone only inside one block, so sets would have to be re-sorted
   and functions be equivariant under arbitrary injective renamings), in eager positions (conditions, `for`/`scan` subjects: the cell would be forced before all definitions
   are collected — an error that DOES depend on the order), DEFINITIONS whose scope expression is not a capture.
   PROOF ROUTE (Proofs/ScPerm*.v, 12 files): the by-index acyclicity of the thunk store (false as soon as a reader precedes its definer) is replaced by a reference evaluator
   `cev` over the static environment of the state at the beginning of the evaluation phase (bodies of the thunks, forced maps of the cells): plain unfolding, no state; a finite
   unfolding is the well-founded dependency order.  SOUNDNESS: a successful lazy evaluation phase computed what `cev` computes (no acyclicity assumed: it follows from success).
   ADEQUACY: where `cev` has a value the lazy evaluator converges to it (strong induction on the fuel of `cev`; a thunk is forced at the minimal fuel of its body, so the thunks
   under evaluation have no value at that fuel and are never met).  `cev` commutes with a renumbering that is monotone on every block (values local to a block vs. mixed values).
   Execution phase: one block appends the same delta, scoped definitions included, whatever the sizes and the cells it starts from (re-basing the relation of Step 1); exchanging two
   adjacent blocks relates the final states by the exchange of two ranges of ids; the definitions of a cell are permuted (scoped_force_perm_partial).  A permutation is a sequence
   of adjacent exchanges; graph isomorphisms compose. *)

(* one block, started from two states (any sizes, any unforced cells), appends the same delta — fresh nodes, thunks, deferred statements AND scoped definitions — shifted *)
Theorem lazy_block_shift_scoped_partial : forall (rx : Type) (t : tree) (fl : file) (cfg : config) (glob : globals) (regexes : list rx)
    (find : rx -> str -> option (list (option (N * N)))) (call : ident -> graph -> list value -> res (value * graph))
    (eaok : amap -> Prop) (okfn : ident -> Prop) (n0 : N),
  (forall l : loc, eaok match c_loc_attr cfg with Some k => [(k, VStr (loc_text l))] | None => [] end) ->
  (forall f : ident, okfn f -> call_ok call f) ->
  (forall (name : ident) (v : value), globals_get glob name = Some v -> vall (fun i : N => i < n0) v) ->
  forall (st : stanza) (qm : qmatch) (fuel : nat) (B1 B2 : lstate) (p : polls),
  block_ok2 fl okfn st qm -> n0 <= gn B1 -> n0 <= gn B2 -> one_frame B1 -> one_frame B2 -> allunf (l_scoped B1) -> allunf (l_scoped B2) ->
  match lexec_stanza t fl cfg glob regexes find call fuel st qm B1 p with
  | Ok (_, s1', p') =>
      exists (d : delta2) (s2' : lstate),
        lexec_stanza t fl cfg glob regexes find call fuel st qm B2 p = Ok (tt, s2', p') /\ extends2 B1 d s1' /\
        extends2 B2 (dren2 (shg (gn B1) (gn B2)) (shl (sn B1) (sn B2)) d) s2' /\ delta_ok2 eaok okfn n0 (gn B1) (sn B1) d
  | Err e => lexec_stanza t fl cfg glob regexes find call fuel st qm B2 p = Err e
  | Panic x => lexec_stanza t fl cfg glob regexes find call fuel st qm B2 p = Panic x
  | OutOfFuel => lexec_stanza t fl cfg glob regexes find call fuel st qm B2 p = OutOfFuel
  end.
Proof. exact @block_shift2. Qed.

(* SOUNDNESS of the lazy evaluation phase w.r.t. the reference evaluator (scoped reads anywhere, any store — no acyclicity hypothesis): a successful evaluation phase
   computed graph operations that the deferred statements denote, gave every thunk a value and forced every cell *)
Theorem lazy_eval_sound_scoped_partial : forall (t : tree) (fl : file) (call : ident -> graph -> list value -> res (value * graph)) (okfn : ident -> Prop),
  (forall f : ident, okfn f -> call_ok call f) ->
  forall (F : nat) (s : lstate) (p : polls) (u : unit) (fin : lstate) (p' : polls),
  evaluate_phase t fl call F s p = Ok (u, fin, p') -> evalable2 okfn s ->
  exists (eops : list (N * N)) (aopss : list (list aop)) (g1 : graph),
    Forall2 (sden_edge t fl call (env_of s)) (l_edges s) eops /\ Forall2 (sden_astmt t fl call (env_of s)) (l_attrs s) aopss /\
    Forall (sprint_ok t fl call (env_of s)) (l_prints s) /\
    apply_edges eops (l_graph s) = Some g1 /\ apply_attrs (concat aopss) g1 = Some (l_graph fin) /\
    (forall i : nat, (i < length (l_store s))%nat -> exists v : value, cevv t fl call (env_of s) (LVar (N.of_nat i)) v) /\
    (forall (name : ident) (c : scoped_values), alist_get name (l_scoped s) = Some c -> se_cell (env_of s) name <> None).
Proof. exact eval_sound. Qed.

(* ADEQUACY: if the deferred statements denote graph operations that succeed, every thunk has a value and every cell forces, the lazy evaluation phase converges
   (from some fuel on) to the graph the operations give *)
Theorem lazy_eval_adequate_scoped_partial : forall (t : tree) (fl : file) (call : ident -> graph -> list value -> res (value * graph)) (okfn : ident -> Prop),
  (forall f : ident, okfn f -> call_ok call f) ->
  forall E : senv, env_ok okfn E ->
  forall (s : lstate) (p : polls) (eops : list (N * N)) (aopss : list (list aop)) (g1 g2 : graph),
  ainv t fl call E s -> noforcing s ->
  Forall2 (sden_edge t fl call E) (l_edges s) eops -> Forall2 (sden_astmt t fl call E) (l_attrs s) aopss -> Forall (sprint_ok t fl call E) (l_prints s) ->
  Forall (lsok okfn) (l_edges s) -> Forall (lsok okfn) (l_attrs s) -> Forall (lsok okfn) (l_prints s) ->
  apply_edges eops (l_graph s) = Some g1 -> apply_attrs (concat aopss) g1 = Some g2 ->
  (forall i : nat, (i < length (l_store s))%nat -> exists v : value, cevv t fl call E (LVar (N.of_nat i)) v) -> cells_total E s -> nob p ->
  SLConv.convP (fun F : nat => evaluate_phase t fl call F s p) (fun (_ : unit) (s' : lstate) (p' : polls) => l_graph s' = g2 /\ nob p').
Proof. exact eval_adequate. Qed.

(* THE WHOLE-RUN THEOREM with scoped variables: if the run on ms succeeds, then from some fuel on the run on any permutation ms' succeeds, and the graphs are isomorphic
   under a renumbering of the graph nodes that fixes the nodes of the initial graph *)
Theorem lazy_block_order_iso_scoped_partial : forall (rx : Type) (t : tree) (fl : file) (supplied : globals) (regexes : list rx)
    (find : rx -> str -> option (list (option (N * N)))) (call : ident -> graph -> list value -> res (value * graph)) (okfn : ident -> Prop),
  (forall f, okfn f -> call_ok call f) ->
  forall g0 : graph, gclosed (N.of_nat (length g0)) g0 ->
  (forall glob, check_globals (f_globals fl) (globals_nested supplied) = Ok glob ->
     forall name v, globals_get glob name = Some v -> vall (fun i => i < N.of_nat (length g0)) v) ->
  forall (fuel : nat) (ms ms' : list (N * qmatch)) (ls : lstate) (p : polls),
  Permutation ms ms' -> Forall (pm_ok2 fl okfn) ms ->
  run_lazy t fl config0 supplied None regexes find call fuel ms g0 = Ok (ls, p) ->
  exists r r', (forall i, r' (r i) = i) /\ (forall i, r (r' i) = i) /\ (forall i, i < N.of_nat (length g0) -> r i = i) /\
    exists fuel0, forall fuel', (fuel0 <= fuel')%nat -> exists ls' p',
      run_lazy t fl config0 supplied None regexes find call fuel' ms' g0 = Ok (ls', p') /\ graph_iso r (l_graph ls) (l_graph ls').
Proof. exact @lazy_run_perm_scoped. Qed.
(* ... and the failure direction: an error or a panic for one order excludes success for every other order, whatever the fuel *)
Theorem lazy_block_order_fail_scoped_partial : forall (rx : Type) (t : tree) (fl : file) (supplied : globals) (regexes : list rx)
    (find : rx -> str -> option (list (option (N * N)))) (call : ident -> graph -> list value -> res (value * graph)) (okfn : ident -> Prop),
  (forall f, okfn f -> call_ok call f) ->
  forall g0 : graph, gclosed (N.of_nat (length g0)) g0 ->
  (forall glob, check_globals (f_globals fl) (globals_nested supplied) = Ok glob ->
     forall name v, globals_get glob name = Some v -> vall (fun i => i < N.of_nat (length g0)) v) ->
  forall (fuel : nat) (ms ms' : list (N * qmatch)),
  Permutation ms ms' -> Forall (pm_ok2 fl okfn) ms ->
  (forall r, run_lazy t fl config0 supplied None regexes find call fuel ms g0 <> Ok r) ->
  run_lazy t fl config0 supplied None regexes find call fuel ms g0 <> OutOfFuel ->
  forall fuel' r, run_lazy t fl config0 supplied None regexes find call fuel' ms' g0 <> Ok r.
Proof. exact @lazy_run_perm_scoped_fail. Qed.

(* non-vacuity: (module) @m { node n  attr (n) r = @m.d  edge n -> @m.d }  reads @m.d,  (module) @m { node @m.d  attr (@m.d) k = (plus 1 2) }  defines it.
   With the reader FIRST (c8_ms) and with the definer first (c8_ms') the runs succeed; the graphs differ and are isomorphic under 0 <-> 1 (cross-check by evaluation of the model);
   the hypotheses of lazy_block_order_iso_scoped_partial hold for the program, so the theorem gives the second run and an isomorphism from the first alone *)
Example c08_scoped_two_orders :
  lgraph_of (run_lazy K7.k7_tree sx_file config0 [[]] None ([] : list Regex.regex) Regex.rx_captures c8_call default_fuel c8_ms []) = Ok sx_g /\
  lgraph_of (run_lazy K7.k7_tree sx_file config0 [[]] None ([] : list Regex.regex) Regex.rx_captures c8_call default_fuel c8_ms' []) = Ok sx_g' /\
  Permutation c8_ms c8_ms' /\ sx_g <> sx_g' /\ graph_iso sx_r sx_g sx_g'.
Proof. split; [exact sx_run|]. split; [exact sx_run'|]. split; [apply perm_swap|]. split; [exact sx_differ|exact sx_iso]. Qed.
Example c08_scoped_theorem_applies :
  exists r r', (forall i, r' (r i) = i) /\ (forall i, r (r' i) = i) /\
    exists fuel0, forall fuel', (fuel0 <= fuel')%nat -> exists ls' p',
      run_lazy K7.k7_tree sx_file config0 [[]] None ([] : list Regex.regex) Regex.rx_captures c8_call fuel' c8_ms' [] = Ok (ls', p') /\ graph_iso r sx_g (l_graph ls').
Proof. exact sx_theorem_applies. Qed.

(* ================= STEP 5: scoped reads INSIDE THUNKS =================
   The typical use: one scoped variable defined from another (`let @a.x = @b.y`, chains of these) and local variables that hold a scoped read
   (`let z = @a.y`, z then used in deferred positions).  Now the thunk store itself is no longer acyclic by index: the thunk of `let @a.x = @b.y`
   may precede the thunk it reads.
   FRAGMENT (`pm_ok3` = every executed block satisfies `tstmt`, Proofs/ScThSim.v; decidable on the program given okfn and the taint): a TAINT
   `tnt : ident -> bool` names the local variables that may hold a value containing scoped reads (hypothesis of the theorem: any taint for which the blocks
   are in the fragment; e.g. the names assigned such a value anywhere in the file).
     - untainted expressions `lexpr`: the expressions of Step 3 that mention no tainted name; they are required in eager positions (conditions, `for`/`scan`
       subjects, comprehension sources), as arguments of calls and elements of sets, in shorthand bodies and in the values of untainted variables;
     - expressions `texpr` (deferred positions, values of tainted variables, values of scoped definitions): untainted expressions, ANY local variable,
       scoped reads `@(texpr).x`, list literals of these;
     - `let`/`var`/`set x = e`: `texpr e` if x is tainted, `lexpr e` otherwise; `let @cap.x = e` and `node @cap.x`: the scope a capture, `texpr e`
       — so `let @a.x = @b.y`, `let @a.x = [z, @c.w]`, `let z = @a.x`, `var z = @a.x ... set z = @b.y` are all in the fragment;
     - statements: as Step 4 with `texpr` in the deferred positions (node / source / sink, values of non-shorthand attributes, print arguments);
     - inherited names allowed; hypotheses on calls, globals, debug attributes, budget as before.
   NOT covered: a value containing a scoped read as argument of a call, element of a set, or in an eager position (see Step 4); definitions whose scope is not
   a capture; a shorthand attribute whose value contains a scoped read.
   PROOF (Proofs/ScTh*.v, 9 files): the evaluation phase is that of Step 4 unchanged (the reference evaluator never assumed anything about thunk bodies;
   Proofs/ScPermEvalSwap.v now depends on the typing only through the interface `evty`).  The execution phase is redone: store locations have a KIND (L: body local
   to the block, scoped-free, forced at will; M: any `texpr` value, never forced during execution, never mentioned by an untainted value), carried as a ghost list
   in the two-run relation; the simulation of the whole interpreter is indexed by (graph size, kinds). *)

(* one block of the new fragment, started from two states, appends the same delta, shifted; its thunks have kinds *)
Theorem lazy_block_shift_scoped_thunks_partial : forall (rx : Type) (t : tree) (fl : file) (cfg : config) (glob : globals) (regexes : list rx)
    (find : rx -> str -> option (list (option (N * N)))) (call : ident -> graph -> list value -> res (value * graph))
    (eaok : amap -> Prop) (okfn : ident -> Prop) (tnt : ident -> bool) (n0 : N),
  (forall l : loc, eaok match c_loc_attr cfg with Some k => [(k, VStr (loc_text l))] | None => [] end) ->
  (forall f : ident, okfn f -> call_ok call f) ->
  (forall (name : ident) (v : value), globals_get glob name = Some v -> vall (fun i : N => i < n0) v) ->
  forall (st : stanza) (qm : qmatch) (fuel : nat) (B1 B2 : lstate) (p : polls),
  block_ok3 fl okfn tnt st qm -> n0 <= gn B1 -> n0 <= gn B2 -> one_frame B1 -> one_frame B2 -> allunf (l_scoped B1) -> allunf (l_scoped B2) ->
  match lexec_stanza t fl cfg glob regexes find call fuel st qm B1 p with
  | Ok (_, s1', p') =>
      exists (d : delta2) (s2' : lstate),
        lexec_stanza t fl cfg glob regexes find call fuel st qm B2 p = Ok (tt, s2', p') /\ extends2 B1 d s1' /\
        extends2 B2 (dren2 (shg (gn B1) (gn B2)) (shl (sn B1) (sn B2)) d) s2' /\ delta_ok3 eaok okfn n0 (gn B1) (sn B1) d
  | Err e => lexec_stanza t fl cfg glob regexes find call fuel st qm B2 p = Err e
  | Panic x => lexec_stanza t fl cfg glob regexes find call fuel st qm B2 p = Panic x
  | OutOfFuel => lexec_stanza t fl cfg glob regexes find call fuel st qm B2 p = OutOfFuel
  end.
Proof. exact @block_shift3. Qed.

(* THE WHOLE-RUN THEOREM with scoped reads inside thunks *)
Theorem lazy_block_order_iso_scoped_thunks_partial : forall (rx : Type) (t : tree) (fl : file) (supplied : globals) (regexes : list rx)
    (find : rx -> str -> option (list (option (N * N)))) (call : ident -> graph -> list value -> res (value * graph)) (okfn : ident -> Prop) (tnt : ident -> bool),
  (forall f, okfn f -> call_ok call f) ->
  forall g0 : graph, gclosed (N.of_nat (length g0)) g0 ->
  (forall glob, check_globals (f_globals fl) (globals_nested supplied) = Ok glob ->
     forall name v, globals_get glob name = Some v -> vall (fun i => i < N.of_nat (length g0)) v) ->
  forall (fuel : nat) (ms ms' : list (N * qmatch)) (ls : lstate) (p : polls),
  Permutation ms ms' -> Forall (pm_ok3 fl okfn tnt) ms ->
  run_lazy t fl config0 supplied None regexes find call fuel ms g0 = Ok (ls, p) ->
  exists r r', (forall i, r' (r i) = i) /\ (forall i, r (r' i) = i) /\ (forall i, i < N.of_nat (length g0) -> r i = i) /\
    exists fuel0, forall fuel', (fuel0 <= fuel')%nat -> exists ls' p',
      run_lazy t fl config0 supplied None regexes find call fuel' ms' g0 = Ok (ls', p') /\ graph_iso r (l_graph ls) (l_graph ls').
Proof. exact @lazy_run_perm_thunks. Qed.
(* ... and the failure direction *)
Theorem lazy_block_order_fail_scoped_thunks_partial : forall (rx : Type) (t : tree) (fl : file) (supplied : globals) (regexes : list rx)
    (find : rx -> str -> option (list (option (N * N)))) (call : ident -> graph -> list value -> res (value * graph)) (okfn : ident -> Prop) (tnt : ident -> bool),
  (forall f, okfn f -> call_ok call f) ->
  forall g0 : graph, gclosed (N.of_nat (length g0)) g0 ->
  (forall glob, check_globals (f_globals fl) (globals_nested supplied) = Ok glob ->
     forall name v, globals_get glob name = Some v -> vall (fun i => i < N.of_nat (length g0)) v) ->
  forall (fuel : nat) (ms ms' : list (N * qmatch)),
  Permutation ms ms' -> Forall (pm_ok3 fl okfn tnt) ms ->
  (forall r, run_lazy t fl config0 supplied None regexes find call fuel ms g0 <> Ok r) ->
  run_lazy t fl config0 supplied None regexes find call fuel ms g0 <> OutOfFuel ->
  forall fuel' r, run_lazy t fl config0 supplied None regexes find call fuel' ms' g0 <> Ok r.
Proof. exact @lazy_run_perm_thunks_fail. Qed.

(* non-vacuity:  (module) @m { let @m.x = @m.y }   (module) @m { node @m.y }   (module) @m { node n  let z = @m.x  edge n -> @m.x  attr (n) r = z }.
   All 6 orders of the three blocks succeed (evaluation of the model); they give two graphs, isomorphic under 0 <-> 1; from the run with the READER first
   the theorem gives every other order and an isomorphism (the fragment's hypotheses hold for every order) *)
Example c08_thunks_six_orders :
  tx_run [0;1;2] = Ok tx_gA /\ tx_run [1;0;2] = Ok tx_gA /\ tx_run [1;2;0] = Ok tx_gA /\
  tx_run [0;2;1] = Ok tx_gB /\ tx_run [2;0;1] = Ok tx_gB /\ tx_run [2;1;0] = Ok tx_gB /\ tx_gA <> tx_gB /\ graph_iso sx_r tx_gB tx_gA.
Proof. destruct tx_six_orders as (H1 & H2 & H3 & H4 & H5 & H6). repeat (split; [assumption|]). split; [exact tx_differ|exact tx_iso]. Qed.
Example c08_thunks_theorem_applies : forall ms', Permutation (tx_ms [2;0;1]) ms' ->
  exists r r', (forall i, r' (r i) = i) /\ (forall i, r (r' i) = i) /\
    exists fuel0, forall fuel', (fuel0 <= fuel')%nat -> exists ls' p',
      run_lazy K7.k7_tree tx_file config0 [[]] None ([] : list Regex.regex) Regex.rx_captures c8_call fuel' ms' [] = Ok (ls', p') /\ graph_iso r tx_gB (l_graph ls').
Proof. exact tx_theorem_applies. Qed.

(* ---------------- the locality hypothesis derived from the checker (C06) ----------------
   `pm_ok2_ns` (Proofs/LocalFrag.v) is `pm_ok2` WITHOUT the demand that the eager positions (scan subject, if
   conditions, for list) contain no scoped-variable read; every other restriction of the fragment is kept.  For a file
   accepted by the checker the demand holds by itself (Props/C06.v, checked_eager_positions_local): the whole-run
   theorems can be stated with `check_file q f = CkOk fl`. *)
From TSG Require Import Model.Checker Model.Locality Proofs.LocalFrag.

Theorem checked_blocks_in_fragment : forall q f fl okfn ms,
  check_file q f = CkOk fl -> Forall (pm_ok2_ns fl okfn) ms -> Forall (pm_ok2 fl okfn) ms.
Proof. exact checked_pm_ok2. Qed.

Theorem lazy_block_order_iso_scoped_checked_partial : forall (rx : Type) (t : tree) q f (fl : file) (supplied : globals) (regexes : list rx)
    (find : rx -> str -> option (list (option (N * N)))) (call : ident -> graph -> list value -> res (value * graph)) (okfn : ident -> Prop),
  check_file q f = CkOk fl ->
  (forall f, okfn f -> call_ok call f) ->
  forall g0 : graph, gclosed (N.of_nat (length g0)) g0 ->
  (forall glob, check_globals (f_globals fl) (globals_nested supplied) = Ok glob ->
     forall name v, globals_get glob name = Some v -> vall (fun i => i < N.of_nat (length g0)) v) ->
  forall (fuel : nat) (ms ms' : list (N * qmatch)) (ls : lstate) (p : polls),
  Permutation ms ms' -> Forall (pm_ok2_ns fl okfn) ms ->
  run_lazy t fl config0 supplied None regexes find call fuel ms g0 = Ok (ls, p) ->
  exists r r', (forall i, r' (r i) = i) /\ (forall i, r (r' i) = i) /\ (forall i, i < N.of_nat (length g0) -> r i = i) /\
    exists fuel0, forall fuel', (fuel0 <= fuel')%nat -> exists ls' p',
      run_lazy t fl config0 supplied None regexes find call fuel' ms' g0 = Ok (ls', p') /\ graph_iso r (l_graph ls) (l_graph ls').
Proof.
  intros rx t q f fl supplied regexes find call okfn Hck Hcall g0 Hcl Hglob fuel ms ms' ls p HP Hok Hrun.
  exact (lazy_block_order_iso_scoped_partial rx t fl supplied regexes find call okfn Hcall g0 Hcl Hglob fuel ms ms' ls p HP
           (checked_pm_ok2 q f fl okfn ms Hck Hok) Hrun).
Qed.
Theorem lazy_block_order_fail_scoped_checked_partial : forall (rx : Type) (t : tree) q f (fl : file) (supplied : globals) (regexes : list rx)
    (find : rx -> str -> option (list (option (N * N)))) (call : ident -> graph -> list value -> res (value * graph)) (okfn : ident -> Prop),
  check_file q f = CkOk fl ->
  (forall f, okfn f -> call_ok call f) ->
  forall g0 : graph, gclosed (N.of_nat (length g0)) g0 ->
  (forall glob, check_globals (f_globals fl) (globals_nested supplied) = Ok glob ->
     forall name v, globals_get glob name = Some v -> vall (fun i => i < N.of_nat (length g0)) v) ->
  forall (fuel : nat) (ms ms' : list (N * qmatch)),
  Permutation ms ms' -> Forall (pm_ok2_ns fl okfn) ms ->
  (forall r, run_lazy t fl config0 supplied None regexes find call fuel ms g0 <> Ok r) ->
  run_lazy t fl config0 supplied None regexes find call fuel ms g0 <> OutOfFuel ->
  forall fuel' r, run_lazy t fl config0 supplied None regexes find call fuel' ms' g0 <> Ok r.
Proof.
  intros rx t q f fl supplied regexes find call okfn Hck Hcall g0 Hcl Hglob fuel ms ms' HP Hok.
  exact (lazy_block_order_fail_scoped_partial rx t fl supplied regexes find call okfn Hcall g0 Hcl Hglob fuel ms ms' HP
           (checked_pm_ok2 q f fl okfn ms Hck Hok)).
Qed.

(* non-vacuity: the weakened predicate is strictly weaker — `scan @m.d { }` passes sstmt_ns and fails sstmt ... *)
Example c08_ns_is_weaker :
  sstmt_ns sx_file c8_okfn [] (SScan (EScoped sx_cap [100] c8_l0) [] c8_l0) /\
  ~ sstmt sx_file c8_okfn [] (SScan (EScoped sx_cap [100] c8_l0) [] c8_l0).
Proof. split; [split; [reflexivity|exact I]|]. intros [H _]. exact H. Qed.
(* ... and on a program the checker accepts — (identifier)* @id { for x in @id { let a = x  let b = [a, a]
   for y in b { let c = (f y a)  scan c { "rx0" { print c } }  if c { } } } } — the derived predicate holds of the checked file *)
Definition c8k_tables : query_tables :=
  {| qt_stanza_names := [[[105; 100]; FULL_MATCH]]; qt_file_names := [[105; 100]; FULL_MATCH];
     qt_file_quants := [[QStar; QOne]]; qt_nullable := [false] |}.
Definition c8k_file : file :=
  {| f_globals := []; f_inherited := []; f_shorthands := [];
     f_stanzas := [{| st_stmts :=
       [SFor [120] c8_l0 (ECapture [105; 100] QZero 0 0 c8_l0)
          [SLet (VarU [97] c8_l0) (EUnscoped [120] c8_l0) c8_l0;
           SLet (VarU [98] c8_l0) (EList [EUnscoped [97] c8_l0; EUnscoped [97] c8_l0]) c8_l0;
           SFor [121] c8_l0 (EUnscoped [98] c8_l0)
             [SLet (VarU [99] c8_l0) (ECall [102] [EUnscoped [121] c8_l0; EUnscoped [97] c8_l0]) c8_l0;
              SScan (EUnscoped [99] c8_l0) [(0, [SPrint [EUnscoped [99] c8_l0] c8_l0], c8_l0)] c8_l0;
              SIf [([CBool (EUnscoped [99] c8_l0) c8_l0], [], c8_l0)] c8_l0] c8_l0] c8_l0];
       st_full_stanza_idx := 1; st_full_file_idx := 0; st_start := c8_l0 |}] |}.
Example c08_checked_in_fragment : exists fl,
  check_file c8k_tables c8k_file = CkOk fl /\ Forall (pm_ok2 fl (fun _ => True)) [(0, [])].
Proof.
  eexists. split; [vm_compute; reflexivity|].
  eapply (checked_blocks_in_fragment c8k_tables c8k_file); [vm_compute; reflexivity|]. constructor; [|constructor].
  intros st E. cbn in E. inversion E; subst st. split; [|constructor].
  cbn [st_stmts All sstmt_ns svar fvar fexpr fexpr_ns mexpr fcond_ns fst snd]. repeat split; auto.
Qed.

(* ================= TWO FILES: reordering the STANZAS ================= *)
(* Every theorem above keeps ONE file and permutes the list of (stanza index, match) blocks.  The bridge to
   "the same stanzas in another order" (Proofs/StanzaPerm.v): a second file fl' with `same_rest fl fl'` (same globals,
   inherited names, shorthands) and `Permutation (f_stanzas fl) (f_stanzas fl')`.
   `blocks_of fl ms`: the executed blocks — for each match the stanza found at its index, and the match.
   `retag old ms'`: the matches of fl' with every stanza index j replaced by `old j`, the position of that stanza in fl.
   IDEALISATION (not closed here): the stanza records of fl' are those of fl.  Textually reordering a real file also changes
   every location and the capture indices of the merged query inside the stanzas and the matches (AUDIT G1); that
   re-indexing is an oracle-side relation between two match lists and is not modelled. *)
From TSG Require Import Proofs.StanzaPerm.

(* the lazy run reads a file only through `same_rest` and the executed blocks *)
Theorem lazy_run_depends_on_blocks : forall (rx : Type) t fl fl' cfg supplied budget (regexes : list rx) find call fuel ms ms' g0,
  same_rest fl fl' -> blocks_of fl ms = blocks_of fl' ms' ->
  run_lazy t fl cfg supplied budget regexes find call fuel ms g0 = run_lazy t fl' cfg supplied budget regexes find call fuel ms' g0.
Proof. exact @run_lazy_blocks. Qed.

(* THE BRIDGE: a permutation of the stanzas gives an injective index map `old` with fl'[j] = fl[old j]; for every
   match list ms' of fl': its executed blocks are those of fl on the re-tagged list; if the re-tagged list is a
   permutation of the matches ms of fl ("the matches regrouped accordingly") the executed blocks of fl' are a
   permutation of those of fl; and the lazy run of fl' on ms' IS the lazy run of fl on the re-tagged list *)
Theorem stanza_permutation_is_block_permutation : forall fl fl',
  same_rest fl fl' -> Permutation (f_stanzas fl) (f_stanzas fl') ->
  exists old : nat -> nat,
    (forall i j, old i = old j -> i = j) /\
    (forall j, nth_error (f_stanzas fl') j = nth_error (f_stanzas fl) (old j)) /\
    forall ms',
      blocks_of fl' ms' = blocks_of fl (retag old ms') /\
      (forall ms, Permutation ms (retag old ms') -> Permutation (blocks_of fl ms) (blocks_of fl' ms')) /\
      (forall (rx : Type) t cfg supplied budget (regexes : list rx) find call fuel g0,
         run_lazy t fl' cfg supplied budget regexes find call fuel ms' g0 =
         run_lazy t fl cfg supplied budget regexes find call fuel (retag old ms') g0).
Proof. exact stanza_perm_bridge. Qed.

(* conversely, whenever the executed blocks of fl' are a permutation of those of fl, the run of fl' is a run of fl on
   a permutation of its matches *)
Theorem block_permutation_is_match_permutation : forall fl fl' ms ms',
  Permutation (blocks_of fl ms) (blocks_of fl' ms') ->
  exists ms'', Permutation ms ms'' /\ blocks_of fl ms'' = blocks_of fl' ms'.
Proof. exact blocks_perm_matches. Qed.

(* THE HEADLINE THEOREMS ABOUT TWO FILES.  fl' has the stanzas of fl in another order (or, more generally, its executed
   blocks are a permutation of those of fl); the fragment hypotheses are demanded of fl and its matches only. *)
Theorem lazy_stanza_order_iso_partial : forall (rx : Type) (t : tree) (fl fl' : file) (supplied : globals) (regexes : list rx)
    (find : rx -> str -> option (list (option (N * N)))) (call : ident -> graph -> list value -> res (value * graph)) (okfn : ident -> Prop),
  (forall f, okfn f -> call_ok call f) ->
  forall g0 : graph, gclosed (N.of_nat (length g0)) g0 ->
  (forall glob, check_globals (f_globals fl) (globals_nested supplied) = Ok glob ->
     forall name v, globals_get glob name = Some v -> vall (fun i => i < N.of_nat (length g0)) v) ->
  forall (fuel : nat) (ms ms' : list (N * qmatch)) (ls : lstate) (p : polls),
  same_rest fl fl' -> Permutation (blocks_of fl ms) (blocks_of fl' ms') -> Forall (pm_ok fl okfn) ms ->
  run_lazy t fl config0 supplied None regexes find call fuel ms g0 = Ok (ls, p) ->
  exists r r', (forall i, r' (r i) = i) /\ (forall i, r (r' i) = i) /\ (forall i, i < N.of_nat (length g0) -> r i = i) /\
    exists fuel0, forall fuel', (fuel0 <= fuel')%nat -> exists ls' p',
      run_lazy t fl' config0 supplied None regexes find call fuel' ms' g0 = Ok (ls', p') /\ graph_iso r (l_graph ls) (l_graph ls').
Proof.
  intros rx t fl fl' supplied regexes find call okfn Hcall g0 Hcl Hglob fuel ms ms' ls p HR HP Hok Hrun.
  destruct (blocks_perm_matches fl fl' ms ms' HP) as (ms'' & HP' & HB).
  destruct (lazy_block_order_iso_partial rx t fl supplied regexes find call okfn Hcall g0 Hcl Hglob fuel ms ms'' ls p HP' Hok Hrun)
    as (r & r' & I1 & I2 & I3 & fuel0 & HF).
  exists r, r'. repeat (split; [assumption|]). exists fuel0. intros fuel' Hf. destruct (HF fuel' Hf) as (ls' & p' & E & Hiso).
  exists ls', p'. split; [|exact Hiso]. rewrite <- E. symmetry. apply run_lazy_blocks; assumption.
Qed.

Theorem lazy_stanza_order_fail_partial : forall (rx : Type) (t : tree) (fl fl' : file) (supplied : globals) (regexes : list rx)
    (find : rx -> str -> option (list (option (N * N)))) (call : ident -> graph -> list value -> res (value * graph)) (okfn : ident -> Prop),
  (forall f, okfn f -> call_ok call f) ->
  forall g0 : graph, gclosed (N.of_nat (length g0)) g0 ->
  (forall glob, check_globals (f_globals fl) (globals_nested supplied) = Ok glob ->
     forall name v, globals_get glob name = Some v -> vall (fun i => i < N.of_nat (length g0)) v) ->
  forall (fuel : nat) (ms ms' : list (N * qmatch)),
  same_rest fl fl' -> Permutation (blocks_of fl ms) (blocks_of fl' ms') -> Forall (pm_ok fl okfn) ms ->
  (forall r, run_lazy t fl config0 supplied None regexes find call fuel ms g0 <> Ok r) ->
  run_lazy t fl config0 supplied None regexes find call fuel ms g0 <> OutOfFuel ->
  forall fuel' r, run_lazy t fl' config0 supplied None regexes find call fuel' ms' g0 <> Ok r.
Proof.
  intros rx t fl fl' supplied regexes find call okfn Hcall g0 Hcl Hglob fuel ms ms' HR HP Hok Hno Hoof fuel' r.
  destruct (blocks_perm_matches fl fl' ms ms' HP) as (ms'' & HP' & HB).
  rewrite <- (run_lazy_blocks t fl fl' config0 supplied None regexes find call fuel' ms'' ms' g0 HR HB).
  exact (lazy_block_order_fail_partial rx t fl supplied regexes find call okfn Hcall g0 Hcl Hglob fuel ms ms'' HP' Hok Hno Hoof fuel' r).
Qed.

(* with scoped variables (fragment of STEP 4) *)
Theorem lazy_stanza_order_iso_scoped_partial : forall (rx : Type) (t : tree) (fl fl' : file) (supplied : globals) (regexes : list rx)
    (find : rx -> str -> option (list (option (N * N)))) (call : ident -> graph -> list value -> res (value * graph)) (okfn : ident -> Prop),
  (forall f, okfn f -> call_ok call f) ->
  forall g0 : graph, gclosed (N.of_nat (length g0)) g0 ->
  (forall glob, check_globals (f_globals fl) (globals_nested supplied) = Ok glob ->
     forall name v, globals_get glob name = Some v -> vall (fun i => i < N.of_nat (length g0)) v) ->
  forall (fuel : nat) (ms ms' : list (N * qmatch)) (ls : lstate) (p : polls),
  same_rest fl fl' -> Permutation (blocks_of fl ms) (blocks_of fl' ms') -> Forall (pm_ok2 fl okfn) ms ->
  run_lazy t fl config0 supplied None regexes find call fuel ms g0 = Ok (ls, p) ->
  exists r r', (forall i, r' (r i) = i) /\ (forall i, r (r' i) = i) /\ (forall i, i < N.of_nat (length g0) -> r i = i) /\
    exists fuel0, forall fuel', (fuel0 <= fuel')%nat -> exists ls' p',
      run_lazy t fl' config0 supplied None regexes find call fuel' ms' g0 = Ok (ls', p') /\ graph_iso r (l_graph ls) (l_graph ls').
Proof.
  intros rx t fl fl' supplied regexes find call okfn Hcall g0 Hcl Hglob fuel ms ms' ls p HR HP Hok Hrun.
  destruct (blocks_perm_matches fl fl' ms ms' HP) as (ms'' & HP' & HB).
  destruct (lazy_block_order_iso_scoped_partial rx t fl supplied regexes find call okfn Hcall g0 Hcl Hglob fuel ms ms'' ls p HP' Hok Hrun)
    as (r & r' & I1 & I2 & I3 & fuel0 & HF).
  exists r, r'. repeat (split; [assumption|]). exists fuel0. intros fuel' Hf. destruct (HF fuel' Hf) as (ls' & p' & E & Hiso).
  exists ls', p'. split; [|exact Hiso]. rewrite <- E. symmetry. apply run_lazy_blocks; assumption.
Qed.

Theorem lazy_stanza_order_fail_scoped_partial : forall (rx : Type) (t : tree) (fl fl' : file) (supplied : globals) (regexes : list rx)
    (find : rx -> str -> option (list (option (N * N)))) (call : ident -> graph -> list value -> res (value * graph)) (okfn : ident -> Prop),
  (forall f, okfn f -> call_ok call f) ->
  forall g0 : graph, gclosed (N.of_nat (length g0)) g0 ->
  (forall glob, check_globals (f_globals fl) (globals_nested supplied) = Ok glob ->
     forall name v, globals_get glob name = Some v -> vall (fun i => i < N.of_nat (length g0)) v) ->
  forall (fuel : nat) (ms ms' : list (N * qmatch)),
  same_rest fl fl' -> Permutation (blocks_of fl ms) (blocks_of fl' ms') -> Forall (pm_ok2 fl okfn) ms ->
  (forall r, run_lazy t fl config0 supplied None regexes find call fuel ms g0 <> Ok r) ->
  run_lazy t fl config0 supplied None regexes find call fuel ms g0 <> OutOfFuel ->
  forall fuel' r, run_lazy t fl' config0 supplied None regexes find call fuel' ms' g0 <> Ok r.
Proof.
  intros rx t fl fl' supplied regexes find call okfn Hcall g0 Hcl Hglob fuel ms ms' HR HP Hok Hno Hoof fuel' r.
  destruct (blocks_perm_matches fl fl' ms ms' HP) as (ms'' & HP' & HB).
  rewrite <- (run_lazy_blocks t fl fl' config0 supplied None regexes find call fuel' ms'' ms' g0 HR HB).
  exact (lazy_block_order_fail_scoped_partial rx t fl supplied regexes find call okfn Hcall g0 Hcl Hglob fuel ms ms'' HP' Hok Hno Hoof fuel' r).
Qed.

(* with scoped reads inside thunks (fragment of STEP 5) *)
Theorem lazy_stanza_order_iso_scoped_thunks_partial : forall (rx : Type) (t : tree) (fl fl' : file) (supplied : globals) (regexes : list rx)
    (find : rx -> str -> option (list (option (N * N)))) (call : ident -> graph -> list value -> res (value * graph)) (okfn : ident -> Prop) (tnt : ident -> bool),
  (forall f, okfn f -> call_ok call f) ->
  forall g0 : graph, gclosed (N.of_nat (length g0)) g0 ->
  (forall glob, check_globals (f_globals fl) (globals_nested supplied) = Ok glob ->
     forall name v, globals_get glob name = Some v -> vall (fun i => i < N.of_nat (length g0)) v) ->
  forall (fuel : nat) (ms ms' : list (N * qmatch)) (ls : lstate) (p : polls),
  same_rest fl fl' -> Permutation (blocks_of fl ms) (blocks_of fl' ms') -> Forall (pm_ok3 fl okfn tnt) ms ->
  run_lazy t fl config0 supplied None regexes find call fuel ms g0 = Ok (ls, p) ->
  exists r r', (forall i, r' (r i) = i) /\ (forall i, r (r' i) = i) /\ (forall i, i < N.of_nat (length g0) -> r i = i) /\
    exists fuel0, forall fuel', (fuel0 <= fuel')%nat -> exists ls' p',
      run_lazy t fl' config0 supplied None regexes find call fuel' ms' g0 = Ok (ls', p') /\ graph_iso r (l_graph ls) (l_graph ls').
Proof.
  intros rx t fl fl' supplied regexes find call okfn tnt Hcall g0 Hcl Hglob fuel ms ms' ls p HR HP Hok Hrun.
  destruct (blocks_perm_matches fl fl' ms ms' HP) as (ms'' & HP' & HB).
  destruct (lazy_block_order_iso_scoped_thunks_partial rx t fl supplied regexes find call okfn tnt Hcall g0 Hcl Hglob fuel ms ms'' ls p HP' Hok Hrun)
    as (r & r' & I1 & I2 & I3 & fuel0 & HF).
  exists r, r'. repeat (split; [assumption|]). exists fuel0. intros fuel' Hf. destruct (HF fuel' Hf) as (ls' & p' & E & Hiso).
  exists ls', p'. split; [|exact Hiso]. rewrite <- E. symmetry. apply run_lazy_blocks; assumption.
Qed.

Theorem lazy_stanza_order_fail_scoped_thunks_partial : forall (rx : Type) (t : tree) (fl fl' : file) (supplied : globals) (regexes : list rx)
    (find : rx -> str -> option (list (option (N * N)))) (call : ident -> graph -> list value -> res (value * graph)) (okfn : ident -> Prop) (tnt : ident -> bool),
  (forall f, okfn f -> call_ok call f) ->
  forall g0 : graph, gclosed (N.of_nat (length g0)) g0 ->
  (forall glob, check_globals (f_globals fl) (globals_nested supplied) = Ok glob ->
     forall name v, globals_get glob name = Some v -> vall (fun i => i < N.of_nat (length g0)) v) ->
  forall (fuel : nat) (ms ms' : list (N * qmatch)),
  same_rest fl fl' -> Permutation (blocks_of fl ms) (blocks_of fl' ms') -> Forall (pm_ok3 fl okfn tnt) ms ->
  (forall r, run_lazy t fl config0 supplied None regexes find call fuel ms g0 <> Ok r) ->
  run_lazy t fl config0 supplied None regexes find call fuel ms g0 <> OutOfFuel ->
  forall fuel' r, run_lazy t fl' config0 supplied None regexes find call fuel' ms' g0 <> Ok r.
Proof.
  intros rx t fl fl' supplied regexes find call okfn tnt Hcall g0 Hcl Hglob fuel ms ms' HR HP Hok Hno Hoof fuel' r.
  destruct (blocks_perm_matches fl fl' ms ms' HP) as (ms'' & HP' & HB).
  rewrite <- (run_lazy_blocks t fl fl' config0 supplied None regexes find call fuel' ms'' ms' g0 HR HB).
  exact (lazy_block_order_fail_scoped_thunks_partial rx t fl supplied regexes find call okfn tnt Hcall g0 Hcl Hglob fuel ms ms'' HP' Hok Hno Hoof fuel' r).
Qed.

(* the form with the stanza permutation itself: fl' = the stanzas of fl in another order, its matches ms' such that
   re-tagging them with the old positions gives a permutation of the matches of fl *)
Theorem lazy_stanza_reorder_iso_partial : forall (fl fl' : file),
  same_rest fl fl' -> Permutation (f_stanzas fl) (f_stanzas fl') ->
  exists old : nat -> nat,
    (forall j, nth_error (f_stanzas fl') j = nth_error (f_stanzas fl) (old j)) /\
    forall (rx : Type) (t : tree) (supplied : globals) (regexes : list rx)
      (find : rx -> str -> option (list (option (N * N)))) (call : ident -> graph -> list value -> res (value * graph)) (okfn : ident -> Prop),
    (forall f, okfn f -> call_ok call f) ->
    forall g0 : graph, gclosed (N.of_nat (length g0)) g0 ->
    (forall glob, check_globals (f_globals fl) (globals_nested supplied) = Ok glob ->
       forall name v, globals_get glob name = Some v -> vall (fun i => i < N.of_nat (length g0)) v) ->
    forall (fuel : nat) (ms ms' : list (N * qmatch)) (ls : lstate) (p : polls),
    Permutation ms (retag old ms') -> Forall (pm_ok fl okfn) ms ->
    run_lazy t fl config0 supplied None regexes find call fuel ms g0 = Ok (ls, p) ->
    exists r r', (forall i, r' (r i) = i) /\ (forall i, r (r' i) = i) /\ (forall i, i < N.of_nat (length g0) -> r i = i) /\
      exists fuel0, forall fuel', (fuel0 <= fuel')%nat -> exists ls' p',
        run_lazy t fl' config0 supplied None regexes find call fuel' ms' g0 = Ok (ls', p') /\ graph_iso r (l_graph ls) (l_graph ls').
Proof.
  intros fl fl' HR HP. destruct (stanza_perm_bridge fl fl' HR HP) as (old & _ & Hnth & Hms).
  exists old. split; [exact Hnth|].
  intros rx t supplied regexes find call okfn Hcall g0 Hcl Hglob fuel ms ms' ls p HPm Hok Hrun.
  destruct (Hms ms') as (_ & HB & _).
  exact (lazy_stanza_order_iso_partial rx t fl fl' supplied regexes find call okfn Hcall g0 Hcl Hglob fuel ms ms' ls p HR (HB ms HPm) Hok Hrun).
Qed.

(* non-vacuity: c8_file with its two stanzas SWAPPED; the matches of the swapped file in its own file order
   [(0, m); (1, m)] execute the blocks of c8_file in the other order; the two-file theorem gives its run from the run
   of c8_file alone *)
Definition c8_file_swapped : file :=
  {| f_globals := f_globals c8_file; f_inherited := f_inherited c8_file; f_shorthands := f_shorthands c8_file;
     f_stanzas := rev (f_stanzas c8_file) |}.
Example c08_two_files :
  same_rest c8_file c8_file_swapped /\
  Permutation (f_stanzas c8_file) (f_stanzas c8_file_swapped) /\ f_stanzas c8_file <> f_stanzas c8_file_swapped /\
  Permutation (blocks_of c8_file c8_ms) (blocks_of c8_file_swapped c8_ms) /\
  blocks_of c8_file c8_ms <> blocks_of c8_file_swapped c8_ms /\
  exists r r', (forall i, r' (r i) = i) /\ (forall i, r (r' i) = i) /\
    exists fuel0, forall fuel', (fuel0 <= fuel')%nat -> exists ls' p',
      run_lazy K7.k7_tree c8_file_swapped config0 [[]] None ([] : list Regex.regex) Regex.rx_captures c8_call fuel' c8_ms [] = Ok (ls', p') /\
      graph_iso r c8_g (l_graph ls').
Proof.
  assert (HR : same_rest c8_file c8_file_swapped) by (repeat split).
  assert (HB : Permutation (blocks_of c8_file c8_ms) (blocks_of c8_file_swapped c8_ms)) by (vm_compute; apply perm_swap).
  split; [exact HR|]. split; [apply Permutation_rev|]. split; [vm_compute; discriminate|]. split; [exact HB|].
  split; [vm_compute; discriminate|].
  destruct c8_run_state as (ls & p & E & Hg).
  destruct (lazy_stanza_order_iso_partial _ K7.k7_tree c8_file c8_file_swapped [[]] [] Regex.rx_captures c8_call c8_okfn c8_call_ok
              [] (Forall_nil _) c8_globals_ok default_fuel c8_ms c8_ms ls p HR HB c8_blocks_ok E) as (r & r' & I1 & I2 & _ & F0 & HF).
  exists r, r'. split; [exact I1|]. split; [exact I2|]. exists F0. intros F HF0. destruct (HF F HF0) as (ls' & p' & E' & Hiso).
  exists ls', p'. split; [exact E'|]. rewrite <- Hg. exact Hiso.
Qed.

(* ================= REAL RECORDED INPUTS (audit finding G1; see the section of the same name in Props/C02.v) =================
   The lazy interpreter receives the blocks of the MERGED query, whose matches carry FILE capture indices, and reads only the file index of a capture expression
   (lazy_reindex, Props/C02.v: the lazy run of a file and of `normalize_file fl` — every stanza index replaced by the file index, Model/IdxBridge.v — coincide on
   every input).  The fragment predicates `pm_ok`, `pm_ok2`, `pm_ok3` contain the equation `nodes_for_capture m stanza_idx = nodes_for_capture m file_idx`, false of a
   merged-query match of a real multi-stanza file; stated on `normalize_file fl` the equation is trivially true and the rest of the fragment is unchanged.  The whole-run
   theorems for the runs of the ORIGINAL file on the merged-query blocks as recorded: *)
From TSG Require Import Model.IdxBridge Proofs.IdxLazy Proofs.IdxBridge Proofs.IdxReal Proofs.IdxRealExample.

Theorem lazy_block_order_iso_real_partial : forall (rx : Type) (t : tree) (fl : file) (supplied : globals) (regexes : list rx)
    (find : rx -> str -> option (list (option (N * N)))) (call : ident -> graph -> list value -> res (value * graph)) (okfn : ident -> Prop),
  (forall f, okfn f -> call_ok call f) ->
  forall g0 : graph, gclosed (N.of_nat (length g0)) g0 ->
  (forall glob, check_globals (f_globals fl) (globals_nested supplied) = Ok glob ->
     forall name v, globals_get glob name = Some v -> vall (fun i => i < N.of_nat (length g0)) v) ->
  forall (fuel : nat) (ms ms' : list (N * qmatch)) (ls : lstate) (p : polls),
  Permutation ms ms' -> Forall (pm_ok (normalize_file fl) okfn) ms ->
  run_lazy t fl config0 supplied None regexes find call fuel ms g0 = Ok (ls, p) ->
  exists r r', (forall i, r' (r i) = i) /\ (forall i, r (r' i) = i) /\ (forall i, i < N.of_nat (length g0) -> r i = i) /\
    exists fuel0, forall fuel', (fuel0 <= fuel')%nat -> exists ls' p',
      run_lazy t fl config0 supplied None regexes find call fuel' ms' g0 = Ok (ls', p') /\ graph_iso r (l_graph ls) (l_graph ls').
Proof. exact @lazy_block_order_iso_real_lemma. Qed.
Theorem lazy_block_order_fail_real_partial : forall (rx : Type) (t : tree) (fl : file) (supplied : globals) (regexes : list rx)
    (find : rx -> str -> option (list (option (N * N)))) (call : ident -> graph -> list value -> res (value * graph)) (okfn : ident -> Prop),
  (forall f, okfn f -> call_ok call f) ->
  forall g0 : graph, gclosed (N.of_nat (length g0)) g0 ->
  (forall glob, check_globals (f_globals fl) (globals_nested supplied) = Ok glob ->
     forall name v, globals_get glob name = Some v -> vall (fun i => i < N.of_nat (length g0)) v) ->
  forall (fuel : nat) (ms ms' : list (N * qmatch)),
  Permutation ms ms' -> Forall (pm_ok (normalize_file fl) okfn) ms ->
  (forall r, run_lazy t fl config0 supplied None regexes find call fuel ms g0 <> Ok r) ->
  run_lazy t fl config0 supplied None regexes find call fuel ms g0 <> OutOfFuel ->
  forall fuel' r, run_lazy t fl config0 supplied None regexes find call fuel' ms' g0 <> Ok r.
Proof. exact @lazy_block_order_fail_real_lemma. Qed.
Theorem lazy_block_order_iso_scoped_real_partial : forall (rx : Type) (t : tree) (fl : file) (supplied : globals) (regexes : list rx)
    (find : rx -> str -> option (list (option (N * N)))) (call : ident -> graph -> list value -> res (value * graph)) (okfn : ident -> Prop),
  (forall f, okfn f -> call_ok call f) ->
  forall g0 : graph, gclosed (N.of_nat (length g0)) g0 ->
  (forall glob, check_globals (f_globals fl) (globals_nested supplied) = Ok glob ->
     forall name v, globals_get glob name = Some v -> vall (fun i => i < N.of_nat (length g0)) v) ->
  forall (fuel : nat) (ms ms' : list (N * qmatch)) (ls : lstate) (p : polls),
  Permutation ms ms' -> Forall (pm_ok2 (normalize_file fl) okfn) ms ->
  run_lazy t fl config0 supplied None regexes find call fuel ms g0 = Ok (ls, p) ->
  exists r r', (forall i, r' (r i) = i) /\ (forall i, r (r' i) = i) /\ (forall i, i < N.of_nat (length g0) -> r i = i) /\
    exists fuel0, forall fuel', (fuel0 <= fuel')%nat -> exists ls' p',
      run_lazy t fl config0 supplied None regexes find call fuel' ms' g0 = Ok (ls', p') /\ graph_iso r (l_graph ls) (l_graph ls').
Proof. exact @lazy_block_order_iso_scoped_real_lemma. Qed.
Theorem lazy_block_order_fail_scoped_real_partial : forall (rx : Type) (t : tree) (fl : file) (supplied : globals) (regexes : list rx)
    (find : rx -> str -> option (list (option (N * N)))) (call : ident -> graph -> list value -> res (value * graph)) (okfn : ident -> Prop),
  (forall f, okfn f -> call_ok call f) ->
  forall g0 : graph, gclosed (N.of_nat (length g0)) g0 ->
  (forall glob, check_globals (f_globals fl) (globals_nested supplied) = Ok glob ->
     forall name v, globals_get glob name = Some v -> vall (fun i => i < N.of_nat (length g0)) v) ->
  forall (fuel : nat) (ms ms' : list (N * qmatch)),
  Permutation ms ms' -> Forall (pm_ok2 (normalize_file fl) okfn) ms ->
  (forall r, run_lazy t fl config0 supplied None regexes find call fuel ms g0 <> Ok r) ->
  run_lazy t fl config0 supplied None regexes find call fuel ms g0 <> OutOfFuel ->
  forall fuel' r, run_lazy t fl config0 supplied None regexes find call fuel' ms' g0 <> Ok r.
Proof. exact @lazy_block_order_fail_scoped_real_lemma. Qed.
Theorem lazy_block_order_iso_scoped_thunks_real_partial : forall (rx : Type) (t : tree) (fl : file) (supplied : globals) (regexes : list rx)
    (find : rx -> str -> option (list (option (N * N)))) (call : ident -> graph -> list value -> res (value * graph)) (okfn : ident -> Prop),
  (forall f, okfn f -> call_ok call f) ->
  forall g0 : graph, gclosed (N.of_nat (length g0)) g0 ->
  (forall glob, check_globals (f_globals fl) (globals_nested supplied) = Ok glob ->
     forall name v, globals_get glob name = Some v -> vall (fun i => i < N.of_nat (length g0)) v) ->
  forall (tnt : ident -> bool) (fuel : nat) (ms ms' : list (N * qmatch)) (ls : lstate) (p : polls),
  Permutation ms ms' -> Forall (pm_ok3 (normalize_file fl) okfn tnt) ms ->
  run_lazy t fl config0 supplied None regexes find call fuel ms g0 = Ok (ls, p) ->
  exists r r', (forall i, r' (r i) = i) /\ (forall i, r (r' i) = i) /\ (forall i, i < N.of_nat (length g0) -> r i = i) /\
    exists fuel0, forall fuel', (fuel0 <= fuel')%nat -> exists ls' p',
      run_lazy t fl config0 supplied None regexes find call fuel' ms' g0 = Ok (ls', p') /\ graph_iso r (l_graph ls) (l_graph ls').
Proof. exact @lazy_block_order_iso_scoped_thunks_real_lemma. Qed.
Theorem lazy_block_order_fail_scoped_thunks_real_partial : forall (rx : Type) (t : tree) (fl : file) (supplied : globals) (regexes : list rx)
    (find : rx -> str -> option (list (option (N * N)))) (call : ident -> graph -> list value -> res (value * graph)) (okfn : ident -> Prop),
  (forall f, okfn f -> call_ok call f) ->
  forall g0 : graph, gclosed (N.of_nat (length g0)) g0 ->
  (forall glob, check_globals (f_globals fl) (globals_nested supplied) = Ok glob ->
     forall name v, globals_get glob name = Some v -> vall (fun i => i < N.of_nat (length g0)) v) ->
  forall (tnt : ident -> bool) (fuel : nat) (ms ms' : list (N * qmatch)),
  Permutation ms ms' -> Forall (pm_ok3 (normalize_file fl) okfn tnt) ms ->
  (forall r, run_lazy t fl config0 supplied None regexes find call fuel ms g0 <> Ok r) ->
  run_lazy t fl config0 supplied None regexes find call fuel ms g0 <> OutOfFuel ->
  forall fuel' r, run_lazy t fl config0 supplied None regexes find call fuel' ms' g0 <> Ok r.
Proof. exact @lazy_block_order_fail_scoped_thunks_real_lemma. Qed.

(* NON-VACUITY ON A REAL RECORDED CASE WITH SCOPED VARIABLES, READER BEFORE DEFINER (Proofs/IdxRealExample.v r4 = C04 stream cases_11.v case_1627, copied verbatim):
     (module) @m { node @m.scope  attr (@m.scope) kind = "module" }   (.. @stmts* .. @d ..) { node r  attr (r) k = @d.k  print @stmts }   (..) @again { let @again.k = 99 }
   The audit proved `pm_ok2`/`pm_ok3` FALSE of its recorded merged-query blocks for the original file.  On the normalized file `pm_ok2` holds of them.  The recorded lazy
   run (merged-query order: stanzas 0, 2, 1 — the definer of `k` before its reader) succeeds; the strict run (stanza order 0, 1, 2: reader first) fails with
   UndefinedVariable.  lazy_block_order_iso_scoped_real_partial applies to the recorded run and gives, for the order with the READER'S block BEFORE the DEFINER'S
   (`r4_strict_order`, a different list), success from some fuel on with an isomorphic graph; evaluation of the model at the default fuel agrees. *)
Example c08_real_case_reader_before_definer :
  run_idx_agreeb r4_run = true /\
  Forall (pm_ok2 (normalize_file (ri_file r4_run)) nofn) (ri_lmatches r4_run) /\
  Permutation (ri_lmatches r4_run) r4_strict_order /\ ri_lmatches r4_run <> r4_strict_order /\
  map fst (ri_lmatches r4_run) = [0; 2; 1] /\ map fst r4_strict_order = [0; 1; 2] /\
  (exists e, run_one r4_tree config0 None (with_lazy r4_run false) [] = Err e /\ root_cause e = EUndefinedVariable) /\
  (exists ls p,
     run_lazy r4_tree (ri_file r4_run) config0 (ri_supplied r4_run) None (ri_rxs r4_run) Regex.rx_captures r4_call default_fuel (ri_lmatches r4_run) [] = Ok (ls, p) /\
     exists r r', (forall i, r' (r i) = i) /\ (forall i, r (r' i) = i) /\
       exists fuel0, forall fuel', (fuel0 <= fuel')%nat -> exists ls' p',
         run_lazy r4_tree (ri_file r4_run) config0 (ri_supplied r4_run) None (ri_rxs r4_run) Regex.rx_captures r4_call fuel' r4_strict_order [] = Ok (ls', p') /\
         graph_iso r (l_graph ls) (l_graph ls')) /\
  (exists ls p,
     run_lazy r4_tree (ri_file r4_run) config0 (ri_supplied r4_run) None (ri_rxs r4_run) Regex.rx_captures r4_call default_fuel r4_strict_order [] = Ok (ls, p) /\
     length (l_graph ls) = 2%nat).
Proof.
  split; [exact r4_idx_b|]. split; [exact r4_blocks_ok|]. destruct r4_orders as (H1 & H2 & H3 & H4).
  split; [exact H1|]. split; [exact H2|]. split; [exact H3|]. split; [exact H4|]. split; [exact r4_strict_fails|]. split; [exact r4_theorem_applies|exact r4_reader_first_ok].
Qed.

(* the locality clause derived from the checker, on the normalized file: `file_eok` (Model/Locality.v) does not look at capture indices
   (Proofs/IdxChecked.v file_eok_norm), so acceptance of fl by the checker gives the clause for `normalize_file fl` *)
From TSG Require Import Proofs.IdxChecked.
Theorem checked_blocks_in_fragment_real : forall q f fl okfn ms,
  check_file q f = CkOk fl -> Forall (pm_ok2_ns (normalize_file fl) okfn) ms -> Forall (pm_ok2 (normalize_file fl) okfn) ms.
Proof. exact checked_pm_ok2_real. Qed.
Theorem lazy_block_order_iso_scoped_checked_real_partial : forall (rx : Type) (t : tree) q f (fl : file) (supplied : globals) (regexes : list rx)
    (find : rx -> str -> option (list (option (N * N)))) (call : ident -> graph -> list value -> res (value * graph)) (okfn : ident -> Prop),
  check_file q f = CkOk fl ->
  (forall f, okfn f -> call_ok call f) ->
  forall g0 : graph, gclosed (N.of_nat (length g0)) g0 ->
  (forall glob, check_globals (f_globals fl) (globals_nested supplied) = Ok glob ->
     forall name v, globals_get glob name = Some v -> vall (fun i => i < N.of_nat (length g0)) v) ->
  forall (fuel : nat) (ms ms' : list (N * qmatch)) (ls : lstate) (p : polls),
  Permutation ms ms' -> Forall (pm_ok2_ns (normalize_file fl) okfn) ms ->
  run_lazy t fl config0 supplied None regexes find call fuel ms g0 = Ok (ls, p) ->
  exists r r', (forall i, r' (r i) = i) /\ (forall i, r (r' i) = i) /\ (forall i, i < N.of_nat (length g0) -> r i = i) /\
    exists fuel0, forall fuel', (fuel0 <= fuel')%nat -> exists ls' p',
      run_lazy t fl config0 supplied None regexes find call fuel' ms' g0 = Ok (ls', p') /\ graph_iso r (l_graph ls) (l_graph ls').
Proof.
  intros rx t q f fl supplied regexes find call okfn Hck Hcall g0 Hcl Hglob fuel ms ms' ls p HP Hok Hrun.
  exact (lazy_block_order_iso_scoped_real_partial rx t fl supplied regexes find call okfn Hcall g0 Hcl Hglob fuel ms ms' ls p HP
           (checked_pm_ok2_real q f fl okfn ms Hck Hok) Hrun).
Qed.

(* ================= TWO FILES, REAL: re-parsed reordered files (second audit, AUDIT2 §8 finding on StanzaPerm) =================
   The two-file theorems above demand `Permutation` of the stanza RECORDS; two loader-produced files whose texts contain the same stanzas in another
   order differ in every location and in the FILE capture indices (the merged query numbers capture names by first appearance), so that hypothesis is
   false of them.  Here (Model/LocErase.v, Proofs/LocSim*.v):
     - `erase_file_locs fl`: every statement / stanza / expression / global / shorthand location set to (0,0); names, quantifiers, both capture indices,
       node texts, scan arm numbers, defaults kept;
     - `reloc_stanza rho st`: the same erasure AND every file capture index i (in `ECapture`, `st_full_file_idx`) replaced by `rho i`;
     - `estate s`: the lazy state with every stored statement context (thunk / scoped-definition / lazy-statement / prev-element debug info) reduced to
       its matched node;
     - `run_img r rF`: both Ok with state `estate s` and the same polls, or both Err (contexts may differ), or the same Panic, or both OutOfFuel;
       `run_same r r'`: the same with `estate s' = estate s` (in particular the same graph).
   With `config0` (no debug attributes) locations are read only into statement contexts, i.e. into error contexts and debug info. *)
From TSG Require Import Model.LocErase Proofs.LocSimRun.

(* (1) locations do not influence the outcome kind, the polls, nor — on success — the graph: every budget, every input, every fuel *)
Theorem lazy_outcome_ignores_locations : forall (rx : Type) t fl supplied budget (regexes : list rx) find call fuel ms g0,
  run_img (run_lazy t fl config0 supplied budget regexes find call fuel ms g0)
          (run_lazy t (erase_file_locs fl) config0 supplied budget regexes find call fuel ms g0).
Proof. exact @run_lazy_erase. Qed.
Theorem lazy_ok_graph_ignores_locations : forall (rx : Type) t fl supplied budget (regexes : list rx) find call fuel ms g0 ls p,
  run_lazy t fl config0 supplied budget regexes find call fuel ms g0 = Ok (ls, p) ->
  run_lazy t (erase_file_locs fl) config0 supplied budget regexes find call fuel ms g0 = Ok (estate ls, p) /\ l_graph (estate ls) = l_graph ls.
Proof.
  intros rx t fl supplied budget regexes find call fuel ms g0 ls p E.
  pose proof (run_lazy_erase t fl supplied budget regexes find call fuel ms g0) as H. rewrite E in H.
  destruct (run_lazy t (erase_file_locs fl) config0 supplied budget regexes find call fuel ms g0) as [[ls' p']|e|x|]; cbn [run_img] in H; try contradiction.
  destruct H as (-> & ->). split; reflexivity.
Qed.
(* ... and conversely: a successful run of the erased file is the erasure of a successful run of the file *)
Theorem lazy_ok_graph_ignores_locations_conv : forall (rx : Type) t fl supplied budget (regexes : list rx) find call fuel ms g0 lsE p,
  run_lazy t (erase_file_locs fl) config0 supplied budget regexes find call fuel ms g0 = Ok (lsE, p) ->
  exists ls, run_lazy t fl config0 supplied budget regexes find call fuel ms g0 = Ok (ls, p) /\ lsE = estate ls /\ l_graph lsE = l_graph ls.
Proof.
  intros rx t fl supplied budget regexes find call fuel ms g0 lsE p E.
  pose proof (run_lazy_erase t fl supplied budget regexes find call fuel ms g0) as H. rewrite E in H.
  destruct (run_lazy t fl config0 supplied budget regexes find call fuel ms g0) as [[ls p']|e|x|]; cbn [run_img] in H; try contradiction.
  destruct H as (-> & ->). exists ls. repeat split.
Qed.

(* (2) index independence.  `block_rel fl fl' b b'` (blocks = (stanza, match) pairs as executed, `blocks_of`): there is a renaming rho of the file capture
   indices with  reloc_stanza rho st = erase_stanza_locs st'  (the stanza of fl, re-indexed, is the stanza of fl' up to locations), the shorthands related
   the same way, and the match of fl' answers at `rho i` what the match of fl answers at `i`.  For an injective rho the last clause holds of
   `rename_match rho m`: *)
Theorem renamed_match_agrees : forall rho m, (forall i j, rho i = rho j -> i = j) ->
  forall i, nodes_for_capture (rename_match rho m) (rho i) = nodes_for_capture m i.
Proof. exact nodes_rename_match. Qed.
(* two files whose executed blocks are related one by one (same order) have the same outcome up to statement contexts: every budget, input, fuel *)
Theorem lazy_run_reindexed : forall (rx : Type) t fl fl' supplied budget (regexes : list rx) find call fuel ms ms' g0,
  reloc_rest fl fl' -> Forall2 (block_rel fl fl') (blocks_of fl ms) (blocks_of fl' ms') ->
  run_same (run_lazy t fl config0 supplied budget regexes find call fuel ms g0)
           (run_lazy t fl' config0 supplied budget regexes find call fuel ms' g0).
Proof. exact @run_lazy_reloc. Qed.

(* (3) THE TWO-FILE THEOREM FOR RE-PARSED FILES.  fl' has, up to locations and a per-block renaming of the file capture indices, the executed blocks of
   fl in another order: some permutation ms'' of the matches of fl is related block by block to the matches ms' of fl'.  Fragment of STEP 4 (scoped
   variables), demanded of (the normalized) fl and its matches only, as in lazy_block_order_iso_scoped_real_partial. *)
Theorem lazy_stanza_reorder_real_partial : forall (rx : Type) (t : tree) (fl fl' : file) (supplied : globals) (regexes : list rx)
    (find : rx -> str -> option (list (option (N * N)))) (call : ident -> graph -> list value -> res (value * graph)) (okfn : ident -> Prop),
  (forall f, okfn f -> call_ok call f) ->
  forall g0 : graph, gclosed (N.of_nat (length g0)) g0 ->
  (forall glob, check_globals (f_globals fl) (globals_nested supplied) = Ok glob ->
     forall name v, globals_get glob name = Some v -> vall (fun i => i < N.of_nat (length g0)) v) ->
  forall (fuel : nat) (ms ms' : list (N * qmatch)) (ls : lstate) (p : polls),
  reloc_rest fl fl' ->
  (exists ms'', Permutation ms ms'' /\ Forall2 (block_rel fl fl') (blocks_of fl ms'') (blocks_of fl' ms')) ->
  Forall (pm_ok2 (normalize_file fl) okfn) ms ->
  run_lazy t fl config0 supplied None regexes find call fuel ms g0 = Ok (ls, p) ->
  exists r r', (forall i, r' (r i) = i) /\ (forall i, r (r' i) = i) /\ (forall i, i < N.of_nat (length g0) -> r i = i) /\
    exists fuel0, forall fuel', (fuel0 <= fuel')%nat -> exists ls' p',
      run_lazy t fl' config0 supplied None regexes find call fuel' ms' g0 = Ok (ls', p') /\ graph_iso r (l_graph ls) (l_graph ls').
Proof.
  intros rx t fl fl' supplied regexes find call okfn Hcall g0 Hcl Hglob fuel ms ms' ls p HR (ms'' & HP & HB) Hok Hrun.
  destruct (lazy_block_order_iso_scoped_real_partial rx t fl supplied regexes find call okfn Hcall g0 Hcl Hglob fuel ms ms'' ls p HP Hok Hrun)
    as (r & r' & I1 & I2 & I3 & fuel0 & HF).
  exists r, r'. repeat (split; [assumption|]). exists fuel0. intros fuel' Hf. destruct (HF fuel' Hf) as (ls2 & p2 & E & Hiso).
  pose proof (run_lazy_reloc t fl fl' supplied None regexes find call fuel' ms'' ms' g0 HR HB) as RS. rewrite E in RS.
  destruct (run_lazy t fl' config0 supplied None regexes find call fuel' ms' g0) as [[ls' p']|e|x|]; cbn [run_same] in RS; try contradiction.
  exists ls', p'. split; [reflexivity|]. destruct RS as (Eg & _).
  replace (l_graph ls') with (l_graph ls2); [exact Hiso|]. exact (f_equal l_graph (eq_sym Eg)).
Qed.
(* the failure direction: if the run of fl fails (not by fuel), no order of the related blocks of fl' succeeds, at any fuel *)
Theorem lazy_stanza_reorder_fail_real_partial : forall (rx : Type) (t : tree) (fl fl' : file) (supplied : globals) (regexes : list rx)
    (find : rx -> str -> option (list (option (N * N)))) (call : ident -> graph -> list value -> res (value * graph)) (okfn : ident -> Prop),
  (forall f, okfn f -> call_ok call f) ->
  forall g0 : graph, gclosed (N.of_nat (length g0)) g0 ->
  (forall glob, check_globals (f_globals fl) (globals_nested supplied) = Ok glob ->
     forall name v, globals_get glob name = Some v -> vall (fun i => i < N.of_nat (length g0)) v) ->
  forall (fuel : nat) (ms ms' : list (N * qmatch)),
  reloc_rest fl fl' ->
  (exists ms'', Permutation ms ms'' /\ Forall2 (block_rel fl fl') (blocks_of fl ms'') (blocks_of fl' ms')) ->
  Forall (pm_ok2 (normalize_file fl) okfn) ms ->
  (forall r, run_lazy t fl config0 supplied None regexes find call fuel ms g0 <> Ok r) ->
  run_lazy t fl config0 supplied None regexes find call fuel ms g0 <> OutOfFuel ->
  forall fuel' r, run_lazy t fl' config0 supplied None regexes find call fuel' ms' g0 <> Ok r.
Proof.
  intros rx t fl fl' supplied regexes find call okfn Hcall g0 Hcl Hglob fuel ms ms' HR (ms'' & HP & HB) Hok Hno Hoof fuel' [ls' p'] E'.
  pose proof (run_lazy_reloc t fl fl' supplied None regexes find call fuel' ms'' ms' g0 HR HB) as RS. rewrite E' in RS.
  destruct (run_lazy t fl config0 supplied None regexes find call fuel' ms'' g0) as [[ls2 p2]|e|x|] eqn:E2; cbn [run_same] in RS; try contradiction.
  exact (lazy_block_order_fail_scoped_real_partial rx t fl supplied regexes find call okfn Hcall g0 Hcl Hglob fuel ms ms'' HP Hok Hno Hoof fuel' (ls2, p2) E2).
Qed.

(* (4) NON-VACUITY ON A REAL PAIR (Proofs/LocSimExample.v): the texts
         (a) @x { node @x.n  attr (@x.n) k = "A" }  (b) @y { node @y.n  attr (@y.n) k = "B" }     and the same two stanzas swapped
   are loaded by the LOADER MODEL (`Loader.load`: parser model, then checker model, with the merged-query tables of each text).  The loaded files rr_flAB,
   rr_flBA differ in all locations and in the file capture indices of @x / @y; the old hypothesis is false of them; `reloc_rest` and `block_rel` (renaming
   0 <-> 2, matches renamed accordingly) hold; the theorem gives, from the run of AB alone, the run of BA on its matches in ITS stanza order (the blocks of
   AB in the other order: `rr_ms'`) and in node order (`rr_ms'_ts`), with an isomorphic graph; by evaluation the graph of BA in its stanza order is a
   different list. *)
From TSG Require Import Model.Loader Proofs.LocSimExample.
Example c08_real_reordered_files :
  rr_ldAB = Loader.LdOk rr_flAB [] /\ rr_ldBA = Loader.LdOk rr_flBA [] /\
  ~ Permutation (f_stanzas rr_flAB) (f_stanzas rr_flBA) /\
  reloc_rest rr_flAB rr_flBA /\
  Permutation rr_ms [(1, rr_mB); (0, rr_mA)] /\ rr_ms <> [(1, rr_mB); (0, rr_mA)] /\
  Forall2 (block_rel rr_flAB rr_flBA) (blocks_of rr_flAB [(1, rr_mB); (0, rr_mA)]) (blocks_of rr_flBA rr_ms') /\
  Forall2 (block_rel rr_flAB rr_flBA) (blocks_of rr_flAB rr_ms) (blocks_of rr_flBA rr_ms'_ts) /\
  Forall (pm_ok2 (normalize_file rr_flAB) nofn) rr_ms /\
  (exists ls p,
     run_lazy K7.k7_tree rr_flAB config0 [[]] None ([] : list Regex.regex) Regex.rx_captures rr_call default_fuel rr_ms [] = Ok (ls, p) /\ l_graph ls = rr_gAB /\
     (exists r r', (forall i, r' (r i) = i) /\ (forall i, r (r' i) = i) /\
        exists fuel0, forall fuel', (fuel0 <= fuel')%nat -> exists ls' p',
          run_lazy K7.k7_tree rr_flBA config0 [[]] None ([] : list Regex.regex) Regex.rx_captures rr_call fuel' rr_ms' [] = Ok (ls', p') /\
          graph_iso r (l_graph ls) (l_graph ls')) /\
     (exists r r', (forall i, r' (r i) = i) /\ (forall i, r (r' i) = i) /\
        exists fuel0, forall fuel', (fuel0 <= fuel')%nat -> exists ls' p',
          run_lazy K7.k7_tree rr_flBA config0 [[]] None ([] : list Regex.regex) Regex.rx_captures rr_call fuel' rr_ms'_ts [] = Ok (ls', p') /\
          graph_iso r (l_graph ls) (l_graph ls'))) /\
  (exists ls' p',
     run_lazy K7.k7_tree rr_flBA config0 [[]] None ([] : list Regex.regex) Regex.rx_captures rr_call default_fuel rr_ms' [] = Ok (ls', p') /\
     l_graph ls' = rr_gBA /\ length rr_gBA = 2%nat /\ rr_gBA <> rr_gAB).
Proof.
  destruct rr_loaded as (L1 & L2). destruct rr_perm as (P1 & P2).
  split; [exact L1|]. split; [exact L2|]. split; [exact rr_old_hypothesis_false|]. split; [exact rr_rest|]. split; [exact P1|]. split; [exact P2|].
  split; [exact rr_blocks_related|]. split; [exact rr_blocks_related_ts|]. split; [exact rr_blocks_ok|]. split; [|exact rr_run_BA].
  destruct rr_run_AB as (ls & p & E & Hg & _). exists ls, p. split; [exact E|]. split; [exact Hg|]. split.
  - destruct (lazy_stanza_reorder_real_partial _ K7.k7_tree rr_flAB rr_flBA [[]] [] Regex.rx_captures rr_call nofn (nofn_ok _ _) [] nil_closed rr_globals
                default_fuel rr_ms rr_ms' ls p rr_rest (ex_intro _ _ (conj P1 rr_blocks_related)) rr_blocks_ok E) as (r & r' & I1 & I2 & _ & H).
    exists r, r'. split; [exact I1|]. split; [exact I2|exact H].
  - destruct (lazy_stanza_reorder_real_partial _ K7.k7_tree rr_flAB rr_flBA [[]] [] Regex.rx_captures rr_call nofn (nofn_ok _ _) [] nil_closed rr_globals
                default_fuel rr_ms rr_ms'_ts ls p rr_rest (ex_intro _ _ (conj (Permutation_refl _) rr_blocks_related_ts)) rr_blocks_ok E) as (r & r' & I1 & I2 & _ & H).
    exists r, r'. split; [exact I1|]. split; [exact I2|exact H].
Qed.
