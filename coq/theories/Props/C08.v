(* Props/C08.v — property theorems only.  Lazy evaluation does not depend on stanza order.
   PARTIAL: the full statement
     lazy_perm_invariant : Permutation blocks blocks' -> (run_l blocks = Ok g -> exists g', run_l blocks' = Ok g' /\ g ≅ g') /\ (is_err .. <-> is_err ..)
   is not proved yet.  Proved here: the order-independence of the two mechanisms the property names —
   the scoped-variable store ("a scoped variable may be read by a stanza that textually precedes the one
   defining it") and the deferred graph operations ("an attribute may be put on an edge that a later stanza
   creates"): the edge and attribute statements that the stanzas deferred give the same graph, and fail or
   succeed together, in EVERY order (deferred_ops_any_order, deferred_attrs_fail_any_order,
   lazy_eval_any_order_partial).  What is missing for the whole-run statement is the execution phase:
   executing the (stanza, match) blocks in another order renumbers graph nodes and store locations.
   The whole-run statement is explored by the direct permutation stream. *)
From TSG Require Import Model.Lazy Proofs.Scoped Proofs.PermFacts Proofs.SLGraph Proofs.SLForce Proofs.SLStmt Proofs.StrictLazy Proofs.EvalPerm Proofs.EvalPermLazy.
From Coq Require Import Permutation.

(* forcing the definitions collected for one scoped-variable name: whether it succeeds (no duplicate
   definition on one node) and the value found for every node are the same for every order in which
   the stanzas/matches contributed the definitions *)
Theorem scoped_force_perm_partial : forall node_of ps ps', Permutation ps ps' ->
  ((exists m, build node_of ps [] [] = inl m) <-> (exists m', build node_of ps' [] [] = inl m')) /\
  (forall m m' n, build node_of ps [] [] = inl m -> build node_of ps' [] [] = inl m' -> nmap_get m n = nmap_get m' n).
Proof. exact scoped_force_perm_lemma. Qed.

(* definitions are only collected until the variable is first forced: adding afterwards is an error
   (the checker prevents it; never a silently ignored definition) *)
Theorem add_after_force_is_error_partial : forall sc name v dbg s p m,
  alist_get name (l_scoped s) = Some (SVForced m) ->
  scoped_store_add sc name v dbg s p = Err EVariableScopesAlreadyForced.
Proof. intros sc name v dbg s p m H. unfold scoped_store_add, cell_get, bind, get_state, ret. rewrite H. reflexivity. Qed.

(* phase separation: deferred edge statements are evaluated before deferred attribute statements,
   whatever order the stanzas pushed them in *)
Theorem edges_before_attributes_partial : forall st s p u s' p',
  push_lstmt st s p = Ok (u, s', p') ->
  match st with
  | LSEdge _ _ _ _ => l_edges s' = l_edges s ++ [st] /\ l_attrs s' = l_attrs s /\ l_prints s' = l_prints s
  | LSAttrNode _ _ _ | LSAttrEdge _ _ _ _ => l_edges s' = l_edges s /\ l_attrs s' = l_attrs s ++ [st] /\ l_prints s' = l_prints s
  | LSPrint _ _ => l_edges s' = l_edges s /\ l_attrs s' = l_attrs s /\ l_prints s' = l_prints s ++ [st]
  end.
Proof. intros st s p u s' p' H. unfold push_lstmt, upd, modify in H. inversion H; subst. destruct st; cbn; auto. Qed.

(* DEFERRED GRAPH OPERATIONS IN ANY ORDER.  `geq` = same nodes, same edges (same sinks in the same order), same
   attribute values under every name; only the order in which an attribute map lists its entries may differ. *)
Theorem deferred_ops_any_order : forall es es' ops ops' g g1 g2,
  Permutation es es' -> Permutation ops ops' -> edges_sorted g ->
  apply_edges es g = Some g1 -> apply_attrs ops g1 = Some g2 ->
  exists g2', apply_edges es' g = Some g1 /\ apply_attrs ops' g1 = Some g2' /\ geq g2 g2'.
Proof. exact deferred_ops_any_order_lemma. Qed.
(* a conflict (two different values for one attribute of one element) is found in every order *)
Theorem deferred_attrs_fail_any_order : forall ops ops' g, Permutation ops ops' -> apply_attrs ops g = None -> apply_attrs ops' g = None.
Proof. exact deferred_attrs_fail_any_order_lemma. Qed.
(* the evaluation phase of the lazy interpreter on deferred statements with pure values (fragment of
   strict_lazy_same_graph): whatever order the stanzas pushed them in, evaluation never fails or panics and
   produces the same graph, once one order succeeds as graph operations *)
Theorem lazy_eval_any_order_partial : forall t fl call F rho g ls pl E E' A A' eops aopss g1 g2,
  vinv call rho g ls -> nob pl -> edges_sorted g ->
  Forall2 (den_edge call rho) E eops -> Forall2 (den_astmt call rho) A aopss ->
  apply_edges eops g = Some g1 -> apply_attrs (concat aopss) g1 = Some g2 ->
  Permutation E E' -> Permutation A A' ->
  lres ((iterM (eval_lstmt t fl call F) E' ;;; iterM (eval_lstmt t fl call F) A') ls pl)
       (fun _ ls' _ => geq g2 (l_graph ls')).
Proof. exact lazy_eval_any_order_lemma. Qed.

(* non-vacuity: an attribute on an edge listed BEFORE the statement creating the edge, two attributes of one
   node in both orders: both orders succeed and the results differ only in the order of the attribute entries *)
Example c08_ops_nonvacuous :
  let g := [new_gnode; new_gnode] in
  exists g1 g2 g2', apply_edges [(0, 1); (1, 0)] g = Some g1 /\ apply_edges [(1, 0); (0, 1)] g = Some g1 /\
    apply_attrs [AN 0 [97] (VInt 1); AN 0 [98] (VInt 2); AE 0 1 [99] (VInt 3)] g1 = Some g2 /\
    apply_attrs [AE 0 1 [99] (VInt 3); AN 0 [98] (VInt 2); AN 0 [97] (VInt 1)] g1 = Some g2' /\ geq g2 g2' /\ g2 <> g2' /\
    apply_attrs [AN 0 [97] (VInt 1); AN 0 [97] (VInt 2)] g1 = None /\ apply_attrs [AN 0 [97] (VInt 2); AN 0 [97] (VInt 1)] g1 = None.
Proof.
  cbv zeta. eexists. eexists. eexists. split; [vm_compute; reflexivity|]. split; [vm_compute; reflexivity|].
  split; [vm_compute; reflexivity|]. split; [vm_compute; reflexivity|].
  split; [|split; [discriminate|split; vm_compute; reflexivity]].
  unfold geq, node_eq, edges_eq, edge_eq. repeat first [apply Forall2_nil | apply Forall2_cons | split]; cbn [g_attrs g_edges fst snd]; try reflexivity.
  all: intros k; cbn [alist_get]; repeat match goal with |- context [str_eqb k ?x] => destruct (BaseFacts.str_eqb_spec k x); subst end; try reflexivity; try congruence; try discriminate.
Qed.

Example c08_nonvacuous :
  build (fun lv => match lv with LValue (VSyn n) => n | _ => 0 end)
        [(LValue (VSyn 2), LValue (VInt 1), {| sc_stmt := (1,1); sc_stanza := (0,0); sc_node := 0 |});
         (LValue (VSyn 5), LValue (VInt 2), {| sc_stmt := (2,1); sc_stanza := (0,0); sc_node := 0 |})] [] []
  = inl [(2, LValue (VInt 1)); (5, LValue (VInt 2))].
Proof. reflexivity. Qed.
