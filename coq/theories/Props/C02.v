(* Props/C02.v — property theorems only.  Strict and lazy evaluation agree on order-insensitive programs.
   PARTIAL: the full statements
     strict_lazy_agree : OrderInsensitive f -> run_s .. = Ok g1 -> no_node_rendered .. -> exists g2, run_l .. = Ok g2 /\ g1 ≅ g2
     strict_fail_lazy_fail : run_s .. = Err e -> OrderIndependentCause e -> exists e', run_l .. = Err e'
   are not proved yet.  Proved here: building blocks named in DESIGN.md §7 C02 — the two interpreters'
   copies of capture binding, regex-capture lookup and scan-arm selection compute the same thing, and the
   lazy store's forcing discipline (a thunk is forced at most once, every reader sees one value).
   The whole-run statements are explored by the direct strict-vs-lazy stream and both correspondence streams. *)
From TSG Require Import Model.Strict Model.Lazy Model.Run Proofs.Captures Proofs.MonadFacts Proofs.K7.

(* `$k` has the same value in both modes; out of range is UndefinedRegexCapture in both *)
Theorem lazy_regex_capture_partial : forall t fl glob call fuel fuel' (le : lenv) (ll : llenv) i s p sl pl,
  le_caps le = ll_caps ll ->
  match eval t fl glob call (S fuel) le (ERegexCap i) s p, leval t fl glob call (S fuel') ll (ERegexCap i) sl pl with
  | Ok (v, _, _), Ok (lv, _, _) => lv = LValue v
  | Err e, Err e' => e = EUndefinedRegexCapture /\ e' = EUndefinedRegexCapture
  | _, _ => False
  end.
Proof.
  intros t fl glob call fuel fuel' le ll i s p sl pl H. cbn [eval leval]. rewrite H.
  destruct (nth_error (ll_caps ll) (N.to_nat i)); cbn; auto.
Qed.

(* captures: same value in both modes (see C03) *)
Theorem capture_modes_agree_partial : forall t fl glob call fuel fuel' (le : lenv) (ll : llenv) name q fidx sidx l s p sl pl,
  nodes_for_capture (le_match le) sidx = nodes_for_capture (ll_match ll) fidx ->
  match eval t fl glob call (S fuel) le (ECapture name q fidx sidx l) s p,
        leval t fl glob call (S fuel') ll (ECapture name q fidx sidx l) sl pl with
  | Ok (v, _, _), Ok (lv, _, _) => lv = LValue v
  | Panic x, Panic y => x = y
  | _, _ => False
  end.
Proof.
  intros t fl glob call fuel fuel' le ll name q fidx sidx l s p sl pl H.
  pose proof (capture_modes_agree t fl glob call fuel fuel' le ll name q fidx sidx l s p sl pl H) as A.
  destruct (eval t fl glob call (S fuel) le (ECapture name q fidx sidx l) s p) as [[[v s1] p1]|e|x|];
  destruct (leval t fl glob call (S fuel') ll (ECapture name q fidx sidx l) sl pl) as [[[lv s2] p2]|e'|y|]; try exact A; try contradiction.
Qed.

(* thunk memoisation: forcing an already forced thunk returns the stored value and changes nothing,
   so a `(node)` call inside a bound value runs once per binding *)
Theorem thunk_memo_partial : forall t fl call fuel loc s p th v,
  nth_error (l_store s) (N.to_nat loc) = Some th -> th_state th = TForced v ->
  force_thunk t fl call (S fuel) loc s p = Ok (v, s, p).
Proof.
  intros t fl call fuel loc s p th v H1 H2. cbn [force_thunk]. unfold bind, get_state. rewrite H1. unfold ctx_wrap. rewrite H2. reflexivity.
Qed.
(* a thunk that is being forced is never re-entered: a cycle is reported as RecursivelyDefinedVariable *)
Theorem thunk_cycle_partial : forall t fl call fuel loc s p th,
  nth_error (l_store s) (N.to_nat loc) = Some th -> th_state th = TForcing ->
  force_thunk t fl call (S fuel) loc s p = Err (EInContext (CtxStmts [th_dbg th]) ERecursivelyDefinedVariable).
Proof.
  intros t fl call fuel loc s p th H1 H2. cbn [force_thunk]. unfold bind, get_state. rewrite H1. unfold ctx_wrap. rewrite H2. reflexivity.
Qed.

(* KNOWN FINDING K7: the full statement `strict_lazy_agree` is FALSE of the faithful model (and of the
   implementation: the witness is replayed on it by `tsgv known K7`).  A file with no inherited and no
   mutable scoped variables, no shorthands and no node rendering, on which strict execution returns a graph
   and lazy execution fails with RecursivelyDefinedScopedVariable: the scope expression of one definition
   of `a` reads `b` and the scope expression of the definition of `b` reads `a` (Proofs/K7.v). *)
Theorem strict_lazy_agree_refuted_k7 : exists t fl smatches lmatches g,
  f_inherited fl = [] /\ f_shorthands fl = [] /\
  graph_of (run_strict t fl config0 [[]] None [] rx_captures (the_call t []) default_fuel smatches []) = Ok g /\
  exists e, run_lazy t fl config0 [[]] None [] rx_captures (the_call t []) default_fuel lmatches [] = Err e /\
            root_cause e = ERecursivelyDefinedScopedVariable.
Proof.
  exists k7_tree, k7_file, k7_smatches, k7_lmatches. eexists. split; [reflexivity|]. split; [reflexivity|].
  split; [exact k7_strict_ok|exact k7_lazy_fails].
Qed.

Example c02_nonvacuous : nth_error [[97]; [98]] (N.to_nat 1) = Some [98] /\ nth_error [[97]; [98]] (N.to_nat 5) = None.
Proof. split; reflexivity. Qed.
