(* Props/C02.v — property theorems only.  Strict and lazy evaluation agree on order-insensitive programs.
   PARTIAL: the full statements
     strict_lazy_agree : OrderInsensitive f -> run_s .. = Ok g1 -> no_node_rendered .. -> exists g2, run_l .. = Ok g2 /\ g1 ≅ g2
     strict_fail_lazy_fail : run_s .. = Err e -> OrderIndependentCause e -> exists e', run_l .. = Err e'
   are not proved in full (and strict_lazy_agree is FALSE as stated for cyclic scoped-variable definitions: K7 below).
   Proved here:
   * strict_lazy_same_graph_partial — version 1, WHOLE-RUN theorem relating Model/Strict.v and Model/Lazy.v
     (Proofs/SLGraph.v, SLForce.v, SLExpr.v, SLStmt.v, StrictLazy.v).  Fragment (`file_ok`, built from `fexpr`/`fstmt` of
     Proofs/SLExpr.v): no scoped variables (no EScoped, no VarS); every called function is graph-pure (`pure_fn`: it
     neither reads nor changes the graph — every stdlib function except `node`, stdlib_graph_pure_partial); in every
     capture expression the file-query and the stanza-query capture index select the same nodes of every supplied
     match; every supplied match has its full-match capture; no matches for stanzas that do not exist.  Local
     variables (let/var/set), if, for, scan, list/set comprehensions, print, node, edge, attr and attribute
     shorthands are all inside the fragment.  No debug attributes (config0), no cancellation (budget None); the
     lazy interpreter receives the strict matches stanza by stanza in strict order (`lmatches_of`).
     Statement: if strict execution succeeds then, for EVERY lazy fuel, lazy execution never fails and never
     panics, and when it does not run out of model fuel it returns EXACTLY the strict graph (same node numbering,
     same attribute lists in the same order, same sorted edge vectors) — equality, not just isomorphism.
   * strict_lazy_adequate_partial — adequacy on the same fragment (Proofs/SLConv.v): some lazy model fuel suffices,
     and from that fuel on lazy execution IS Ok with exactly the strict graph.
   * strict_lazy_same_graph_scoped_partial, strict_lazy_adequate_scoped_partial — version 2: the same two statements on
     the fragment WITH SCOPED VARIABLES (Proofs/SL2Force.v, SL2Expr.v, SL2Stmt.v, SL2Whole.v; adequacy: SL2Conv.v,
     SL2StmtConv.v, SL2Adequate.v).  Fragment v2 (`file_ok2 okfn purev`, built from `fexpr2 b`/`fstmt2`) = fragment v1 plus
       (a) immutable scoped definitions `let <scope>.x = e` and `node <scope>.x` (`var`/`set` on scoped variables stay
           excluded: lazy execution rejects them) and scoped reads `<scope>.x` in DEFERRED positions: the value of
           let/var/set, attribute values, the endpoints of edge/attr statements, print arguments, the ELEMENT of a
           comprehension, arguments of calls, and the scope expression of another scoped read (`@n.owner.k`);
       (b) EAGER positions are pure: the condition of `if`, the subject of `scan`, the list of `for` and of a
           comprehension must be `fexpr2 true`: no scoped read, and only unscoped variables whose NAME is declared pure
           by `purev : ident -> bool`; every let/var/set of a pure name must have a pure right-hand side (`fbind2`,
           `fmut2`), loop/comprehension/`node` variables are bound to plain values, and shorthand variables must not be
           declared pure.  (A name-based, flow-insensitive version of the checker's locality rule, Model/Checker.v.)
           Reason: `let @x.a = 1  if some @x.a {}  let @y.a = 2` succeeds strictly, but the lazy `if` forces the cell
           of `a` and the later definition fails with VariableScopesAlreadyForced;
       (c) the scope expression of a DEFINITION is pure in the same sense (this excludes the K7 class, also when the
           cycle goes through local variables: `let t = @x.a  let t.b = ..  let u = t.b  let u.a = ..`);
       (d) inherited names are allowed under the side condition `inh_antichain t fl (s_scoped s)` on the FINAL strict
           scoped store s: no node that defines an inherited name has a proper ancestor that defines it too.  This
           implies the property's "no inherited scoped variable defined on a nearer node after being read" but is
           stronger (it also forbids a shadowing definition made BEFORE the read); it holds of every store when the
           file declares no inherited names (inh_antichain_nil_partial).
     Why strict success gives order insensitivity: scoped variables are immutable, a strict read succeeds only after
     the definition ran, and a second definition of the same (node, name) makes strict execution fail; so the value a
     strict read returned is the value of the one definition the lazy cell of that name holds for that node (or, for
     an inherited name, for the nearest defining ancestor).  Proof: a WORLD gives every thunk its value and a purity
     flag and lists the scoped definitions executed so far with the location of their value thunk; lazy values DENOTE
     strict values (`den2`; a scoped read denotes the value of a definition whose thunk is an EARLIER location);
     cells stay unforced during the execution phase; in the evaluation phase forcing a cell evaluates only pure
     scopes (level-0 forcing lemma: no re-entry), finds no duplicate node, and a scoped read then forces an earlier
     thunk (level-1 forcing lemma).
     NOT proved: mutable scoped variables; inherited names outside (d); programs whose eager positions or definition
     scopes depend on scoped variables (the checker accepts some of them, e.g. a definition scope `@x.owner`, and
     lazy execution then depends on the order of forcing); `(node)` calls, for which only isomorphism can hold.  (An
     arbitrary interleaving of the matches of different stanzas as tree-sitter reports them for the merged query: see
     strict_lazy_iso_any_order_scoped_partial below, on the intersection with the scoped fragment of C08.)
   * strict_fail_lazy_fail_partial — the FAILURE direction on fragment v1 (Proofs/SLFailGraph.v, SLFailStore.v, SLFailEval.v,
     SLFailExpr.v, SLFailStmt.v): if strict execution returns Err e and the root cause of e is neither UndefinedEdge
     (order dependent: strict_fail_lazy_ok_undefined_edge) nor Cancelled, then lazy execution of the same file on the same
     matches returns Ok for NO lazy fuel.  Extra hypotheses: a failing call fails on every graph (`pure_err_fn`), every
     function only extends the graph (`call_graph_ext`); both hold of the standard library.
     strict_fail_lazy_err_partial: with the hypotheses of lazy_exec_no_panic (Props/C05.v) the lazy run IS Err unless the
     model runs out of fuel.  Proof: up to the failing strict step the success-direction invariant relates the runs; a
     failure in an eager position fails the lazy run at the same statement; a failure in a deferred position leaves a
     DOOMED lazy state — a recorded statement or a thunk whose evaluation cannot succeed on any store that keeps the
     earlier thunks, or an attribute statement that conflicts with the strict graph; every later lazy computation
     preserves doom (it only appends statements and thunks, extends the graph, and cannot force the doomed thunk), and
     the evaluation phase of a doomed state cannot return Ok (it replays the strict run's insertions on a graph that
     extends the strict one, so the conflicting value is there whatever edges were inserted first, and
     `evaluate_all` forces every thunk).
     NOT proved: "lazy IS Err from some fuel on" — FALSE in the model: lazy execution runs the statements after the
     failure point, which may diverge (strict_fail_lazy_diverges_k2).
   * strict_fail_lazy_fail_scoped_partial / strict_fail_lazy_err_scoped_partial — the FAILURE direction on fragment v2, WITH
     scoped variables (Proofs/SLF2Store.v, SLF2Jok.v, SLF2Eval.v, SLF2Expr.v, SLF2Stmt.v, SLF2Whole.v, SLF2File.v; at the end of
     this file): see the comment there.  Order-independent errors are now `order_independent_error2`: additionally NOT
     UndefinedVariable (the strict interpreter reports a scoped variable that is not defined YET with that error:
     strict_fail_lazy_ok_undefined_scoped_refuted); inherited names need the STATIC condition `inh_static`
     (strict_fail_lazy_ok_inherited_refuted shows that no condition on the strict store can do).  Any order of the blocks:
     strict_fail_lazy_fail_any_order_scoped_partial (+ `_thunks_`, `_err_`, `_run_one_`).
   * strict_lazy_iso_any_order_partial, strict_lazy_iso_any_order_scoped_partial (+ the `_every_fuel` forms) — ARBITRARY INTERLEAVING of the
     matches (Proofs/SLAny.v): the real lazy interpreter does not visit the matches in strict order; it executes the blocks in the order
     tree-sitter reports the matches of the merged query, a list ms' with Permutation (lmatches_of ms) ms' (assumption A3 of C03, validated per
     case).  Composition of the theorems above with the block-order theorems of Props/C08.v (both are about the same driver `run_lazy` over a
     flat list of (stanza index, match) blocks): strict success implies that the lazy run on EVERY such ms' never fails or panics, succeeds
     from some fuel on, and returns a graph ISOMORPHIC to the strict graph under an explicit bijection of node ids that fixes the nodes of g0
     (`graph_iso`, Proofs/BlockPermGraph.v: equality is lost because the blocks create their nodes in another order).  Fragment = the
     intersection of the fragments: v1: `file_ok` (it IMPLIES the block predicate `pm_ok` of C08: file_ok_blocks_ok_partial), functions
     `call_ok` (graph-pure AND equivariant under order-preserving renamings; it implies `pure_fn`/`pure_err_fn`: call_ok_pure_partial; the
     stdlib except node/format/join), g0 closed and globals only mention nodes of g0; with scoped variables: the conjunction
     `file_ok2 ..ms /\ Forall (pm_ok2 fl okfn) (lmatches_of ms)` (definitions with a capture as scope and a scoped-free value, reads in the
     deferred positions of statements — not inside values of local variables, call arguments or sets) and `inh_antichain`.
     strict_fail_lazy_fail_any_order_partial / strict_fail_lazy_err_any_order_partial: the failure direction on fragment v1 for every order.
     strict_lazy_iso_run_one_partial, .._scoped_partial, strict_fail_lazy_fail_run_one_partial: the same about `run_one` (Model/Run.v), the function
     the correspondence harness evaluates for both modes (strict on ri_smatches, lazy on ri_lmatches, at default_fuel).
     Examples: strict_lazy_iso_any_order_nonvacuous (two stanzas, three matches each, the definer of `@x.n` and its reader interleaved, a reader first).
   * building blocks named in DESIGN.md §7 C02 — the two interpreters' copies of capture binding, regex-capture
     lookup and scan-arm selection compute the same thing, and the lazy store's forcing discipline (a thunk is
     forced at most once, every reader sees one value).
   The whole-run statements outside the fragments are explored by the direct strict-vs-lazy stream and both
   correspondence streams. *)
From TSG Require Import Model.Strict Model.Lazy Model.Run Model.Stdlib Proofs.Captures Proofs.MonadFacts Proofs.K7
  Proofs.SLExpr Proofs.StrictLazy Proofs.SLExample Proofs.SL2Expr Proofs.SL2Stmt Proofs.SL2Whole Proofs.SL2Adequate Proofs.SL2Example
  Proofs.Extends Proofs.NoPanicStrict Proofs.NoPanicLazy Proofs.SLFailGraph Proofs.SLFailExpr Proofs.SLFailStmt Proofs.SLFailExample
  Proofs.BlockPermRen Proofs.BlockPermGraph Proofs.BlockPermExec Proofs.BlockPermExample Proofs.ScPermExec Proofs.SLAny Proofs.SLAnyExample.
From Coq Require Import Permutation.

(* `$k` has the same value in both modes; out of range is UndefinedRegexCapture in both *)
Theorem lazy_regex_capture_partial : forall t fl glob call fuel fuel' (le : lenv) (ll : llenv) i s p sl pl,
  le_caps le = ll_caps ll ->
  match eval t fl glob call (S fuel) le (ERegexCap i) s p, leval t fl glob call (S fuel') ll (ERegexCap i) sl pl with
  | Ok (v, _, _), Ok (lv, _, _) => lv = LValue v
  | Err e, Err e' => e = EUndefinedRegexCapture /\ e' = EUndefinedRegexCapture
  | _, _ => False
  end.
Proof.
  intros t fl glob call fuel fuel' le ll i s p sl pl H. cbn [eval leval]. rewrite H.
  destruct (nth_error (ll_caps ll) (N.to_nat i)); cbn; auto.
Qed.

(* captures: same value in both modes (see C03) *)
Theorem capture_modes_agree_partial : forall t fl glob call fuel fuel' (le : lenv) (ll : llenv) name q fidx sidx l s p sl pl,
  nodes_for_capture (le_match le) sidx = nodes_for_capture (ll_match ll) fidx ->
  match eval t fl glob call (S fuel) le (ECapture name q fidx sidx l) s p,
        leval t fl glob call (S fuel') ll (ECapture name q fidx sidx l) sl pl with
  | Ok (v, _, _), Ok (lv, _, _) => lv = LValue v
  | Panic x, Panic y => x = y
  | _, _ => False
  end.
Proof.
  intros t fl glob call fuel fuel' le ll name q fidx sidx l s p sl pl H.
  pose proof (capture_modes_agree t fl glob call fuel fuel' le ll name q fidx sidx l s p sl pl H) as A.
  destruct (eval t fl glob call (S fuel) le (ECapture name q fidx sidx l) s p) as [[[v s1] p1]|e|x|];
  destruct (leval t fl glob call (S fuel') ll (ECapture name q fidx sidx l) sl pl) as [[[lv s2] p2]|e'|y|]; try exact A; try contradiction.
Qed.

(* thunk memoisation: forcing an already forced thunk returns the stored value and changes nothing,
   so a `(node)` call inside a bound value runs once per binding *)
Theorem thunk_memo_partial : forall t fl call fuel loc s p th v,
  nth_error (l_store s) (N.to_nat loc) = Some th -> th_state th = TForced v ->
  force_thunk t fl call (S fuel) loc s p = Ok (v, s, p).
Proof.
  intros t fl call fuel loc s p th v H1 H2. cbn [force_thunk]. unfold bind, get_state. rewrite H1. unfold ctx_wrap. rewrite H2. reflexivity.
Qed.
(* a thunk that is being forced is never re-entered: a cycle is reported as RecursivelyDefinedVariable *)
Theorem thunk_cycle_partial : forall t fl call fuel loc s p th,
  nth_error (l_store s) (N.to_nat loc) = Some th -> th_state th = TForcing ->
  force_thunk t fl call (S fuel) loc s p = Err (EInContext (CtxStmts [th_dbg th]) ERecursivelyDefinedVariable).
Proof.
  intros t fl call fuel loc s p th H1 H2. cbn [force_thunk]. unfold bind, get_state. rewrite H1. unfold ctx_wrap. rewrite H2. reflexivity.
Qed.

(* WHOLE RUN, fragment without scoped variables and with graph-pure function calls: strict success implies that
   lazy execution of the same file on the same matches never fails, never panics and — unless the model runs out
   of fuel — returns exactly the strict graph.  (Hypotheses: see the header; `file_ok` is in Proofs/StrictLazy.v,
   `fexpr`/`fstmt`/`pure_fn` in Proofs/SLExpr.v.) *)
Theorem strict_lazy_same_graph_partial :
  forall {rx : Type} t fl supplied (regexes : list rx) find call (okfn : ident -> Prop) fuel ms g0 s p,
  (forall f, okfn f -> pure_fn call f) ->
  file_ok okfn fl (f_stanzas fl) ms ->
  run_strict t fl config0 supplied None regexes find call fuel ms g0 = Ok (s, p) ->
  forall lfuel,
    match run_lazy t fl config0 supplied None regexes find call lfuel (lmatches_of ms) g0 with
    | Ok (ls, _) => l_graph ls = s_graph s
    | OutOfFuel => True
    | Err _ | Panic _ => False
    end.
Proof. exact @strict_lazy_same_graph_lemma. Qed.

(* adequacy: under the same hypotheses some lazy fuel suffices; from that fuel on the lazy run is Ok and returns
   exactly the strict graph *)
Theorem strict_lazy_adequate_partial :
  forall {rx : Type} t fl supplied (regexes : list rx) find call (okfn : ident -> Prop) fuel ms g0 s p,
  (forall f, okfn f -> pure_fn call f) ->
  file_ok okfn fl (f_stanzas fl) ms ->
  run_strict t fl config0 supplied None regexes find call fuel ms g0 = Ok (s, p) ->
  exists lfuel0, forall lfuel, (lfuel0 <= lfuel)%nat ->
    exists ls pl, run_lazy t fl config0 supplied None regexes find call lfuel (lmatches_of ms) g0 = Ok (ls, pl) /\ l_graph ls = s_graph s.
Proof. exact @strict_lazy_adequate_lemma. Qed.

(* WHOLE RUN, version 2: the fragment WITH scoped variables (`file_ok2`, built from `fexpr2` of Proofs/SL2Expr.v and
   `fstmt2` of Proofs/SL2Stmt.v; see the header).  `purev` names the unscoped variables that never depend on a
   scoped variable; `inh_antichain` (Proofs/SL2Whole.v) is the side condition for inherited names on the FINAL strict
   scoped store: no node that defines an inherited name has a proper ancestor that defines it too (trivially true
   when the file declares no inherited name: inh_antichain_nil_partial). *)
Theorem strict_lazy_same_graph_scoped_partial :
  forall {rx : Type} t fl supplied (regexes : list rx) find call (okfn : ident -> Prop) (purev : ident -> bool) fuel ms g0 s p,
  (forall f, okfn f -> pure_fn call f) ->
  file_ok2 okfn purev fl (f_stanzas fl) ms ->
  run_strict t fl config0 supplied None regexes find call fuel ms g0 = Ok (s, p) ->
  inh_antichain t fl (s_scoped s) ->
  forall lfuel,
    match run_lazy t fl config0 supplied None regexes find call lfuel (lmatches_of ms) g0 with
    | Ok (ls, _) => l_graph ls = s_graph s
    | OutOfFuel => True
    | Err _ | Panic _ => False
    end.
Proof. exact @strict_lazy_same_graph_scoped_lemma. Qed.

(* adequacy on the fragment with scoped variables: some lazy fuel suffices; from that fuel on the lazy run is Ok and
   returns exactly the strict graph *)
Theorem strict_lazy_adequate_scoped_partial :
  forall {rx : Type} t fl supplied (regexes : list rx) find call (okfn : ident -> Prop) (purev : ident -> bool) fuel ms g0 s p,
  (forall f, okfn f -> pure_fn call f) ->
  file_ok2 okfn purev fl (f_stanzas fl) ms ->
  run_strict t fl config0 supplied None regexes find call fuel ms g0 = Ok (s, p) ->
  inh_antichain t fl (s_scoped s) ->
  exists lfuel0, forall lfuel, (lfuel0 <= lfuel)%nat ->
    exists ls pl, run_lazy t fl config0 supplied None regexes find call lfuel (lmatches_of ms) g0 = Ok (ls, pl) /\ l_graph ls = s_graph s.
Proof. exact @strict_lazy_adequate_scoped_lemma. Qed.

(* without inherited names the side condition holds of every store *)
Theorem inh_antichain_nil_partial : forall t fl sc, f_inherited fl = [] -> inh_antichain t fl sc.
Proof. exact inh_antichain_nil. Qed.

(* the hypotheses hold of a concrete program in which the second stanza reads the scoped variable `n` that the
   first stanza defined on other matches (also: a scoped read whose scope is a scoped read, a scoped definition
   by `let`, a pure local variable in the condition of `if`: Proofs/SL2Example.v); both runs are Ok with the
   same six-node graph *)
Example strict_lazy_same_graph_scoped_nonvacuous :
  (forall f, ex2_okfn f -> pure_fn (the_call k7_tree []) f) /\
  (forall sc, inh_antichain k7_tree ex2_file sc) /\
  file_ok2 ex2_okfn ex2_purev ex2_file (f_stanzas ex2_file) ex2_matches /\
  graph_of (run_strict k7_tree ex2_file config0 [[]] None ([] : list regex) rx_captures (the_call k7_tree []) default_fuel ex2_matches []) = Ok ex2_graph /\
  lgraph_of (run_lazy k7_tree ex2_file config0 [[]] None ([] : list regex) rx_captures (the_call k7_tree []) default_fuel (lmatches_of ex2_matches) []) = Ok ex2_graph /\
  length ex2_graph = 6%nat.
Proof. split; [exact ex2_pure|]. split; [intros sc; apply inh_antichain_nil; reflexivity|]. split; [exact ex2_file_ok|]. split; [exact ex2_strict_ok|]. split; [exact ex2_lazy_ok|reflexivity]. Qed.

(* ... and of a program with an INHERITED name: `scope` is defined on the root node by one stanza and read by another
   stanza from the identifiers (grandchildren of the root) through inheritance; the final strict store satisfies the
   side condition; both runs are Ok with the same four-node graph *)
Example strict_lazy_same_graph_inherited_nonvacuous :
  f_inherited ex3_file <> [] /\
  file_ok2 ex2_okfn ex3_purev ex3_file (f_stanzas ex3_file) ex3_matches /\
  (exists s p, run_strict k7_tree ex3_file config0 [[]] None ([] : list regex) rx_captures (the_call k7_tree []) default_fuel ex3_matches [] = Ok (s, p) /\
               inh_antichain k7_tree ex3_file (s_scoped s) /\ s_graph s = ex3_graph) /\
  lgraph_of (run_lazy k7_tree ex3_file config0 [[]] None ([] : list regex) rx_captures (the_call k7_tree []) default_fuel (lmatches_of ex3_matches) []) = Ok ex3_graph /\
  length ex3_graph = 4%nat.
Proof. split; [discriminate|]. split; [exact ex3_file_ok|]. split; [exact ex3_strict_ok|]. split; [exact ex3_lazy_ok|reflexivity]. Qed.

(* every function of the standard library except `node` satisfies the purity hypothesis *)
Theorem stdlib_graph_pure_partial : forall rxo t f, fn_of_name f <> Some FNode -> pure_fn (stdlib_call rxo t) f.
Proof. exact stdlib_pure_fn. Qed.

(* the hypotheses hold of a concrete program (nodes, edges, node and edge attributes, a mutable local, a stdlib
   call, a shorthand, for, if, scan, print, a list comprehension: Proofs/SLExample.v) on which both runs are Ok
   with the same five-node graph *)
Example strict_lazy_same_graph_nonvacuous :
  (forall f, ex_okfn f -> pure_fn (the_call k7_tree []) f) /\
  file_ok ex_okfn ex_file (f_stanzas ex_file) ex_matches /\
  graph_of (run_strict k7_tree ex_file config0 [[]] None ex_regexes rx_captures (the_call k7_tree []) default_fuel ex_matches []) = Ok ex_graph /\
  lgraph_of (run_lazy k7_tree ex_file config0 [[]] None ex_regexes rx_captures (the_call k7_tree []) default_fuel (lmatches_of ex_matches) []) = Ok ex_graph /\
  length ex_graph = 5%nat.
Proof. split; [exact ex_pure|]. split; [exact ex_file_ok|]. split; [exact ex_strict_ok|]. split; [exact ex_lazy_ok|reflexivity]. Qed.

(* FAILURE DIRECTION, fragment v1 (no scoped variables): if strict execution FAILS with an error whose root cause does
   not depend on the evaluation order, lazy execution of the same file on the same matches never returns Ok, for any
   lazy model fuel: it fails too (or, in the model, runs out of fuel / reaches a modelled panic site — the latter is
   excluded by the no-panic theorems of Props/C05.v under their hypotheses).
   Hypotheses beyond those of strict_lazy_same_graph_partial:
   * `pure_err_fn` (Proofs/SLFailExpr.v): a called function that fails fails in the same way on every graph
     (stdlib_pure_err_partial: every stdlib function except `node`);
   * `call_graph_ext` (Proofs/SLFailGraph.v): EVERY function only extends the graph it is given (`graph_ext` of
     Props/C09.v; stdlib_graph_ext_partial: the whole standard library, `node` included).  Needed because lazy execution
     goes on after the point where strict execution stopped, evaluating values the fragment says nothing about;
   * `order_independent_error e` (Proofs/SLFailGraph.v): the root cause of e is neither UndefinedEdge nor Cancelled.
     UndefinedEdge IS order dependent: `attr (a -> b) k = 1  edge a -> b` fails strictly and succeeds lazily, because
     lazy evaluation inserts all edges before all attributes (strict_fail_lazy_ok_undefined_edge below).  Cancelled
     cannot come from the interpreter when there is no cancellation budget (only from a supplied function).
   Covered: wrong value types in eager positions (conditions, scan subjects, loop lists) and in deferred positions
   (edge endpoints, attribute targets), conflicting attributes on nodes and edges, duplicate / immutable /
   undefined local variables, failing or unknown functions (also inside a value that nothing reads: all thunks are
   forced at the end of the run), regex captures out of range, empty regex matches in `scan`. *)
Theorem strict_fail_lazy_fail_partial :
  forall {rx : Type} t fl supplied (regexes : list rx) find call (okfn : ident -> Prop) fuel ms g0 e,
  (forall f, okfn f -> pure_fn call f) ->
  (forall f, okfn f -> pure_err_fn call f) ->
  call_graph_ext call ->
  file_ok okfn fl (f_stanzas fl) ms ->
  run_strict t fl config0 supplied None regexes find call fuel ms g0 = Err e ->
  order_independent_error e ->
  forall lfuel,
    match run_lazy t fl config0 supplied None regexes find call lfuel (lmatches_of ms) g0 with
    | Ok _ => False
    | Err _ | Panic _ | OutOfFuel => True
    end.
Proof. exact @strict_fail_lazy_fail_lemma. Qed.

(* ... with, in addition, the hypotheses of the no-panic theorem of the lazy interpreter (lazy_exec_no_panic, Props/C05.v)
   lazy execution FAILS (returns Err), unless the model runs out of fuel.  (A sharper "from some fuel on the lazy run
   IS Err" is FALSE of the model: after the point where strict execution stopped, lazy execution keeps executing the
   statements the strict run never reached, and these need not terminate — strict_fail_lazy_diverges_k2 below: a
   recursive attribute shorthand, known finding K2, makes the model run out of EVERY fuel; the implementation
   overflows its stack.) *)
Theorem strict_fail_lazy_err_partial :
  forall {rx : Type} (sok : N -> Prop) t fl supplied (regexes : list rx) find call (okfn : ident -> Prop) fuel ms g0 e,
  (forall f, okfn f -> pure_fn call f) ->
  (forall f, okfn f -> pure_err_fn call f) ->
  call_graph_ext call ->
  file_ok okfn fl (f_stanzas fl) ms ->
  WellFormedFile regexes fl -> GoodMatchesLazy sok fl (lmatches_of ms) -> GoodGlobals sok g0 supplied -> GoodCall sok call ->
  run_strict t fl config0 supplied None regexes find call fuel ms g0 = Err e ->
  order_independent_error e ->
  forall lfuel,
    match run_lazy t fl config0 supplied None regexes find call lfuel (lmatches_of ms) g0 with
    | Err _ | OutOfFuel => True
    | Ok _ | Panic _ => False
    end.
Proof. exact @strict_fail_lazy_err_lemma. Qed.

(* the two extra hypotheses on functions hold of the standard library *)
Theorem stdlib_pure_err_partial : forall rxo t f, fn_of_name f <> Some FNode -> pure_err_fn (stdlib_call rxo t) f.
Proof. exact stdlib_pure_err_fn. Qed.
Theorem stdlib_graph_ext_partial : forall rxo t, call_graph_ext (stdlib_call rxo t).
Proof. exact stdlib_call_graph_ext. Qed.

(* the hypotheses hold of concrete programs (Proofs/SLFailExample.v) on which strict execution returns Err and lazy
   execution returns Err with the same root cause:
   (i) a type error in a deferred position, `node n  edge n -> "s"`; (ii) a conflicting attribute,
   `node n  attr (n) k = 1  attr (n) k = 2`; (iii) an eager failure, `if (not 3) { node n }`;
   (iv) a failing value that nothing reads, `let x = (plus "a" 1)  node n` *)
Example strict_fail_lazy_fail_nonvacuous :
  (forall f, fe_okfn f -> pure_fn fe_call f) /\ (forall f, fe_okfn f -> pure_err_fn fe_call f) /\ call_graph_ext fe_call /\
  (file_ok fe_okfn fe1_file (f_stanzas fe1_file) ex_matches /\
   err_cause (fe_strict fe1_file) = Some EExpectedGraphNode /\ err_cause (fe_lazy fe1_file) = Some EExpectedGraphNode) /\
  (file_ok fe_okfn fe2_file (f_stanzas fe2_file) ex_matches /\
   err_cause (fe_strict fe2_file) = Some EDuplicateAttribute /\ err_cause (fe_lazy fe2_file) = Some EDuplicateAttribute) /\
  (file_ok fe_okfn fe3_file (f_stanzas fe3_file) ex_matches /\
   err_cause (fe_strict fe3_file) = Some EExpectedBoolean /\ err_cause (fe_lazy fe3_file) = Some EExpectedBoolean) /\
  (file_ok fe_okfn fe4_file (f_stanzas fe4_file) ex_matches /\
   err_cause (fe_strict fe4_file) = Some EExpectedInteger /\ err_cause (fe_lazy fe4_file) = Some EExpectedInteger).
Proof.
  split; [exact fe_pure|]. split; [exact fe_pure_err|]. split; [exact fe_graph_ext|].
  split; [split; [exact fe1_file_ok|split; [exact fe1_strict|exact fe1_lazy]]|].
  split; [split; [exact fe2_file_ok|split; [exact fe2_strict|exact fe2_lazy]]|].
  split; [split; [exact fe3_file_ok|split; [exact fe3_strict|exact fe3_lazy]]|].
  split; [exact fe4_file_ok|split; [exact fe4_strict|exact fe4_lazy]].
Qed.

(* the excluded error kind is order dependent: a program of the fragment on which strict execution fails with
   UndefinedEdge and lazy execution succeeds (`node a  node b  attr (a -> b) k = 1  edge a -> b`) *)
Example strict_fail_lazy_ok_undefined_edge :
  file_ok fe_okfn fe5_file (f_stanzas fe5_file) ex_matches /\
  err_cause (fe_strict fe5_file) = Some EUndefinedEdge /\
  exists g, lgraph_of (fe_lazy fe5_file) = Ok g /\ length g = 2%nat.
Proof. split; [exact fe5_file_ok|]. split; [exact fe5_strict|]. eexists. split; [exact fe5_lazy|reflexivity]. Qed.

(* "lazy execution returns Err" cannot be concluded without a termination hypothesis: a program of the fragment
   (`attribute a = x => a = x` and `let y = (plus "a" 1)  node n  attr (n) a = 1`) on which strict execution fails at the
   first statement while lazy execution goes on to the recursive shorthand (K2) and runs out of every fuel *)
Example strict_fail_lazy_diverges_k2 :
  file_ok fe_okfn fe6_file (f_stanzas fe6_file) ex_matches /\
  err_cause (fe_strict fe6_file) = Some EExpectedInteger /\
  forall lfuel, run_lazy k7_tree fe6_file config0 [[]] None ([] : list regex) rx_captures fe_call lfuel (lmatches_of ex_matches) [] = OutOfFuel.
Proof. split; [exact fe6_file_ok|]. split; [exact fe6_strict|exact fe6_lazy_diverges]. Qed.

(* the hypotheses of strict_fail_lazy_err_partial are satisfiable together (program (i)) *)
Example strict_fail_lazy_err_nonvacuous :
  WellFormedFile ([] : list regex) fe1_file /\ GoodMatchesLazy (syn_ok k7_tree) fe1_file (lmatches_of ex_matches) /\
  GoodGlobals (syn_ok k7_tree) [] [[]] /\ GoodCall (syn_ok k7_tree) fe_call.
Proof. exact fe1_nopanic_hyps. Qed.

(* KNOWN FINDING K7: the full statement `strict_lazy_agree` is FALSE of the faithful model (and of the
   implementation: the witness is replayed on it by `tsgv known K7`).  A file with no inherited and no
   mutable scoped variables, no shorthands and no node rendering, on which strict execution returns a graph
   and lazy execution fails with RecursivelyDefinedScopedVariable: the scope expression of one definition
   of `a` reads `b` and the scope expression of the definition of `b` reads `a` (Proofs/K7.v). *)
Theorem strict_lazy_agree_refuted_k7 : exists t fl smatches lmatches g,
  f_inherited fl = [] /\ f_shorthands fl = [] /\
  graph_of (run_strict t fl config0 [[]] None [] rx_captures (the_call t []) default_fuel smatches []) = Ok g /\
  exists e, run_lazy t fl config0 [[]] None [] rx_captures (the_call t []) default_fuel lmatches [] = Err e /\
            root_cause e = ERecursivelyDefinedScopedVariable.
Proof.
  exists k7_tree, k7_file, k7_smatches, k7_lmatches. eexists. split; [reflexivity|]. split; [reflexivity|].
  split; [exact k7_strict_ok|exact k7_lazy_fails].
Qed.

(* ================= ARBITRARY INTERLEAVING OF THE MATCHES (composition with Props/C08.v; Proofs/SLAny.v) =================
   ms' is ANY list of (stanza index, match) blocks that is a permutation of the strict order `lmatches_of ms` — in particular the order in which
   tree-sitter reports the matches of the merged query, which is what the lazy interpreter executes.  `graph_iso r g g'` (Proofs/BlockPermGraph.v):
   equal sizes, node i of g corresponds to node r i of g', attribute maps equal as maps after renaming the node references inside values, edge
   vectors hold the renamed sinks with equal attribute maps. *)

(* bridges between the hypotheses of the two families *)
Theorem file_ok_blocks_ok_partial : forall (okfn : ident -> Prop) fl ms, file_ok okfn fl (f_stanzas fl) ms -> Forall (pm_ok fl okfn) (lmatches_of ms).
Proof. exact file_ok_pm_ok. Qed.
Theorem call_ok_pure_partial : forall call f, call_ok call f -> pure_fn call f /\ pure_err_fn call f.
Proof. intros call f H. split; [apply call_ok_pure_fn, H|apply call_ok_pure_err_fn, H]. Qed.

(* the intersection fragment with scoped variables can be checked stanza by stanza, match by match (`file_ok_any2`: every match of every stanza satisfies
   `match_ok2` of C02 v2 AND `block_ok2` of C08 step 4); it gives the two hypotheses of strict_lazy_iso_any_order_scoped_partial *)
Theorem file_ok_any2_intersection_partial : forall (okfn : ident -> Prop) (purev : ident -> bool) fl ms,
  file_ok_any2 okfn purev fl (f_stanzas fl) ms -> file_ok2 okfn purev fl (f_stanzas fl) ms /\ Forall (pm_ok2 fl okfn) (lmatches_of ms).
Proof. exact file_ok_any2_split. Qed.

(* fragment v1: strict success => for every order of the blocks the lazy run succeeds from some fuel on, with a graph isomorphic to the strict one *)
Theorem strict_lazy_iso_any_order_partial :
  forall (rx : Type) t fl supplied (regexes : list rx) find call (okfn : ident -> Prop),
  (forall f, okfn f -> call_ok call f) ->
  forall g0 : graph, gclosed (N.of_nat (length g0)) g0 ->
  (forall glob, check_globals (f_globals fl) (globals_nested supplied) = Ok glob ->
     forall name v, globals_get glob name = Some v -> vall (fun i => i < N.of_nat (length g0)) v) ->
  forall fuel ms s p (ms' : list (N * qmatch)),
  file_ok okfn fl (f_stanzas fl) ms ->
  run_strict t fl config0 supplied None regexes find call fuel ms g0 = Ok (s, p) ->
  Permutation (lmatches_of ms) ms' ->
  exists r r', (forall i, r' (r i) = i) /\ (forall i, r (r' i) = i) /\ (forall i, i < N.of_nat (length g0) -> r i = i) /\
    exists lfuel0, forall lfuel, (lfuel0 <= lfuel)%nat -> exists ls pl,
      run_lazy t fl config0 supplied None regexes find call lfuel ms' g0 = Ok (ls, pl) /\ graph_iso r (s_graph s) (l_graph ls).
Proof. exact @strict_lazy_iso_any_order_lemma. Qed.
(* ... and at EVERY lazy fuel: no error, no panic; unless the model runs out of fuel, a graph isomorphic to the strict one (one bijection for all fuels) *)
Theorem strict_lazy_iso_any_order_every_fuel_partial :
  forall (rx : Type) t fl supplied (regexes : list rx) find call (okfn : ident -> Prop),
  (forall f, okfn f -> call_ok call f) ->
  forall g0 : graph, gclosed (N.of_nat (length g0)) g0 ->
  (forall glob, check_globals (f_globals fl) (globals_nested supplied) = Ok glob ->
     forall name v, globals_get glob name = Some v -> vall (fun i => i < N.of_nat (length g0)) v) ->
  forall fuel ms s p (ms' : list (N * qmatch)),
  file_ok okfn fl (f_stanzas fl) ms ->
  run_strict t fl config0 supplied None regexes find call fuel ms g0 = Ok (s, p) ->
  Permutation (lmatches_of ms) ms' ->
  exists r r', (forall i, r' (r i) = i) /\ (forall i, r (r' i) = i) /\ (forall i, i < N.of_nat (length g0) -> r i = i) /\
    forall lfuel, match run_lazy t fl config0 supplied None regexes find call lfuel ms' g0 with
                  | Ok (ls, _) => graph_iso r (s_graph s) (l_graph ls)
                  | OutOfFuel => True
                  | Err _ | Panic _ => False
                  end.
Proof. exact @strict_lazy_iso_any_order_every_fuel_lemma. Qed.

(* WITH scoped variables: the intersection of fragment v2 (`file_ok2`, strict_lazy_adequate_scoped_partial) and of the scoped fragment of C08 (`pm_ok2`,
   lazy_block_order_iso_scoped_partial), as the conjunction of the two predicates on the same file and matches.  Strict execution succeeds only if every
   definition ran before its readers; the lazy run may execute a reader's block BEFORE the definer's block (strict_lazy_iso_any_order_nonvacuous). *)
Theorem strict_lazy_iso_any_order_scoped_partial :
  forall (rx : Type) t fl supplied (regexes : list rx) find call (okfn : ident -> Prop),
  (forall f, okfn f -> call_ok call f) ->
  forall g0 : graph, gclosed (N.of_nat (length g0)) g0 ->
  (forall glob, check_globals (f_globals fl) (globals_nested supplied) = Ok glob ->
     forall name v, globals_get glob name = Some v -> vall (fun i => i < N.of_nat (length g0)) v) ->
  forall (purev : ident -> bool) fuel ms s p (ms' : list (N * qmatch)),
  file_ok2 okfn purev fl (f_stanzas fl) ms ->
  Forall (pm_ok2 fl okfn) (lmatches_of ms) ->
  run_strict t fl config0 supplied None regexes find call fuel ms g0 = Ok (s, p) ->
  inh_antichain t fl (s_scoped s) ->
  Permutation (lmatches_of ms) ms' ->
  exists r r', (forall i, r' (r i) = i) /\ (forall i, r (r' i) = i) /\ (forall i, i < N.of_nat (length g0) -> r i = i) /\
    exists lfuel0, forall lfuel, (lfuel0 <= lfuel)%nat -> exists ls pl,
      run_lazy t fl config0 supplied None regexes find call lfuel ms' g0 = Ok (ls, pl) /\ graph_iso r (s_graph s) (l_graph ls).
Proof. exact @strict_lazy_iso_any_order_scoped_lemma. Qed.
Theorem strict_lazy_iso_any_order_scoped_every_fuel_partial :
  forall (rx : Type) t fl supplied (regexes : list rx) find call (okfn : ident -> Prop),
  (forall f, okfn f -> call_ok call f) ->
  forall g0 : graph, gclosed (N.of_nat (length g0)) g0 ->
  (forall glob, check_globals (f_globals fl) (globals_nested supplied) = Ok glob ->
     forall name v, globals_get glob name = Some v -> vall (fun i => i < N.of_nat (length g0)) v) ->
  forall (purev : ident -> bool) fuel ms s p (ms' : list (N * qmatch)),
  file_ok2 okfn purev fl (f_stanzas fl) ms ->
  Forall (pm_ok2 fl okfn) (lmatches_of ms) ->
  run_strict t fl config0 supplied None regexes find call fuel ms g0 = Ok (s, p) ->
  inh_antichain t fl (s_scoped s) ->
  Permutation (lmatches_of ms) ms' ->
  exists r r', (forall i, r' (r i) = i) /\ (forall i, r (r' i) = i) /\ (forall i, i < N.of_nat (length g0) -> r i = i) /\
    forall lfuel, match run_lazy t fl config0 supplied None regexes find call lfuel ms' g0 with
                  | Ok (ls, _) => graph_iso r (s_graph s) (l_graph ls)
                  | OutOfFuel => True
                  | Err _ | Panic _ => False
                  end.
Proof. exact @strict_lazy_iso_any_order_scoped_every_fuel_lemma. Qed.

(* FAILURE DIRECTION for every order, fragment v1: strict fails with an order-independent error => the lazy run on ANY permutation of the blocks returns Ok at no
   fuel.  (Composed through the success direction of C08 read backwards — a success on ms' would give a success on the strict order from some fuel on;
   lazy_block_order_fail_partial needs a fuel at which the strict-order lazy run is not OutOfFuel, and there need not be one: strict_fail_lazy_diverges_k2.) *)
Theorem strict_fail_lazy_fail_any_order_partial :
  forall (rx : Type) t fl supplied (regexes : list rx) find call (okfn : ident -> Prop),
  (forall f, okfn f -> call_ok call f) ->
  forall g0 : graph, gclosed (N.of_nat (length g0)) g0 ->
  (forall glob, check_globals (f_globals fl) (globals_nested supplied) = Ok glob ->
     forall name v, globals_get glob name = Some v -> vall (fun i => i < N.of_nat (length g0)) v) ->
  forall fuel ms e (ms' : list (N * qmatch)),
  call_graph_ext call ->
  file_ok okfn fl (f_stanzas fl) ms ->
  run_strict t fl config0 supplied None regexes find call fuel ms g0 = Err e ->
  order_independent_error e ->
  Permutation (lmatches_of ms) ms' ->
  forall lfuel,
    match run_lazy t fl config0 supplied None regexes find call lfuel ms' g0 with
    | Ok _ => False
    | Err _ | Panic _ | OutOfFuel => True
    end.
Proof. exact @strict_fail_lazy_fail_any_order_lemma. Qed.
(* ... with the hypotheses of lazy_exec_no_panic (stated on the strict order; they are invariant under permutation): the lazy run IS Err unless the model runs out of fuel *)
Theorem strict_fail_lazy_err_any_order_partial :
  forall (rx : Type) t fl supplied (regexes : list rx) find call (okfn : ident -> Prop),
  (forall f, okfn f -> call_ok call f) ->
  forall g0 : graph, gclosed (N.of_nat (length g0)) g0 ->
  (forall glob, check_globals (f_globals fl) (globals_nested supplied) = Ok glob ->
     forall name v, globals_get glob name = Some v -> vall (fun i => i < N.of_nat (length g0)) v) ->
  forall (sok : N -> Prop) fuel ms e (ms' : list (N * qmatch)),
  call_graph_ext call ->
  file_ok okfn fl (f_stanzas fl) ms ->
  WellFormedFile regexes fl -> GoodMatchesLazy sok fl (lmatches_of ms) -> GoodGlobals sok g0 supplied -> GoodCall sok call ->
  run_strict t fl config0 supplied None regexes find call fuel ms g0 = Err e ->
  order_independent_error e ->
  Permutation (lmatches_of ms) ms' ->
  forall lfuel,
    match run_lazy t fl config0 supplied None regexes find call lfuel ms' g0 with
    | Err _ | OutOfFuel => True
    | Ok _ | Panic _ => False
    end.
Proof. exact @strict_fail_lazy_err_any_order_lemma. Qed.

(* THE DRIVER OF THE CORRESPONDENCE HARNESS.  `run_one t cfg budget r g0` (Model/Run.v) is the function the streams evaluate (both_verdict, c15_verdict0, ..):
   with ri_lazy = false it is run_strict on the per-stanza raw matches ri_smatches, with ri_lazy = true it is run_lazy on the raw matches of the merged query
   ri_lmatches, both at default_fuel with the regex model and the stdlib model (`the_call`).  Under A3 (the merged matches are a permutation of the per-stanza
   matches) and on the fragments: if the strict run of a case returns a graph, the lazy run of the SAME case returns an isomorphic graph, unless the model runs
   out of its default fuel (verdict code 7, reported by the harness); it never returns an error or a panic. *)
Theorem strict_lazy_iso_run_one_partial :
  forall t (r : run_in) (okfn : ident -> Prop) (g0 : graph),
  (forall f, okfn f -> call_ok (the_call t (ri_tbl r)) f) ->
  gclosed (N.of_nat (length g0)) g0 ->
  (forall glob, check_globals (f_globals (ri_file r)) (globals_nested (ri_supplied r)) = Ok glob ->
     forall name v, globals_get glob name = Some v -> vall (fun i => i < N.of_nat (length g0)) v) ->
  Permutation (lmatches_of (ri_smatches r)) (ri_lmatches r) ->
  forall g p,
  file_ok okfn (ri_file r) (f_stanzas (ri_file r)) (ri_smatches r) ->
  run_one t config0 None (with_lazy r false) g0 = Ok (g, p) ->
  exists rn rn', (forall i, rn' (rn i) = i) /\ (forall i, rn (rn' i) = i) /\ (forall i, i < N.of_nat (length g0) -> rn i = i) /\
    match run_one t config0 None (with_lazy r true) g0 with
    | Ok (g', _) => graph_iso rn g g'
    | OutOfFuel => True
    | Err _ | Panic _ => False
    end.
Proof. exact strict_lazy_iso_run_one_lemma. Qed.
Theorem strict_lazy_iso_run_one_scoped_partial :
  forall t (r : run_in) (okfn : ident -> Prop) (g0 : graph),
  (forall f, okfn f -> call_ok (the_call t (ri_tbl r)) f) ->
  gclosed (N.of_nat (length g0)) g0 ->
  (forall glob, check_globals (f_globals (ri_file r)) (globals_nested (ri_supplied r)) = Ok glob ->
     forall name v, globals_get glob name = Some v -> vall (fun i => i < N.of_nat (length g0)) v) ->
  Permutation (lmatches_of (ri_smatches r)) (ri_lmatches r) ->
  forall (purev : ident -> bool) g p,
  file_ok2 okfn purev (ri_file r) (f_stanzas (ri_file r)) (ri_smatches r) ->
  Forall (pm_ok2 (ri_file r) okfn) (lmatches_of (ri_smatches r)) ->
  (forall s p', run_strict t (ri_file r) config0 (ri_supplied r) None (ri_rxs r) rx_captures (the_call t (ri_tbl r)) default_fuel (ri_smatches r) g0 = Ok (s, p') ->
                inh_antichain t (ri_file r) (s_scoped s)) ->
  run_one t config0 None (with_lazy r false) g0 = Ok (g, p) ->
  exists rn rn', (forall i, rn' (rn i) = i) /\ (forall i, rn (rn' i) = i) /\ (forall i, i < N.of_nat (length g0) -> rn i = i) /\
    match run_one t config0 None (with_lazy r true) g0 with
    | Ok (g', _) => graph_iso rn g g'
    | OutOfFuel => True
    | Err _ | Panic _ => False
    end.
Proof. exact strict_lazy_iso_run_one_scoped_lemma. Qed.
Theorem strict_fail_lazy_fail_run_one_partial :
  forall t (r : run_in) (okfn : ident -> Prop) (g0 : graph),
  (forall f, okfn f -> call_ok (the_call t (ri_tbl r)) f) ->
  gclosed (N.of_nat (length g0)) g0 ->
  (forall glob, check_globals (f_globals (ri_file r)) (globals_nested (ri_supplied r)) = Ok glob ->
     forall name v, globals_get glob name = Some v -> vall (fun i => i < N.of_nat (length g0)) v) ->
  Permutation (lmatches_of (ri_smatches r)) (ri_lmatches r) ->
  forall e,
  call_graph_ext (the_call t (ri_tbl r)) ->
  file_ok okfn (ri_file r) (f_stanzas (ri_file r)) (ri_smatches r) ->
  run_one t config0 None (with_lazy r false) g0 = Err e ->
  order_independent_error e ->
  match run_one t config0 None (with_lazy r true) g0 with
  | Ok _ => False
  | Err _ | Panic _ | OutOfFuel => True
  end.
Proof. exact strict_fail_lazy_fail_run_one_lemma. Qed.

(* non-vacuity (Proofs/SLAnyExample.v; tree "p\nq\nr\n", two stanzas with THREE matches each; ay_ms' interleaves the blocks, a reader first):
     ay2:  (identifier) @x                            { node @x.n  attr (@x.n) k = (plus 1 2)  edge @x.n -> @x.n }
           (expression_statement (identifier) @x) @s  { node m  edge m -> @x.n  attr (m -> @x.n) w = 7  attr (@x.n -> @x.n) l = #true  attr (m) c = @x.n  print @x.n }
   the first stanza DEFINES @x.n and creates a loop edge, the second READS @x.n and attributes the other stanza's edge.  All hypotheses of
   strict_lazy_iso_any_order_scoped_partial hold; strict and lazy (interleaved) both succeed, with DIFFERENT graphs that are isomorphic under ay2_r (computed), and
   the theorem gives such an isomorphism for every fuel.  ay1: the same without scoped variables (fragment v1).  ay3: the failure direction (DuplicateAttribute). *)
Example strict_lazy_iso_any_order_nonvacuous :
  (forall f, c8_okfn f -> call_ok c8_call f) /\ Permutation (lmatches_of ay_ms) ay_ms' /\ lmatches_of ay_ms <> ay_ms' /\
  (* ay2, scoped *)
  file_ok_any2 c8_okfn (fun _ => false) ay2_file (f_stanzas ay2_file) ay_ms /\
  file_ok2 c8_okfn (fun _ => false) ay2_file (f_stanzas ay2_file) ay_ms /\ Forall (pm_ok2 ay2_file c8_okfn) (lmatches_of ay_ms) /\
  graph_of (run_strict k7_tree ay2_file config0 [[]] None ([] : list regex) rx_captures c8_call default_fuel ay_ms []) = Ok ay2_gs /\
  lgraph_of (run_lazy k7_tree ay2_file config0 [[]] None ([] : list regex) rx_captures c8_call default_fuel ay_ms' []) = Ok ay2_gl /\
  ay2_gs <> ay2_gl /\ graph_iso ay2_r ay2_gs ay2_gl /\ length ay2_gs = 6%nat /\
  (exists r r', (forall i, r' (r i) = i) /\ (forall i, r (r' i) = i) /\
     forall lfuel, match run_lazy k7_tree ay2_file config0 [[]] None ([] : list regex) rx_captures c8_call lfuel ay_ms' [] with
                   | Ok (ls, _) => graph_iso r ay2_gs (l_graph ls) | OutOfFuel => True | Err _ | Panic _ => False end) /\
  (* ay1, fragment v1 *)
  file_ok c8_okfn ay1_file (f_stanzas ay1_file) ay_ms /\
  graph_of (run_strict k7_tree ay1_file config0 [[]] None ([] : list regex) rx_captures c8_call default_fuel ay_ms []) = Ok ay1_gs /\
  lgraph_of (run_lazy k7_tree ay1_file config0 [[]] None ([] : list regex) rx_captures c8_call default_fuel ay_ms' []) = Ok ay1_gl /\
  ay1_gs <> ay1_gl /\ length ay1_gs = 9%nat /\
  (exists r r', (forall i, r' (r i) = i) /\ (forall i, r (r' i) = i) /\
     forall lfuel, match run_lazy k7_tree ay1_file config0 [[]] None ([] : list regex) rx_captures c8_call lfuel ay_ms' [] with
                   | Ok (ls, _) => graph_iso r ay1_gs (l_graph ls) | OutOfFuel => True | Err _ | Panic _ => False end).
Proof.
  split; [exact c8_call_ok|]. split; [exact ay_perm|]. split; [discriminate|].
    split; [exact ay2_file_ok_any|]. split; [exact ay2_file_ok|]. split; [exact ay2_blocks_ok|]. split; [exact ay2_strict_graph|]. split; [exact ay2_lazy|]. split; [exact ay2_differ|].
  split; [exact ay2_iso|]. split; [reflexivity|]. split; [exact ay2_theorem_applies|].
  split; [exact ay1_file_ok|]. split; [exact ay1_strict|]. split; [exact ay1_lazy|]. split; [exact ay1_differ|]. split; [reflexivity|exact ay1_theorem_applies].
Qed.
(* the failure direction applies: strict fails with DuplicateAttribute in the second stanza; the interleaved lazy run fails with the same cause, and the theorem excludes
   success at every fuel *)
Example strict_fail_lazy_fail_any_order_nonvacuous :
  call_graph_ext c8_call /\ file_ok c8_okfn ay3_file (f_stanzas ay3_file) ay_ms /\
  (exists e, run_strict k7_tree ay3_file config0 [[]] None ([] : list regex) rx_captures c8_call default_fuel ay_ms [] = Err e /\
             root_cause e = EDuplicateAttribute /\ order_independent_error e) /\
  err_cause (run_lazy k7_tree ay3_file config0 [[]] None ([] : list regex) rx_captures c8_call default_fuel ay_ms' []) = Some EDuplicateAttribute /\
  (forall lfuel, match run_lazy k7_tree ay3_file config0 [[]] None ([] : list regex) rx_captures c8_call lfuel ay_ms' [] with
                 | Ok _ => False | Err _ | Panic _ | OutOfFuel => True end).
Proof. split; [exact ay_graph_ext|]. split; [exact ay3_file_ok|]. split; [exact ay3_strict|]. split; [exact ay3_lazy|exact ay3_theorem_applies]. Qed.
(* the run_one form on the case record of ay2: strict (ri_smatches) and lazy (ri_lmatches, interleaved) through the harness driver *)
Example strict_lazy_iso_run_one_nonvacuous :
  Permutation (lmatches_of (ri_smatches ay2_run)) (ri_lmatches ay2_run) /\
  drop_polls (run_one k7_tree config0 None (with_lazy ay2_run false) []) = Ok ay2_gs /\
  drop_polls (run_one k7_tree config0 None (with_lazy ay2_run true) []) = Ok ay2_gl.
Proof. split; [exact ay_perm|exact ay2_run_one]. Qed.

Example c02_nonvacuous : nth_error [[97]; [98]] (N.to_nat 1) = Some [98] /\ nth_error [[97]; [98]] (N.to_nat 5) = None.
Proof. split; reflexivity. Qed.

(* ---------------- the purity hypotheses of version 2 derived from the checker (C06) ----------------
   `file_ok2_ns` (Proofs/LocalFrag2.v) is `file_ok2` WITHOUT the purity demands on eager positions and on the values of
   unscoped variables ((b) of the header): what stays is called functions, capture indices, no `var`/`set` of scoped
   variables, restriction (c) on the scope expressions of DEFINITIONS (not a rule of the checker), the shorthand clause.
   The dropped demands follow from `check_file q f = CkOk fl` (Props/C06.v, checked_eager_positions_local) when the
   name-based declaration `purev` coincides with the checker's locality bits — `pv_file purev fl`, an executable check
   (Model/Locality.v): purev is true of every global, `node`, loop and comprehension variable, false of every `var`,
   and at every `let x = e` it equals the checker's verdict on e; i.e. the file uses every name consistently. *)
From TSG Require Import Model.Checker Model.Locality Proofs.LocalFrag Proofs.LocalFrag2.

Theorem eager_ok_file_in_fragment2 : forall okfn purev fl ms,
  file_eok fl = true -> pv_file purev fl = true ->
  file_ok2_ns okfn purev fl (f_stanzas fl) ms -> file_ok2 okfn purev fl (f_stanzas fl) ms.
Proof. intros okfn purev fl ms Hf Hp. apply file_eok_file_ok2; auto. Qed.
Theorem checked_file_in_fragment2 : forall q f fl okfn purev ms,
  check_file q f = CkOk fl -> pv_file purev fl = true ->
  file_ok2_ns okfn purev fl (f_stanzas fl) ms -> file_ok2 okfn purev fl (f_stanzas fl) ms.
Proof. exact checked_file_ok2. Qed.

Theorem strict_lazy_same_graph_scoped_checked_partial :
  forall {rx : Type} t q f fl supplied (regexes : list rx) find call (okfn : ident -> Prop) (purev : ident -> bool) fuel ms g0 s p,
  check_file q f = CkOk fl -> pv_file purev fl = true ->
  (forall f, okfn f -> pure_fn call f) ->
  file_ok2_ns okfn purev fl (f_stanzas fl) ms ->
  run_strict t fl config0 supplied None regexes find call fuel ms g0 = Ok (s, p) ->
  inh_antichain t fl (s_scoped s) ->
  forall lfuel,
    match run_lazy t fl config0 supplied None regexes find call lfuel (lmatches_of ms) g0 with
    | Ok (ls, _) => l_graph ls = s_graph s
    | OutOfFuel => True
    | Err _ | Panic _ => False
    end.
Proof.
  intros rx t q f fl supplied regexes find call okfn purev fuel ms g0 s p Hck Hpv Hpure Hok.
  exact (strict_lazy_same_graph_scoped_partial t fl supplied regexes find call okfn purev fuel ms g0 s p Hpure
           (checked_file_ok2 q f fl okfn purev ms Hck Hpv Hok)).
Qed.
Theorem strict_lazy_adequate_scoped_checked_partial :
  forall {rx : Type} t q f fl supplied (regexes : list rx) find call (okfn : ident -> Prop) (purev : ident -> bool) fuel ms g0 s p,
  check_file q f = CkOk fl -> pv_file purev fl = true ->
  (forall f, okfn f -> pure_fn call f) ->
  file_ok2_ns okfn purev fl (f_stanzas fl) ms ->
  run_strict t fl config0 supplied None regexes find call fuel ms g0 = Ok (s, p) ->
  inh_antichain t fl (s_scoped s) ->
  exists lfuel0, forall lfuel, (lfuel0 <= lfuel)%nat ->
    exists ls pl, run_lazy t fl config0 supplied None regexes find call lfuel (lmatches_of ms) g0 = Ok (ls, pl) /\ l_graph ls = s_graph s.
Proof.
  intros rx t q f fl supplied regexes find call okfn purev fuel ms g0 s p Hck Hpv Hpure Hok.
  exact (strict_lazy_adequate_scoped_partial t fl supplied regexes find call okfn purev fuel ms g0 s p Hpure
           (checked_file_ok2 q f fl okfn purev ms Hck Hpv Hok)).
Qed.

(* non-vacuity on the program of strict_lazy_same_graph_scoped_nonvacuous: its eager positions are eager_ok, its purity
   declaration (q pure: `let q = @x  if some q`; p not: `let p = @x.n`) coincides with the bits, and the fragment
   predicate is obtained from the weakened one *)
Example strict_lazy_fragment2_derived :
  file_eok ex2_file = true /\ pv_file ex2_purev ex2_file = true /\
  file_ok2_ns ex2_okfn ex2_purev ex2_file (f_stanzas ex2_file) ex2_matches /\
  file_ok2 ex2_okfn ex2_purev ex2_file (f_stanzas ex2_file) ex2_matches.
Proof.
  assert (H1 : file_eok ex2_file = true) by (vm_compute; reflexivity).
  assert (H2 : pv_file ex2_purev ex2_file = true) by (vm_compute; reflexivity).
  assert (H3 : file_ok2_ns ex2_okfn ex2_purev ex2_file (f_stanzas ex2_file) ex2_matches).
  { cbn [file_ok2_ns ex2_file f_stanzas ex2_matches]. repeat split; repeat constructor; unfold match_ok2_ns; cbn;
      repeat split; try reflexivity; try discriminate; try (intros; discriminate); constructor. }
  split; [exact H1|]. split; [exact H2|]. split; [exact H3|]. exact (eager_ok_file_in_fragment2 _ _ _ _ H1 H2 H3).
Qed.
(* the purity declaration must agree with the bits: declaring p (bound to a scoped read) pure is refused *)
Example strict_lazy_bad_purev_refused : pv_file (fun x => str_eqb x [112]) ex2_file = false.
Proof. vm_compute. reflexivity. Qed.

(* ================= FAILURE DIRECTION WITH SCOPED VARIABLES (fragment v2; Proofs/SLF2*.v) =================
   If strict execution of a file of fragment v2 (`file_ok2`: immutable scoped definitions with pure scope expressions, scoped reads in
   deferred positions, pure eager positions) returns `Err e` with `order_independent_error2 e`, lazy execution of the same file on the
   same matches (strict order) returns Ok at NO fuel.
   * `order_independent_error2 e` (Proofs/SLF2Expr.v): the root cause of e is not UndefinedEdge, not Cancelled (as on fragment v1) and
     not UndefinedVariable.  The strict interpreter reports a scoped variable that has no definition YET as UndefinedVariable (the same
     constructor as for an undefined local variable — the model drops the message text); the definition may come LATER in file
     order, and then lazy execution succeeds: ORDER DEPENDENT (strict_fail_lazy_ok_undefined_scoped_refuted).  Order independent and
     covered: DuplicateVariable on a scoped variable (the second definition of a (node, name): the lazy cell lists the node twice and the
     final sweep over the cells fails), InvalidVariableScope (lazy: ExpectedSyntaxNode when the cell is forced), type errors, failing and
     unknown functions — also inside the VALUE of a scoped variable that nobody reads: strict evaluates the value at the definition,
     lazy stores a thunk that `evaluate_all` forces at the end —, conflicting attributes (also through scoped reads), the eager failures.
   * `inh_static t fl ms` (Proofs/SLF2File.v), the STATIC side condition on inherited names: there is a family D of syntax nodes per
     name such that every definition of an inherited name — in every statement at any depth of every stanza, executed or not — has a
     CAPTURE as scope expression whose nodes, in every supplied match of that stanza, lie in D; and no node of D name has a proper
     ancestor in D name.  Void when the file declares no inherited name (inh_static_nil_partial).  Why static, and stronger than
     `inh_antichain`: a failing strict run has no final store; after the failure point lazy execution goes on executing the statements
     strict never reached, and a definition made THERE on a nearer ancestor changes the value a read before the failure point resolves
     to — strict_fail_lazy_ok_inherited_refuted: strict fails with ExpectedGraphNode reading the root's definition, lazy succeeds because a
     later stanza defines the name on the parent; the strict store at the failure point satisfies inh_antichain.
   Proof: up to the failing strict step the success simulation of version 2 (world w) relates the runs.  After it nothing is known of
   the later thunks and of the pairs appended to the scoped CELLS; the invariant `K w` keeps the early thunks (forced to their value,
   unforced with a denoting body, or being forced) and the early prefix of every cell; forcing is PARTIALLY correct on K-states
   (`evJ`, induction on the fuel alone: if evaluating any lazy value returns Ok the state is a K-state again and a value that denotes v
   in w yields v — the total forcing lemmas are lost because forcing an early cell evaluates the scopes of later pairs); an inherited
   read resolves to the recorded definer because the keys of every forced map lie in the antichain D.  Dooms: a thunk with a bad body,
   a cell with a pair whose scope cannot evaluate to a syntax node, a world whose early definitions contain a node twice, a bad deferred
   statement, an attribute that conflicts with the replayed strict graph; every lazy computation preserves doom (statements: under the
   static condition) and the evaluation phase of a doomed state never returns Ok (the final sweeps force every thunk and every cell). *)
From TSG Require Import Proofs.SLF2Store Proofs.SLF2Expr Proofs.SLF2File Proofs.SLF2Example Proofs.SLF2Any Proofs.SLF2AnyExample Proofs.ScThExec.

Theorem strict_fail_lazy_fail_scoped_partial :
  forall {rx : Type} t fl supplied (regexes : list rx) find call (okfn : ident -> Prop) (purev : ident -> bool) fuel ms g0 e,
  (forall f, okfn f -> pure_fn call f) ->
  (forall f, okfn f -> pure_err_fn call f) ->
  call_graph_ext call ->
  file_ok2 okfn purev fl (f_stanzas fl) ms ->
  inh_static t fl ms ->
  run_strict t fl config0 supplied None regexes find call fuel ms g0 = Err e ->
  order_independent_error2 e ->
  forall lfuel,
    match run_lazy t fl config0 supplied None regexes find call lfuel (lmatches_of ms) g0 with
    | Ok _ => False
    | Err _ | Panic _ | OutOfFuel => True
    end.
Proof. exact @strict_fail_lazy_fail_scoped_lemma. Qed.

(* ... with the hypotheses of lazy_exec_no_panic (Props/C05.v): lazy execution FAILS (returns Err), unless the model runs out of fuel *)
Theorem strict_fail_lazy_err_scoped_partial :
  forall {rx : Type} (sok : N -> Prop) t fl supplied (regexes : list rx) find call (okfn : ident -> Prop) (purev : ident -> bool) fuel ms g0 e,
  (forall f, okfn f -> pure_fn call f) ->
  (forall f, okfn f -> pure_err_fn call f) ->
  call_graph_ext call ->
  file_ok2 okfn purev fl (f_stanzas fl) ms ->
  inh_static t fl ms ->
  WellFormedFile regexes fl -> GoodMatchesLazy sok fl (lmatches_of ms) -> GoodGlobals sok g0 supplied -> GoodCall sok call ->
  run_strict t fl config0 supplied None regexes find call fuel ms g0 = Err e ->
  order_independent_error2 e ->
  forall lfuel,
    match run_lazy t fl config0 supplied None regexes find call lfuel (lmatches_of ms) g0 with
    | Err _ | OutOfFuel => True
    | Ok _ | Panic _ => False
    end.
Proof. exact @strict_fail_lazy_err_scoped_lemma. Qed.

(* without inherited names the static side condition holds *)
Theorem inh_static_nil_partial : forall t fl ms, f_inherited fl = [] -> inh_static t fl ms.
Proof. exact inh_static_nil. Qed.
(* what `order_independent_error2` says *)
Theorem order_independent_error2_spec : forall e,
  order_independent_error2 e <-> match root_cause e with EUndefinedEdge | ECancelled _ | EUndefinedVariable => False | _ => True end.
Proof.
  intros e. unfold order_independent_error2, okerr2, okerr. destruct (root_cause e); intuition congruence.
Qed.

(* the eager-position purity of the fragment derived from the checker (C06), as for the success direction *)
Theorem strict_fail_lazy_fail_scoped_checked_partial :
  forall {rx : Type} t q f fl supplied (regexes : list rx) find call (okfn : ident -> Prop) (purev : ident -> bool) fuel ms g0 e,
  check_file q f = CkOk fl -> pv_file purev fl = true ->
  (forall f, okfn f -> pure_fn call f) ->
  (forall f, okfn f -> pure_err_fn call f) ->
  call_graph_ext call ->
  file_ok2_ns okfn purev fl (f_stanzas fl) ms ->
  inh_static t fl ms ->
  run_strict t fl config0 supplied None regexes find call fuel ms g0 = Err e ->
  order_independent_error2 e ->
  forall lfuel,
    match run_lazy t fl config0 supplied None regexes find call lfuel (lmatches_of ms) g0 with
    | Ok _ => False
    | Err _ | Panic _ | OutOfFuel => True
    end.
Proof.
  intros rx t q f fl supplied regexes find call okfn purev fuel ms g0 e Hck Hpv Hpure Hperr Hext Hok.
  exact (strict_fail_lazy_fail_scoped_partial t fl supplied regexes find call okfn purev fuel ms g0 e Hpure Hperr Hext
           (checked_file_ok2 q f fl okfn purev ms Hck Hpv Hok)).
Qed.

(* NON-VACUITY (Proofs/SLF2Example.v; tree "p\nq\nr\n": module 0, expression statements 1 3 5, identifiers 2 4 6).  All hypotheses hold,
   strict fails, lazy fails with the cause shown, and the theorem excludes lazy success at every fuel:
   sf1  (identifier) @x { let @x.v = (plus "a" 1)  node @x.n }: a scoped variable whose VALUE has a type error.  Strict evaluates the
        value AT THE DEFINITION and fails there (ExpectedInteger) — not at a read; lazy stores a thunk, NOBODY reads @x.v, and the final
        sweep `evaluate_all` forces the thunk: ExpectedInteger.
   sf2  (identifier) @x { node @x.n }  (expression_statement (identifier) @y) @s { node @y.n }: DuplicateVariable in both modes (lazy: when
        the final sweep forces the cell of n).
   sf3  (identifier) @x { node 3.n }: strict InvalidVariableScope, lazy ExpectedSyntaxNode (final sweep).
   sf4  (identifier) @x { let @x.v = "s" }  (expression_statement (identifier) @y) @s { node @s.st  edge @s.st -> @y.v }: a scoped read in a
        deferred position with a value of the wrong type: ExpectedGraphNode in both modes.
   sf5  inherit .v  (module) @x { let @x.v = "s" }  (identifier) @x { node @x.r  edge @x.r -> @x.v }: an INHERITED name under the static
        condition (D v = {root}); ExpectedGraphNode in both modes. *)
Example strict_fail_lazy_fail_scoped_nonvacuous :
  (forall f, fe_okfn f -> pure_fn fe_call f) /\ (forall f, fe_okfn f -> pure_err_fn fe_call f) /\ call_graph_ext fe_call /\
  (file_ok2 fe_okfn nopure sf1_file (f_stanzas sf1_file) ms1 /\ inh_static k7_tree sf1_file ms1 /\
   err_cause (sf_strict sf1_file ms1) = Some EExpectedInteger /\ err_cause (sf_lazy sf1_file ms1) = Some EExpectedInteger /\
   forall lfuel, match run_lazy k7_tree sf1_file config0 [[]] None ([] : list regex) rx_captures fe_call lfuel (lmatches_of ms1) [] with Ok _ => False | _ => True end) /\
  (file_ok2 fe_okfn nopure sf2_file (f_stanzas sf2_file) ms2 /\
   err_cause (sf_strict sf2_file ms2) = Some EDuplicateVariable /\ err_cause (sf_lazy sf2_file ms2) = Some EDuplicateVariable /\
   forall lfuel, match run_lazy k7_tree sf2_file config0 [[]] None ([] : list regex) rx_captures fe_call lfuel (lmatches_of ms2) [] with Ok _ => False | _ => True end) /\
  (file_ok2 fe_okfn nopure sf3_file (f_stanzas sf3_file) ms1 /\
   err_cause (sf_strict sf3_file ms1) = Some EInvalidVariableScope /\ err_cause (sf_lazy sf3_file ms1) = Some EExpectedSyntaxNode /\
   forall lfuel, match run_lazy k7_tree sf3_file config0 [[]] None ([] : list regex) rx_captures fe_call lfuel (lmatches_of ms1) [] with Ok _ => False | _ => True end) /\
  (file_ok2 fe_okfn nopure sf4_file (f_stanzas sf4_file) ms2 /\
   err_cause (sf_strict sf4_file ms2) = Some EExpectedGraphNode /\ err_cause (sf_lazy sf4_file ms2) = Some EExpectedGraphNode /\
   forall lfuel, match run_lazy k7_tree sf4_file config0 [[]] None ([] : list regex) rx_captures fe_call lfuel (lmatches_of ms2) [] with Ok _ => False | _ => True end) /\
  (f_inherited sf5_file <> [] /\ file_ok2 fe_okfn nopure sf5_file (f_stanzas sf5_file) ms5 /\ inh_static k7_tree sf5_file ms5 /\
   err_cause (sf_strict sf5_file ms5) = Some EExpectedGraphNode /\ err_cause (sf_lazy sf5_file ms5) = Some EExpectedGraphNode /\
   forall lfuel, match run_lazy k7_tree sf5_file config0 [[]] None ([] : list regex) rx_captures fe_call lfuel (lmatches_of ms5) [] with Ok _ => False | _ => True end).
Proof.
  split; [exact fe_pure|]. split; [exact fe_pure_err|]. split; [exact fe_graph_ext|].
  split; [split; [exact sf1_file_ok|split; [apply inh_static_nil; reflexivity|split; [exact sf1_strict|split; [exact sf1_lazy|exact sf1_applies]]]]|].
  split; [split; [exact sf2_file_ok|split; [exact sf2_strict|split; [exact sf2_lazy|exact sf2_applies]]]|].
  split; [split; [exact sf3_file_ok|split; [exact sf3_strict|split; [exact sf3_lazy|exact sf3_applies]]]|].
  split; [split; [exact sf4_file_ok|split; [exact sf4_strict|split; [exact sf4_lazy|exact sf4_applies]]]|].
  split; [discriminate|]. split; [exact sf5_file_ok|]. split; [exact sf5_static|]. split; [exact sf5_strict|]. split; [exact sf5_lazy|exact sf5_applies].
Qed.

(* WITNESS 1: the excluded error kind IS order dependent with scoped variables.  A program of fragment v2 without inherited names
     (identifier) @x { node @x.n  attr (@x.n) k = @x.late }     (expression_statement (identifier) @y) @s { let @y.late = 1 }
   strict: UndefinedVariable in the first stanza (an error that satisfies `order_independent_error` of fragment v1);
   lazy: Ok with three nodes — the definition comes later in the file *)
Example strict_fail_lazy_ok_undefined_scoped_refuted :
  file_ok2 fe_okfn nopure sr1_file (f_stanzas sr1_file) ms2 /\ inh_static k7_tree sr1_file ms2 /\
  (exists e, sf_strict sr1_file ms2 = Err e /\ root_cause e = EUndefinedVariable /\ order_independent_error e /\ ~ order_independent_error2 e) /\
  exists g, lgraph_of (sf_lazy sr1_file ms2) = Ok g /\ length g = 3%nat.
Proof.
  split; [exact sr1_file_ok|]. split; [apply inh_static_nil; reflexivity|]. split; [|exact sr1_lazy].
  eexists. split; [vm_compute; reflexivity|]. split; [reflexivity|]. split; [exact I|]. intros [_ H]. apply H. reflexivity.
Qed.

(* WITNESS 2: with inherited names the statement is FALSE without the static condition.
     inherit .v   (module) @x { let @x.v = "s" }   (identifier) @x { node @x.r  edge @x.r -> @x.v }
                  (expression_statement (identifier) @y) @s { node @s.v }
   strict: ExpectedGraphNode in the second stanza (v inherited from the root; order_independent_error2 holds); lazy: Ok with six nodes —
   the third stanza, never reached by strict, defines v on the PARENT of the identifier.  `inh_static` fails, as it must. *)
Example strict_fail_lazy_ok_inherited_refuted :
  (forall f, fe_okfn f -> pure_fn fe_call f) /\ (forall f, fe_okfn f -> pure_err_fn fe_call f) /\ call_graph_ext fe_call /\
  file_ok2 fe_okfn nopure sr2_file (f_stanzas sr2_file) ms6 /\
  (exists e, sf_strict sr2_file ms6 = Err e /\ root_cause e = EExpectedGraphNode /\ order_independent_error2 e) /\
  (exists g, lgraph_of (sf_lazy sr2_file ms6) = Ok g /\ length g = 6%nat) /\
  ~ inh_static k7_tree sr2_file ms6.
Proof.
  split; [exact fe_pure|]. split; [exact fe_pure_err|]. split; [exact fe_graph_ext|]. split; [exact sr2_file_ok|]. split; [|split; [exact sr2_lazy|exact sr2_not_static]].
  eexists. split; [vm_compute; reflexivity|]. split; [reflexivity|]. split; [exact I|discriminate].
Qed.

(* ANY ORDER of the blocks (Proofs/SLF2Any.v): composition with the scoped block-order theorems of C08 read backwards, on the intersection
   of the fragments (as for strict_lazy_iso_any_order_scoped_partial) *)
Theorem strict_fail_lazy_fail_any_order_scoped_partial :
  forall (rx : Type) t fl supplied (regexes : list rx) find call (okfn : ident -> Prop),
  (forall f, okfn f -> call_ok call f) ->
  forall g0 : graph, gclosed (N.of_nat (length g0)) g0 ->
  (forall glob, check_globals (f_globals fl) (globals_nested supplied) = Ok glob ->
     forall name v, globals_get glob name = Some v -> vall (fun i => i < N.of_nat (length g0)) v) ->
  forall (purev : ident -> bool) fuel ms e (ms' : list (N * qmatch)),
  call_graph_ext call ->
  file_ok2 okfn purev fl (f_stanzas fl) ms -> inh_static t fl ms ->
  Forall (pm_ok2 fl okfn) (lmatches_of ms) ->
  run_strict t fl config0 supplied None regexes find call fuel ms g0 = Err e ->
  order_independent_error2 e ->
  Permutation (lmatches_of ms) ms' ->
  forall lfuel,
    match run_lazy t fl config0 supplied None regexes find call lfuel ms' g0 with
    | Ok _ => False
    | Err _ | Panic _ | OutOfFuel => True
    end.
Proof. exact @strict_fail_lazy_fail_any_order_scoped_lemma. Qed.
(* ... on the fragment of C08 with scoped reads inside thunks (`pm_ok3`, taint tnt on variable names) *)
Theorem strict_fail_lazy_fail_any_order_scoped_thunks_partial :
  forall (rx : Type) t fl supplied (regexes : list rx) find call (okfn : ident -> Prop),
  (forall f, okfn f -> call_ok call f) ->
  forall g0 : graph, gclosed (N.of_nat (length g0)) g0 ->
  (forall glob, check_globals (f_globals fl) (globals_nested supplied) = Ok glob ->
     forall name v, globals_get glob name = Some v -> vall (fun i => i < N.of_nat (length g0)) v) ->
  forall (tnt purev : ident -> bool) fuel ms e (ms' : list (N * qmatch)),
  call_graph_ext call ->
  file_ok2 okfn purev fl (f_stanzas fl) ms -> inh_static t fl ms ->
  Forall (pm_ok3 fl okfn tnt) (lmatches_of ms) ->
  run_strict t fl config0 supplied None regexes find call fuel ms g0 = Err e ->
  order_independent_error2 e ->
  Permutation (lmatches_of ms) ms' ->
  forall lfuel,
    match run_lazy t fl config0 supplied None regexes find call lfuel ms' g0 with
    | Ok _ => False
    | Err _ | Panic _ | OutOfFuel => True
    end.
Proof. exact @strict_fail_lazy_fail_any_order_scoped_thunks_lemma. Qed.
(* ... with the no-panic hypotheses: the lazy run in any order IS Err unless the model runs out of fuel *)
Theorem strict_fail_lazy_err_any_order_scoped_partial :
  forall (rx : Type) t fl supplied (regexes : list rx) find call (okfn : ident -> Prop),
  (forall f, okfn f -> call_ok call f) ->
  forall g0 : graph, gclosed (N.of_nat (length g0)) g0 ->
  (forall glob, check_globals (f_globals fl) (globals_nested supplied) = Ok glob ->
     forall name v, globals_get glob name = Some v -> vall (fun i => i < N.of_nat (length g0)) v) ->
  forall (sok : N -> Prop) (purev : ident -> bool) fuel ms e (ms' : list (N * qmatch)),
  call_graph_ext call ->
  file_ok2 okfn purev fl (f_stanzas fl) ms -> inh_static t fl ms ->
  Forall (pm_ok2 fl okfn) (lmatches_of ms) ->
  WellFormedFile regexes fl -> GoodMatchesLazy sok fl (lmatches_of ms) -> GoodGlobals sok g0 supplied -> GoodCall sok call ->
  run_strict t fl config0 supplied None regexes find call fuel ms g0 = Err e ->
  order_independent_error2 e ->
  Permutation (lmatches_of ms) ms' ->
  forall lfuel,
    match run_lazy t fl config0 supplied None regexes find call lfuel ms' g0 with
    | Err _ | OutOfFuel => True
    | Ok _ | Panic _ => False
    end.
Proof. exact @strict_fail_lazy_err_any_order_scoped_lemma. Qed.
(* ... about `run_one`, the function the correspondence harness evaluates for both modes *)
Theorem strict_fail_lazy_fail_run_one_scoped_partial :
  forall t (r : run_in) (okfn : ident -> Prop) (g0 : graph),
  (forall f, okfn f -> call_ok (the_call t (ri_tbl r)) f) ->
  gclosed (N.of_nat (length g0)) g0 ->
  (forall glob, check_globals (f_globals (ri_file r)) (globals_nested (ri_supplied r)) = Ok glob ->
     forall name v, globals_get glob name = Some v -> vall (fun i => i < N.of_nat (length g0)) v) ->
  Permutation (lmatches_of (ri_smatches r)) (ri_lmatches r) ->
  forall (purev : ident -> bool) e,
  call_graph_ext (the_call t (ri_tbl r)) ->
  file_ok2 okfn purev (ri_file r) (f_stanzas (ri_file r)) (ri_smatches r) -> inh_static t (ri_file r) (ri_smatches r) ->
  Forall (pm_ok2 (ri_file r) okfn) (lmatches_of (ri_smatches r)) ->
  run_one t config0 None (with_lazy r false) g0 = Err e ->
  order_independent_error2 e ->
  match run_one t config0 None (with_lazy r true) g0 with
  | Ok _ => False
  | Err _ | Panic _ | OutOfFuel => True
  end.
Proof. exact strict_fail_lazy_fail_run_one_scoped_lemma. Qed.

(* non-vacuity (Proofs/SLF2AnyExample.v): ay4 = (identifier) @x { node @x.n  attr (@x.n) k = (plus 1 2) }
   (expression_statement (identifier) @x) @s { node m  edge m -> @x.n  attr (@x.n) k = 5 } on the interleaving ay_ms' (a reader first):
   DuplicateAttribute through a scoped read in both modes; success excluded at every fuel *)
Example strict_fail_lazy_fail_any_order_scoped_nonvacuous :
  Permutation (lmatches_of ay_ms) ay_ms' /\ lmatches_of ay_ms <> ay_ms' /\
  file_ok2 c8_okfn (fun _ => false) ay4_file (f_stanzas ay4_file) ay_ms /\ Forall (pm_ok2 ay4_file c8_okfn) (lmatches_of ay_ms) /\
  err_cause (run_strict k7_tree ay4_file config0 [[]] None ([] : list regex) rx_captures c8_call default_fuel ay_ms []) = Some EDuplicateAttribute /\
  err_cause (run_lazy k7_tree ay4_file config0 [[]] None ([] : list regex) rx_captures c8_call default_fuel ay_ms' []) = Some EDuplicateAttribute /\
  (forall lfuel, match run_lazy k7_tree ay4_file config0 [[]] None ([] : list regex) rx_captures c8_call lfuel ay_ms' [] with
                 | Ok _ => False | Err _ | Panic _ | OutOfFuel => True end).
Proof.
  split; [exact ay_perm|]. split; [discriminate|]. split; [exact ay4_file_ok|]. split; [exact ay4_blocks_ok|]. split; [exact ay4_strict|]. split; [exact ay4_lazy|exact ay4_theorem_applies].
Qed.

(* ================= REAL RECORDED INPUTS: the two capture-index spaces (audit finding G1; Model/IdxBridge.v, Proofs/Idx*.v) =================
   The harness gives the strict interpreter the per-stanza matches with the capture indices of each STANZA query (`ri_smatches`) and the lazy interpreter
   the matches of the merged query with the capture indices of the FILE query (`ri_lmatches`); the two index spaces differ as soon as a later stanza
   introduces a capture name.  The fragment predicates above demand `nodes_for_capture m stanza_idx = nodes_for_capture m file_idx` on ONE match m and the
   run_one theorems demand `Permutation (lmatches_of (ri_smatches r)) (ri_lmatches r)`: both are false of real multi-stanza cases.  Bridge:
   * `normalize_file fl` (executable) rewrites every stanza index to the file index; Model/Strict.v reads only stanza indices, Model/Lazy.v only file indices:
     `strict_reindex` — the strict run of fl on stanza-indexed matches sms IS the strict run of `normalize_file fl` on file-indexed matches sms' whenever
     `idx_rel fl (f_stanzas fl) sms sms'` (stanza by stanza, match by match, both select the same nodes for every capture expression of the stanza at any depth,
     of the shorthand bodies, and for the full-match capture: `match_agree`); `lazy_reindex` — the lazy run of fl and of `normalize_file fl` on the same
     matches coincide, unconditionally.  Equalities of outcomes: same error value, same final state, same poll trace; every config and budget.
   * `idx_agree fl sms lms` (A1–A3 of C03 on the recorded data, decided per case by `idx_agreeb`): every block of lms is tagged with a stanza of fl and
     sms is `idx_rel`-related to `regroup n lms`, the merged-query matches sorted back by stanza; `idx_agree_regroup_perm`: that regrouping is a permutation of lms.
   * the `.._real_partial` theorems: the whole-run theorems with the fragment predicates stated on `normalize_file fl` and the FILE-indexed matches (where the
     index equation of `fexpr` is trivially true), `idx_rel`/`idx_agree` instead of one match carrying both index spaces, and the runs of the ORIGINAL file on
     the original inputs in hypotheses and conclusions.  The run_one forms speak of the record the harness emits, unchanged.
   Non-vacuity on REAL recorded cases (Proofs/IdxRealExample.v): strict_lazy_real_cases_nonvacuous below. *)
From TSG Require Import Model.IdxBridge Proofs.IdxStrict Proofs.IdxLazy Proofs.IdxBridge Proofs.IdxReal Proofs.IdxRealExample.

Theorem strict_reindex : forall {rx : Type} t fl cfg supplied budget (regexes : list rx) find call fuel sms sms' g0,
  idx_rel fl (f_stanzas fl) sms sms' ->
  run_strict t fl cfg supplied budget regexes find call fuel sms g0 = run_strict t (normalize_file fl) cfg supplied budget regexes find call fuel sms' g0.
Proof. exact @run_strict_reindex. Qed.
Theorem lazy_reindex : forall {rx : Type} t fl cfg supplied budget (regexes : list rx) find call fuel lms g0,
  run_lazy t fl cfg supplied budget regexes find call fuel lms g0 = run_lazy t (normalize_file fl) cfg supplied budget regexes find call fuel lms g0.
Proof. exact @run_lazy_reindex. Qed.
(* the per-case check decides the relation; what the relation says *)
Theorem idx_agreeb_decides : forall fl sms lms, idx_agreeb fl sms lms = true <-> idx_agree fl sms lms.
Proof. exact idx_agreeb_spec. Qed.
Theorem idx_agree_spec : forall fl sms lms, idx_agree fl sms lms <->
  Forall (fun pm : N * qmatch => fst pm < N.of_nat (length (f_stanzas fl))) lms /\ idx_rel fl (f_stanzas fl) sms (regroup (length (f_stanzas fl)) lms).
Proof. intros. reflexivity. Qed.
Theorem match_agree_spec : forall fl st ms ml, match_agree fl st ms ml <->
  forall c, In c (stanza_caps fl st) -> nodes_for_capture ms (snd c) = nodes_for_capture ml (fst c).
Proof. intros. reflexivity. Qed.
Theorem idx_agree_regroup_perm : forall fl sms lms, idx_agree fl sms lms -> Permutation (lmatches_of (regroup (length (f_stanzas fl)) lms)) lms.
Proof. exact idx_agree_perm. Qed.
(* in the normalized file every capture expression (statements at any depth, shorthand bodies) and the full-match capture of every stanza has
   file index = stanza index: the index equation of `fexpr` is `x = x` there *)
Theorem normalize_file_indices_coincide : forall fl st, In st (f_stanzas (normalize_file fl)) ->
  Forall (fun c : N * N => fst c = snd c) (stanza_caps (normalize_file fl) st).
Proof. exact normalize_file_caps_coincide. Qed.
(* the harness driver on a recorded case = the driver on its normalization (both index spaces = file indices), in both modes *)
Theorem run_one_normalize : forall t cfg budget r b g0, idx_agree (ri_file r) (ri_smatches r) (ri_lmatches r) ->
  run_one t cfg budget (with_lazy r b) g0 = run_one t cfg budget (with_lazy (normalize_run r) b) g0.
Proof. exact run_one_reindex. Qed.

(* ANY ORDER, real inputs: sms = recorded strict matches (stanza indices), lms = recorded merged-query blocks (file indices), sms' = file-indexed matches per stanza
   in strict order (for a recorded case: regroup n lms) *)
Theorem strict_lazy_iso_any_order_real_partial :
  forall (rx : Type) t fl supplied (regexes : list rx) find call (okfn : ident -> Prop),
  (forall f, okfn f -> call_ok call f) ->
  forall g0 : graph, gclosed (N.of_nat (length g0)) g0 ->
  (forall glob, check_globals (f_globals fl) (globals_nested supplied) = Ok glob ->
     forall name v, globals_get glob name = Some v -> vall (fun i => i < N.of_nat (length g0)) v) ->
  forall fuel sms sms' s p (lms : list (N * qmatch)),
  idx_rel fl (f_stanzas fl) sms sms' ->
  file_ok okfn (normalize_file fl) (f_stanzas (normalize_file fl)) sms' ->
  run_strict t fl config0 supplied None regexes find call fuel sms g0 = Ok (s, p) ->
  Permutation (lmatches_of sms') lms ->
  exists r r', (forall i, r' (r i) = i) /\ (forall i, r (r' i) = i) /\ (forall i, i < N.of_nat (length g0) -> r i = i) /\
    exists lfuel0, forall lfuel, (lfuel0 <= lfuel)%nat -> exists ls pl,
      run_lazy t fl config0 supplied None regexes find call lfuel lms g0 = Ok (ls, pl) /\ graph_iso r (s_graph s) (l_graph ls).
Proof. exact @strict_lazy_iso_any_order_real_lemma. Qed.
Theorem strict_lazy_iso_any_order_every_fuel_real_partial :
  forall (rx : Type) t fl supplied (regexes : list rx) find call (okfn : ident -> Prop),
  (forall f, okfn f -> call_ok call f) ->
  forall g0 : graph, gclosed (N.of_nat (length g0)) g0 ->
  (forall glob, check_globals (f_globals fl) (globals_nested supplied) = Ok glob ->
     forall name v, globals_get glob name = Some v -> vall (fun i => i < N.of_nat (length g0)) v) ->
  forall fuel sms sms' s p (lms : list (N * qmatch)),
  idx_rel fl (f_stanzas fl) sms sms' ->
  file_ok okfn (normalize_file fl) (f_stanzas (normalize_file fl)) sms' ->
  run_strict t fl config0 supplied None regexes find call fuel sms g0 = Ok (s, p) ->
  Permutation (lmatches_of sms') lms ->
  exists r r', (forall i, r' (r i) = i) /\ (forall i, r (r' i) = i) /\ (forall i, i < N.of_nat (length g0) -> r i = i) /\
    forall lfuel, match run_lazy t fl config0 supplied None regexes find call lfuel lms g0 with
                  | Ok (ls, _) => graph_iso r (s_graph s) (l_graph ls)
                  | OutOfFuel => True
                  | Err _ | Panic _ => False
                  end.
Proof. exact @strict_lazy_iso_any_order_every_fuel_real_lemma. Qed.
Theorem strict_lazy_iso_any_order_scoped_real_partial :
  forall (rx : Type) t fl supplied (regexes : list rx) find call (okfn : ident -> Prop),
  (forall f, okfn f -> call_ok call f) ->
  forall g0 : graph, gclosed (N.of_nat (length g0)) g0 ->
  (forall glob, check_globals (f_globals fl) (globals_nested supplied) = Ok glob ->
     forall name v, globals_get glob name = Some v -> vall (fun i => i < N.of_nat (length g0)) v) ->
  forall (purev : ident -> bool) fuel sms sms' s p (lms : list (N * qmatch)),
  idx_rel fl (f_stanzas fl) sms sms' ->
  file_ok2 okfn purev (normalize_file fl) (f_stanzas (normalize_file fl)) sms' ->
  Forall (pm_ok2 (normalize_file fl) okfn) lms ->
  run_strict t fl config0 supplied None regexes find call fuel sms g0 = Ok (s, p) ->
  inh_antichain t fl (s_scoped s) ->
  Permutation (lmatches_of sms') lms ->
  exists r r', (forall i, r' (r i) = i) /\ (forall i, r (r' i) = i) /\ (forall i, i < N.of_nat (length g0) -> r i = i) /\
    exists lfuel0, forall lfuel, (lfuel0 <= lfuel)%nat -> exists ls pl,
      run_lazy t fl config0 supplied None regexes find call lfuel lms g0 = Ok (ls, pl) /\ graph_iso r (s_graph s) (l_graph ls).
Proof. exact @strict_lazy_iso_any_order_scoped_real_lemma. Qed.
Theorem strict_lazy_iso_any_order_scoped_every_fuel_real_partial :
  forall (rx : Type) t fl supplied (regexes : list rx) find call (okfn : ident -> Prop),
  (forall f, okfn f -> call_ok call f) ->
  forall g0 : graph, gclosed (N.of_nat (length g0)) g0 ->
  (forall glob, check_globals (f_globals fl) (globals_nested supplied) = Ok glob ->
     forall name v, globals_get glob name = Some v -> vall (fun i => i < N.of_nat (length g0)) v) ->
  forall (purev : ident -> bool) fuel sms sms' s p (lms : list (N * qmatch)),
  idx_rel fl (f_stanzas fl) sms sms' ->
  file_ok2 okfn purev (normalize_file fl) (f_stanzas (normalize_file fl)) sms' ->
  Forall (pm_ok2 (normalize_file fl) okfn) lms ->
  run_strict t fl config0 supplied None regexes find call fuel sms g0 = Ok (s, p) ->
  inh_antichain t fl (s_scoped s) ->
  Permutation (lmatches_of sms') lms ->
  exists r r', (forall i, r' (r i) = i) /\ (forall i, r (r' i) = i) /\ (forall i, i < N.of_nat (length g0) -> r i = i) /\
    forall lfuel, match run_lazy t fl config0 supplied None regexes find call lfuel lms g0 with
                  | Ok (ls, _) => graph_iso r (s_graph s) (l_graph ls)
                  | OutOfFuel => True
                  | Err _ | Panic _ => False
                  end.
Proof. exact @strict_lazy_iso_any_order_scoped_every_fuel_real_lemma. Qed.
(* failure direction, real inputs *)
Theorem strict_fail_lazy_fail_any_order_real_partial :
  forall (rx : Type) t fl supplied (regexes : list rx) find call (okfn : ident -> Prop),
  (forall f, okfn f -> call_ok call f) ->
  forall g0 : graph, gclosed (N.of_nat (length g0)) g0 ->
  (forall glob, check_globals (f_globals fl) (globals_nested supplied) = Ok glob ->
     forall name v, globals_get glob name = Some v -> vall (fun i => i < N.of_nat (length g0)) v) ->
  forall fuel sms sms' e (lms : list (N * qmatch)),
  idx_rel fl (f_stanzas fl) sms sms' ->
  call_graph_ext call ->
  file_ok okfn (normalize_file fl) (f_stanzas (normalize_file fl)) sms' ->
  run_strict t fl config0 supplied None regexes find call fuel sms g0 = Err e ->
  order_independent_error e ->
  Permutation (lmatches_of sms') lms ->
  forall lfuel,
    match run_lazy t fl config0 supplied None regexes find call lfuel lms g0 with
    | Ok _ => False
    | Err _ | Panic _ | OutOfFuel => True
    end.
Proof. exact @strict_fail_lazy_fail_any_order_real_lemma. Qed.
Theorem strict_fail_lazy_err_any_order_real_partial :
  forall (rx : Type) t fl supplied (regexes : list rx) find call (okfn : ident -> Prop),
  (forall f, okfn f -> call_ok call f) ->
  forall g0 : graph, gclosed (N.of_nat (length g0)) g0 ->
  (forall glob, check_globals (f_globals fl) (globals_nested supplied) = Ok glob ->
     forall name v, globals_get glob name = Some v -> vall (fun i => i < N.of_nat (length g0)) v) ->
  forall (sok : N -> Prop) fuel sms sms' e (lms : list (N * qmatch)),
  idx_rel fl (f_stanzas fl) sms sms' ->
  call_graph_ext call ->
  file_ok okfn (normalize_file fl) (f_stanzas (normalize_file fl)) sms' ->
  WellFormedFile regexes (normalize_file fl) -> GoodMatchesLazy sok (normalize_file fl) lms -> GoodGlobals sok g0 supplied -> GoodCall sok call ->
  run_strict t fl config0 supplied None regexes find call fuel sms g0 = Err e ->
  order_independent_error e ->
  Permutation (lmatches_of sms') lms ->
  forall lfuel,
    match run_lazy t fl config0 supplied None regexes find call lfuel lms g0 with
    | Err _ | OutOfFuel => True
    | Ok _ | Panic _ => False
    end.
Proof. exact @strict_fail_lazy_err_any_order_real_lemma. Qed.
Theorem strict_fail_lazy_fail_any_order_scoped_real_partial :
  forall (rx : Type) t fl supplied (regexes : list rx) find call (okfn : ident -> Prop),
  (forall f, okfn f -> call_ok call f) ->
  forall g0 : graph, gclosed (N.of_nat (length g0)) g0 ->
  (forall glob, check_globals (f_globals fl) (globals_nested supplied) = Ok glob ->
     forall name v, globals_get glob name = Some v -> vall (fun i => i < N.of_nat (length g0)) v) ->
  forall (purev : ident -> bool) fuel sms sms' e (lms : list (N * qmatch)),
  idx_rel fl (f_stanzas fl) sms sms' ->
  call_graph_ext call ->
  file_ok2 okfn purev (normalize_file fl) (f_stanzas (normalize_file fl)) sms' -> inh_static t (normalize_file fl) sms' ->
  Forall (pm_ok2 (normalize_file fl) okfn) lms ->
  run_strict t fl config0 supplied None regexes find call fuel sms g0 = Err e ->
  order_independent_error2 e ->
  Permutation (lmatches_of sms') lms ->
  forall lfuel,
    match run_lazy t fl config0 supplied None regexes find call lfuel lms g0 with
    | Ok _ => False
    | Err _ | Panic _ | OutOfFuel => True
    end.
Proof. exact @strict_fail_lazy_fail_any_order_scoped_real_lemma. Qed.
Theorem strict_fail_lazy_fail_any_order_scoped_thunks_real_partial :
  forall (rx : Type) t fl supplied (regexes : list rx) find call (okfn : ident -> Prop),
  (forall f, okfn f -> call_ok call f) ->
  forall g0 : graph, gclosed (N.of_nat (length g0)) g0 ->
  (forall glob, check_globals (f_globals fl) (globals_nested supplied) = Ok glob ->
     forall name v, globals_get glob name = Some v -> vall (fun i => i < N.of_nat (length g0)) v) ->
  forall (tnt purev : ident -> bool) fuel sms sms' e (lms : list (N * qmatch)),
  idx_rel fl (f_stanzas fl) sms sms' ->
  call_graph_ext call ->
  file_ok2 okfn purev (normalize_file fl) (f_stanzas (normalize_file fl)) sms' -> inh_static t (normalize_file fl) sms' ->
  Forall (pm_ok3 (normalize_file fl) okfn tnt) lms ->
  run_strict t fl config0 supplied None regexes find call fuel sms g0 = Err e ->
  order_independent_error2 e ->
  Permutation (lmatches_of sms') lms ->
  forall lfuel,
    match run_lazy t fl config0 supplied None regexes find call lfuel lms g0 with
    | Ok _ => False
    | Err _ | Panic _ | OutOfFuel => True
    end.
Proof. exact @strict_fail_lazy_fail_any_order_scoped_thunks_real_lemma. Qed.
Theorem strict_fail_lazy_err_any_order_scoped_real_partial :
  forall (rx : Type) t fl supplied (regexes : list rx) find call (okfn : ident -> Prop),
  (forall f, okfn f -> call_ok call f) ->
  forall g0 : graph, gclosed (N.of_nat (length g0)) g0 ->
  (forall glob, check_globals (f_globals fl) (globals_nested supplied) = Ok glob ->
     forall name v, globals_get glob name = Some v -> vall (fun i => i < N.of_nat (length g0)) v) ->
  forall (sok : N -> Prop) (purev : ident -> bool) fuel sms sms' e (lms : list (N * qmatch)),
  idx_rel fl (f_stanzas fl) sms sms' ->
  call_graph_ext call ->
  file_ok2 okfn purev (normalize_file fl) (f_stanzas (normalize_file fl)) sms' -> inh_static t (normalize_file fl) sms' ->
  Forall (pm_ok2 (normalize_file fl) okfn) lms ->
  WellFormedFile regexes (normalize_file fl) -> GoodMatchesLazy sok (normalize_file fl) lms -> GoodGlobals sok g0 supplied -> GoodCall sok call ->
  run_strict t fl config0 supplied None regexes find call fuel sms g0 = Err e ->
  order_independent_error2 e ->
  Permutation (lmatches_of sms') lms ->
  forall lfuel,
    match run_lazy t fl config0 supplied None regexes find call lfuel lms g0 with
    | Err _ | OutOfFuel => True
    | Ok _ | Panic _ => False
    end.
Proof. exact @strict_fail_lazy_err_any_order_scoped_real_lemma. Qed.

(* THE DRIVER OF THE CORRESPONDENCE HARNESS ON THE RECORD IT EMITS: `idx_agree` (decided by `run_idx_agreeb r`) replaces the Permutation hypothesis; the fragment
   predicates are about the normalized file and the merged-query matches (`real_smatches r` = these matches regrouped by stanza) *)
Theorem strict_lazy_iso_run_one_real_partial :
  forall t (r : run_in) (okfn : ident -> Prop) (g0 : graph),
  (forall f, okfn f -> call_ok (the_call t (ri_tbl r)) f) ->
  gclosed (N.of_nat (length g0)) g0 ->
  (forall glob, check_globals (f_globals (ri_file r)) (globals_nested (ri_supplied r)) = Ok glob ->
     forall name v, globals_get glob name = Some v -> vall (fun i => i < N.of_nat (length g0)) v) ->
  idx_agree (ri_file r) (ri_smatches r) (ri_lmatches r) ->
  forall g p,
  file_ok okfn (normalize_file (ri_file r)) (f_stanzas (normalize_file (ri_file r))) (real_smatches r) ->
  run_one t config0 None (with_lazy r false) g0 = Ok (g, p) ->
  exists rn rn', (forall i, rn' (rn i) = i) /\ (forall i, rn (rn' i) = i) /\ (forall i, i < N.of_nat (length g0) -> rn i = i) /\
    match run_one t config0 None (with_lazy r true) g0 with
    | Ok (g', _) => graph_iso rn g g'
    | OutOfFuel => True
    | Err _ | Panic _ => False
    end.
Proof. exact strict_lazy_iso_run_one_real_lemma. Qed.
Theorem strict_lazy_iso_run_one_scoped_real_partial :
  forall t (r : run_in) (okfn : ident -> Prop) (g0 : graph),
  (forall f, okfn f -> call_ok (the_call t (ri_tbl r)) f) ->
  gclosed (N.of_nat (length g0)) g0 ->
  (forall glob, check_globals (f_globals (ri_file r)) (globals_nested (ri_supplied r)) = Ok glob ->
     forall name v, globals_get glob name = Some v -> vall (fun i => i < N.of_nat (length g0)) v) ->
  idx_agree (ri_file r) (ri_smatches r) (ri_lmatches r) ->
  forall (purev : ident -> bool) g p,
  file_ok2 okfn purev (normalize_file (ri_file r)) (f_stanzas (normalize_file (ri_file r))) (real_smatches r) ->
  Forall (pm_ok2 (normalize_file (ri_file r)) okfn) (ri_lmatches r) ->
  (forall s p', run_strict t (ri_file r) config0 (ri_supplied r) None (ri_rxs r) rx_captures (the_call t (ri_tbl r)) default_fuel (ri_smatches r) g0 = Ok (s, p') ->
                inh_antichain t (ri_file r) (s_scoped s)) ->
  run_one t config0 None (with_lazy r false) g0 = Ok (g, p) ->
  exists rn rn', (forall i, rn' (rn i) = i) /\ (forall i, rn (rn' i) = i) /\ (forall i, i < N.of_nat (length g0) -> rn i = i) /\
    match run_one t config0 None (with_lazy r true) g0 with
    | Ok (g', _) => graph_iso rn g g'
    | OutOfFuel => True
    | Err _ | Panic _ => False
    end.
Proof. exact strict_lazy_iso_run_one_scoped_real_lemma. Qed.
Theorem strict_fail_lazy_fail_run_one_real_partial :
  forall t (r : run_in) (okfn : ident -> Prop) (g0 : graph),
  (forall f, okfn f -> call_ok (the_call t (ri_tbl r)) f) ->
  gclosed (N.of_nat (length g0)) g0 ->
  (forall glob, check_globals (f_globals (ri_file r)) (globals_nested (ri_supplied r)) = Ok glob ->
     forall name v, globals_get glob name = Some v -> vall (fun i => i < N.of_nat (length g0)) v) ->
  idx_agree (ri_file r) (ri_smatches r) (ri_lmatches r) ->
  forall e,
  call_graph_ext (the_call t (ri_tbl r)) ->
  file_ok okfn (normalize_file (ri_file r)) (f_stanzas (normalize_file (ri_file r))) (real_smatches r) ->
  run_one t config0 None (with_lazy r false) g0 = Err e ->
  order_independent_error e ->
  match run_one t config0 None (with_lazy r true) g0 with
  | Ok _ => False
  | Err _ | Panic _ | OutOfFuel => True
  end.
Proof. exact strict_fail_lazy_fail_run_one_real_lemma. Qed.
Theorem strict_fail_lazy_fail_run_one_scoped_real_partial :
  forall t (r : run_in) (okfn : ident -> Prop) (g0 : graph),
  (forall f, okfn f -> call_ok (the_call t (ri_tbl r)) f) ->
  gclosed (N.of_nat (length g0)) g0 ->
  (forall glob, check_globals (f_globals (ri_file r)) (globals_nested (ri_supplied r)) = Ok glob ->
     forall name v, globals_get glob name = Some v -> vall (fun i => i < N.of_nat (length g0)) v) ->
  idx_agree (ri_file r) (ri_smatches r) (ri_lmatches r) ->
  forall (purev : ident -> bool) e,
  call_graph_ext (the_call t (ri_tbl r)) ->
  file_ok2 okfn purev (normalize_file (ri_file r)) (f_stanzas (normalize_file (ri_file r))) (real_smatches r) ->
  inh_static t (normalize_file (ri_file r)) (real_smatches r) ->
  Forall (pm_ok2 (normalize_file (ri_file r)) okfn) (ri_lmatches r) ->
  run_one t config0 None (with_lazy r false) g0 = Err e ->
  order_independent_error2 e ->
  match run_one t config0 None (with_lazy r true) g0 with
  | Ok _ => False
  | Err _ | Panic _ | OutOfFuel => True
  end.
Proof. exact strict_fail_lazy_fail_run_one_scoped_real_lemma. Qed.

(* NON-VACUITY ON REAL RECORDED CASES (Proofs/IdxRealExample.v: records copied verbatim from the case files of the check runs).
   r16 (C03 stream, four stanzas, no scoped variable; the audit proved the Permutation hypothesis and `file_ok` of the old theorems FALSE of it) and
   r560 (C04 stream, three stanzas, scoped variables with a nested read `@n.owner.k`, calls of source-text / start-row; `std_okfn` = every stdlib function except
   node, format, join): the per-case check holds, the old Permutation hypothesis fails, the fragment predicates hold of the normalized file with the merged-query
   matches, and the run_one theorems yield an isomorphism between the two RECORDED runs (strict on ri_smatches, lazy on ri_lmatches). *)
Example strict_lazy_real_cases_nonvacuous :
  (run_idx_agreeb r16_run = true /\ lmatches_of (ri_smatches r16_run) <> lmatches_of (real_smatches r16_run) /\
   file_ok nofn (normalize_file (ri_file r16_run)) (f_stanzas (normalize_file (ri_file r16_run))) (real_smatches r16_run) /\
   exists g p g' p', run_one r16_tree config0 None (with_lazy r16_run false) [] = Ok (g, p) /\ run_one r16_tree config0 None (with_lazy r16_run true) [] = Ok (g', p') /\
     exists rn rn', (forall i, rn' (rn i) = i) /\ (forall i, rn (rn' i) = i) /\ graph_iso rn g g') /\
  (run_idx_agreeb r560_run = true /\ lmatches_of (ri_smatches r560_run) <> lmatches_of (real_smatches r560_run) /\
   (forall f, std_okfn f -> call_ok (the_call r560_tree (ri_tbl r560_run)) f) /\
   file_ok2 std_okfn (fun _ => false) (normalize_file (ri_file r560_run)) (f_stanzas (normalize_file (ri_file r560_run))) (real_smatches r560_run) /\
   Forall (pm_ok2 (normalize_file (ri_file r560_run)) std_okfn) (ri_lmatches r560_run) /\
   exists g p g' p', run_one r560_tree config0 None (with_lazy r560_run false) [] = Ok (g, p) /\ run_one r560_tree config0 None (with_lazy r560_run true) [] = Ok (g', p') /\
     exists rn rn', (forall i, rn' (rn i) = i) /\ (forall i, rn (rn' i) = i) /\ graph_iso rn g g').
Proof.
  split.
  - split; [exact r16_idx_b|]. split; [vm_compute; discriminate|]. split; [exact r16_file_ok|exact r16_theorem_applies].
  - split; [exact r560_idx_b|]. split; [vm_compute; discriminate|]. split; [apply std_okfn_ok|]. split; [exact r560_file_ok|]. split; [exact r560_blocks_ok|exact r560_theorem_applies].
Qed.
(* ... and the failure direction: r751 (C20 stream, four stanzas, globals, a shorthand, scans, comprehensions, stdlib calls; both recorded runs fail with DuplicateAttribute):
   strict_fail_lazy_fail_run_one_real_partial applies to the record as emitted and excludes lazy success *)
Example strict_fail_lazy_fail_real_case_nonvacuous :
  run_idx_agreeb r751_run = true /\ lmatches_of (ri_smatches r751_run) <> lmatches_of (real_smatches r751_run) /\
  call_graph_ext (the_call r751_tree (ri_tbl r751_run)) /\
  file_ok std_okfn (normalize_file (ri_file r751_run)) (f_stanzas (normalize_file (ri_file r751_run))) (real_smatches r751_run) /\
  (exists e, run_one r751_tree config0 None (with_lazy r751_run false) [] = Err e /\ root_cause e = EDuplicateAttribute /\ order_independent_error e) /\
  (exists e, run_one r751_tree config0 None (with_lazy r751_run true) [] = Err e /\ root_cause e = EDuplicateAttribute) /\
  match run_one r751_tree config0 None (with_lazy r751_run true) [] with Ok _ => False | Err _ | Panic _ | OutOfFuel => True end.
Proof.
  split; [exact r751_idx_b|]. split; [vm_compute; discriminate|]. split; [apply stdlib_call_graph_ext|]. split; [exact r751_file_ok|]. split; [exact r751_strict|].
  split; [exact r751_lazy|exact r751_theorem_applies].
Qed.

(* the purity demands of fragment v2 derived from the checker, on the normalized file: `file_eok` and `pv_file` (Model/Locality.v) do not look at capture
   indices (Proofs/IdxChecked.v), so for a file the checker accepted the weakened predicate `file_ok2_ns` suffices in the `.._scoped_real_partial` theorems *)
From TSG Require Import Proofs.IdxChecked.
Theorem locality_ignores_capture_indices : forall purev fl, file_eok (normalize_file fl) = file_eok fl /\ pv_file purev (normalize_file fl) = pv_file purev fl.
Proof. intros purev fl. split; [apply file_eok_norm|apply pv_file_norm]. Qed.
Theorem checked_file_in_fragment2_real : forall q f fl okfn purev ms,
  check_file q f = CkOk fl -> pv_file purev fl = true ->
  file_ok2_ns okfn purev (normalize_file fl) (f_stanzas (normalize_file fl)) ms -> file_ok2 okfn purev (normalize_file fl) (f_stanzas (normalize_file fl)) ms.
Proof. exact checked_file_ok2_real. Qed.
