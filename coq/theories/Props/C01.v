(* Props/C01.v — property theorems only.  Execution yields exactly the graph the reference prescribes.
   Spec/RefSem.v is the reference semantics (a big-step evaluator transcribed from src/reference/mod.rs:
   no cancellation polls, no error contexts, no shared parameter buffer, no debug attributes).
   Model/Strict.v mirrors src/execution/strict.rs function by function and is tied to the code by the
   correspondence stream, which ALSO evaluates Spec/RefSem.v on every case. *)
From TSG Require Import Model.Strict Spec.RefSem Proofs.Captures Proofs.Extends Proofs.ErrorCtx Proofs.RefSim.

(* the model of strict.rs returns exactly what the reference prescribes: the same graph (equality, hence
   nothing added and nothing missing), or an error with the same root cause; for every file, tree, matches,
   globals, function library with plain errors, initial graph and fuel *)
Theorem strict_refines_reference : forall {rx : Type} t fl supplied (regexes : list rx) find call fuel matches g0,
  call_errors_base call ->
  match run_strict t fl config0 supplied None regexes find call fuel matches g0 with
  | Ok (s, _) => ref_run t fl supplied regexes find call fuel matches g0 = Ok (s_graph s)
  | Err e => ref_run t fl supplied regexes find call fuel matches g0 = Err (root_cause e)
  | Panic x => ref_run t fl supplied regexes find call fuel matches g0 = Panic x
  | OutOfFuel => ref_run t fl supplied regexes find call fuel matches g0 = OutOfFuel
  end.
Proof. intros rx. exact (@strict_refines_reference_lemma rx). Qed.

(* the shared function_parameters buffer is invisible: evaluating a call's arguments pushes exactly their
   values and the call drains exactly those (params_stack_balanced), so the call sees the argument list the
   reference evaluates *)
Theorem params_stack_balanced : forall call, call_errors_base call -> forall (ev rv : expr -> M sstate value) f,
  (forall a, sim (ev a) (rv a)) -> forall args,
  sim (iterM (fun a => v <- ev a ;; push_param v) args ;;; ps <- drain_params (length args) ;; call_function call f ps)
      (vs <- mapM rv args ;; call_function call f vs).
Proof. intros call Hc. exact (sim_call_args call Hc). Qed.


(* each stanza's block runs exactly once per match of its query, stanzas in file order *)
Theorem strict_driver_blocks_once : forall {rx : Type} t fl cfg glob (regexes : list rx) find call fuel sts ms s p,
  exec_file t fl cfg glob regexes find call fuel sts ms s p =
  iterM (fun b : stanza * qmatch => exec_stanza t fl cfg glob regexes find call fuel (fst b) (snd b)) (blocks sts ms) s p.
Proof. intros rx. exact (@strict_blocks_once rx). Qed.

(* nothing is removed: a successful run only extends the graph it was given (see C09) *)
Theorem strict_only_adds : forall {rx} t fl cfg supplied budget (regexes : list rx) find call fuel matches g0 s p,
  call_extends call -> Proofs.Containers.graph_wf g0 ->
  run_strict t fl cfg supplied budget regexes find call fuel matches g0 = Ok (s, p) ->
  graph_ext g0 (s_graph s).
Proof. intros rx t fl cfg supplied budget regexes find call fuel matches g0 s p Hc Hw H. exact (proj2 (run_strict_extends_lemma t fl cfg supplied budget regexes find call fuel matches g0 s p Hc Hw H)). Qed.

Example c01_nonvacuous :
  let st := {| st_stmts := []; st_full_stanza_idx := 0; st_full_file_idx := 0; st_start := (0, 0) |} in
  length (blocks [st; st] [[[(0, [1])]; [(0, [2])]]; [[(0, [3])]]]) = 3%nat.
Proof. reflexivity. Qed.

(* ---- THE STANDARD LIBRARY.  Both hypotheses on the function library hold of the model of the standard library
   (`stdlib_call rxo t` of Model/Stdlib.v, every regex oracle rxo, on the tree the program runs on):
   `call_errors_base` by C13 error_classes (stdlib_errors_base, Props/C20.v), `call_extends` because only `node`
   changes the graph, by appending one fresh node (stdlib_extends, Props/C09.v).  The theorems above, instantiated: *)
From TSG Require Import Model.Stdlib Proofs.StdlibHyps.

Theorem strict_refines_reference_stdlib : forall {rx : Type} rxo t fl supplied (regexes : list rx) find fuel matches g0,
  match run_strict t fl config0 supplied None regexes find (stdlib_call rxo t) fuel matches g0 with
  | Ok (s, _) => ref_run t fl supplied regexes find (stdlib_call rxo t) fuel matches g0 = Ok (s_graph s)
  | Err e => ref_run t fl supplied regexes find (stdlib_call rxo t) fuel matches g0 = Err (root_cause e)
  | Panic x => ref_run t fl supplied regexes find (stdlib_call rxo t) fuel matches g0 = Panic x
  | OutOfFuel => ref_run t fl supplied regexes find (stdlib_call rxo t) fuel matches g0 = OutOfFuel
  end.
Proof.
  intros rx rxo t fl supplied regexes find fuel matches g0.
  exact (@strict_refines_reference rx t fl supplied regexes find (stdlib_call rxo t) fuel matches g0 (stdlib_call_errors_base rxo t)).
Qed.

Theorem params_stack_balanced_stdlib : forall rxo t (ev rv : expr -> M sstate value) f,
  (forall a, sim (ev a) (rv a)) -> forall args,
  sim (iterM (fun a => v <- ev a ;; push_param v) args ;;; ps <- drain_params (length args) ;; call_function (stdlib_call rxo t) f ps)
      (vs <- mapM rv args ;; call_function (stdlib_call rxo t) f vs).
Proof. intros rxo t. exact (params_stack_balanced (stdlib_call rxo t) (stdlib_call_errors_base rxo t)). Qed.

Theorem strict_only_adds_stdlib : forall {rx} rxo t fl cfg supplied budget (regexes : list rx) find fuel matches g0 s p,
  Proofs.Containers.graph_wf g0 ->
  run_strict t fl cfg supplied budget regexes find (stdlib_call rxo t) fuel matches g0 = Ok (s, p) ->
  graph_ext g0 (s_graph s).
Proof.
  intros rx rxo t fl cfg supplied budget regexes find fuel matches g0 s p.
  exact (@strict_only_adds rx t fl cfg supplied budget regexes find (stdlib_call rxo t) fuel matches g0 s p (stdlib_call_extends rxo t)).
Qed.

