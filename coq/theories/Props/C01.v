(* Props/C01.v — property theorems only.  Execution yields exactly the graph the reference prescribes.
   PARTIAL in this revision: the refinement `strict model = reference semantics` (Spec/RefSem.v) is
   being proved separately; proved here are the driver shape and facts about the model used by it. *)
From TSG Require Import Model.Strict Proofs.Captures Proofs.Extends.

(* each stanza's block runs exactly once per match of its query, stanzas in file order *)
Theorem strict_driver_blocks_once : forall {rx : Type} t fl cfg glob (regexes : list rx) find call fuel sts ms s p,
  exec_file t fl cfg glob regexes find call fuel sts ms s p =
  iterM (fun b : stanza * qmatch => exec_stanza t fl cfg glob regexes find call fuel (fst b) (snd b)) (blocks sts ms) s p.
Proof. intros rx. exact (@strict_blocks_once rx). Qed.

(* nothing is removed: a successful run only extends the graph it was given (see C09) *)
Theorem strict_only_adds : forall {rx} t fl cfg supplied budget (regexes : list rx) find call fuel matches g0 s p,
  call_extends call -> Proofs.Containers.graph_wf g0 ->
  run_strict t fl cfg supplied budget regexes find call fuel matches g0 = Ok (s, p) ->
  graph_ext g0 (s_graph s).
Proof. intros rx t fl cfg supplied budget regexes find call fuel matches g0 s p Hc Hw H. exact (proj2 (run_strict_extends_lemma t fl cfg supplied budget regexes find call fuel matches g0 s p Hc Hw H)). Qed.

Example c01_nonvacuous :
  let st := {| st_stmts := []; st_full_stanza_idx := 0; st_full_file_idx := 0; st_start := (0, 0) |} in
  length (blocks [st; st] [[[(0, [1])]; [(0, [2])]]; [[(0, [3])]]]) = 3%nat.
Proof. reflexivity. Qed.
