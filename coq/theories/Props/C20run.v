(* Props/C20run.v — property C20, continued: the cited statement failed IN THIS RUN.  Property theorems only.

   Props/C20.v `strict_error_stmt_loc` / `strict_file_error_stmt_loc` (`fails_directly`) and `lazy_stmt_error_cites_statement`
   / `lazy_exec_error_cites_statement` / `lazy_run_error_cites` (`lfails_directly`, `forced`) quantify existentially over the
   STATE in which the cited statement / value failed: they hold of a statement that never failed in the run (pick a state in
   which it would fail) and, for `forced`, of an error citing a context that exists in no run.  The theorems below tie the
   state to the run:

     - the (stanza, match) blocks before the failing one RAN SUCCESSFULLY from the start state to (s1, p1) and the failing
       block, run from (s1, p1), returned e (explicit prefix of the block list);
     - for one block: the top-level statements before the failing one ran successfully from the block's start state to
       (s2, p2) and the failing top-level statement x, run from (s2, p2), returned the error (explicit prefix of the stanza's
       statements);
     - below that (statements nested in x, forcings started by x) the state is tied by `subrun d s' p' c s p`
       (Proofs/SubRun.v): the run of c from (s, p) executes d from (s', p') - a path through bind / with_context on which
       every state is the result of running the preceding part SUCCESSFULLY from the state before it.  What a derivation
       means for outcomes: subrun_failure_propagates, subrun_error_root_cause.

   strict: `fails_in_run c s p s' e1` = the run of c from (s, p) executed `exec_stmt fuel' le s'` (error context: location of
   s'; this block's match) from a state it reached, and THAT execution returned e1, an error without statement context.
   lazy: `forced_in_run c s p e` = the run of c from (s, p) started a forcing `eval_lv fuel' lv` in a state (s1, p1) it reached,
   that forcing returned e, and `origin s1 e`: the thunk / pending scoped definition whose debug info e cites is in the store
   / scoped-variable table of THAT state (of the run); `lfails_in_run` = `fails_in_run` for lexec_stmt.  For the evaluation
   phase the `origin` state is the state in which the execution phase of the run ended. *)
From TSG Require Import Model.Strict Model.Lazy Proofs.StrictMeta Proofs.ErrorCtx Proofs.Captures Proofs.ErrorCtxValid.
From TSG Require Import Proofs.CiteEval Proofs.CiteStmt Proofs.CiteExec Proofs.CiteRun.
From TSG Require Import Proofs.SubRun Proofs.StrictCiteRun Proofs.LazyCiteRun.
From TSG Require Import Props.C20.

(* ================================================================ what `subrun` means for outcomes *)
Theorem subrun_failure_propagates : forall {S B A : Type} (d : M S B) s' p' (c : M S A) s p,
  subrun d s' p' c s p -> (forall r, d s' p' <> Ok r) -> forall r, c s p <> Ok r.
Proof. intros S B A d s' p' c s p. apply subrun_fails. Qed.

Theorem subrun_error_root_cause : forall {S B A : Type} (d : M S B) s' p' (c : M S A) s p e1,
  subrun d s' p' c s p -> d s' p' = Err e1 -> exists e, c s p = Err e /\ root_cause e = root_cause e1.
Proof. intros S B A d s' p' c s p e1 H. apply (subrun_root_cause d s' p' A c s p H). Qed.

(* a part of a part is a part *)
Theorem subrun_transitive : forall {S B B2 A : Type} (d2 : M S B2) s2 p2 (d1 : M S B) s1 p1 (c : M S A) s p,
  subrun d2 s2 p2 d1 s1 p1 -> subrun d1 s1 p1 c s p -> subrun d2 s2 p2 c s p.
Proof. intros S B B2 A d2 s2 p2 d1 s1 p1 c s p H2 H1. exact (subrun_trans d2 s2 p2 d1 s1 p1 H2 A c s p H1). Qed.

(* the run-level notions imply the state-existential ones of Props/C20.v *)
Theorem fails_in_run_fails_directly : forall {rx : Type} t fl cfg glob (regexes : list rx) find call z n m A (c : M sstate A) s p s' e1,
  fails_in_run t fl cfg glob regexes find call z n m c s p s' e1 -> fails_directly t fl cfg glob regexes find call z n m s' e1.
Proof. intros rx t fl cfg glob regexes find call z n m A c s p s' e1. apply fails_in_run_directly. Qed.
Theorem forced_in_run_is_forced : forall t fl call A (c : M lstate A) s p e, forced_in_run t fl call c s p e -> forced t fl call e.
Proof. intros t fl call A c s p e. apply forced_in_run_forced. Qed.
Theorem lfails_in_run_fails_directly : forall {rx : Type} t fl cfg glob (regexes : list rx) find call z n m A (c : M lstate A) s p s' e1,
  lfails_in_run t fl cfg glob regexes find call z n m c s p s' e1 -> lfails_directly t fl cfg glob regexes find call z n m s' e1.
Proof. intros rx t fl cfg glob regexes find call z n m A c s p s' e1. apply lfails_in_run_directly. Qed.

(* ================================================================ strict mode *)
(* The whole execution: the blocks before the failing one ran successfully from (s, p) to (s1, p1); the failing block (st, m),
   run from (s1, p1), returned e; e cites a statement s' of st (any depth), and the run of that block from (s1, p1) executed s'
   (own location in its error context) from a state (s0, p0) it reached, where s' returned the cause e1 without statement
   context. *)
Theorem strict_error_cites_statement_of_the_run : forall {rx : Type} t fl cfg glob (regexes : list rx) find call fuel sts ms s p e,
  call_errors_base call ->
  exec_file t fl cfg glob regexes find call fuel sts ms s p = Err e ->
  (exists l, e = ECancelled l) \/
  exists B1 st m B2 s1 p1,
    blocks sts ms = B1 ++ (st, m) :: B2 /\
    iterM (fun b : stanza * qmatch => exec_stanza t fl cfg glob regexes find call fuel (fst b) (snd b)) B1 s p = Ok (tt, s1, p1) /\
    exec_stanza t fl cfg glob regexes find call fuel st m s1 p1 = Err e /\
    match nodes_for_capture m (st_full_stanza_idx st) with
    | n :: _ =>
        exists s' e0 e1,
          stmt_in st s' /\
          e = EInContext (CtxStmts [{| sc_stmt := stmt_loc s'; sc_stanza := st_start st; sc_node := n |}]) e0 /\
          (e0 = e1 \/ e0 = EInContext CtxOther e1) /\
          exists fuel' le s0 p0,
            exec_stmt t fl cfg glob regexes find call fuel' le s' s0 p0 = Err e1 /\ unwrapped e1 /\
            le_ctx le = {| sc_stmt := stmt_loc s'; sc_stanza := st_start st; sc_node := n |} /\ le_match le = m /\
            subrun (exec_stmt t fl cfg glob regexes find call fuel' le s') s0 p0
                   (exec_stanza t fl cfg glob regexes find call fuel st m) s1 p1
    | [] => False
    end.
Proof. intros rx. exact (@strict_file_error_run_lemma rx). Qed.

(* from the INITIAL state: the error of run_strict is that of check_globals (nothing was executed) or as above with
   (s, p) = (sinit g0, polls0 budget) *)
Theorem strict_run_error_cites_statement_of_the_run : forall {rx : Type} t fl cfg supplied budget (regexes : list rx) find call fuel ms g0 e,
  call_errors_base call ->
  run_strict t fl cfg supplied budget regexes find call fuel ms g0 = Err e ->
  check_globals (f_globals fl) (globals_nested supplied) = Err e \/
  exists glob, check_globals (f_globals fl) (globals_nested supplied) = Ok glob /\
  ((exists l, e = ECancelled l) \/
   exists B1 st m B2 s1 p1,
    blocks (f_stanzas fl) ms = B1 ++ (st, m) :: B2 /\
    iterM (fun b : stanza * qmatch => exec_stanza t fl cfg glob regexes find call fuel (fst b) (snd b)) B1 (sinit g0) (polls0 budget) = Ok (tt, s1, p1) /\
    exec_stanza t fl cfg glob regexes find call fuel st m s1 p1 = Err e /\
    match nodes_for_capture m (st_full_stanza_idx st) with
    | n :: _ => located_run t fl cfg glob regexes find call (st_start st) n m (stmts_all (st_stmts st))
                            (exec_stanza t fl cfg glob regexes find call fuel st m) s1 p1 e
    | [] => False
    end).
Proof.
  intros rx t fl cfg supplied budget regexes find call fuel ms g0 e Hc H. unfold run_strict in H.
  destruct (check_globals (f_globals fl) (globals_nested supplied)) as [glob|e'|x|] eqn:Eg; try discriminate.
  - right. exists glob. split; [reflexivity|].
    destruct (exec_file t fl cfg glob regexes find call fuel (f_stanzas fl) ms (sinit g0) (polls0 budget)) as [[[a s1] p1]|e'|x|] eqn:El; try discriminate.
    inversion H; subst. exact (strict_file_error_run_lemma t fl cfg glob regexes find call fuel (f_stanzas fl) ms _ _ _ Hc El).
  - left. inversion H; subst. reflexivity.
Qed.

(* One block, explicitly down to the failing TOP-LEVEL statement x: the statements before x ran successfully from the state
   (s1, p1) the block started in (after clear_frame) to (s2, p2); x (environment `top_le`: the block's match, error context
   (location of x, stanza, node)), run from (s2, p2), returned e'; e is e' inside the statement context of x unless e' already
   carries one; and e' is a cancellation, or x ITSELF failed from (s2, p2) - no statement context -, or e' cites a statement
   nested in x that failed directly from a state reached by THIS run of x (`located_run`, spelled out by
   strict_error_cites_statement_of_the_run). *)
Theorem strict_error_cites_top_statement_of_the_run : forall {rx : Type} t fl cfg glob (regexes : list rx) find call fuel st m s p e n rest,
  call_errors_base call ->
  nodes_for_capture m (st_full_stanza_idx st) = n :: rest ->
  exec_stanza t fl cfg glob regexes find call fuel st m s p = Err e ->
  exists pre x post s1 p1 s2 p2 e',
    st_stmts st = pre ++ x :: post /\
    clear_frame s p = Ok (tt, s1, p1) /\
    iterM (top_stmt t fl cfg glob regexes find call (st_start st) n m fuel st) pre s1 p1 = Ok (tt, s2, p2) /\
    exec_stmt t fl cfg glob regexes find call fuel (top_le (st_start st) n m st x) x s2 p2 = Err e' /\
    e = add_context (CtxStmts [{| sc_stmt := stmt_loc x; sc_stanza := st_start st; sc_node := n |}]) e' /\
    ((exists l, e' = ECancelled l) \/ unwrapped e' \/
     located_run t fl cfg glob regexes find call (st_start st) n m (stmt_subs x)
                 (exec_stmt t fl cfg glob regexes find call fuel (top_le (st_start st) n m st x) x) s2 p2 e').
Proof.
  intros rx t fl cfg glob regexes find call fuel st m s p e n rest Hc Hn H.
  exact (strict_stanza_error_run t fl cfg glob regexes find call Hc (st_start st) n m fuel st s p e rest eq_refl Hn H).
Qed.
(* what top_stmt / top_le are: Stanza::execute runs each top-level statement inside its own statement context *)
Theorem strict_block_is_its_top_statements : forall {rx : Type} t fl cfg glob (regexes : list rx) find call fuel st m n rest,
  nodes_for_capture m (st_full_stanza_idx st) = n :: rest ->
  exec_stanza t fl cfg glob regexes find call fuel st m =
    (clear_frame ;;; iterM (top_stmt t fl cfg glob regexes find call (st_start st) n m fuel st) (st_stmts st)) /\
  forall x, top_stmt t fl cfg glob regexes find call (st_start st) n m fuel st x =
            ctx_wrap (CtxStmts [{| sc_stmt := stmt_loc x; sc_stanza := st_start st; sc_node := n |}])
                     (exec_stmt t fl cfg glob regexes find call fuel (top_le (st_start st) n m st x) x) /\
            le_ctx (top_le (st_start st) n m st x) = {| sc_stmt := stmt_loc x; sc_stanza := st_start st; sc_node := n |} /\
            le_match (top_le (st_start st) n m st x) = m.
Proof.
  intros rx t fl cfg glob regexes find call fuel st m n rest Hn. split.
  - exact (exec_stanza_top t fl cfg glob regexes find call (st_start st) n m fuel st rest eq_refl Hn).
  - intros x. repeat split.
Qed.

(* ---- non-vacuity, and the difference to `fails_directly`.  The program of c20_strict_innermost_nonvacuous:
        node x                        (1, 0)
        if #true { attr (5) k = 1 }   (2, 0) / (3, 2)
   fails in `attr (5) ..` with ExpectedGraphNode.  The nested statement failed IN THE RUN (a derivation of subrun is given);
   `node x` did not: although `fails_directly .. (node x) DuplicateVariable` holds (some state binds x), no state reached by
   this run makes `node x` fail - whatever fails inside the run determines the root cause of the run's error. ---- *)
Definition rx_x : str := [120].
Definition rx_inner : stmt := SAttrNode (EInt 5) [Attr [107] (EInt 1)] (3, 2).
Definition rx_node : stmt := SNode (VarU rx_x (1, 2)) rx_x (1, 0).
Definition rx_st : stanza :=
  {| st_stmts := [rx_node; SIf [([CBool ETrue (2, 3)], [rx_inner], (2, 0))] (2, 0)];
     st_full_stanza_idx := 0; st_full_file_idx := 0; st_start := (0, 0) |}.
Definition rx_fl : file := {| f_globals := []; f_inherited := []; f_shorthands := []; f_stanzas := [rx_st] |}.
Definition rx_m : qmatch := [(0, [7])].
Definition rx_run : M sstate unit :=
  exec_file ex_tree rx_fl config0 [[]] (@nil unit) (fun _ _ => None) ex_call 50 [rx_st] [[rx_m]].

Example c20_run_error : rx_run (sinit []) (polls0 None)
  = Err (EInContext (CtxStmts [{| sc_stmt := (3, 2); sc_stanza := (0, 0); sc_node := 7 |}]) EExpectedGraphNode).
Proof. vm_compute. reflexivity. Qed.

Example c20_nested_statement_failed_in_the_run :
  fails_in_run ex_tree rx_fl config0 [[]] (@nil unit) (fun _ _ => None) ex_call (0, 0) 7 rx_m
               rx_run (sinit []) (polls0 None) rx_inner EExpectedGraphNode.
Proof.
  destruct (strict_file_error_run_lemma ex_tree rx_fl config0 [[]] (@nil unit) (fun _ _ => None) ex_call 50 [rx_st] [[rx_m]] _ _ _ ex_call_base c20_run_error)
    as [[l Hl]|(B1 & st & m & B2 & s1 & p1 & EB & Hpre & Hx & K)]; [discriminate|].
  change (blocks [rx_st] [[rx_m]]) with [(rx_st, rx_m)] in EB.
  destruct B1 as [|b B1]; [|destruct B1; discriminate]. cbn [app] in EB. inversion EB; subst st m B2. clear EB.
  cbn [iterM] in Hpre. inversion Hpre; subst s1 p1. clear Hpre.
  change (nodes_for_capture rx_m (st_full_stanza_idx rx_st)) with [7] in K. cbv iota in K.
  destruct K as (s' & e0 & e1 & Hin & He & He0 & fuel & le & s0 & p0 & H & Hu & Hc & Hm & Hr).
  assert (Es : s' = rx_inner).
  { inversion He as [[Hl _]]. change (stmts_all (st_stmts rx_st)) with [rx_node; SIf [([CBool ETrue (2, 3)], [rx_inner], (2, 0))] (2, 0); rx_inner] in Hin.
    destruct Hin as [<-|[<-|[<-|[]]]]; try discriminate Hl. reflexivity. }
  subst s'. assert (E0 : e0 = EExpectedGraphNode) by (inversion He; reflexivity). subst e0.
  assert (E1 : e1 = EExpectedGraphNode) by (destruct He0 as [<-|E]; [reflexivity|discriminate E]). subst e1.
  exists fuel, le, s0, p0. repeat split; try assumption.
  unfold rx_run. cbn [exec_file]. apply sr_bind_l. cbn [iterM]. apply sr_bind_l. exact Hr.
Qed.

Example c20_node_statement_did_not_fail_in_the_run : forall e1,
  root_cause e1 <> EExpectedGraphNode ->
  ~ fails_in_run ex_tree rx_fl config0 [[]] (@nil unit) (fun _ _ => None) ex_call (0, 0) 7 rx_m
                 rx_run (sinit []) (polls0 None) rx_node e1.
Proof.
  intros e1 Hne (fuel & le & s0 & p0 & H & _ & _ & _ & Hr).
  destruct (subrun_root_cause _ _ _ _ _ _ _ Hr _ H) as (e & He & Hc). rewrite c20_run_error in He. inversion He; subst e.
  cbn [root_cause] in Hc. congruence.
Qed.
(* ... while the state-existential notion holds of it (the audit's observation) *)
Example c20_node_statement_fails_directly_somewhere :
  fails_directly ex_tree rx_fl config0 [[]] (@nil unit) (fun _ _ => None) ex_call (0, 0) 7 rx_m rx_node EDuplicateVariable.
Proof.
  exists 10%nat, {| le_match := rx_m; le_full := 0; le_caps := []; le_ctx := {| sc_stmt := (1, 0); sc_stanza := (0, 0); sc_node := 7 |} |},
         {| s_graph := []; s_locals := [[(rx_x, (VNull, false))]]; s_scoped := []; s_params := [] |}, (polls0 None).
  split; [vm_compute; reflexivity|]. split; [apply U_base; exact I|]. split; reflexivity.
Qed.

(* ================================================================ lazy mode *)
(* what the run-level notions say, spelled out *)
Theorem forced_in_run_spelled : forall t fl call A (c : M lstate A) s p e,
  forced_in_run t fl call c s p e <->
  exists fuel lv s1 p1, eval_lv t fl call fuel lv s1 p1 = Err e /\ origin t fl call s1 e /\
                        subrun (eval_lv t fl call fuel lv) s1 p1 c s p.
Proof. intros. reflexivity. Qed.
Theorem lfails_in_run_spelled : forall {rx : Type} t fl cfg glob (regexes : list rx) find call z n m A (c : M lstate A) s p s' e1,
  lfails_in_run t fl cfg glob regexes find call z n m c s p s' e1 <->
  unwrapped e1 /\
  exists fuel le s1 p1, lexec_stmt t fl cfg glob regexes find call fuel le s' s1 p1 = Err e1 /\
                        ll_ctx le = {| sc_stmt := stmt_loc s'; sc_stanza := z; sc_node := n |} /\ ll_match le = m /\
                        subrun (lexec_stmt t fl cfg glob regexes find call fuel le s') s1 p1 c s p.
Proof. intros. reflexivity. Qed.

(* One block, explicitly down to the failing TOP-LEVEL statement x (as in strict mode; the block starts with the poll and
   clear_frame): x, run from the state (s2, p2) that the preceding statements left, returned e', and e' is a cancellation, x's
   OWN failure (no statement context), the error of a forcing that this run of x started in a state it reached (origin in that
   state), or cites a scan-arm child of x that failed directly from a state reached by this run of x *)
Theorem lazy_error_cites_top_statement_of_the_run : forall {rx : Type} t fl cfg glob (regexes : list rx) find call fuel st m s p e n rest,
  call_errors_base call ->
  nodes_for_capture m (st_full_file_idx st) = n :: rest ->
  lexec_stanza t fl cfg glob regexes find call fuel st m s p = Err e ->
  (exists l, e = ECancelled l) \/
  exists pre x post s1 p1 s2 p2 e',
    st_stmts st = pre ++ x :: post /\
    (lpoll L_matches ;;; lclear_frame) s p = Ok (tt, s1, p1) /\
    iterM (ltop_stmt t fl cfg glob regexes find call (st_start st) n m fuel st) pre s1 p1 = Ok (tt, s2, p2) /\
    lexec_stmt t fl cfg glob regexes find call fuel (ltop_le (st_start st) n m st x) x s2 p2 = Err e' /\
    e = add_context (CtxStmts [{| sc_stmt := stmt_loc x; sc_stanza := st_start st; sc_node := n |}]) e' /\
    let X := lexec_stmt t fl cfg glob regexes find call fuel (ltop_le (st_start st) n m st x) x in
    ((exists l, e' = ECancelled l) \/ unwrapped e' \/ forced_in_run t fl call X s2 p2 e' \/
     arm_cited_run t fl cfg glob regexes find call (st_start st) n m (arm_stmts x) X s2 p2 e').
Proof.
  intros rx t fl cfg glob regexes find call fuel st m s p e n rest Hc Hn H.
  exact (lazy_stanza_error_run t fl cfg glob regexes find call Hc (st_start st) n m fuel st s p e rest eq_refl Hn H).
Qed.

(* The whole lazy execution from the INITIAL state.  The error is the cancellation; or it was raised in block (i, mm), run from
   the state the preceding blocks left (`cites_executed_run`: explicit prefix of the match list; forcing / top-level statement
   / scan-arm child tied to the run of that block); or the execution phase ended in (s1, p1), the evaluation phase run from
   (s1, p1) returned e, and e cites a deferred statement of s1 or has its `origin` IN s1 - the store and scoped-variable table
   the run had built when the failure happened. *)
Theorem lazy_run_error_cites_reached : forall {rx : Type} t fl cfg glob (regexes : list rx) find call fuel ms g0 p e,
  call_errors_base call ->
  lexec_file t fl cfg glob regexes find call fuel ms (linit g0) p = Err e ->
  (exists l, e = ECancelled l) \/
  (exists ms1 i mm ms2 st s1 p1 n rest,
      ms = ms1 ++ (i, mm) :: ms2 /\ nth_error (f_stanzas fl) (N.to_nat i) = Some st /\
      lexec_blocks t fl cfg glob regexes find call fuel ms1 (linit g0) p = Ok (tt, s1, p1) /\
      lexec_stanza t fl cfg glob regexes find call fuel st mm s1 p1 = Err e /\
      nodes_for_capture mm (st_full_file_idx st) = n :: rest /\
      let C := lexec_stanza t fl cfg glob regexes find call fuel st mm in
      (forced_in_run t fl call C s1 p1 e \/
       top_cited_run t fl cfg glob regexes find call (st_start st) n mm (st_stmts st) C s1 p1 e \/
       arm_cited_run t fl cfg glob regexes find call (st_start st) n mm (flat_map arm_stmts (st_stmts st)) C s1 p1 e)) \/
  exists s1 p1, lexec_blocks t fl cfg glob regexes find call fuel ms (linit g0) p = Ok (tt, s1, p1) /\
                evaluate_phase t fl call (fuel + default_eval_fuel) s1 p1 = Err e /\
                (cites_deferred [] (l_edges s1 ++ l_attrs s1 ++ l_prints s1) e \/ origin t fl call s1 e).
Proof.
  intros rx t fl cfg glob regexes find call fuel ms g0 p e Hc.
  exact (lexec_file_init_error_cite_run t fl cfg glob regexes find call Hc fuel ms g0 p e).
Qed.

(* run_lazy: the error of check_globals, or as above *)
Theorem lazy_run_error_cites_reached_run : forall {rx : Type} t fl cfg supplied budget (regexes : list rx) find call fuel ms g0 e,
  call_errors_base call ->
  run_lazy t fl cfg supplied budget regexes find call fuel ms g0 = Err e ->
  check_globals (f_globals fl) (globals_nested supplied) = Err e \/
  exists glob, check_globals (f_globals fl) (globals_nested supplied) = Ok glob /\
  ((exists l, e = ECancelled l) \/
   cites_executed_run t fl cfg glob regexes find call fuel ms (linit g0) (polls0 budget) e \/
   exists s1 p1, lexec_blocks t fl cfg glob regexes find call fuel ms (linit g0) (polls0 budget) = Ok (tt, s1, p1) /\
                 evaluate_phase t fl call (fuel + default_eval_fuel) s1 p1 = Err e /\
                 (cites_deferred [] (l_edges s1 ++ l_attrs s1 ++ l_prints s1) e \/ origin t fl call s1 e)).
Proof.
  intros rx t fl cfg supplied budget regexes find call fuel ms g0 e Hc H. unfold run_lazy in H.
  destruct (check_globals (f_globals fl) (globals_nested supplied)) as [glob|e'|x|] eqn:Eg; try discriminate.
  - right. exists glob. split; [reflexivity|].
    destruct (lexec_file t fl cfg glob regexes find call fuel ms (linit g0) (polls0 budget)) as [[[a s1] p1]|e'|x|] eqn:El; try discriminate.
    inversion H; subst. exact (lexec_file_init_error_cite_run t fl cfg glob regexes find call Hc fuel ms g0 _ _ El).
  - left. inversion H; subst. reflexivity.
Qed.

(* the run-level statement implies the one of Props/C20.v *)
Theorem cites_executed_run_cites_executed : forall {rx : Type} t fl cfg glob (regexes : list rx) find call fuel ms s p e,
  cites_executed_run t fl cfg glob regexes find call fuel ms s p e ->
  forced t fl call e \/ cites_executed t fl cfg glob regexes find call ms e.
Proof.
  intros rx t fl cfg glob regexes find call fuel ms s p e (ms1 & i & mm & ms2 & st & s1 & p1 & n & rest & -> & Est & _ & _ & Hn & [K|[K|K]]).
  - left. eapply forced_in_run_forced, K.
  - right. exists i, st, mm, n, rest. split; [apply in_or_app; right; left; reflexivity|]. split; [exact Est|]. split; [exact Hn|].
    left. eapply top_cited_run_cited, K.
  - right. exists i, st, mm, n, rest. split; [apply in_or_app; right; left; reflexivity|]. split; [exact Est|]. split; [exact Hn|].
    right. eapply arm_cited_run_cited, K.
Qed.


(* ================================================================================================================
   THE STANDARD LIBRARY (see the end of Props/C20.v): the run-level theorems above that carry `call_errors_base call`,
   with `call := stdlib_call rxo t` — no hypothesis on functions is left. *)
From TSG Require Import Model.Stdlib Proofs.StdlibHyps.

Theorem strict_error_cites_statement_of_the_run_stdlib : forall {rx : Type} rxo t fl cfg glob (regexes : list rx) find fuel sts ms s p e,
  exec_file t fl cfg glob regexes find (stdlib_call rxo t) fuel sts ms s p = Err e ->
  (exists l, e = ECancelled l) \/
  exists B1 st m B2 s1 p1,
    blocks sts ms = B1 ++ (st, m) :: B2 /\
    iterM (fun b : stanza * qmatch => exec_stanza t fl cfg glob regexes find (stdlib_call rxo t) fuel (fst b) (snd b)) B1 s p = Ok (tt, s1, p1) /\
    exec_stanza t fl cfg glob regexes find (stdlib_call rxo t) fuel st m s1 p1 = Err e /\
    match nodes_for_capture m (st_full_stanza_idx st) with
    | n :: _ =>
        exists s' e0 e1,
          stmt_in st s' /\
          e = EInContext (CtxStmts [{| sc_stmt := stmt_loc s'; sc_stanza := st_start st; sc_node := n |}]) e0 /\
          (e0 = e1 \/ e0 = EInContext CtxOther e1) /\
          exists fuel' le s0 p0,
            exec_stmt t fl cfg glob regexes find (stdlib_call rxo t) fuel' le s' s0 p0 = Err e1 /\ unwrapped e1 /\
            le_ctx le = {| sc_stmt := stmt_loc s'; sc_stanza := st_start st; sc_node := n |} /\ le_match le = m /\
            subrun (exec_stmt t fl cfg glob regexes find (stdlib_call rxo t) fuel' le s') s0 p0
                   (exec_stanza t fl cfg glob regexes find (stdlib_call rxo t) fuel st m) s1 p1
    | [] => False
    end.
Proof.
  intros rx rxo t fl cfg glob regexes find fuel sts ms s p e.
  exact (@strict_error_cites_statement_of_the_run rx t fl cfg glob regexes find (stdlib_call rxo t) fuel sts ms s p e (stdlib_call_errors_base rxo t)).
Qed.

Theorem strict_run_error_cites_statement_of_the_run_stdlib : forall {rx : Type} rxo t fl cfg supplied budget (regexes : list rx) find fuel ms g0 e,
  run_strict t fl cfg supplied budget regexes find (stdlib_call rxo t) fuel ms g0 = Err e ->
  check_globals (f_globals fl) (globals_nested supplied) = Err e \/
  exists glob, check_globals (f_globals fl) (globals_nested supplied) = Ok glob /\
  ((exists l, e = ECancelled l) \/
   exists B1 st m B2 s1 p1,
    blocks (f_stanzas fl) ms = B1 ++ (st, m) :: B2 /\
    iterM (fun b : stanza * qmatch => exec_stanza t fl cfg glob regexes find (stdlib_call rxo t) fuel (fst b) (snd b)) B1 (sinit g0) (polls0 budget) = Ok (tt, s1, p1) /\
    exec_stanza t fl cfg glob regexes find (stdlib_call rxo t) fuel st m s1 p1 = Err e /\
    match nodes_for_capture m (st_full_stanza_idx st) with
    | n :: _ => located_run t fl cfg glob regexes find (stdlib_call rxo t) (st_start st) n m (stmts_all (st_stmts st))
                            (exec_stanza t fl cfg glob regexes find (stdlib_call rxo t) fuel st m) s1 p1 e
    | [] => False
    end).
Proof.
  intros rx rxo t fl cfg supplied budget regexes find fuel ms g0 e.
  exact (@strict_run_error_cites_statement_of_the_run rx t fl cfg supplied budget regexes find (stdlib_call rxo t) fuel ms g0 e (stdlib_call_errors_base rxo t)).
Qed.

Theorem strict_error_cites_top_statement_of_the_run_stdlib : forall {rx : Type} rxo t fl cfg glob (regexes : list rx) find fuel st m s p e n rest,
  nodes_for_capture m (st_full_stanza_idx st) = n :: rest ->
  exec_stanza t fl cfg glob regexes find (stdlib_call rxo t) fuel st m s p = Err e ->
  exists pre x post s1 p1 s2 p2 e',
    st_stmts st = pre ++ x :: post /\
    clear_frame s p = Ok (tt, s1, p1) /\
    iterM (top_stmt t fl cfg glob regexes find (stdlib_call rxo t) (st_start st) n m fuel st) pre s1 p1 = Ok (tt, s2, p2) /\
    exec_stmt t fl cfg glob regexes find (stdlib_call rxo t) fuel (top_le (st_start st) n m st x) x s2 p2 = Err e' /\
    e = add_context (CtxStmts [{| sc_stmt := stmt_loc x; sc_stanza := st_start st; sc_node := n |}]) e' /\
    ((exists l, e' = ECancelled l) \/ unwrapped e' \/
     located_run t fl cfg glob regexes find (stdlib_call rxo t) (st_start st) n m (stmt_subs x)
                 (exec_stmt t fl cfg glob regexes find (stdlib_call rxo t) fuel (top_le (st_start st) n m st x) x) s2 p2 e').
Proof.
  intros rx rxo t fl cfg glob regexes find fuel st m s p e n rest.
  exact (@strict_error_cites_top_statement_of_the_run rx t fl cfg glob regexes find (stdlib_call rxo t) fuel st m s p e n rest (stdlib_call_errors_base rxo t)).
Qed.

Theorem lazy_error_cites_top_statement_of_the_run_stdlib : forall {rx : Type} rxo t fl cfg glob (regexes : list rx) find fuel st m s p e n rest,
  nodes_for_capture m (st_full_file_idx st) = n :: rest ->
  lexec_stanza t fl cfg glob regexes find (stdlib_call rxo t) fuel st m s p = Err e ->
  (exists l, e = ECancelled l) \/
  exists pre x post s1 p1 s2 p2 e',
    st_stmts st = pre ++ x :: post /\
    (lpoll L_matches ;;; lclear_frame) s p = Ok (tt, s1, p1) /\
    iterM (ltop_stmt t fl cfg glob regexes find (stdlib_call rxo t) (st_start st) n m fuel st) pre s1 p1 = Ok (tt, s2, p2) /\
    lexec_stmt t fl cfg glob regexes find (stdlib_call rxo t) fuel (ltop_le (st_start st) n m st x) x s2 p2 = Err e' /\
    e = add_context (CtxStmts [{| sc_stmt := stmt_loc x; sc_stanza := st_start st; sc_node := n |}]) e' /\
    let X := lexec_stmt t fl cfg glob regexes find (stdlib_call rxo t) fuel (ltop_le (st_start st) n m st x) x in
    ((exists l, e' = ECancelled l) \/ unwrapped e' \/ forced_in_run t fl (stdlib_call rxo t) X s2 p2 e' \/
     arm_cited_run t fl cfg glob regexes find (stdlib_call rxo t) (st_start st) n m (arm_stmts x) X s2 p2 e').
Proof.
  intros rx rxo t fl cfg glob regexes find fuel st m s p e n rest.
  exact (@lazy_error_cites_top_statement_of_the_run rx t fl cfg glob regexes find (stdlib_call rxo t) fuel st m s p e n rest (stdlib_call_errors_base rxo t)).
Qed.

Theorem lazy_run_error_cites_reached_stdlib : forall {rx : Type} rxo t fl cfg glob (regexes : list rx) find fuel ms g0 p e,
  lexec_file t fl cfg glob regexes find (stdlib_call rxo t) fuel ms (linit g0) p = Err e ->
  (exists l, e = ECancelled l) \/
  (exists ms1 i mm ms2 st s1 p1 n rest,
      ms = ms1 ++ (i, mm) :: ms2 /\ nth_error (f_stanzas fl) (N.to_nat i) = Some st /\
      lexec_blocks t fl cfg glob regexes find (stdlib_call rxo t) fuel ms1 (linit g0) p = Ok (tt, s1, p1) /\
      lexec_stanza t fl cfg glob regexes find (stdlib_call rxo t) fuel st mm s1 p1 = Err e /\
      nodes_for_capture mm (st_full_file_idx st) = n :: rest /\
      let C := lexec_stanza t fl cfg glob regexes find (stdlib_call rxo t) fuel st mm in
      (forced_in_run t fl (stdlib_call rxo t) C s1 p1 e \/
       top_cited_run t fl cfg glob regexes find (stdlib_call rxo t) (st_start st) n mm (st_stmts st) C s1 p1 e \/
       arm_cited_run t fl cfg glob regexes find (stdlib_call rxo t) (st_start st) n mm (flat_map arm_stmts (st_stmts st)) C s1 p1 e)) \/
  exists s1 p1, lexec_blocks t fl cfg glob regexes find (stdlib_call rxo t) fuel ms (linit g0) p = Ok (tt, s1, p1) /\
                evaluate_phase t fl (stdlib_call rxo t) (fuel + default_eval_fuel) s1 p1 = Err e /\
                (cites_deferred [] (l_edges s1 ++ l_attrs s1 ++ l_prints s1) e \/ origin t fl (stdlib_call rxo t) s1 e).
Proof.
  intros rx rxo t fl cfg glob regexes find fuel ms g0 p e.
  exact (@lazy_run_error_cites_reached rx t fl cfg glob regexes find (stdlib_call rxo t) fuel ms g0 p e (stdlib_call_errors_base rxo t)).
Qed.

Theorem lazy_run_error_cites_reached_run_stdlib : forall {rx : Type} rxo t fl cfg supplied budget (regexes : list rx) find fuel ms g0 e,
  run_lazy t fl cfg supplied budget regexes find (stdlib_call rxo t) fuel ms g0 = Err e ->
  check_globals (f_globals fl) (globals_nested supplied) = Err e \/
  exists glob, check_globals (f_globals fl) (globals_nested supplied) = Ok glob /\
  ((exists l, e = ECancelled l) \/
   cites_executed_run t fl cfg glob regexes find (stdlib_call rxo t) fuel ms (linit g0) (polls0 budget) e \/
   exists s1 p1, lexec_blocks t fl cfg glob regexes find (stdlib_call rxo t) fuel ms (linit g0) (polls0 budget) = Ok (tt, s1, p1) /\
                 evaluate_phase t fl (stdlib_call rxo t) (fuel + default_eval_fuel) s1 p1 = Err e /\
                 (cites_deferred [] (l_edges s1 ++ l_attrs s1 ++ l_prints s1) e \/ origin t fl (stdlib_call rxo t) s1 e)).
Proof.
  intros rx rxo t fl cfg supplied budget regexes find fuel ms g0 e.
  exact (@lazy_run_error_cites_reached_run rx t fl cfg supplied budget regexes find (stdlib_call rxo t) fuel ms g0 e (stdlib_call_errors_base rxo t)).
Qed.

