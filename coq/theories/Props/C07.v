(* Props/C07.v — property theorems only.
   Parsing recovers exactly the written program and its source locations.

   Vocabulary
     Model/Parser.v   parse X fuel text — the model of File::parse, over code points; state pst =
                      (remaining chars, BYTE offset, row, CHARACTER column, scan patterns seen)
     Spec/Render.v    pos_after p t  (row, column) after writing text t from p;  bytes t = UTF-8 length;
                      newlines / has_newline / last_line;  st_after s t r = the parser state after
                      consuming exactly t from s, leaving r;  gaps (whitespace and `;` comments);
                      render_string / render_int: every legal spelling of a literal;
                      WfIdent: [_ alphabetic][_ - alphanumeric]*
     Proofs/Parser.v  len s = number of remaining characters; expr_follow X w g r: after an expression
                      come the gap g and then r, where r starts no gap, no `.`, and (if the expression
                      ends in a word character, w = true) g ++ r does not start with an identifier char.
   F is the fuel; every theorem holds for all F larger than the remaining text (fuel_of text is). *)
From TSG Require Import Model.Parser Spec.Render Proofs.Parser Proofs.ParseRender Proofs.ParseRenderStmt.

(* ---- Location::advance and the byte offset, for ANY consumed text (newlines, multi-byte chars):
   offset = sum of the UTF-8 lengths, row = number of newlines, column = characters since the last
   newline (columns count characters, not bytes) ---- *)
Theorem location_advance : forall s t r, p_rest s = t ++ r ->
  exists s', consume_n (length t) s = ROk tt s' /\
    p_rest s' = r /\ p_off s' = p_off s + bytes t /\ p_row s' = p_row s + newlines t /\
    p_col s' = (if has_newline t then N.of_nat (length (last_line t)) else p_col s + N.of_nat (length t)) /\
    p_pats s' = p_pats s.
Proof. exact location_advance_lemma. Qed.

(* the same closed form for the state every later theorem speaks about *)
Theorem st_after_position : forall s t r,
  p_loc (st_after s t r) =
    (p_row s + newlines t,
     if has_newline t then N.of_nat (length (last_line t)) else p_col s + N.of_nat (length t)) /\
  p_off (st_after s t r) = p_off s + bytes t /\ p_rest (st_after s t r) = r.
Proof.
  intros s t r. rewrite p_loc_st_after, pos_after_closed. repeat split; reflexivity.
Qed.

(* ---- consume_whitespace skips exactly the maximal prefix of whitespace and `;` comments:
   whenever the text is a gap g (whitespace characters and comments `;...\n`) followed by an r that
   starts neither with whitespace nor with `;`, exactly render_gap g is consumed ---- *)
Theorem whitespace_skip_spec : forall X F g s r, WfGap X g -> no_gap_start X r ->
  p_rest s = render_gap g ++ r -> (len s < F)%nat ->
  consume_whitespace X F s = ROk tt (st_after s (render_gap g) r).
Proof. exact consume_whitespace_ok. Qed.

(* ---- string literals: parsing any legal spelling of a string (mandatory escapes of the quote and
   the backslash; \0 \n \r \t or the raw characters; optional \c for any other c) yields the string ---- *)
Theorem string_literal_roundtrip : forall F es v s r,
  p_rest s = render_string es v ++ r -> (len s < F)%nat ->
  parse_string F s = ROk v (st_after s (render_string es v) r).
Proof. exact parse_string_ok. Qed.

(* ---- integer literals below 2^32, with any number of leading zeros ---- *)
Theorem integer_literal_roundtrip : forall F zeros n s r, n <= u32_max -> no_digit_start r ->
  p_rest s = render_int zeros n ++ r -> (len s < F)%nat ->
  parse_integer_constant F s = ROk (EInt n) (st_after s (render_int zeros n) r).
Proof. exact parse_integer_constant_ok. Qed.
(* ... and 2^32 is rejected, not wrapped and not a panic *)
Theorem integer_literal_overflow : forall F zeros n s r, u32_max < n -> no_digit_start r ->
  p_rest s = render_int zeros n ++ r -> (len s < F)%nat ->
  parse_integer_constant F s = RErr (PEInvalidIntegerConstant (p_loc s)).
Proof. exact parse_integer_constant_overflow. Qed.

(* ---- identifiers: as a name (parse_name, used for every keyword, function, attribute, global,
   shorthand and variable name) and as an expression, with the location of the first character ---- *)
Theorem name_roundtrip : forall X F within n s r, WfIdent X n -> no_ident_start X r ->
  p_rest s = n ++ r -> (len s < F)%nat -> parse_name X F within s = ROk n (st_after s n r).
Proof. exact parse_name_ok. Qed.
Theorem identifier_roundtrip : forall X F n g s r, WfIdent X n -> expr_follow X true g r ->
  p_rest s = n ++ render_gap g ++ r -> (len s < F)%nat ->
  parse_expression X F s = ROk (EUnscoped n (p_loc s)) (st_after s (n ++ render_gap g) r).
Proof. exact parse_expression_ident. Qed.

(* ---- identifiers are never confused with keywords they merely begin with.  `some` and `none` are the
   only keywords recognised where an expression may also start (conditions); every identifier other
   than exactly `some` / `none` is read there as a variable.  (Everywhere else an expression is parsed
   by parse_expression, where identifier_roundtrip applies; statement keywords are read by parse_name,
   i.e. by maximal munch, where name_roundtrip applies.) ---- *)
Theorem keyword_prefix_safe : forall X F n g s r, WfIdent X n -> n <> t_some -> n <> t_none ->
  expr_follow X true g r -> p_rest s = n ++ render_gap g ++ r -> (len s < F)%nat ->
  parse_condition X F s = ROk (CBool (EUnscoped n (p_loc s)) (p_loc s)) (st_after s (n ++ render_gap g) r).
Proof. exact parse_condition_ident. Qed.

(* ---- the round trip for expressions: for every well-formed expression e (all 14 forms, any nesting),
   every layout L (any gaps — whitespace and `;` comments — at every token boundary, optional trailing
   commas in list and set literals, any legal spelling of strings and integers; a single space is
   inserted only where two tokens would otherwise merge), written at any position of any text:
   parse_expression returns exactly `rloc L p e` — e with every location set to the (row, character
   column) of the construct's first character (scoped variable: of its NAME), captures unresolved —
   and stops exactly after the text and the following gap.
   Hypotheses: UnicodeSane X (whitespace characters are not identifier characters: a fact of the
   Unicode tables, validated on the table of every correspondence case), expr_follow (what follows
   does not continue the expression: no `.`, no gap, and no identifier character directly after a
   word). ---- *)
Theorem parse_render_expr : forall X F, UnicodeSane X ->
  forall e L s g r, WfExpr X e -> WfLayout X L -> expr_follow X (ends_word e) g r ->
  p_rest s = fst (render_expr L (p_loc s) e) ++ render_gap g ++ r -> (len s < F)%nat ->
  parse_expression X F s =
    ROk (snd (render_expr L (p_loc s) e)) (st_after s (fst (render_expr L (p_loc s) e) ++ render_gap g) r).
Proof. intros X F HS e L s g r. apply parse_render_expr_lemma. exact HS. Qed.

(* two layouts of the same expression parse to ASTs that differ in locations only *)
Theorem layout_irrelevant_expr : forall L1 L2 p1 p2 e,
  erase_locs (rloc L1 p1 e) = erase_locs (rloc L2 p2 e).
Proof. exact rloc_erase_indep. Qed.

(* ---- the round trip for statements (all 11 forms: let var set node edge attr(node) attr(edge) print
   scan if/elif/else for; attribute lists with bare names = #true; condition lists with some/none/plain
   conditions; blocks nested to any depth) and for the block of a stanza.
   `stext tbl L st` is the written statement (tbl = the regex of every scan arm), `sloc tbl L p k st` the
   AST the parser must produce at position p when k scan arms were parsed before: statement location
   = first character of its keyword; `if` arms: the `if` / `elif` / `else` keyword; scan arms: the
   `scan` keyword and their number in order of appearance; for-variable, conditions, variables,
   captures: their first character.  The parser state afterwards has consumed exactly the text and
   the following gap, and has recorded the regexes of the scan arms in order (add_pats).
   stmt_follow: what follows is the next statement or the closing brace (no gap, `.`, `,`, `=`,
   `elif`/`else`, and no identifier character directly after a final word). ---- *)
Theorem parse_render_stmt : forall X F, UnicodeSane X -> forall tbl st L s g r,
  WfStmt X tbl st -> WfLayout X L -> stmt_follow X (stmt_ends_word L st) g r ->
  p_rest s = stext tbl L st ++ render_gap g ++ r -> (len s < F)%nat ->
  (st0 <- parse_statement X F ;; consume_whitespace X F ;;; ret st0) s =
    ROk (sloc tbl L (p_loc s) (length (p_pats s)) st)
        (add_pats (stmt_pats tbl st) (st_after s (stext tbl L st ++ render_gap g) r)).
Proof. intros X F HS tbl st L s g r. apply parse_render_stmt_lemma. exact HS. Qed.

(* the text field of a `node` statement (`SNode v t l`: the Display text of the variable, which the interpreters write into the
   debug attribute "variable name"; the real AST has no such field, the dump fills it with format!("{}", node)): the parser
   model returns display_variable v (Model/VarDisplay.v; <str as Debug> on non-ASCII characters is the external table
   x_print), `sloc` keeps the field of the written AST, and WfStmt demands that it IS that text - so parse_render_stmt /
   _block / _file state the round trip of this field as well (stream C07 compares it).  For every accepted text:
   Props/C20disp.v parsed_node_text. *)
Theorem wf_node_text : forall X tbl v t l,
  WfStmt X tbl (SNode v t l) <-> WfVar X v /\ t = display_variable (dpenv_of (x_print X)) v.
Proof. intros. reflexivity. Qed.
Theorem sloc_node_text : forall X tbl L p k v t l, WfStmt X tbl (SNode v t l) ->
  exists v', sloc tbl L p k (SNode v t l) = SNode v' (display_variable (dpenv_of (x_print X)) v') p.
Proof.
  intros X tbl L p k v t l [_ ->]. cbn [sloc]. eexists. rewrite display_variable_vloc. reflexivity.
Qed.

Theorem parse_render_block : forall X F, UnicodeSane X -> forall tbl l L s r,
  wf_stmts X tbl l -> WfLayout X L ->
  p_rest s = block_text tbl L l ++ r -> (len s < F)%nat ->
  parse_stanza_statements X F s =
    ROk (block_loc tbl L (p_loc s) (length (p_pats s)) l)
        (add_pats (stmts_pats tbl l) (st_after s (block_text tbl L l) r)).
Proof. intros X F HS tbl l L s r. apply parse_render_block_lemma. exact HS. Qed.

(* the hypothesis UnicodeSane is a condition on the NON-ASCII rows of the external tables only *)
Theorem unicode_sane_from_tables : forall X,
  (forall c, 128 <= c -> x_ws X c = true -> x_alnum X c = false /\ x_alpha X c = false) -> UnicodeSane X.
Proof. exact UnicodeSane_intro. Qed.

(* ---- the round trip proper, for whole files.  `items` is the file in source order (globals with the
   four quantifier forms and optional default, `inherit .name`, attribute shorthands, stanzas with their
   query text); file_text is its rendering under layout L (a leading gap, then every item followed by
   a gap).  A global is written `global` gap NAME, the quantifier character `?` `*` `+` (none for One)
   directly after the name, and optionally ARBITRARY-gap `=` ARBITRARY-gap "default"; both gaps and the
   gap behind the item may be empty (`global x="a"`, `global x;comment`, `global x` at the end of the
   input).  The only forced separator: behind a global that ends with its bare name (no quantifier
   character, no default) the gap is non-empty when the next item starts with an identifier character
   (it would continue the name) or with `?` `*` `+` (it would be read as the quantifier) - next_clash.
   file_items_loc is the same items with every location set to the position of the construct's
   first character (global, shorthand: their NAME; stanza: the first character of its query) and the
   scan arms numbered in order of appearance; file_of_items is the File that parse_into_file fills
   (globals and stanzas in order, inherited names as a set, shorthands as a map by name).
   Hypotheses about the externals (they are what tree-sitter decides, recorded per case by the
   correspondence stream): queries_ok - tree-sitter accepts every stanza's query text (plus the
   appended full-match capture) as ONE pattern and reports the capture index the AST carries;
   x_merged - the concatenation of the accepted queries compiles; WfItem - the query text has no `{`
   outside strings/comments and does not begin like a top-level keyword, every scan regex is valid.
   Fuel: fuel_of text = S (length text). ---- *)
Theorem parse_render_file : forall X tbl items L, UnicodeSane X ->
  Forall (WfItem X tbl) items -> WfLayout X L ->
  queries_ok X tbl (sub L 1) 0 (bytes (G L 0)) items ->
  x_merged X (concat (map item_query_source items)) = Some true ->
  let text := file_text tbl X L items in
  parse X (fuel_of text) text =
    POk (file_of_items (file_items_loc tbl X L items)) (concat (map (item_pats tbl) items)).
Proof. exact parse_render_file_lemma. Qed.

(* ---- non-vacuity ---- *)
Definition ex_ext : ext :=
  {| x_alpha := fun c => c =? 233; x_alnum := fun c => c =? 233; x_ws := fun c => c =? 160;
     x_query := fun _ _ => Some (QOk 1 (Some 1)); x_merged := fun _ => Some true; x_regex := fun _ => Some true; x_print := [] |}.
Definition st0 (t : str) : pst := init_state t.

(* a gap with a tab, a comment containing a multi-byte character and a brace, a no-break space *)
Definition ex_gap : gap := [GWs 9; GComment [233; 32; 123]; GWs 160; GWs 10].
Example ex_gap_wf : WfGap ex_ext ex_gap.
Proof. repeat constructor; cbn; try reflexivity. intros [H|[H|[H|[]]]]; discriminate. Qed.
Example ex_ws : consume_whitespace ex_ext 50 (st0 (render_gap ex_gap ++ [120]))
  = ROk tt {| p_rest := [120]; p_off := 10; p_row := 2; p_col := 0; p_pats := [] |}.
Proof. vm_compute. reflexivity. Qed.
(* a, quote, b, backslash, c, escaped newline, raw newline, escaped x *)
Example ex_string : parse_string 50 (st0 (render_string [false; true; false; true; false; true; false; true] [97; 34; 98; 92; 99; 10; 10; 120] ++ [41]))
  = ROk [97; 34; 98; 92; 99; 10; 10; 120] {| p_rest := [41]; p_off := 14; p_row := 1; p_col := 3; p_pats := [] |}.
Proof. vm_compute. reflexivity. Qed.
Example ex_int : parse_integer_constant 50 (st0 (render_int 2 4294967295 ++ [41])) = ROk (EInt 4294967295) (st_after (st0 (render_int 2 4294967295 ++ [41])) (render_int 2 4294967295) [41]).
Proof. apply integer_literal_roundtrip; [vm_compute; discriminate | reflexivity | reflexivity | vm_compute; lia]. Qed.

(* the identifiers named by the property: each is well-formed, is not a keyword, and parses as itself
   in a condition and in an expression, e.g. `if something {`, `none_left,`, `(format)` *)
Definition kw_idents : list ident := [[115; 111; 109; 101; 116; 104; 105; 110; 103]; [110; 111; 110; 101; 95; 108; 101; 102; 116]; [102; 111; 114; 109; 97; 116]; [105; 110; 115; 105; 100; 101]; [108; 101; 116; 116; 101; 114]; [110; 111; 100; 101; 115]; [101; 108; 115; 101; 119; 104; 101; 114; 101]; [115; 111; 109; 101; 120]; [110; 111; 110; 101; 115; 117; 99; 104]; [115; 111; 109; 101; 95]; [105; 102; 102; 121]; [102; 111; 114; 101; 115; 116]; [115; 101; 116; 116; 108; 101]; [101; 108; 105; 102; 95; 120]; [101; 108; 115; 101; 95; 121]].
Example kw_idents_ok : forall X, Forall (fun n => WfIdent X n /\ n <> t_some /\ n <> t_none) kw_idents.
Proof. intros X. repeat constructor; cbn; try reflexivity; discriminate. Qed.
Example kw_idents_parse : forall n, In n kw_idents ->
  parse_condition ex_ext 50 (st0 (n ++ [32; 123])) =
    ROk (CBool (EUnscoped n (0, 0)) (0, 0)) (st_after (st0 (n ++ [32; 123])) (n ++ [32]) [123]).
Proof.
  intros n Hin. repeat (destruct Hin as [<-|Hin]; [vm_compute; reflexivity|]). destruct Hin.
Qed.
(* ... while the keywords themselves still work: `some x` and `none x` *)
Example ex_some_keyword : parse_condition ex_ext 50 (st0 [115; 111; 109; 101; 32; 120]) =
  ROk (CSome (EUnscoped [120] (0, 5)) (0, 0)) (st_after (st0 [115; 111; 109; 101; 32; 120]) [115; 111; 109; 101; 32; 120] []).
Proof. vm_compute. reflexivity. Qed.

(* ---- the round-trip theorems apply to non-trivial instances ---- *)
Example ex_ext_sane : UnicodeSane ex_ext.
Proof.
  apply unicode_sane_from_tables. intros c Hc Hw. cbn in *. apply N.eqb_eq in Hw. subst c. split; reflexivity.
Qed.
(* a layout with a space + comment at every odd-length position, trailing commas, escapes, a leading zero *)
Definition ex_layout : layout :=
  {| l_gap := fun p => if Nat.even (length p) then [] else [GWs 32; GComment [233; 59]; GWs 9];
     l_flag := fun _ => true; l_esc := fun _ => [true; false]; l_zeros := fun _ => 1%nat |}.
Example ex_layout_wf : WfLayout ex_ext ex_layout.
Proof.
  intros p. cbn. destruct (Nat.even (length p)); repeat constructor; cbn; try reflexivity.
  intros [H|[H|[]]]; discriminate.
Qed.
(* (format [1, "a\n",] @cap.something) *)
Definition ex_expr : expr :=
  ECall [102; 111; 114; 109; 97; 116] [EList [EInt 1; EStr [97; 10]]; EScoped (ECapture [99; 97; 112] QOne 3 4 (7, 7)) [115; 111; 109; 101; 116; 104; 105; 110; 103] (9, 9)].
Example ex_expr_wf : WfExpr ex_ext ex_expr.
Proof. cbn. repeat split; discriminate. Qed.
Example ex_expr_roundtrip :
  let t := rtext ex_layout ex_expr in
  parse_expression ex_ext 200 (st0 (t ++ [41])) = ROk (rloc ex_layout (0, 0) ex_expr) (st_after (st0 (t ++ [41])) t [41])
  /\ (length t = 69)%nat.
Proof.
  cbv zeta. split; [|vm_compute; reflexivity].
  apply (parse_render_expr ex_ext 200 ex_ext_sane ex_expr ex_layout (st0 (rtext ex_layout ex_expr ++ [41])) [] [41] ex_expr_wf ex_layout_wf).
  - repeat split; try discriminate. constructor.
  - reflexivity.
  - vm_compute. lia.
Qed.
(* if some @cap, something { scan x { RE { print 1, 2 } } } elif #true { node n } else { attr (n) a, b = 1 } *)
Definition ex_stmt : stmt :=
  SIf [([CSome (ECapture [99; 97; 112] QZero 0 0 (0, 0)) (0, 0); CBool (EUnscoped [115; 111; 109; 101; 116; 104; 105; 110; 103] (0, 0)) (0, 0)],
        [SScan (EUnscoped [120] (0, 0)) [(0, [SPrint [EInt 1; EInt 2] (0, 0)], (0, 0))] (0, 0)], (0, 0));
       ([CBool ETrue (0, 0)], [SNode (VarU [110] (0, 0)) [110] (0, 0)], (0, 0));
       ([], [SAttrNode (EUnscoped [110] (0, 0)) [Attr [97] ETrue; Attr [98] (EInt 1)] (0, 0)], (0, 0))] (0, 0).
Example ex_stmt_wf : WfStmt ex_ext [[97; 43]] ex_stmt.
Proof. cbn. repeat split; try discriminate; repeat constructor; cbn; try discriminate; auto. Qed.
Example ex_stmt_roundtrip :
  let t := stext [[97; 43]] ex_layout ex_stmt in
  (st1 <- parse_statement ex_ext 400 ;; consume_whitespace ex_ext 400 ;;; ret st1) (st0 (t ++ [125])) =
    ROk (sloc [[97; 43]] ex_layout (0, 0) 0 ex_stmt) (add_pats [[97; 43]] (st_after (st0 (t ++ [125])) t [125]))
  /\ (length t = 191)%nat.
Proof.
  cbv zeta. split; [|vm_compute; reflexivity].
  apply (parse_render_stmt ex_ext 400 ex_ext_sane [[97; 43]] ex_stmt ex_layout (st0 (stext [[97; 43]] ex_layout ex_stmt ++ [125])) [] [125] ex_stmt_wf ex_layout_wf).
  - repeat split; try discriminate; try reflexivity. constructor.
  - reflexivity.
  - vm_compute. lia.
Qed.

(* a whole file: global g? = "d"   inherit .sc   attribute sh = x => a = x, b   (identifier) @id { <ex_stmt> } *)
Definition ex_items : list item :=
  [IGlobal {| gl_name := [103]; gl_quant := QOpt; gl_default := Some [100]; gl_loc := (0, 0) |};
   IGlobal {| gl_name := [108; 105; 115; 116; 95]; gl_quant := QOne; gl_default := None; gl_loc := (0, 0) |};
   IInherit [115; 99];
   IShorthand {| sh_name := [115; 104]; sh_var := [120]; sh_vloc := (0, 0);
                 sh_attrs := [Attr [97] (EUnscoped [120] (0, 0)); Attr [98] ETrue]; sh_loc := (0, 0) |};
   IStanza [40; 105; 100; 101; 110; 116; 105; 102; 105; 101; 114; 41; 32; 64; 105; 100; 32; 59; 32; 99; 10] {| st_stmts := [ex_stmt; SNode (VarU [109] (0, 0)) [109] (0, 0)]; st_full_stanza_idx := 1;
                    st_full_file_idx := 0; st_start := (0, 0) |}].
Example ex_items_wf : Forall (WfItem ex_ext [[97; 43]]) ex_items.
Proof.
  repeat constructor; cbn; try discriminate; try reflexivity; auto.
Qed.
Example ex_file_roundtrip :
  let text := file_text [[97; 43]] ex_ext ex_layout ex_items in
  parse ex_ext (fuel_of text) text =
    POk (file_of_items (file_items_loc [[97; 43]] ex_ext ex_layout ex_items)) [[97; 43]]
  /\ (length text = 360)%nat.
Proof.
  cbv zeta. split; [|vm_compute; reflexivity].
  apply (parse_render_file ex_ext [[97; 43]] ex_items ex_layout ex_ext_sane ex_items_wf ex_layout_wf).
  - cbn [queries_ok ex_items]. repeat split. exists 1. split; reflexivity.
  - reflexivity.
Qed.

(* ---- regression (repaired parse_quantifier): no whitespace is needed after a global's name.
   `global x="a"` LF `(m) {}` parses to the global x, quantifier One, default "a", located at its name;
   before the repair the `=` was consumed as a (wrong) quantifier character: ExpectedQuantifier ---- *)
Definition ex_global_eq_text : str :=
  [103; 108; 111; 98; 97; 108; 32; 120; 61; 34; 97; 34; 10; 40; 109; 41; 32; 123; 125].
Example ex_global_default_without_space :
  parse ex_ext (fuel_of ex_global_eq_text) ex_global_eq_text =
    POk {| f_globals := [{| gl_name := [120]; gl_quant := QOne; gl_default := Some [97]; gl_loc := (0, 7) |}];
           f_inherited := []; f_shorthands := [];
           f_stanzas := [{| st_stmts := []; st_full_stanza_idx := 1; st_full_file_idx := u32_max; st_start := (1, 0) |}] |} [].
Proof. vm_compute. reflexivity. Qed.
(* the other formerly rejected layouts: `global x;c` LF, `global x= "a"`, `global x?="a"`, each before `(m) {}` *)
Example ex_global_comment_without_space :
  let t := [103; 108; 111; 98; 97; 108; 32; 120; 59; 99; 10; 40; 109; 41; 32; 123; 125] in
  exists z, parse ex_ext (fuel_of t) t =
    POk {| f_globals := [{| gl_name := [120]; gl_quant := QOne; gl_default := None; gl_loc := (0, 7) |}];
           f_inherited := []; f_shorthands := []; f_stanzas := [z] |} [].
Proof. eexists. vm_compute. reflexivity. Qed.
Example ex_global_eq_then_space :
  let t := [103; 108; 111; 98; 97; 108; 32; 120; 61; 32; 34; 97; 34; 10; 40; 109; 41; 32; 123; 125] in
  exists z, parse ex_ext (fuel_of t) t =
    POk {| f_globals := [{| gl_name := [120]; gl_quant := QOne; gl_default := Some [97]; gl_loc := (0, 7) |}];
           f_inherited := []; f_shorthands := []; f_stanzas := [z] |} [].
Proof. eexists. vm_compute. reflexivity. Qed.
Example ex_global_quantifier_then_eq :
  let t := [103; 108; 111; 98; 97; 108; 32; 120; 63; 61; 34; 97; 34; 10; 40; 109; 41; 32; 123; 125] in
  exists z, parse ex_ext (fuel_of t) t =
    POk {| f_globals := [{| gl_name := [120]; gl_quant := QOpt; gl_default := Some [97]; gl_loc := (0, 7) |}];
           f_inherited := []; f_shorthands := []; f_stanzas := [z] |} [].
Proof. eexists. vm_compute. reflexivity. Qed.

(* these texts are instances of parse_render_file: the layout without any gap writes
   `global x="a"global y(m){}` and `global y` may also end the input *)
Definition ex_layout_tight : layout :=
  {| l_gap := fun _ => []; l_flag := fun _ => false; l_esc := fun _ => []; l_zeros := fun _ => 0%nat |}.
Definition ex_items_tight : list item :=
  [IGlobal {| gl_name := [120]; gl_quant := QOne; gl_default := Some [97]; gl_loc := (0, 0) |};
   IGlobal {| gl_name := [121]; gl_quant := QOne; gl_default := None; gl_loc := (0, 0) |};
   IStanza [40; 109; 41] {| st_stmts := []; st_full_stanza_idx := 1; st_full_file_idx := 0; st_start := (0, 0) |};
   IGlobal {| gl_name := [122]; gl_quant := QOne; gl_default := None; gl_loc := (0, 0) |}].
Example ex_file_tight_roundtrip :
  let text := file_text [] ex_ext ex_layout_tight ex_items_tight in
  parse ex_ext (fuel_of text) text = POk (file_of_items (file_items_loc [] ex_ext ex_layout_tight ex_items_tight)) []
  /\ text = [103; 108; 111; 98; 97; 108; 32; 120; 61; 34; 97; 34; 103; 108; 111; 98; 97; 108; 32; 121; 40; 109; 41; 123; 125;
             103; 108; 111; 98; 97; 108; 32; 122].
Proof.
  cbv zeta. split; [|vm_compute; reflexivity].
  apply (parse_render_file ex_ext [] ex_items_tight ex_layout_tight ex_ext_sane).
  - repeat constructor; cbn; try discriminate; try reflexivity; auto.
  - intros p. constructor.
  - cbn [queries_ok ex_items_tight]. repeat split. exists 1. split; reflexivity.
  - reflexivity.
Qed.

(* ================= what the expected output differs from the written AST in ================= *)
(* The round-trip theorems return `rloc` / `sloc` / `block_loc` / `file_items_loc` of the written AST,
   functions of Spec/Render.v.  The theorems below (Proofs/SlocErase.v) say what those functions can
   change.  For expressions: locations and the resolution fields of captures only. *)
From TSG Require Import Proofs.SlocErase.

(* `erase_locs` sets every location to (0,0) and every capture to the unresolved form the parser
   always writes (QZero, u32_max, u32_max); it changes nothing else.  The located expression erases
   to the erased input: `rloc` changes locations (and capture resolution) only. *)
Theorem rloc_changes_locations_only : forall e L p, erase_locs (rloc L p e) = erase_locs e.
Proof. exact rloc_erase. Qed.

(* Statements.  `sloc` changes exactly four things: (1) locations; (2) capture resolution; (3) the
   derived variable text of a `node` statement (reset to []: not produced by the parser, see
   Model/ParserObs.v erase_stmt); (4) the NUMBER of every scan arm (the next free number in order of
   appearance from k on).  `erase_stmt_locs` erases these four (arm numbers become 0) and nothing
   else: names, literals, the shape of every block, attribute names, condition kinds stay. *)
Theorem sloc_changes_locations_only : forall tbl st L p k,
  erase_stmt_locs (sloc tbl L p k st) = erase_stmt_locs st.
Proof. exact sloc_erase. Qed.

Theorem block_loc_changes_locations_only : forall tbl l L p k,
  map erase_stmt_locs (block_loc tbl L p k l) = map erase_stmt_locs l.
Proof. exact block_loc_erase_all. Qed.

(* (4) precisely: the renumbered arms denote the regexes that were written.  `stmt_pats tbl st` = the
   regexes of the scan arms of st in order of appearance, read through the table tbl; for every table
   tbl' that holds them from position k on (`pats_at`), the located statement read through tbl' has the
   same regexes.  The table the parser returns is such a table (pats_at_parser_table). *)
Theorem sloc_keeps_patterns : forall tbl tbl' st L p k,
  pats_at tbl' k (stmt_pats tbl st) -> stmt_pats tbl' (sloc tbl L p k st) = stmt_pats tbl st.
Proof. exact sloc_keeps_all. Qed.

Theorem block_loc_keeps_patterns : forall tbl tbl' l L p k,
  pats_at tbl' k (stmts_pats tbl l) -> stmts_pats tbl' (block_loc tbl L p k l) = stmts_pats tbl l.
Proof. exact block_loc_keeps_all. Qed.

Theorem pats_at_parser_table : forall pre ps post, pats_at (pre ++ ps ++ post) (length pre) ps.
Proof. exact pats_at_table. Qed.

(* Files: per item, locations; for a stanza also st_full_file_idx (reset to u32_max, the checker fills it) *)
Theorem file_items_loc_changes_locations_only : forall tbl X L items,
  map erase_item_locs (file_items_loc tbl X L items) = map erase_item_locs items.
Proof. exact file_items_loc_erase. Qed.

(* Hence the round trips WITHOUT reference to sloc: the parser returns a statement that erases to the
   erased written statement, and whose scan arms, read through the pattern table the parser has
   accumulated (kept in reverse in the state), are the written regexes *)
Theorem parse_statement_recovers_ast : forall X F, UnicodeSane X -> forall tbl st L s g r,
  WfStmt X tbl st -> WfLayout X L -> stmt_follow X (stmt_ends_word L st) g r ->
  p_rest s = stext tbl L st ++ render_gap g ++ r -> (len s < F)%nat ->
  exists st' s',
    (st0 <- parse_statement X F ;; consume_whitespace X F ;;; ret st0) s = ROk st' s' /\
    erase_stmt_locs st' = erase_stmt_locs st /\
    stmt_pats (rev (p_pats s')) st' = stmt_pats tbl st.
Proof.
  intros X F HS tbl st L s g r Hwf HL Hf Hr HF.
  rewrite (parse_render_stmt X F HS tbl st L s g r Hwf HL Hf Hr HF).
  eexists. eexists. split; [reflexivity|]. split; [apply sloc_erase|].
  apply sloc_keeps_all. cbn [add_pats p_pats st_after]. rewrite rev_app_distr, rev_involutive.
  rewrite <- (rev_length (p_pats s)). rewrite <- (app_nil_r (stmt_pats tbl st)) at 1. apply pats_at_table.
Qed.

Theorem parse_file_recovers_items : forall X tbl items L, UnicodeSane X ->
  Forall (WfItem X tbl) items -> WfLayout X L ->
  queries_ok X tbl (sub L 1) 0 (bytes (G L 0)) items ->
  x_merged X (concat (map item_query_source items)) = Some true ->
  let text := file_text tbl X L items in
  exists items',
    parse X (fuel_of text) text = POk (file_of_items items') (concat (map (item_pats tbl) items)) /\
    map erase_item_locs items' = map erase_item_locs items.
Proof.
  intros X tbl items L HS Hwf HL Hq Hm text. exists (file_items_loc tbl X L items). split.
  - exact (parse_render_file X tbl items L HS Hwf HL Hq Hm).
  - apply file_items_loc_erase.
Qed.

(* non-vacuity: on ex_stmt (capture indices 0 0, arm number 0, all locations (0,0)) the located statement
   differs from the input — locations, and the capture is reset to u32_max u32_max — and erases to the
   same statement; with the arm written as number 5 of a longer table the located arm is number 0 and
   still denotes the regex "a+" *)
Example ex_stmt_changes_locations_only :
  sloc [[97; 43]] ex_layout (0, 0) 0 ex_stmt <> ex_stmt /\
  erase_stmt_locs (sloc [[97; 43]] ex_layout (0, 0) 0 ex_stmt) = erase_stmt_locs ex_stmt /\
  erase_stmt_locs ex_stmt <> ex_stmt /\
  let st5 := SScan (EUnscoped [120] (0, 0)) [(5, [], (7, 7))] (3, 3) in
  let tbl5 := [[]; []; []; []; []; [97; 43]] in
  sloc tbl5 ex_layout (0, 0) 0 st5 <> st5 /\
  stmt_pats tbl5 st5 = [[97; 43]] /\
  stmt_pats [[97; 43]] (sloc tbl5 ex_layout (0, 0) 0 st5) = [[97; 43]].
Proof.
  split; [intros H; vm_compute in H; discriminate|]. split; [apply sloc_changes_locations_only|].
  split; [intros H; vm_compute in H; discriminate|]. cbv zeta.
  split; [intros H; vm_compute in H; discriminate|]. split; [reflexivity|].
  rewrite (sloc_keeps_patterns [[]; []; []; []; []; [97; 43]] [[97; 43]]); [reflexivity|]. exact (pats_at_parser_table [] [[97; 43]] []).
Qed.
