(* Props/C17.v — property theorems only.  Containers behave like their map/set models. *)
From TSG Require Import Model.ContainerOps Model.Vars Proofs.BaseFacts Proofs.Containers.
From Coq Require Import Sorted.

(* Attributes::add refines the documented contract on abstract maps (ident -> option value):
   fresh name or equal value: Ok, map extended/unchanged; different value: Err(old) and REPLACED. *)
Theorem attrs_refines : forall m k v,
  snd (attrs_add m k v) = snd (spec_attrs_add (abs_attrs m) k v) /\
  forall k', abs_attrs (fst (attrs_add m k v)) k' = fst (spec_attrs_add (abs_attrs m) k v) k'.
Proof. exact attrs_add_refines. Qed.

Theorem attr_add_conflict_iff : forall m k v old,
  snd (attrs_add m k v) = Some old <-> (attrs_get m k = Some old /\ old <> v).
Proof. exact attr_add_conflict_iff_lemma. Qed.

Theorem attr_add_then_get : forall m k v, attrs_get (fst (attrs_add m k v)) k = Some v.
Proof. exact attr_add_then_get_lemma. Qed.

(* sorted-vector insert: keeps strict order, reports "new" iff absent, lookups = finite-map update *)
Theorem binary_insert_correct : forall k es, edges_wf es ->
  let '(b, es') := edges_add k es in
  edges_wf es' /\
  (b = true <-> edges_get k es = None) /\
  (forall k', edges_get k' es' = if N.eqb k' k then (match edges_get k es with Some a => Some a | None => Some [] end) else edges_get k' es) /\
  (forall x, In x (sinks es') <-> x = k \/ In x (sinks es)).
Proof. exact edges_add_spec. Qed.

(* for every operation list: edges strictly ascending by sink and attribute names unique everywhere *)
Theorem history_wf : forall ops, cstate_wf (cstate_after cinit ops).
Proof. intros ops. exact (history_wf_lemma ops cinit cinit_wf). Qed.

Theorem iter_edges_ascending : forall ops n l,
  snd (cstep (cstate_after cinit ops) (OIterEdges n)) = RNodes l -> StronglySorted N.lt l.
Proof. exact iter_edges_ascending_lemma. Qed.

(* node references are dense indices in creation order, for every history *)
Theorem node_refs_dense : forall ops,
  snd (cstep (cstate_after cinit ops) OAddNode) = RNode (N.of_nat (count_addnode ops)).
Proof. exact node_refs_dense_lemma. Qed.

(* a nested variable set never changes outer bindings, and sees them *)
Theorem nested_does_not_write_outer : forall s o, var_op o = true -> tl (cs_vars (fst (cstep s o))) = tl (cs_vars s).
Proof. exact nested_no_write_lemma. Qed.
Theorem nested_sees_outer : forall g k, globals_get (globals_nested g) k = globals_get g k.
Proof. exact nested_sees_outer_lemma. Qed.

(* the crate-internal nested VariableMap used by the checker and both interpreters (Model/Vars.v): the innermost
   binding of a name decides — an immutable inner binding is never written through to an outer mutable one,
   a mutable inner one is updated in place, and adding a name never touches the enclosing frames *)
Theorem varmap_set_immutable_inner_blocks : forall (f : vframe value) up k x v,
  alist_get k f = Some (x, false) -> varmap_set (f :: up) k v = inr VarImmutable.
Proof. intros f up k x v H. cbn [varmap_set]. rewrite H. reflexivity. Qed.
Theorem varmap_set_mutable_inner_in_place : forall (f : vframe value) up k x v,
  alist_get k f = Some (x, true) -> varmap_set (f :: up) k v = inl (alist_set k (v, true) f :: up).
Proof. intros f up k x v H. cbn [varmap_set]. rewrite H. reflexivity. Qed.
Theorem varmap_add_inner_only : forall (f : vframe value) up k v m r, varmap_add (f :: up) k v m = inl r -> tl r = up.
Proof. intros f up k v m r. cbn [varmap_add]. destruct (alist_get k f); [discriminate|]. intros [= <-]. reflexivity. Qed.
Theorem varmap_get_innermost_wins : forall (f : vframe value) up k x b, alist_get k f = Some (x, b) -> varmap_get (f :: up) k = Some x.
Proof. intros f up k x b H. cbn [varmap_get]. rewrite H. reflexivity. Qed.

(* non-vacuity: a concrete non-trivial history meets the hypotheses and exercises conflict + re-add *)
Example c17_nonvacuous :
  crun cinit [OAddNode; OAddNode; OAddEdge 0 1; OAddEdge 0 1; ONodeAttrAdd 0 [97] (VInt 1); ONodeAttrAdd 0 [97] (VInt 2); ONodeAttrGet 0 [97]]
  = [RNode 0; RNode 1; RBool true; RBool false; RAddAttr None; RAddAttr (Some (VInt 1)); ROptVal (Some (VInt 2))].
Proof. vm_compute. reflexivity. Qed.

(* ================================================================================================================
   Refinement over HISTORIES (audit follow-up).  Concrete runs and abstract runs are `fold_left`s over the same
   operation list (`run`, Model/ContainerHist.v); the abstract models are in Spec/ContainerSpec.v:
     edges of a node  ~  an unordered finite map sink -> attributes, iteration DEFINED as the ascending key list;
     nodes            ~  a counter;
     VariableMap      ~  a stack of lookup functions name -> (value, mutable), everything through the innermost binder;
     Globals          ~  a stack of lookup functions name -> value.
   Each theorem: the output lists agree AND the abstraction of the final concrete state is the final abstract state
   (`erel` / `frel`: same lookup function, pointwise). *)
From TSG Require Import Spec.ContainerSpec Spec.GraphSpec Proofs.OrderFacts Proofs.ContainerRefine Proofs.GraphRefine.

(* ---- (1) edges ---- *)
Theorem edges_refine : forall ops,
  snd (run estep [] ops) = snd (run espec [] ops) /\
  erel (fst (run estep [] ops)) (fst (run espec [] ops)).
Proof. intros ops. exact (edges_refine_from [] [] ops erel_nil). Qed.

(* the same from any related pair of states (e.g. in the middle of a history) *)
Theorem edges_refine_from_related : forall es m ops, erel es m ->
  snd (run estep es ops) = snd (run espec m ops) /\ erel (fst (run estep es ops)) (fst (run espec m ops)).
Proof. exact edges_refine_from. Qed.

(* abstraction function = the lookup function of the sorted vector; it commutes with every history *)
Theorem edges_abs_commutes : forall ops k,
  abs_edges (fst (run estep [] ops)) k = em_get k (fst (run espec [] ops)).
Proof. intros ops k. destruct (edges_refine ops) as (_ & _ & _ & H). apply H. Qed.

(* at most one edge per (source, sink) *)
Theorem edge_unique_per_sink : forall ops, NoDup (map fst (fst (run estep [] ops))).
Proof. intros ops. destruct (edges_refine ops) as (_ & Hw & _). apply nsorted_nodup, Hw. Qed.

(* iteration is strictly ascending, and it is the sorted key set of the abstract map *)
Theorem edge_iter_ascending_hist : forall ops,
  StronglySorted N.lt (map fst (fst (run estep [] ops))) /\
  map fst (fst (run estep [] ops)) = nsort (em_keys (fst (run espec [] ops))).
Proof. intros ops. destruct (edges_refine ops) as (_ & H). split; [apply H|apply erel_iter, H]. Qed.

(* edge_count = size of the abstract map *)
Theorem edge_count_is_map_size : forall ops,
  length (fst (run estep [] ops)) = length (fst (run espec [] ops)).
Proof. intros ops. destruct (edges_refine ops) as (_ & H). apply erel_length, H. Qed.

(* an edge lookup succeeds exactly for the edges that were added *)
Theorem edge_lookup_iff_added : forall ops b,
  edges_get b (fst (run estep [] ops)) <> None <-> In (EAdd b) ops.
Proof.
  intros ops b. destruct (edges_refine ops) as (_ & _ & _ & H). rewrite H, em_get_In, espec_run_keys. cbn [em_keys map In]. tauto.
Qed.

(* `estep` is not a second model: on an existing source node the edge operations of the public language
   (Model/ContainerOps.v `cstep`, the one tied to the code by the correspondence stream) are `estep` on that node's
   vector, and they leave every other node alone *)
Theorem edges_of_public_language : forall s a n o,
  gnode_at (cs_graph s) a = Some n ->
  (forall b, o = EAdd b -> in_range (cs_graph s) b = true) ->
  snd (cstep s (eop_cop a o)) = snd (estep (g_edges n) o) /\
  exists n', gnode_at (cs_graph (fst (cstep s (eop_cop a o)))) a = Some n' /\
             g_edges n' = fst (estep (g_edges n) o) /\
             (forall a', a' <> a -> gnode_at (cs_graph (fst (cstep s (eop_cop a o)))) a' = gnode_at (cs_graph s) a').
Proof. exact cstep_estep. Qed.

(* ---- (2) nodes: references are the dense indices 0..n-1 in creation order; count and iteration follow the counter.
   Over ALL histories of the public language (the other operations are observed as None and do not move the counter). *)
Theorem nodes_refine : forall ops,
  snd (run nstep cinit ops) = snd (run nspec O ops) /\
  length (cs_graph (fst (run nstep cinit ops))) = fst (run nspec O ops).
Proof. intros ops. exact (nodes_refine_from cinit ops). Qed.

(* ---- (3) variables: the nested VariableMap of the checker and both interpreters ---- *)
Theorem vars_refine : forall (V : Type) (m : varmap V) (ops : list (vop V)),
  snd (run vstep m ops) = snd (run vspec (abs_varmap m) ops) /\
  frel (fst (run vstep m ops)) (fst (run vspec (abs_varmap m) ops)).
Proof. intros V m ops. apply vars_refine_from. apply frel_abs. Qed.

(* what the abstract operations say, without the recursion: everything is decided by the innermost binder *)
Theorem vars_spec_set_reading : forall (V : Type) (s : astack V) k v,
  a_set s k v = match a_find s k with
                | None => inr VarUndefined
                | Some (_, (_, false)) => inr VarImmutable
                | Some (i, (_, true)) => inl (list_update i (fun f => fupd f k (v, true)) s)
                end.
Proof. reflexivity. Qed.

(* the public `Variables` (Globals) inside the public language: nested / leave / add / get / remove / clear against
   a stack of lookup functions, over ALL histories (graph operations interleaved, observed as None) *)
Theorem globals_refine : forall ops,
  snd (run gstep cinit ops) = snd (run gspec [gempty] ops) /\
  frel (cs_vars (fst (run gstep cinit ops))) (fst (run gspec [gempty] ops)).
Proof. intros ops. apply globals_refine_from. repeat constructor. Qed.

(* the two enumerating observers of `Variables` after any history, against the innermost lookup function of the
   abstract stack: iter lists exactly its bindings, each name once, ascending by name (the canonical order of the
   observation; the HashMap order itself is not modelled); is_empty holds iff it binds nothing *)
Theorem globals_observers_refine : forall ops,
  let top := hd gempty (fst (run gspec [gempty] ops)) in
  (forall l, snd (cstep (cstate_after cinit ops) OVarIter) = RAttrs l ->
     StronglySorted key_le l /\ NoDup (map fst l) /\ forall k v, In (k, v) l <-> top k = Some v) /\
  (forall b, snd (cstep (cstate_after cinit ops) OVarIsEmpty) = RBool b -> (b = true <-> forall k, top k = None)).
Proof. exact globals_observers_lemma. Qed.

(* the projected runners visit the states of the public language *)
Theorem projected_runs_same_states : forall ops,
  fst (run nstep cinit ops) = cstate_after cinit ops /\ fst (run gstep cinit ops) = cstate_after cinit ops.
Proof. intros ops. split; [apply run_nstep_fst|apply run_gstep_fst]. Qed.

(* ---- the WHOLE public operation language (the histories of the correspondence stream: add_graph_node, add_edge,
   get_edge, get_edge_mut, Attributes, iter_nodes, iter_edges, node_count, edge_count, Variables) against
   Spec/GraphSpec.v: a list of nodes, each with an UNORDERED finite map sink -> attributes (`espec`) ---- *)
Theorem graph_refine : forall ops,
  crun cinit ops = snd (run sstep sinit ops) /\
  srel (cstate_after cinit ops) (fst (run sstep sinit ops)).
Proof.
  intros ops. pose proof (graph_refine_from cinit sinit ops srel_init) as H. rewrite run_cstep in H. exact H.
Qed.

(* read off the final states: same node count, same node attributes, and per node the sorted vector has the lookup
   function, the key set and the size of the abstract edge map *)
Theorem graph_refine_nodes : forall ops a n,
  gnode_at (cs_graph (cstate_after cinit ops)) a = Some n ->
  exists sn, snode_at (fst (run sstep sinit ops)) a = Some sn /\
             g_attrs n = sn_attrs sn /\
             (forall b, edges_get b (g_edges n) = em_get b (sn_edges sn)) /\
             map fst (g_edges n) = nsort (em_keys (sn_edges sn)) /\
             length (g_edges n) = length (sn_edges sn).
Proof.
  intros ops a n E. destruct (graph_refine ops) as [_ [Hg _]]. unfold gnode_at in E.
  destruct (Forall2_nth_l _ _ _ _ _ Hg E) as (sn & Esn & Ha & He). exists sn. split; [exact Esn|]. split; [exact Ha|].
  split; [apply He|]. split; [apply erel_iter, He|apply erel_length, He].
Qed.

(* ---- (4) the headline ---- *)
Theorem containers_refine_models :
  (forall ops : list cop,
     crun cinit ops = snd (run sstep sinit ops) /\ srel (cstate_after cinit ops) (fst (run sstep sinit ops))) /\
  (forall ops : list eop,
     snd (run estep [] ops) = snd (run espec [] ops) /\ erel (fst (run estep [] ops)) (fst (run espec [] ops))) /\
  (forall ops : list cop,
     snd (run nstep cinit ops) = snd (run nspec O ops) /\ length (cs_graph (fst (run nstep cinit ops))) = fst (run nspec O ops)) /\
  (forall (V : Type) (m : varmap V) (ops : list (vop V)),
     snd (run vstep m ops) = snd (run vspec (abs_varmap m) ops) /\ frel (fst (run vstep m ops)) (fst (run vspec (abs_varmap m) ops))) /\
  (forall ops : list cop,
     snd (run gstep cinit ops) = snd (run gspec [gempty] ops) /\ frel (cs_vars (fst (run gstep cinit ops))) (fst (run gspec [gempty] ops))) /\
  (forall m k v,
     snd (attrs_add m k v) = snd (spec_attrs_add (abs_attrs m) k v) /\
     forall k', abs_attrs (fst (attrs_add m k v)) k' = fst (spec_attrs_add (abs_attrs m) k v) k').
Proof.
  split; [exact graph_refine|]. split; [exact edges_refine|]. split; [exact nodes_refine|]. split; [exact vars_refine|]. split; [exact globals_refine|exact attrs_refines].
Qed.

(* the fold_left runner on the public language is the `crun` of the correspondence stream *)
Theorem run_is_crun : forall s ops, run cstep s ops = (cstate_after s ops, crun s ops).
Proof. exact run_cstep. Qed.

(* ---- non-vacuity ---- *)
(* 10 distinct sinks in scrambled order on one node (past the inline capacity 8 of the SmallVec), a repeated sink,
   attribute conflict through get_edge_mut, a failed lookup *)
Definition c17_edge_history : list eop :=
  [EAdd 5; EAdd 3; EAdd 9; EAdd 1; EAdd 7; EAdd 2; EAdd 8; EAdd 4; EAdd 6; EAdd 0; EAdd 3;
   EIter; ECount; EAttrAdd 3 [97] (VInt 1); EAttrAdd 3 [97] (VInt 2); EAttrGet 3 [97]; EAttrAdd 11 [97] (VInt 1); EGet 10; EGet 3].
Example c17_edges_nonvacuous :
  snd (run estep [] c17_edge_history) =
    [RBool true; RBool true; RBool true; RBool true; RBool true; RBool true; RBool true; RBool true; RBool true; RBool true; RBool false;
     RNodes [0; 1; 2; 3; 4; 5; 6; 7; 8; 9]; RCount 10; RAddAttr None; RAddAttr (Some (VInt 1)); ROptVal (Some (VInt 2)); RNoEdge;
     RBool false; RBool true] /\
  snd (run espec [] c17_edge_history) = snd (run estep [] c17_edge_history) /\
  map fst (fst (run espec [] c17_edge_history)) = [5; 3; 9; 1; 7; 2; 8; 4; 6; 0].
Proof. vm_compute. repeat split; reflexivity. Qed.

(* nested scopes: shadowing by an immutable inner binding, write-through to the defining outer frame, the three
   error variants, and the outer frame after leaving the scopes *)
Definition c17_var_history : list (vop N) :=
  [VAdd [97] 1 true; VAdd [98] 2 false; VNested; VAdd [97] 10 false; VGet [97]; VSet [97] 5; VSet [98] 6;
   VAdd [99] 3 true; VNested; VSet [99] 4; VGet [99]; VPop; VGet [99]; VPop; VGet [97]; VGet [99];
   VSet [100] 0; VSet [97] 7; VGet [97]; VAdd [97] 8 true; VClear; VGet [97]; VPop]%N.
Example c17_vars_nonvacuous :
  snd (run vstep [[]] c17_var_history) =
    [VROk; VROk; VRUnit; VROk; VRVal (Some 10); VRErr VarImmutable; VRErr VarImmutable;
     VROk; VRUnit; VROk; VRVal (Some 4); VRUnit; VRVal (Some 4); VRUnit; VRVal (Some 1); VRVal None;
     VRErr VarUndefined; VROk; VRVal (Some 7); VRErr VarAlreadyDefined; VRUnit; VRVal None; VRSkipped]%N /\
  snd (run vspec [fempty] c17_var_history) = snd (run vstep [[]] c17_var_history).
Proof. vm_compute. split; reflexivity. Qed.

(* write-through really reaches the outer frame: set in a nested scope, leave it, read *)
Example c17_vars_write_through :
  snd (run vstep [[]] [VAdd [97] 1 true; VNested; VNested; VSet [97] 2; VPop; VPop; VGet [97]]%N)
  = [VROk; VRUnit; VRUnit; VROk; VRUnit; VRUnit; VRVal (Some 2)]%N.
Proof. vm_compute. reflexivity. Qed.

Example c17_nodes_globals_nonvacuous :
  let ops := [OAddNode; OVarAdd [97] (VInt 1); OAddNode; OVarNested; OVarAdd [97] (VInt 2); OVarGet [97]; ONodeCount;
              OVarRemove [97]; OVarGet [97]; OVarPop; OIterNodes; OAddNode; OVarClear; OVarGet [97]] in
  snd (run nspec O ops) =
    [Some (RNode 0); None; Some (RNode 1); None; None; None; Some (RCount 2); None; None; None; Some (RNodes [0; 1]); Some (RNode 2); None; None] /\
  snd (run gspec [gempty] ops) =
    [None; Some (RBool true); None; Some RUnit; Some (RBool true); Some (ROptVal (Some (VInt 2))); None;
     Some RUnit; Some (ROptVal (Some (VInt 1))); Some RUnit; None; None; Some RUnit; Some (ROptVal None)].
Proof. vm_compute. split; reflexivity. Qed.

(* the whole language: 11 nodes, 10 edges out of node 0 in scrambled order (past the inline capacity), a repeated edge,
   an out-of-range edge, iteration, count, attribute conflict on an edge; the abstract edge map of node 0 keeps the
   insertion order, the concrete vector is sorted, the outputs agree *)
Definition c17_public_history : list cop :=
  [OAddNode; OAddNode; OAddNode; OAddNode; OAddNode; OAddNode; OAddNode; OAddNode; OAddNode; OAddNode; OAddNode;
   OAddEdge 0 5; OAddEdge 0 3; OAddEdge 0 9; OAddEdge 0 1; OAddEdge 0 7; OAddEdge 0 2; OAddEdge 0 8; OAddEdge 0 4;
   OAddEdge 0 6; OAddEdge 0 10; OAddEdge 0 3; OAddEdge 0 11; OIterEdges 0; OEdgeCount 0; OEdgeCount 1;
   OEdgeAttrAdd 0 3 [97] (VInt 1); OEdgeAttrAdd 0 3 [97] (VInt 2); OEdgeAttrGet 0 3 [97]; OGetEdge 0 0; OGetEdge 0 10;
   OVarAdd [97] (VInt 1); OVarNested; OVarGet [97]; OVarAdd [97] (VInt 2); OVarGet [97]; OVarPop; OVarGet [97]; OVarIter].
Example c17_public_nonvacuous :
  skipn 11 (crun cinit c17_public_history) =
    [RBool true; RBool true; RBool true; RBool true; RBool true; RBool true; RBool true; RBool true; RBool true; RBool true;
     RBool false; RSkipped; RNodes [1; 2; 3; 4; 5; 6; 7; 8; 9; 10]; RCount 10; RCount 0;
     RAddAttr None; RAddAttr (Some (VInt 1)); ROptVal (Some (VInt 2)); RBool false; RBool true;
     RBool true; RUnit; ROptVal (Some (VInt 1)); RBool true; ROptVal (Some (VInt 2)); RUnit; ROptVal (Some (VInt 1));
     RAttrs [([97], VInt 1)]] /\
  snd (run sstep sinit c17_public_history) = crun cinit c17_public_history /\
  option_map (fun sn => map fst (sn_edges sn)) (snode_at (fst (run sstep sinit c17_public_history)) 0)
    = Some [5; 3; 9; 1; 7; 2; 8; 4; 6; 10] /\
  option_map (fun n => map fst (g_edges n)) (gnode_at (cs_graph (cstate_after cinit c17_public_history)) 0)
    = Some [1; 2; 3; 4; 5; 6; 7; 8; 9; 10].
Proof. vm_compute. repeat split; reflexivity. Qed.
