(* Props/C17.v — property theorems only.  Containers behave like their map/set models. *)
From TSG Require Import Model.ContainerOps Model.Vars Proofs.BaseFacts Proofs.Containers.
From Coq Require Import Sorted.

(* Attributes::add refines the documented contract on abstract maps (ident -> option value):
   fresh name or equal value: Ok, map extended/unchanged; different value: Err(old) and REPLACED. *)
Theorem attrs_refines : forall m k v,
  snd (attrs_add m k v) = snd (spec_attrs_add (abs_attrs m) k v) /\
  forall k', abs_attrs (fst (attrs_add m k v)) k' = fst (spec_attrs_add (abs_attrs m) k v) k'.
Proof. exact attrs_add_refines. Qed.

Theorem attr_add_conflict_iff : forall m k v old,
  snd (attrs_add m k v) = Some old <-> (attrs_get m k = Some old /\ old <> v).
Proof. exact attr_add_conflict_iff_lemma. Qed.

Theorem attr_add_then_get : forall m k v, attrs_get (fst (attrs_add m k v)) k = Some v.
Proof. exact attr_add_then_get_lemma. Qed.

(* sorted-vector insert: keeps strict order, reports "new" iff absent, lookups = finite-map update *)
Theorem binary_insert_correct : forall k es, edges_wf es ->
  let '(b, es') := edges_add k es in
  edges_wf es' /\
  (b = true <-> edges_get k es = None) /\
  (forall k', edges_get k' es' = if N.eqb k' k then (match edges_get k es with Some a => Some a | None => Some [] end) else edges_get k' es) /\
  (forall x, In x (sinks es') <-> x = k \/ In x (sinks es)).
Proof. exact edges_add_spec. Qed.

(* for every operation list: edges strictly ascending by sink and attribute names unique everywhere *)
Theorem history_wf : forall ops, cstate_wf (cstate_after cinit ops).
Proof. intros ops. exact (history_wf_lemma ops cinit cinit_wf). Qed.

Theorem iter_edges_ascending : forall ops n l,
  snd (cstep (cstate_after cinit ops) (OIterEdges n)) = RNodes l -> StronglySorted N.lt l.
Proof. exact iter_edges_ascending_lemma. Qed.

(* node references are dense indices in creation order, for every history *)
Theorem node_refs_dense : forall ops,
  snd (cstep (cstate_after cinit ops) OAddNode) = RNode (N.of_nat (count_addnode ops)).
Proof. exact node_refs_dense_lemma. Qed.

(* a nested variable set never changes outer bindings, and sees them *)
Theorem nested_does_not_write_outer : forall s o, var_op o = true -> tl (cs_vars (fst (cstep s o))) = tl (cs_vars s).
Proof. exact nested_no_write_lemma. Qed.
Theorem nested_sees_outer : forall g k, globals_get (globals_nested g) k = globals_get g k.
Proof. exact nested_sees_outer_lemma. Qed.

(* the crate-internal nested VariableMap used by the checker and both interpreters (Model/Vars.v): the innermost
   binding of a name decides — an immutable inner binding is never written through to an outer mutable one,
   a mutable inner one is updated in place, and adding a name never touches the enclosing frames *)
Theorem varmap_set_immutable_inner_blocks : forall (f : vframe value) up k x v,
  alist_get k f = Some (x, false) -> varmap_set (f :: up) k v = inr VarImmutable.
Proof. intros f up k x v H. cbn [varmap_set]. rewrite H. reflexivity. Qed.
Theorem varmap_set_mutable_inner_in_place : forall (f : vframe value) up k x v,
  alist_get k f = Some (x, true) -> varmap_set (f :: up) k v = inl (alist_set k (v, true) f :: up).
Proof. intros f up k x v H. cbn [varmap_set]. rewrite H. reflexivity. Qed.
Theorem varmap_add_inner_only : forall (f : vframe value) up k v m r, varmap_add (f :: up) k v m = inl r -> tl r = up.
Proof. intros f up k v m r. cbn [varmap_add]. destruct (alist_get k f); [discriminate|]. intros [= <-]. reflexivity. Qed.
Theorem varmap_get_innermost_wins : forall (f : vframe value) up k x b, alist_get k f = Some (x, b) -> varmap_get (f :: up) k = Some x.
Proof. intros f up k x b H. cbn [varmap_get]. rewrite H. reflexivity. Qed.

(* non-vacuity: a concrete non-trivial history meets the hypotheses and exercises conflict + re-add *)
Example c17_nonvacuous :
  crun cinit [OAddNode; OAddNode; OAddEdge 0 1; OAddEdge 0 1; ONodeAttrAdd 0 [97] (VInt 1); ONodeAttrAdd 0 [97] (VInt 2); ONodeAttrGet 0 [97]]
  = [RNode 0; RNode 1; RBool true; RBool false; RAddAttr None; RAddAttr (Some (VInt 1)); ROptVal (Some (VInt 2))].
Proof. vm_compute. reflexivity. Qed.
