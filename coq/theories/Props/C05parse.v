(* Props/C05parse.v — the PARSER part of property C05: loading never panics or hangs.
   (The execution and rendering parts of C05 are stated elsewhere.)

   `parse X fuel text` is the model of File::parse (Model/Parser.v); every `unwrap()`/`expect()` of
   parser.rs is an explicit PPanic site, every loop and both recursions consume fuel.
   fuel_of text = S (length text): linear in the length of the text. *)
From TSG Require Import Model.Parser Spec.Render Proofs.Parser.

(* With well-behaved externals (tree-sitter answers for every span, never drops the appended
   full-match capture of a query it accepts, and compiles the concatenation of accepted queries; the
   regex crate answers for every pattern) parsing ANY text returns a file or a ParseError: it never
   runs out of fuel (termination with a linear bound) and reaches no panic site. *)
Theorem parse_total : forall X text, OracleTotal X ->
  match parse X (fuel_of text) text with POk _ _ | PErr _ _ _ => True | PPanic _ | PFuel | PMiss => False end.
Proof. exact parse_total_lemma. Qed.

(* Without any assumption on the externals: parsing terminates within the linear fuel bound, and the
   only reachable panic sites are the two whose condition tree-sitter decides
   (7: `.expect("missing capture index for full match")`, 8: the merged `Query::new(..).unwrap()`).
   All `self.skip().unwrap()` sites (1-6) are unreachable. *)
Theorem parse_never_out_of_fuel : forall X text,
  match parse X (fuel_of text) text with PFuel => False | PPanic n => n = 7 \/ n = 8 | _ => True end.
Proof. exact parse_never_fuel_lemma. Qed.

Theorem fuel_is_linear : forall text, fuel_of text = S (length text).
Proof. reflexivity. Qed.

(* ---- non-vacuity ---- *)
Definition ex_ext : ext :=
  {| x_alpha := fun c => c =? 233; x_alnum := fun c => c =? 233; x_ws := fun _ => false;
     x_query := fun _ _ => Some (QOk 1 (Some 1)); x_merged := fun _ => Some true; x_regex := fun _ => Some true; x_print := [] |}.
Example ex_ext_total : OracleTotal ex_ext.
Proof. repeat split; intros; cbn; congruence. Qed.
Definition ex_text : str := [59; 32; 104; 233; 108; 108; 111; 10; 103; 108; 111; 98; 97; 108; 32; 103; 63; 10; 40; 105; 100; 101; 110; 116; 105; 102; 105; 101; 114; 41; 32; 64; 105; 100; 32; 123; 10; 32; 32; 105; 102; 32; 115; 111; 109; 101; 116; 104; 105; 110; 103; 44; 32; 110; 111; 110; 101; 95; 108; 101; 102; 116; 32; 123; 32; 112; 114; 105; 110; 116; 32; 34; 97; 92; 110; 34; 44; 32; 91; 49; 44; 50; 44; 93; 44; 32; 36; 49; 32; 125; 10; 32; 32; 115; 99; 97; 110; 32; 34; 120; 34; 32; 123; 32; 34; 97; 40; 98; 41; 34; 32; 123; 32; 101; 100; 103; 101; 32; 110; 32; 45; 62; 32; 110; 46; 102; 111; 111; 32; 46; 32; 98; 97; 114; 32; 125; 32; 125; 10; 125; 10].
Example ex_parse_ok : exists f pats, parse ex_ext (fuel_of ex_text) ex_text = POk f pats /\ length (f_stanzas f) = 1%nat /\ pats = [[97; 40; 98; 41]].
Proof. eexists; eexists. split; [vm_compute; reflexivity | split; reflexivity]. Qed.
(* malformed inputs end in a ParseError *)
Example ex_parse_err_unterminated : parse ex_ext (fuel_of [40; 109; 111; 100; 117; 108; 101; 41; 32; 123; 32; 112; 114; 105; 110; 116; 32; 34; 97; 98; 99]) [40; 109; 111; 100; 117; 108; 101; 41; 32; 123; 32; 112; 114; 105; 110; 116; 32; 34; 97; 98; 99] = PErr 10 (0, 21) [].
Proof. vm_compute. reflexivity. Qed.
Example ex_parse_err_huge_int : parse ex_ext (fuel_of [40; 109; 41; 32; 123; 32; 108; 101; 116; 32; 120; 32; 61; 32; 52; 50; 57; 52; 57; 54; 55; 50; 57; 54; 32; 125]) [40; 109; 41; 32; 123; 32; 108; 101; 116; 32; 120; 32; 61; 32; 52; 50; 57; 52; 57; 54; 55; 50; 57; 54; 32; 125] = PErr 6 (0, 14) [].
Proof. vm_compute. reflexivity. Qed.

(* ParseError::ExpectedQuantifier (variant 1) is no longer produced: a character other than `?` `*` `+`
   after a global's name is left to the caller.  `global x!` now fails where the `!` is read as the
   start of a stanza's query that never reaches its `{`: UnexpectedEOF at the end of the input;
   `global x! {}` hands the query text `! ` to tree-sitter (an external: here it accepts). *)
Example ex_parse_err_global_bang : parse ex_ext (fuel_of [103; 108; 111; 98; 97; 108; 32; 120; 33]) [103; 108; 111; 98; 97; 108; 32; 120; 33] = PErr 10 (0, 9) [].
Proof. vm_compute. reflexivity. Qed.
(* for every text and whatever the externals answer, parsing never returns ExpectedQuantifier (variant
   1 of error_obs); parse_quantifier itself returns no error at all *)
Theorem parse_never_expected_quantifier : forall X text,
  match parse X (fuel_of text) text with PErr v _ _ => v <> 1 | _ => True end.
Proof. exact parse_never_expected_quantifier_lemma. Qed.
Theorem parse_quantifier_never_fails : forall s, match parse_quantifier s with RErr _ => False | _ => True end.
Proof. exact parse_quantifier_no_error. Qed.

(* the two oracle hypotheses of parse_total cannot be dropped: if tree-sitter accepted a query but
   dropped the appended capture, or rejected the merged source, the parser panics *)
Definition ex_ext_dropped : ext :=
  {| x_alpha := fun _ => false; x_alnum := fun _ => false; x_ws := fun _ => false;
     x_query := fun _ _ => Some (QOk 1 None); x_merged := fun _ => Some true; x_regex := fun _ => Some true; x_print := [] |}.
Example parse_panics_if_full_match_dropped : parse ex_ext_dropped (fuel_of [40; 109; 111; 100; 117; 108; 101; 41; 32; 123; 32; 125]) [40; 109; 111; 100; 117; 108; 101; 41; 32; 123; 32; 125] = PPanic 7.
Proof. vm_compute. reflexivity. Qed.
Definition ex_ext_merged : ext :=
  {| x_alpha := fun _ => false; x_alnum := fun _ => false; x_ws := fun _ => false;
     x_query := fun _ _ => Some (QOk 1 (Some 0)); x_merged := fun _ => Some false; x_regex := fun _ => Some true; x_print := [] |}.
Example parse_panics_if_merged_query_fails : parse ex_ext_merged (fuel_of [40; 109; 111; 100; 117; 108; 101; 41; 32; 123; 32; 125]) [40; 109; 111; 100; 117; 108; 101; 41; 32; 123; 32; 125] = PPanic 8.
Proof. vm_compute. reflexivity. Qed.
