(* Props/C05render.v — property theorems only.  C05, rendering part for LOAD errors: the pretty rendering of an error of
   the loader (`ParseError::display_pretty`, parser.rs; `CheckError::display_pretty`, checker.rs) returns text for
   every error, every path and every source text.

   Model: Model/LoadErrRender.v.  `load_error_pretty path src msg e` = Display of the error (opaque `msg`), newline,
   `Excerpt::from_source(path, src, row, col..col+1, 0)` at the Location that the code selects by a match over the
   variants — EVERY variant of both enums has one (`QueryError`: the row/column tree-sitter reports).  Stream C05r
   compares the model's text character by character with the implementation's on rejected texts.

   TOTALITY.  `load_error_pretty` is a plain function (no fuel, no outcome type): the code has no slicing and no
   indexing; its only partial operation is `source.lines().nth(row)` inside the excerpt, and when the row does not
   exist (an UnexpectedEOF after the final newline; a source text that is not the file the error came from) the text
   is message, citation and "<missing source>" (load_error_pretty_missing_source); otherwise it is message, citation,
   the numbered line and a caret line with one caret, none when the column is not inside the line
   (load_error_pretty_present).  The column is only a repeat count (`" ".repeat(column)`), clamped against the BYTE
   length of the line, never a slice bound: a character column behind non-ASCII text cannot fall inside a character. *)
From TSG Require Import Model.LoadErrRender Model.LoadErrOf Proofs.ParseErr Proofs.ErrRender Proofs.LoadErrRender.
From TSG Require Model.Parser Model.Checker.

(* the rendering is the message line followed by the excerpt of C18 (Model/ParseErr.v `excerpt`, indent 0) *)
Theorem load_error_pretty_eq : forall path src msg e,
  load_error_pretty path src msg e
  = msg ++ [10] ++ excerpt path src (fst (le_loc e)) (snd (le_loc e)) (snd (le_loc e) + 1).
Proof. exact load_error_pretty_eq_lemma. Qed.

(* ParseError::Check(err) renders as err.display_pretty does *)
Theorem load_error_pretty_check : forall path src msg v l,
  load_error_pretty path src msg (LCheck v l) = check_error_pretty path src msg l.
Proof. exact load_error_pretty_check_lemma. Qed.

Theorem load_error_pretty_missing_source : forall path src msg e,
  (length (lines src) <= N.to_nat (fst (le_loc e)))%nat ->
  load_error_pretty path src msg e
  = msg ++ [10] ++ cite path (fst (le_loc e)) (snd (le_loc e)) ++ [10] ++ missing_source ++ [10].
Proof. exact load_error_pretty_missing_lemma. Qed.

Theorem load_error_pretty_present : forall path src msg e,
  (N.to_nat (fst (le_loc e)) < length (lines src))%nat ->
  exists l, nth_error (lines src) (N.to_nat (fst (le_loc e))) = Some l /\
    load_error_pretty path src msg e
    = msg ++ [10] ++ cite path (fst (le_loc e)) (snd (le_loc e)) ++ [10]
      ++ dec (fst (le_loc e) + 1) ++ [32;124;32] ++ l ++ [10]
      ++ spaces (gutter_width (fst (le_loc e))) ++ [32;124;32] ++ spaces (snd (le_loc e))
      ++ (if snd (le_loc e) <? utf8_bytes l then [94] else []) ++ [10].
Proof. exact load_error_pretty_present_lemma. Qed.

(* every load error is cited as "path:row+1:col+1:" (every variant has a location), whatever the source text *)
Theorem load_error_pretty_cites : forall path src msg e,
  contains (cite path (fst (le_loc e)) (snd (le_loc e))) (load_error_pretty path src msg e) = true.
Proof. exact load_error_pretty_cites_lemma. Qed.

(* the cited line is shown when the text has that row *)
Theorem load_error_pretty_shows_line : forall path src msg e l,
  nth_error (lines src) (N.to_nat (fst (le_loc e))) = Some l -> contains l (load_error_pretty path src msg e) = true.
Proof. exact load_error_pretty_line_lemma. Qed.

(* the message (Display of the error) is the first line *)
Theorem load_error_pretty_message_first : forall path src msg e,
  is_prefix (msg ++ [10]) (load_error_pretty path src msg e) = true.
Proof. exact load_error_pretty_msg_lemma. Qed.

(* composition with the parser model and the checker model: the rendering of the error VALUE they return cites the
   location that the streams C07/C05p (`error_obs`) and C06 (`ce_loc`) compare with the implementation *)
Theorem parse_model_error_pretty_cites : forall (e : Parser.parse_error) path src msg,
  let l := snd (fst (Parser.error_obs e)) in
  contains (cite path (fst l) (snd l)) (load_error_pretty path src msg (load_error_of_parse e)) = true.
Proof. intros e path src msg. cbv zeta. rewrite <- le_loc_of_parse. apply load_error_pretty_cites_lemma. Qed.

Theorem check_model_error_pretty_cites : forall (e : Checker.check_error) path src msg,
  contains (cite path (fst (Checker.ce_loc e)) (snd (Checker.ce_loc e))) (load_error_pretty path src msg (load_error_of_check e)) = true.
Proof. intros e path src msg. rewrite <- le_loc_of_check. apply load_error_pretty_cites_lemma. Qed.

(* ---- non-vacuity: two REAL renderings (the expected texts are the implementation's output).
   A. text
     (module) @_m {
       print "ééé", zz
     }
   rendered as
     Undefined variable zz at (2, 16)
     my rules/r.tsg:2:16:
     2 |   print "ééé", zz
       |                ^
   B. text
     (module) @_m {
   rendered as
     Unexpected end of file at (2, 1)
     r.tsg:2:1:
     <missing source>
   (B: the UnexpectedEOF lies on the row after the final newline, which `lines()` does not have.) *)
Example load_error_pretty_example_A :
  load_error_pretty [109;121;32;114;117;108;101;115;47;114;46;116;115;103] [40;109;111;100;117;108;101;41;32;64;95;109;32;123;10;32;32;112;114;105;110;116;32;34;233;233;233;34;44;32;122;122;10;125;10] [85;110;100;101;102;105;110;101;100;32;118;97;114;105;97;98;108;101;32;122;122;32;97;116;32;40;50;44;32;49;54;41] (LCheck 9 (1, 15))
  = [85;110;100;101;102;105;110;101;100;32;118;97;114;105;97;98;108;101;32;122;122;32;97;116;32;40;50;44;32;49;54;41;10;109;121;32;114;117;108;101;115;47;114;46;116;115;103;58;50;58;49;54;58;10;50;32;124;32;32;32;112;114;105;110;116;32;34;233;233;233;34;44;32;122;122;10;32;32;124;32;32;32;32;32;32;32;32;32;32;32;32;32;32;32;32;94;10].
Proof. vm_compute. reflexivity. Qed.
Example load_error_pretty_example_B :
  load_error_pretty [114;46;116;115;103] [40;109;111;100;117;108;101;41;32;64;95;109;32;123;10] [85;110;101;120;112;101;99;116;101;100;32;101;110;100;32;111;102;32;102;105;108;101;32;97;116;32;40;50;44;32;49;41] (LParse 10 (1, 0))
  = [85;110;101;120;112;101;99;116;101;100;32;101;110;100;32;111;102;32;102;105;108;101;32;97;116;32;40;50;44;32;49;41;10;114;46;116;115;103;58;50;58;49;58;10;60;109;105;115;115;105;110;103;32;115;111;117;114;99;101;62;10]
  /\ nth_error (lines [40;109;111;100;117;108;101;41;32;64;95;109;32;123;10]) 1 = None.
Proof. split; vm_compute; reflexivity. Qed.
(* `contains` is not trivially true, and the verdict of stream C05r distinguishes *)
Example load_error_pretty_cites_nonvacuous :
  let out := load_error_pretty [109;121;32;114;117;108;101;115;47;114;46;116;115;103] [40;109;111;100;117;108;101;41;32;64;95;109;32;123;10;32;32;112;114;105;110;116;32;34;233;233;233;34;44;32;122;122;10;125;10] [85;110;100;101;102;105;110;101;100;32;118;97;114;105;97;98;108;101;32;122;122;32;97;116;32;40;50;44;32;49;54;41] (LCheck 9 (1, 15)) in
  contains (cite [109;121;32;114;117;108;101;115;47;114;46;116;115;103] 1 15) out = true /\ contains (cite [109;121;32;114;117;108;101;115;47;114;46;116;115;103] 1 16) out = false /\
  c05r_verdict [109;121;32;114;117;108;101;115;47;114;46;116;115;103] [40;109;111;100;117;108;101;41;32;64;95;109;32;123;10;32;32;112;114;105;110;116;32;34;233;233;233;34;44;32;122;122;10;125;10] [85;110;100;101;102;105;110;101;100;32;118;97;114;105;97;98;108;101;32;122;122;32;97;116;32;40;50;44;32;49;54;41] (LCheck 9 (1, 15)) out (Some out) = 0 /\
  c05r_verdict [109;121;32;114;117;108;101;115;47;114;46;116;115;103] [40;109;111;100;117;108;101;41;32;64;95;109;32;123;10;32;32;112;114;105;110;116;32;34;233;233;233;34;44;32;122;122;10;125;10] [85;110;100;101;102;105;110;101;100;32;118;97;114;105;97;98;108;101;32;122;122;32;97;116;32;40;50;44;32;49;54;41] (LCheck 9 (1, 15)) (out ++ [32]) (Some out) = 73.
Proof. vm_compute. repeat split. Qed.

(* ---- THE LOADER.  Model/Loader.v `load X q fuel text` = the parser model followed by the checker model (query tables q from
   tree-sitter), the error of a rejected text returned as the load error that is rendered (load_error_of_parse /
   load_error_of_check).  load_spec: in terms of the observations `parse` / `check_file` that streams C07/C05p and C06 compare
   with the implementation.  loader_error_rendering_cites: ONE statement - if the model's loader rejects text t with e, then e
   is the parser model's error (variant v, location l of `parse X fuel t = PErr v l _`) or, for an accepted text, the checker
   model's error (variant, location of `check_file q f = CkErr v l _`), and the pretty rendering of e - for every path,
   source text and message line - cites exactly that location l as "path:row+1:col+1:".  loader_error_value: e is
   load_error_of_parse / load_error_of_check of the error VALUE of the respective model. *)
From TSG Require Import Model.Loader Proofs.Loader.

Theorem load_spec : forall X q fuel text,
  load X q fuel text =
  match Parser.parse X fuel text with
  | Parser.POk f pats =>
      match Checker.check_file q f with
      | Checker.CkOk f' => LdOk f' pats
      | Checker.CkErr v l _ => LdErr (LCheck v l)
      | Checker.CkPanic n => LdPanic n
      end
  | Parser.PErr v l _ => LdErr (LParse v l)
  | Parser.PPanic n => LdPanic n
  | Parser.PFuel => LdFuel
  | Parser.PMiss => LdMiss
  end.
Proof. exact load_spec_lemma. Qed.

Theorem loader_error_rendering_cites : forall X q fuel text e path src msg,
  load X q fuel text = LdErr e ->
  (exists v l p, Parser.parse X fuel text = Parser.PErr v l p /\ e = LParse v l /\
     contains (cite path (fst l) (snd l)) (load_error_pretty path src msg e) = true) \/
  (exists f pats v l ns, Parser.parse X fuel text = Parser.POk f pats /\ Checker.check_file q f = Checker.CkErr v l ns /\ e = LCheck v l /\
     contains (cite path (fst l) (snd l)) (load_error_pretty path src msg e) = true).
Proof.
  intros X q fuel text e path src msg H. destruct (load_err_inv_lemma _ _ _ _ _ H) as [(v & l & p & Hp & ->)|(f & pats & v & l & ns & Hp & Hc & ->)].
  - left. exists v, l, p. repeat split; [exact Hp|]. apply (load_error_pretty_cites_lemma path src msg (LParse v l)).
  - right. exists f, pats, v, l, ns. repeat split; [exact Hp|exact Hc|]. apply (load_error_pretty_cites_lemma path src msg (LCheck v l)).
Qed.

Theorem loader_error_value : forall X q fuel text e,
  load X q fuel text = LdErr e ->
  (exists pe, Parser.parse_into_file X fuel (Parser.init_state text) = Parser.RErr pe /\ e = load_error_of_parse pe) \/
  (exists a s ce, Parser.parse_into_file X fuel (Parser.init_state text) = Parser.ROk a s /\
                  Checker.check_file_ck (fun l => l) q (Parser.file_of_acc a) = Err ce /\ e = load_error_of_check ce).
Proof. exact load_err_value_lemma. Qed.

(* non-vacuity: the two texts of load_error_pretty_example_A / _B above, loaded by the model: the errors are the ones whose real
   renderings are quoted there (Undefined variable zz at (2, 16); Unexpected end of file at (2, 1)) *)
Definition lex_ext : Parser.ext :=
  {| Parser.x_alpha := fun _ => false; Parser.x_alnum := fun _ => false; Parser.x_ws := fun _ => false;
     Parser.x_query := fun _ _ => Some (Parser.QOk 1 (Some 1)); Parser.x_merged := fun _ => Some true;
     Parser.x_regex := fun _ => Some true; Parser.x_print := [] |}.
Definition lex_q : Checker.query_tables :=
  {| Checker.qt_stanza_names := [[[95;109]; Checker.FULL_MATCH]]; Checker.qt_file_names := [[95;109]; Checker.FULL_MATCH];
     Checker.qt_file_quants := [[Ast.QOne; Ast.QOne]]; Checker.qt_nullable := [] |}.
Example loader_error_nonvacuous :
  let tA := [40;109;111;100;117;108;101;41;32;64;95;109;32;123;10;32;32;112;114;105;110;116;32;34;233;233;233;34;44;32;122;122;10;125;10] in
  let tB := [40;109;111;100;117;108;101;41;32;64;95;109;32;123;10] in
  load lex_ext lex_q (Parser.fuel_of tA) tA = LdErr (LCheck 9 (1, 15)) /\
  load lex_ext lex_q (Parser.fuel_of tB) tB = LdErr (LParse 10 (1, 0)) /\
  contains (cite [114] 1 15) (load_error_pretty [114] tA [] (LCheck 9 (1, 15))) = true /\
  contains (cite [114] 1 0) (load_error_pretty [114] tB [] (LParse 10 (1, 0))) = true.
Proof. vm_compute. repeat split. Qed.
