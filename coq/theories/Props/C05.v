(* Props/C05.v — property theorems only.  No input makes loading, execution or error rendering panic
   or hang.  In the model every partial Rust operation (unwrap / expect / index / unreachable!) is an
   explicit `Panic site` outcome and every loop runs on fuel; "no panic" and "terminates" are therefore
   statements about the model, tied to the code by the outcome-class comparison of the streams (which run
   the implementation under catch_unwind and a watchdog).
   PARTIAL: exec_no_panic (for every checked file, well-formed match data and valid globals the
   interpreters never reach a Panic site outside the known classes K1-K3) is not proved as one theorem;
   proved are the pieces below; the parser part is in Props/C05parse.v. *)
From TSG Require Import Model.Strict Model.Lazy Model.Stdlib Spec.StdlibDoc Model.Checker Proofs.Totality.
From TSG Require Props.C13 Props.C06 Props.C18.

(* the scan loop always advances (every executed arm consumed at least one character) and, with the fuel
   the interpreters give it (S |subject|), never runs out of fuel by itself, for any regex engine returning
   well-formed spans *)
Theorem strict_scan_terminates : forall {rx : Type} (find : rx -> str -> option (list (option (N * N)))) run_arm arms rs subject,
  (forall r s caps a b, find r s = Some caps -> cap0 caps = (a, b) -> (a <= b)%N) ->
  (forall caps body s p, run_arm caps body s p <> OutOfFuel) ->
  forall sfuel i s p, (length subject - N.to_nat i < sfuel)%nat -> scan_loop find run_arm arms rs subject sfuel i s p <> OutOfFuel.
Proof. intros rx. exact (@strict_scan_terminates_lemma rx). Qed.

Theorem scan_arm_makes_progress : forall {rx : Type} (find : rx -> str -> option (list (option (N * N)))),
  (forall r s caps a b, find r s = Some caps -> cap0 caps = (a, b) -> (a <= b)%N) ->
  forall arms suffix a c, arm_select find arms suffix = ASelArm a c -> (0 < snd (cap0 c))%N.
Proof. intros rx find H. exact (arm_select_progress find H). Qed.

(* standard library: no call panics or diverges, for any arguments whose syntax-node references exist *)
Theorem stdlib_no_panic : forall rx t name g args, args_valid t args = true ->
  match stdlib_call rx t name g args with Ok _ | Err _ => True | Panic _ | OutOfFuel => False end.
Proof. exact Props.C13.no_panic_stdlib. Qed.

(* checker: never panics when every stanza capture name has an index in the merged query *)
Theorem checker_no_panic : forall q f, tables_consistent q f = true -> forall s, check_file q f <> CkPanic s.
Proof. exact Props.C06.no_panic_check. Qed.

(* known findings: the three classes in which the code panics or overflows its stack are exactly the model's
   reachable panic / divergence sites below (witness lemmas; replayed on the implementation by every run) *)
Theorem known_K3_missing_full_capture : forall {rx : Type} t fl cfg glob (regexes : list rx) find call fuel st m s p stmt rest,
  nodes_for_capture m (st_full_stanza_idx st) = [] -> st_stmts st = stmt :: rest ->
  exec_stanza t fl cfg glob regexes find call fuel st m s p = Panic P_missing_full_capture.
Proof. intros rx. exact (@missing_full_capture_panics rx). Qed.
Theorem known_K1_unresolved_capture : forall t fl glob call fuel le name fidx sidx l s p,
  eval t fl glob call (S fuel) le (ECapture name QZero fidx sidx l) s p = Panic P_unreachable_quantifier.
Proof. exact unresolved_capture_panics. Qed.
Theorem known_K2_recursive_shorthand : forall t (fl : file) glob call a x vloc l0 sloc,
  find_shorthand a (f_shorthands fl) = Some {| sh_name := a; sh_var := x; sh_vloc := vloc; sh_attrs := [Attr a (EUnscoped x l0)]; sh_loc := sloc |} ->
  forall fuel le tgt value s p r, exec_attr t fl glob call fuel le tgt (Attr a value) s p <> Ok r.
Proof. exact recursive_shorthand_diverges. Qed.

Example c05_nonvacuous :
  arm_select (fun (r : N) (s : str) => if N.eqb r 0 then Some [Some (1, 3)] else None) [0; 1] [97; 98; 99] = ASelArm 0 [Some (1, 3)].
Proof. reflexivity. Qed.
