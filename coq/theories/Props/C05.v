(* Props/C05.v — property theorems only.  No input makes loading, execution or error rendering panic
   or hang.  In the model every partial Rust operation (unwrap / expect / index / unreachable!) is an
   explicit `Panic site` outcome and every loop runs on fuel; "no panic" and "terminates" are therefore
   statements about the model, tied to the code by the outcome-class comparison of the streams (which run
   the implementation under catch_unwind and a watchdog).
   exec_no_panic is proved for BOTH interpreters (strict_exec_no_panic, lazy_exec_no_panic below: for every file
   whose scan statements have their regex-table entries and whose shorthand bodies are capture-free, every match
   data tree-sitter can produce for it, globals and a function library respecting graph-node references, no
   Panic site is reached; the hypotheses exclude exactly the known classes K1 and K3, K2 being OutOfFuel). *)
From TSG Require Import Model.Strict Model.Lazy Model.Stdlib Spec.StdlibDoc Model.Checker Proofs.Totality Proofs.NoPanicStrict Proofs.NoPanicLazy.
From TSG Require Props.C13 Props.C06 Props.C18.

(* the scan loop always advances (every executed arm consumed at least one character) and, with the fuel
   the interpreters give it (S |subject|), never runs out of fuel by itself, for any regex engine returning
   well-formed spans *)
Theorem strict_scan_terminates : forall {rx : Type} (find : rx -> str -> option (list (option (N * N)))) run_arm arms rs subject,
  (forall r s caps a b, find r s = Some caps -> cap0 caps = (a, b) -> (a <= b)%N) ->
  (forall caps body s p, run_arm caps body s p <> OutOfFuel) ->
  forall sfuel i s p, (length subject - N.to_nat i < sfuel)%nat -> scan_loop find run_arm arms rs subject sfuel i s p <> OutOfFuel.
Proof. intros rx. exact (@strict_scan_terminates_lemma rx). Qed.

Theorem scan_arm_makes_progress : forall {rx : Type} (find : rx -> str -> option (list (option (N * N)))),
  (forall r s caps a b, find r s = Some caps -> cap0 caps = (a, b) -> (a <= b)%N) ->
  forall arms suffix a c, arm_select find arms suffix = ASelArm a c -> (0 < snd (cap0 c))%N.
Proof. intros rx find H. exact (arm_select_progress find H). Qed.

(* standard library: no call panics or diverges, for any arguments whose syntax-node references exist *)
Theorem stdlib_no_panic : forall rx t name g args, args_valid t args = true ->
  match stdlib_call rx t name g args with Ok _ | Err _ => True | Panic _ | OutOfFuel => False end.
Proof. exact Props.C13.no_panic_stdlib. Qed.

(* checker: never panics when every stanza capture name has an index in the merged query *)
Theorem checker_no_panic : forall q f, tables_consistent q f = true -> forall s, check_file q f <> CkPanic s.
Proof. exact Props.C06.no_panic_check. Qed.

(* known findings: the three classes in which the code panics or overflows its stack are exactly the model's
   reachable panic / divergence sites below (witness lemmas; replayed on the implementation by every run) *)
Theorem known_K3_missing_full_capture : forall {rx : Type} t fl cfg glob (regexes : list rx) find call fuel st m s p stmt rest,
  nodes_for_capture m (st_full_stanza_idx st) = [] -> st_stmts st = stmt :: rest ->
  exec_stanza t fl cfg glob regexes find call fuel st m s p = Panic P_missing_full_capture.
Proof. intros rx. exact (@missing_full_capture_panics rx). Qed.
Theorem known_K1_unresolved_capture : forall t fl glob call fuel le name fidx sidx l s p,
  eval t fl glob call (S fuel) le (ECapture name QZero fidx sidx l) s p = Panic P_unreachable_quantifier.
Proof. exact unresolved_capture_panics. Qed.
Theorem known_K2_recursive_shorthand : forall t (fl : file) glob call a x vloc l0 sloc,
  find_shorthand a (f_shorthands fl) = Some {| sh_name := a; sh_var := x; sh_vloc := vloc; sh_attrs := [Attr a (EUnscoped x l0)]; sh_loc := sloc |} ->
  forall fuel le tgt value s p r, exec_attr t fl glob call fuel le tgt (Attr a value) s p <> Ok r.
Proof. exact recursive_shorthand_diverges. Qed.

(* STRICT INTERPRETER: no panic site is reachable.  `sok` is any predicate on syntax-node ids that the function
   library may rely on (for the standard library: syn_ok t, the node is in the recorded tree).
   - WellFormedFile regexes fl (boolean wf_file): every scan statement of every stanza, nested ones included,
     has a compiled regex for each of its arms (arm_table regexes arms <> None: P_regex_table); no
     attribute-shorthand body contains a capture expression (such a capture keeps the parser's placeholder
     quantifier Zero and panics: known class K1).
   - GoodMatches sok fl matches: for each stanza and each of its matches m: the full-match capture is bound
     (otherwise: known class K3); every capture expression of the stanza has a quantifier other than Zero and,
     when the quantifier is One, at least one node in m (cap_ok: what the checker writes and tree-sitter's
     quantifier analysis guarantee; P_unreachable_quantifier, P_missing_capture); all nodes of m satisfy sok.
   - GoodGlobals sok g0 supplied: graph-node references inside supplied global values (nested in lists and sets
     too) are indices of g0, syntax-node references satisfy sok.
   - GoodCall sok call: on arguments that are good for the graph, the library does not panic and returns a
     value that is good for the graph it returns, which is not smaller.
   The proof maintains: every graph-node reference in locals, scoped variables and the parameter buffer is an
   index of the current graph (P_graph_index), frame depth (P_locals_empty) and parameter-buffer length
   (P_params_underflow) are what each construct expects. *)
Theorem strict_exec_no_panic : forall {rx : Type} (sok : N -> Prop) t fl cfg supplied budget (regexes : list rx) find call fuel matches g0,
  WellFormedFile regexes fl -> GoodMatches sok fl matches -> GoodGlobals sok g0 supplied -> GoodCall sok call ->
  forall x, run_strict t fl cfg supplied budget regexes find call fuel matches g0 <> Panic x.
Proof. intros rx. exact (@exec_no_panic_strict rx). Qed.

(* The hypothesis "a capture whose quantifier is One has a node in every match" (part of GoodMatches) is a statement
   about tree-sitter that the implementation relies on and that is NOT always true: tree-sitter keeps at most three
   captures per query step, so in `(module (expression_statement (identifier) @_a @_b @_c @d)) { print @d }` the
   capture @d has quantifier One and is never bound; both interpreters then panic with "missing capture"
   (execution.rs:328) -- FINDING (same root cause as K3, different site).  Without that hypothesis this is the ONLY
   site either interpreter can reach: *)
Theorem strict_exec_only_missing_capture : forall {rx : Type} (sok : N -> Prop) t fl cfg supplied budget (regexes : list rx) find call fuel matches g0,
  WellFormedFile regexes fl -> GoodMatchesResolved sok fl matches -> GoodGlobals sok g0 supplied -> GoodCall sok call ->
  forall x, run_strict t fl cfg supplied budget regexes find call fuel matches g0 = Panic x -> x = P_missing_capture.
Proof. intros rx. exact (@exec_only_missing_capture_strict rx). Qed.
Theorem lazy_exec_only_missing_capture : forall {rx : Type} (sok : N -> Prop) t fl cfg supplied budget (regexes : list rx) find call fuel matches g0,
  WellFormedFile regexes fl -> GoodMatchesLazyResolved sok fl matches -> GoodGlobals sok g0 supplied -> GoodCall sok call ->
  forall x, run_lazy t fl cfg supplied budget regexes find call fuel matches g0 = Panic x -> x = P_missing_capture.
Proof. intros rx. exact (@exec_only_missing_capture_lazy rx). Qed.
(* and it is reached exactly in that class: an evaluated capture expression with quantifier One and no node *)
Theorem missing_capture_witness_strict : forall t fl glob call fuel le name fidx sidx l s p,
  nodes_for_capture (le_match le) sidx = [] ->
  eval t fl glob call (S fuel) le (ECapture name QOne fidx sidx l) s p = Panic P_missing_capture.
Proof. exact missing_capture_panics_strict. Qed.
Theorem missing_capture_witness_lazy : forall t fl glob call fuel le name fidx sidx l s p,
  nodes_for_capture (ll_match le) fidx = [] ->
  leval t fl glob call (S fuel) le (ECapture name QOne fidx sidx l) s p = Panic P_missing_capture.
Proof. exact missing_capture_panics_lazy. Qed.

(* the model of the program above (capture 3 is the dropped @d): the weaker hypotheses hold and both runs panic there *)
Example c05_missing_capture_reachable :
  let nd := {| tn_kind := [109]; tn_named := true; tn_error := false; tn_missing := false; tn_parent := None;
               tn_children := []; tn_start := (0, 0); tn_end := (0, 1); tn_span := (0, 1) |} in
  let t := {| t_src := [120]; t_nodes := [nd] |} in
  let st := {| st_stmts := [SPrint [ECapture [100] QOne 3 3 (1, 8)] (1, 2)];
               st_full_stanza_idx := 4; st_full_file_idx := 4; st_start := (0, 0) |} in
  let fl := {| f_globals := []; f_inherited := []; f_shorthands := []; f_stanzas := [st] |} in
  let m := [(0, [0]); (1, [0]); (2, [0]); (4, [0])] in
  WellFormedFile (@nil unit) fl /\ GoodMatchesResolved (syn_ok t) fl [[m]] /\ GoodMatchesLazyResolved (syn_ok t) fl [(0, m)] /\
  run_strict t fl config0 [[]] None (@nil unit) (fun _ _ => None) (stdlib_call (fun _ _ _ => None) t) 50 [[m]] [] = Panic P_missing_capture /\
  run_lazy t fl config0 [[]] None (@nil unit) (fun _ _ => None) (stdlib_call (fun _ _ _ => None) t) 50 [(0, m)] [] = Panic P_missing_capture.
Proof.
  cbv zeta. split; [reflexivity|]. split; [|split; [|split]].
  - split; [|exact I]. constructor; [|constructor]. split; [discriminate|]. split; [reflexivity|]. repeat constructor.
  - constructor; [|constructor]. split; [discriminate|]. split; [reflexivity|]. repeat constructor.
  - vm_compute. reflexivity.
  - vm_compute. reflexivity.
Qed.

(* the hypothesis on the function library holds of the standard library, with sok = "the node is in the tree,
   its span is inside the source and its parent is in the tree" *)
Theorem stdlib_good_call : forall rx t, GoodCall (syn_ok t) (stdlib_call rx t).
Proof. exact NoPanicStrict.stdlib_good_call. Qed.

(* the hypotheses are satisfiable: a file with a global, a shorthand, a capture passed to the standard library, a
   scan, a loop, nodes, an edge and attributes; on it the run succeeds *)
Example c05_strict_nonvacuous :
  let x := [120] in let y := [121] in let k := [107] in let c := [99] in let gname := [103] in let shn := [115] in let v := [118] in
  let nd := {| tn_kind := [109]; tn_named := true; tn_error := false; tn_missing := false; tn_parent := None;
               tn_children := []; tn_start := (0, 0); tn_end := (0, 2); tn_span := (0, 2) |} in
  let t := {| t_src := [97; 98]; t_nodes := [nd] |} in
  let cap := ECapture c QOne 0 0 (0, 0) in
  let st := {| st_stmts := [SNode (VarU x (1, 2)) x (1, 0);
                            SAttrNode (EUnscoped x (2, 0)) [Attr k (ECall Lit.node_type [cap]); Attr shn (EInt 7)] (2, 0);
                            SScan (ECall Lit.source_text [cap]) [(0, [SPrint [ERegexCap 0] (3, 1)], (3, 1))] (3, 0);
                            SFor y (4, 0) (EList [EUnscoped gname (4, 1); EUnscoped x (4, 2)])
                                 [SEdge (EUnscoped x (5, 0)) (EUnscoped y (5, 1)) (5, 0)] (4, 0);
                            SLet (VarS cap v (6, 0)) (ESet [EUnscoped x (6, 1)]) (6, 0)];
               st_full_stanza_idx := 0; st_full_file_idx := 0; st_start := (0, 0) |} in
  let sh := {| sh_name := shn; sh_var := v; sh_vloc := (7, 0); sh_attrs := [Attr [119] (EUnscoped v (7, 1))]; sh_loc := (7, 0) |} in
  let fl := {| f_globals := [{| gl_name := gname; gl_quant := QOne; gl_default := None; gl_loc := (0, 0) |}];
               f_inherited := []; f_shorthands := [sh]; f_stanzas := [st] |} in
  let regexes := [tt] in
  let find := fun (_ : unit) (s : str) => match s with [] => None | _ :: _ => Some [Some (0, 1)] end in
  let supplied := [[(gname, VGraph 0)]] in
  let g0 := [new_gnode] in
  let matches := [[[(0, [0])]]] in
  WellFormedFile regexes fl /\ GoodMatches (syn_ok t) fl matches /\ GoodGlobals (syn_ok t) g0 supplied /\
  exists s p, run_strict t fl config0 supplied None regexes find (stdlib_call (fun _ _ _ => None) t) 50 matches g0 = Ok (s, p) /\
              length (s_graph s) = 2%nat.
Proof.
  cbv zeta. split; [reflexivity|]. split; [|split].
  - split; [|exact I]. constructor; [|constructor]. split; [discriminate|]. split; [reflexivity|]. repeat constructor.
  - repeat constructor.
  - eexists. eexists. split; [vm_compute; reflexivity|]. reflexivity.
Qed.

(* LAZY INTERPRETER: no panic site is reachable, in the execution phase or in the evaluation phase.  Same hypotheses,
   with GoodMatchesLazy in place of GoodMatches: each (stanza index, match) pair of the merged query has a stanza
   index in range (P_stanza_index); captures are looked up by their index in the FILE query (st_full_file_idx, the
   file_idx of capture expressions).  The proof maintains in addition: every store location inside a lazy value kept
   anywhere in the state (locals, thunks, scoped-variable cells, recorded statements) is an index of the store, which
   only grows (P_store_index); the collected scoped definitions and their debug records have the same keys
   (P_unreachable_scoped). *)
Theorem lazy_exec_no_panic : forall {rx : Type} (sok : N -> Prop) t fl cfg supplied budget (regexes : list rx) find call fuel matches g0,
  WellFormedFile regexes fl -> GoodMatchesLazy sok fl matches -> GoodGlobals sok g0 supplied -> GoodCall sok call ->
  forall x, run_lazy t fl cfg supplied budget regexes find call fuel matches g0 <> Panic x.
Proof. intros rx. exact (@exec_no_panic_lazy rx). Qed.

Example c05_lazy_nonvacuous :
  let x := [120] in let y := [121] in let k := [107] in let c := [99] in let gname := [103] in let shn := [115] in let v := [118] in
  let nd := {| tn_kind := [109]; tn_named := true; tn_error := false; tn_missing := false; tn_parent := None;
               tn_children := []; tn_start := (0, 0); tn_end := (0, 2); tn_span := (0, 2) |} in
  let t := {| t_src := [97; 98]; t_nodes := [nd] |} in
  let cap := ECapture c QOne 0 0 (0, 0) in
  let st := {| st_stmts := [SNode (VarU x (1, 2)) x (1, 0);
                            SAttrNode (EUnscoped x (2, 0)) [Attr k (ECall Lit.node_type [cap]); Attr shn (EInt 7)] (2, 0);
                            SScan (ECall Lit.source_text [cap]) [(0, [SPrint [ERegexCap 0] (3, 1)], (3, 1))] (3, 0);
                            SFor y (4, 0) (EList [EUnscoped gname (4, 1); EUnscoped x (4, 2)])
                                 [SEdge (EUnscoped x (5, 0)) (EUnscoped y (5, 1)) (5, 0)] (4, 0);
                            SLet (VarS cap v (6, 0)) (EUnscoped x (6, 1)) (6, 0);
                            SAttrNode (EScoped cap v (7, 0)) [Attr [97] (EInt 1)] (7, 0)];
               st_full_stanza_idx := 0; st_full_file_idx := 0; st_start := (0, 0) |} in
  let sh := {| sh_name := shn; sh_var := v; sh_vloc := (7, 0); sh_attrs := [Attr [119] (EUnscoped v (7, 1))]; sh_loc := (7, 0) |} in
  let fl := {| f_globals := [{| gl_name := gname; gl_quant := QOne; gl_default := None; gl_loc := (0, 0) |}];
               f_inherited := []; f_shorthands := [sh]; f_stanzas := [st] |} in
  let regexes := [tt] in
  let find := fun (_ : unit) (s : str) => match s with [] => None | _ :: _ => Some [Some (0, 1)] end in
  let supplied := [[(gname, VGraph 0)]] in
  let g0 := [new_gnode] in
  let matches := [(0, [(0, [0])])] in
  WellFormedFile regexes fl /\ GoodMatchesLazy (syn_ok t) fl matches /\ GoodGlobals (syn_ok t) g0 supplied /\
  exists s p, run_lazy t fl config0 supplied None regexes find (stdlib_call (fun _ _ _ => None) t) 50 matches g0 = Ok (s, p) /\
              length (l_graph s) = 2%nat /\ (0 < length (l_store s))%nat.
Proof.
  cbv zeta. split; [reflexivity|]. split; [|split].
  - constructor; [|constructor]. split; [discriminate|]. split; [reflexivity|]. repeat constructor.
  - repeat constructor.
  - eexists. eexists. split; [vm_compute; reflexivity|]. split; [reflexivity|]. cbn [l_store length]. lia.
Qed.

Example c05_nonvacuous :
  arm_select (fun (r : N) (s : str) => if N.eqb r 0 then Some [Some (1, 3)] else None) [0; 1] [97; 98; 99] = ASelArm 0 [Some (1, 3)].
Proof. reflexivity. Qed.
