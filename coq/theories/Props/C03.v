(* Props/C03.v — property theorems only.  Each query match runs its stanza once with correctly
   bound captures, in both modes.  tree-sitter's query engine is an external: the relation between
   the merged query's matches and the per-stanza queries' matches (oracle assumptions A1-A3 of
   DESIGN.md) is validated on every generated case by the harness. *)
From TSG Require Import Model.Strict Model.Lazy Proofs.Captures.

Theorem capture_value_shape : forall ns q,
  match q with
  | QOne => (exists n rest, ns = n :: rest /\ from_nodes ns q = Ok (VSyn n)) \/ (ns = [] /\ from_nodes ns q = Panic P_missing_capture)
  | QOpt => (exists n rest, ns = n :: rest /\ from_nodes ns q = Ok (VSyn n)) \/ (ns = [] /\ from_nodes ns q = Ok VNull)
  | QStar | QPlus => from_nodes ns q = Ok (VList (map VSyn ns))
  | QZero => from_nodes ns q = Panic P_unreachable_quantifier
  end.
Proof. exact from_nodes_shape. Qed.

(* strict (stanza query index, stanza match) and lazy (file query index, merged match) bind a capture
   to the same value whenever the two matches give the name the same nodes *)
Theorem capture_env_modes_agree : forall t fl glob call fuel fuel' (le : lenv) (ll : llenv) name q fidx sidx l s p sl pl,
  nodes_for_capture (le_match le) sidx = nodes_for_capture (ll_match ll) fidx ->
  match eval t fl glob call (S fuel) le (ECapture name q fidx sidx l) s p,
        leval t fl glob call (S fuel') ll (ECapture name q fidx sidx l) sl pl with
  | Ok (v, _, _), Ok (lv, _, _) => lv = LValue v
  | Panic x, Panic y => x = y
  | _, _ => False
  end.
Proof.
  intros t fl glob call fuel fuel' le ll name q fidx sidx l s p sl pl H.
  pose proof (capture_modes_agree t fl glob call fuel fuel' le ll name q fidx sidx l s p sl pl H) as A.
  destruct (eval t fl glob call (S fuel) le (ECapture name q fidx sidx l) s p) as [[[v s1] p1]|e|x|];
  destruct (leval t fl glob call (S fuel') ll (ECapture name q fidx sidx l) sl pl) as [[[lv s2] p2]|e'|y|]; try exact A; try contradiction.
Qed.

(* stanzas that reuse a capture name do not affect each other: the value depends only on this match *)
Theorem stanzas_independent : forall t fl glob call fuel (le le' : lenv) name q fidx sidx l s p,
  nodes_for_capture (le_match le) sidx = nodes_for_capture (le_match le') sidx ->
  eval t fl glob call (S fuel) le (ECapture name q fidx sidx l) s p =
  eval t fl glob call (S fuel) le' (ECapture name q fidx sidx l) s p.
Proof. exact capture_value_local. Qed.

(* the block of a stanza runs exactly once per reported match, stanzas in file order *)
Theorem blocks_once_per_match : forall {rx : Type} t fl cfg glob (regexes : list rx) find call fuel sts ms s p,
  exec_file t fl cfg glob regexes find call fuel sts ms s p =
  iterM (fun b : stanza * qmatch => exec_stanza t fl cfg glob regexes find call fuel (fst b) (snd b)) (blocks sts ms) s p.
Proof. intros rx. exact (@strict_blocks_once rx). Qed.

(* ... and that block list is: per stanza in file order, per match of that stanza in the order the query reported
   them, EXACTLY ONE block - the k-th match of the i-th stanza sits at position (number of matches of the earlier
   stanzas) + k, and the list has one entry per (stanza, match) pair and no other. *)
Theorem blocks_exactly_once : forall {A} sts (ms : list (list A)),
  blocks sts ms = flat_map (fun sm : stanza * list A => map (fun x => (fst sm, x)) (snd sm)) (combine sts ms) /\
  length (blocks sts ms) = fold_right (fun sm acc => (length (snd sm) + acc)%nat) 0%nat (combine sts ms) /\
  (forall i k st m x, nth_error sts i = Some st -> nth_error ms i = Some m -> nth_error m k = Some x ->
     nth_error (blocks sts ms) (length (blocks (firstn i sts) (firstn i ms)) + k) = Some (st, x)).
Proof. intros A sts ms. split; [apply blocks_flat_map|]. split; [apply blocks_length|]. apply blocks_nth. Qed.

(* lazy mode: although matches are found through ONE query merged from all stanzas, each reported match (i, m)
   runs the block of stanza i exactly once, in the reported order, before the evaluation phase; a pattern
   index outside the file is the only other possibility (a panic, never a silently skipped match) *)
Theorem lazy_blocks_once_per_match : forall {rx : Type} t fl cfg glob (regexes : list rx) find call fuel ms,
  lexec_file t fl cfg glob regexes find call fuel ms =
  (iterM (fun pm : N * qmatch =>
            match nth_error (f_stanzas fl) (N.to_nat (fst pm)) with
            | Some st => lexec_stanza t fl cfg glob regexes find call fuel st (snd pm)
            | None => panic P_stanza_index
            end) ms ;;;
   evaluate_phase t fl call (fuel + default_eval_fuel)).
Proof. reflexivity. Qed.
(* a lazy capture expression looks only at its own match (file-query index): stanzas that reuse the name with
   another quantifier or position cannot influence it *)
Theorem lazy_stanzas_independent : forall t fl glob call fuel (le le' : llenv) name q fidx sidx l s p,
  nodes_for_capture (ll_match le) fidx = nodes_for_capture (ll_match le') fidx ->
  leval t fl glob call (S fuel) le (ECapture name q fidx sidx l) s p =
  leval t fl glob call (S fuel) le' (ECapture name q fidx sidx l) s p.
Proof. intros t fl glob call fuel le le' name q fidx sidx l s p H. cbn [leval]. rewrite H. reflexivity. Qed.

Example c03_nonvacuous : from_nodes [3; 5] QStar = Ok (VList [VSyn 3; VSyn 5]) /\ from_nodes [] QOpt = Ok VNull /\
  nodes_for_capture [(0, [7]); (2, [3]); (2, [5])] 2 = [3; 5].
Proof. repeat split. Qed.
