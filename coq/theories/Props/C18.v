(* Props/C18.v — property theorems only.
   Syntax-error discovery returns exactly the outermost ERROR / MISSING nodes; display never panics
   and cites the position.

   `he` is the oracle value tree.root_node().has_error(); the only assumption about it is
   oracle_ok he t  :=  (some visible node of t is ERROR or MISSING) -> he = true
   (validated by the harness on every generated tree). *)
From TSG Require Import Model.ParseErr Proofs.ParseErr.

(* the recursive and the declarative reading of "outermost" coincide:
   outermost_decl t = [ (kind n, id n) | n <- nodes of t in document order,
                                         n is ERROR or MISSING, no proper ancestor of n is ERROR or MISSING ]
   with kind = Unexpected when is_error (error takes precedence), else Missing *)
Theorem outermost_is_filtered_preorder : forall t, outermost_decl t = outermost t.
Proof. exact outermost_decl_eq. Qed.

(* membership form: an error is reported iff it classifies (Unexpected for ERROR, else Missing) a node of the tree
   none of whose proper ancestors is an ERROR or MISSING node - no nested error is reported, no outermost one lost *)
Theorem reported_iff_outermost_flagged : forall t p,
  In p (outermost_decl t) <->
  exists x, In x (preorder_anc false t) /\ fst x = false /\ classify (snd x) = Some p.
Proof. intros t p. rewrite outermost_decl_eq. apply outermost_In_iff. Qed.

(* with sufficient fuel the loop of `find_errors(tree, errors, false)` returns exactly that list *)
Theorem find_errors_spec : forall he t fuel,
  oracle_ok he t = true -> (2 * psize t + 1 <= fuel)%nat ->
  pe_all he fuel t = Ok (outermost_decl t) /\ pe_into_all he fuel t = Ok (outermost_decl t).
Proof.
  intros he t fuel Hor Hf. rewrite outermost_decl_eq.
  split; exact (find_errors_all_lemma he t fuel Hor Hf).
Qed.

(* 2*|t|+1 loop iterations always suffice: the model never runs out of fuel (the loop terminates),
   whatever the oracle says and for both values of first_only *)
Theorem find_errors_fuel : forall he t first_only fuel, (2 * psize t + 1 <= fuel)%nat ->
  exists l, find_errors he fuel t first_only = Ok l.
Proof. exact find_errors_fuel_lemma. Qed.

(* `first` / `into_first` return the head of the list of `all`, or None *)
Theorem find_first_spec : forall he t fuel,
  oracle_ok he t = true -> (2 * psize t + 1 <= fuel)%nat ->
  pe_first he fuel t = Ok (hd_error (outermost_decl t)) /\
  pe_into_first he fuel t = Ok (hd_error (outermost_decl t)).
Proof.
  intros he t fuel Hor Hf. rewrite outermost_decl_eq.
  split; exact (pe_first_lemma he t fuel Hor Hf).
Qed.

(* a tree without ERROR / MISSING node yields no error (whatever has_error() says), and conversely the
   result of `all` is empty only for such trees *)
Theorem no_error_none : forall he t first_only fuel,
  any_flagged t = false -> (2 * psize t + 1 <= fuel)%nat ->
  find_errors he fuel t first_only = Ok [].
Proof. exact no_error_none_lemma. Qed.

Theorem none_only_if_no_error : forall t, outermost_decl t = [] <-> any_flagged t = false.
Proof. intros t. rewrite outermost_decl_eq. apply outermost_nil_iff. Qed.

(* the early return itself: !has_error() => nothing reported, no fuel needed *)
Theorem early_return_none : forall t first_only fuel, find_errors false fuel t first_only = Ok [].
Proof. reflexivity. Qed.

(* [kt] = the wording of the two kinds (any two phrases: the property does not constrain it).
   display never panics on well-formed position data (byte range ordered, both ends on character
   boundaries of the source); the plain text is path:row+1:col+1: kind, then "\n" for an empty range
   and ": " + the node's text up to its first newline otherwise *)
Theorem display_total : forall kt path src k p, wf_pos src p = true ->
  (exists txt, (range_is_empty p = false -> slice_bytes 1 src (np_start p) (np_end p) = Ok txt) /\
               display_plain kt path src k p =
                 Ok (cite path (np_row p) (np_col p) ++ [32] ++ kt k ++
                     (if range_is_empty p then [10] else [58; 32] ++ until_nl txt))) /\
  (exists s, display_pretty kt path src k p = Ok s).
Proof.
  intros kt path src k p Hwf. split.
  - exact (display_plain_lemma kt path src k p Hwf).
  - exact (display_pretty_lemma kt path src k p Hwf).
Qed.

(* the plain display starts with "path:row+1:col+1:" *)
Theorem display_cites : forall kt path src k p s,
  display_plain kt path src k p = Ok s ->
  is_prefix (path ++ [58] ++ dec (np_row p + 1) ++ [58] ++ dec (np_col p + 1) ++ [58]) s = true.
Proof. exact display_plain_cites_lemma. Qed.

(* the pretty display contains "path:row+1:col+1:" for EVERY node, zero-width (MISSING) ones included *)
Theorem display_pretty_cites : forall kt path src k p s,
  display_pretty kt path src k p = Ok s ->
  contains (path ++ [58] ++ dec (np_row p + 1) ++ [58] ++ dec (np_col p + 1) ++ [58]) s = true.
Proof. exact display_pretty_cites_lemma. Qed.

(* what a zero-width node (every MISSING node) gets: the kind line and the excerpt with the empty
   column range col..col (location header, source line, caret line without carets) *)
Theorem display_pretty_zero_width : forall kt path src k p,
  wf_pos src p = true -> np_start p = np_end p ->
  display_pretty kt path src k p =
    Ok ((kt k ++ [10]) ++ excerpt path src (np_row p) (np_col p) (np_col p)).
Proof. exact display_pretty_zero_width_lemma. Qed.

(* `dec` really is the decimal numeral: reading the digits back gives the number *)
Theorem dec_is_decimal : forall n, fold_left (fun a d => 10 * a + (d - 48)) (dec n) 0 = n.
Proof. exact dec_correct. Qed.

(* ---------------------------------------------------------------------------- non-vacuity *)

(* module( ERROR#1( x#2, MISSING#3, ERROR#4 ), stmt#5( MISSING#6, name#7 ), ERROR+MISSING#8, stmt#9( ERROR#10( x#11 ) ) ):
   nested flagged nodes are skipped, order is document order, error takes precedence over missing *)
Definition ex_tree : ptree :=
  PT false false 0
     [ PT true false 1 [PT false false 2 []; PT false true 3 []; PT true false 4 []];
       PT false false 5 [PT false true 6 []; PT false false 7 []];
       PT true true 8 [];
       PT false false 9 [PT true false 10 [PT false false 11 []]] ].

Example c18_hyp_satisfiable : oracle_ok true ex_tree = true /\ (2 * psize ex_tree + 1 <= 25)%nat.
Proof. split; [vm_compute; reflexivity|cbn; lia]. Qed.

Example c18_all_example :
  pe_all true 25 ex_tree = Ok [(KUnexpected, 1); (KMissing, 6); (KUnexpected, 8); (KUnexpected, 10)]
  /\ outermost_decl ex_tree = [(KUnexpected, 1); (KMissing, 6); (KUnexpected, 8); (KUnexpected, 10)]
  /\ pe_first true 25 ex_tree = Ok (Some (KUnexpected, 1))
  /\ pe_all true 11 ex_tree = OutOfFuel          (* fuel is really consumed: this walk takes 12 iterations *)
  /\ pe_all false 0 ex_tree = Ok [].             (* early return *)
Proof. vm_compute. repeat split; reflexivity. Qed.

(* the one-directional oracle assumption is needed: with has_error() = false on a tree that has a flagged
   node the code (and the model) report nothing *)
Example c18_oracle_needed : oracle_ok false ex_tree = false /\ pe_all false 25 ex_tree = Ok [].
Proof. vm_compute. split; reflexivity. Qed.

(* source "x = é(\n  $ y\n" : an ERROR node covering "$ y" on line 2 (row 1, byte column 2, bytes 10..13; "é" is
   two bytes), and a zero-width MISSING node at the same place *)
Definition ex_src : str := [120;32;61;32;233;40;10;32;32;36;32;121;10].
Definition ex_pos : npos := {| np_row := 1; np_col := 2; np_start := 10; np_end := 13 |}.
Definition ex_pos_empty : npos := {| np_row := 1; np_col := 2; np_start := 10; np_end := 10 |}.
Definition ex_pos_bad : npos := {| np_row := 0; np_col := 4; np_start := 5; np_end := 7 |}.   (* 5 is inside "é" *)

Example c18_wf_satisfiable :
  wf_pos ex_src ex_pos = true /\ wf_pos ex_src ex_pos_empty = true /\ wf_pos ex_src ex_pos_bad = false.
Proof. vm_compute. repeat split; reflexivity. Qed.

Example c18_display_example :
  (* "t.py:2:3: unexpected syntax: $ y" *)
  display_plain kind_text [116;46;112;121] ex_src KUnexpected ex_pos =
    Ok [116;46;112;121;58;50;58;51;58;32;117;110;101;120;112;101;99;116;101;100;32;115;121;110;116;97;120;58;32;36;32;121]
  (* "unexpected syntax\nt.py:2:3:\n2 |   $ y\n  |   ^^^\n" *)
  /\ display_pretty kind_text [116;46;112;121] ex_src KUnexpected ex_pos =
    Ok ([117;110;101;120;112;101;99;116;101;100;32;115;121;110;116;97;120;10]
        ++ [116;46;112;121;58;50;58;51;58;10]
        ++ [50;32;124;32;32;32;36;32;121;10]
        ++ [32;32;124;32;32;32;94;94;94;10])
  (* "t.py:2:3: missing syntax\n"  and  "missing syntax\nt.py:2:3:\n2 |   $ y\n  |   \n" *)
  /\ display_plain kind_text [116;46;112;121] ex_src KMissing ex_pos_empty =
    Ok [116;46;112;121;58;50;58;51;58;32;109;105;115;115;105;110;103;32;115;121;110;116;97;120;10]
  /\ display_pretty kind_text [116;46;112;121] ex_src KMissing ex_pos_empty =
    Ok ([109;105;115;115;105;110;103;32;115;121;110;116;97;120;10]
        ++ [116;46;112;121;58;50;58;51;58;10]
        ++ [50;32;124;32;32;32;36;32;121;10]
        ++ [32;32;124;32;32;32;10])
  (* slicing inside a character is a panic in the model, as in Rust *)
  /\ display_plain kind_text [116;46;112;121] ex_src KUnexpected ex_pos_bad = Panic 1
  /\ display_pretty kind_text [116;46;112;121] ex_src KUnexpected ex_pos_bad = Panic 3.
Proof. vm_compute. repeat split; reflexivity. Qed.
