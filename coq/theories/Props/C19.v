(* Props/C19.v — property theorems only.  The command-line tool reports exactly what the library computes.

   PARTIAL: `cli` (Model/Cli.v) is the decision logic of src/bin/tree-sitter-graph/main.rs over
   already-parsed options and over the results of the library calls.  clap's argument parsing, anyhow's
   error reporting and tree-sitter-config/loader are OUTSIDE the model; for them (and for the fact that
   main.rs is this function) the only assurance is the correspondence stream C19, which runs the built
   binary.  All theorems hold for every raw --global text, path id, graph id, parse-error count,
   execution oracle and file-creation oracle. *)
From TSG Require Import Model.Cli Proofs.BaseFacts Proofs.Cli.

(* (a) exit status 0 exactly when the arguments are well formed (--output only with --json, every
       --global contains '=', names pairwise distinct), the DSL file loads, the source has no syntax
       error or --allow-parse-errors is given, execution — in the mode selected by --lazy, with every
       --global name=value bound as a string global, value = text after the FIRST '=' — succeeds, and
       the --output file (if any) can be written (output_blocked = false);
   (b) then nothing is printed on stderr and the graph written is the one the library returned:
       --json: its JSON, in the --output file when given (UNCONDITIONALLY; stdout then stays empty),
       otherwise on stdout; no --json: its pretty form on stdout unless --quiet; no file is touched. *)
Theorem cli_table : forall o lib,
  (ob_exit (cli o lib) = Exit0 <->
     usage_error o = false /\ output_blocked o lib = false /\
     exists kvs, map split_once_eq (o_globals o) = map Some kvs /\ NoDup (map fst kvs) /\
       lr_load lib = LoadOk /\ (lr_parse_errors lib = 0 \/ o_allow o = true) /\
       exists g, lr_exec lib (o_lazy o) (string_globals kvs) = ExecOk g) /\
  (ob_exit (cli o lib) = Exit0 ->
     ob_diag (cli o lib) = false /\
     exists kvs g, map split_once_eq (o_globals o) = map Some kvs /\
       lr_exec lib (o_lazy o) (string_globals kvs) = ExecOk g /\
       match o_json o, o_output o with
       | true, Some _ => ob_stdout (cli o lib) = SNothing /\ ob_file (cli o lib) = FJson g
       | true, None => ob_stdout (cli o lib) = SJson g /\ ob_file (cli o lib) = FNothing
       | false, _ => ob_stdout (cli o lib) = (if o_quiet o then SNothing else SPretty g) /\
                     ob_file (cli o lib) = FNothing
       end).
Proof. exact cli_table_lemma. Qed.

(* --quiet suppresses the pretty-printed graph and changes nothing else: not the exit status, not the
   diagnostics, not the output file, not JSON on stdout *)
Theorem quiet_only_removes_pretty : forall o lib,
  ob_exit (cli (with_quiet true o) lib) = ob_exit (cli (with_quiet false o) lib) /\
  ob_diag (cli (with_quiet true o) lib) = ob_diag (cli (with_quiet false o) lib) /\
  ob_file (cli (with_quiet true o) lib) = ob_file (cli (with_quiet false o) lib) /\
  ob_stdout (cli (with_quiet true o) lib) =
    match ob_stdout (cli (with_quiet false o) lib) with SPretty _ => SNothing | s => s end /\
  (o_json o = true -> cli (with_quiet true o) lib = cli (with_quiet false o) lib).
Proof. exact quiet_lemma. Qed.

(* non-zero exit: no graph on stdout, nothing written to the output file, a diagnostic on stderr *)
Theorem failure_no_graph : forall o lib,
  ob_exit (cli o lib) <> Exit0 ->
  ob_stdout (cli o lib) = SNothing /\ ob_file (cli o lib) = FNothing /\ ob_diag (cli o lib) = true.
Proof. exact failure_no_graph_lemma. Qed.

Theorem diagnostic_iff_failure : forall o lib,
  ob_diag (cli o lib) = true <-> ob_exit (cli o lib) <> Exit0.
Proof. exact diag_iff_failure_lemma. Qed.

(* the failure classes: 2 = clap usage error (--output without --json); 1 = malformed/duplicate
   --global, rejected DSL file, syntax errors without --allow-parse-errors, failed execution, or a
   --output file that cannot be written *)
Theorem exit2_iff_usage : forall o lib, ob_exit (cli o lib) = Exit2 <-> usage_error o = true.
Proof. exact cli_exit2_iff_lemma. Qed.

Theorem exit1_causes : forall o lib,
  ob_exit (cli o lib) = Exit1 <->
  usage_error o = false /\
  (parse_globals globals_new (o_globals o) = None \/
   exists gl, parse_globals globals_new (o_globals o) = Some gl /\
     (lr_load lib = LoadRejected \/
      (lr_load lib = LoadOk /\ o_allow o = false /\ lr_parse_errors lib <> 0) \/
      (lr_load lib = LoadOk /\ (lr_parse_errors lib = 0 \/ o_allow o = true) /\
       lr_exec lib (o_lazy o) gl = ExecErr) \/
      (lr_load lib = LoadOk /\ (lr_parse_errors lib = 0 \/ o_allow o = true) /\
       (exists g, lr_exec lib (o_lazy o) gl = ExecOk g) /\ output_blocked o lib = true))).
Proof. exact cli_exit1_iff_lemma. Qed.

(* the --global loop: succeeds iff every argument contains '=' and the names are pairwise distinct;
   each name is then bound to Value::String(text after the first '='), in command-line order *)
Theorem globals_parse_spec : forall l g,
  parse_globals globals_new l = Some g <->
  exists kvs, map split_once_eq l = map Some kvs /\ NoDup (map fst kvs) /\ g = string_globals kvs.
Proof. exact parse_globals_spec_lemma. Qed.

Theorem split_once_spec : forall s k v,
  split_once_eq s = Some (k, v) <-> s = k ++ 61 :: v /\ ~ In 61 k.
Proof. exact split_once_eq_spec_lemma. Qed.

Theorem split_once_none : forall s, split_once_eq s = None <-> ~ In 61 s.
Proof. exact split_once_eq_none_lemma. Qed.

(* a --output file that cannot be created or written (`display_json(..).with_context(..)?`): exit
   status 1 with a diagnostic, nothing on stdout, no file — whatever the other inputs are *)
Theorem unwritable_output_fails : forall o lib p,
  o_json o = true -> o_output o = Some p -> lr_create_ok lib p = false ->
  cli o lib = cli_fail Exit1.
Proof. exact unwritable_output_fails_lemma. Qed.

Theorem output_blocked_iff : forall o lib,
  output_blocked o lib = true <->
  o_json o = true /\ exists p, o_output o = Some p /\ lr_create_ok lib p = false.
Proof. exact output_blocked_iff_lemma. Qed.

(* the outcome depends on the library only through the calls main.rs makes: the load result, the
   parse-error count, execution in the SELECTED mode, creation of the GIVEN output path *)
Theorem cli_uses_selected_mode_only : forall o lib lib',
  lr_load lib = lr_load lib' -> lr_parse_errors lib = lr_parse_errors lib' ->
  (forall gl, lr_exec lib (o_lazy o) gl = lr_exec lib' (o_lazy o) gl) ->
  (forall p, o_output o = Some p -> lr_create_ok lib p = lr_create_ok lib' p) ->
  cli o lib = cli o lib'.
Proof. exact cli_exec_ext_lemma. Qed.

(* non-vacuity: concrete option sets and library results exercising success (JSON into a file, lazy
   mode differing from strict), a syntax error with and without --allow-parse-errors, a duplicate
   --global, an output file that cannot be created, and a usage error (ex_lib, ex_opts: Proofs/Cli.v) *)
Example c19_nonvacuous :
  cli (ex_opts true true (Some 3) true true [[112; 61; 49; 61; 50]]) ex_lib = cli_done SNothing (FJson 7) /\
  cli (ex_opts true false None false true [[112; 61; 49; 61; 50]]) ex_lib = cli_done (SPretty 7) FNothing /\
  cli (ex_opts false false None false true [[112; 61; 49; 61; 50]]) ex_lib = cli_fail Exit1 /\
  cli (ex_opts true true None false false [[112; 61; 49; 61; 50]]) ex_lib = cli_fail Exit1 /\
  cli (ex_opts true true None false true [[112; 61; 49]; [112; 61]]) ex_lib = cli_fail Exit1 /\
  cli (ex_opts true true (Some 4) false true [[112; 61; 49; 61; 50]]) ex_lib = cli_fail Exit1 /\
  cli (ex_opts true false (Some 3) false true []) ex_lib = cli_fail Exit2.
Proof. vm_compute. repeat split; reflexivity. Qed.
