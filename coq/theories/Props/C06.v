(* Props/C06.v — property theorems only.
   C06: the static checker rejects exactly the programs that break a documented rule, names the rule
   and the location of the first offending construct, and on success resolves every capture.

   Vocabulary
     check_file q f           Model/Checker.v: model of `File::check` on the parser's AST `f`, with the
                              capture tables `q` of the real tree-sitter queries (an external);
                              CkOk f' (the AST after checking) | CkErr variant location names | CkPanic site
     check_file_with order    the same with `order` as the iteration order of the HashSet of captures
     Violates q f r l         Spec/Rules.v: `f` breaks rule `r` at `l`, and nothing before that point in
                              traversal order breaks any rule (the premises of every rule say so)
     WellFormed q f           Spec/Rules.v: every stanza of `f` is derivable in the well-formedness
                              judgement (scopes with mutability, static shape, locality)
     rule_code r              the `CheckError` variant that names rule r
     erase_resolution f       `f` with everything the checker may write reset to the parser's values
     file_resolved q f'       every capture node of every stanza of f' carries the stanza index, file
                              index and quantifier that the tables give for its name, and every
                              stanza the file index of the full-match capture
     tables_consistent q f    (boolean) one table per stanza, rows as long as the file's capture list,
                              every stanza capture name known to the file query, full match known
     pure_expr ok e           e contains no scoped-variable read and every unscoped name it uses free
                              satisfies `ok`;  stable_name cx env x: x is a global, or the visible
                              binding of x is IMMUTABLE (not `var`, hence never `set`) and judged local
     env_inv env              every binding judged local is immutable *)
From TSG Require Import Model.Checker Spec.Rules Proofs.OrderFacts Proofs.Checker Proofs.CheckerRules.
From Coq Require Import Sorted Permutation.

(* an error result: the named rule is violated at that location, and it is the first violation in
   traversal order (see `Violates`) *)
Theorem check_sound : forall q f v l names,
  check_file q f = CkErr v l names -> exists r, rule_code r = v /\ Violates q f r l.
Proof. exact check_sound_thm. Qed.

(* an accepted file is well-formed and violates no rule anywhere *)
Theorem check_complete : forall q f f',
  check_file q f = CkOk f' -> WellFormed q f /\ forall r l, ~ Violates q f r l.
Proof. exact check_complete_thm. Qed.

(* the judgements are consistent: a file cannot be both well-formed and in violation *)
Theorem wellformed_excludes_violation : forall q f r l, WellFormed q f -> Violates q f r l -> False.
Proof. exact wellformed_not_violates. Qed.

(* "the first violation" is well defined: at most one (rule, location) satisfies Violates *)
Theorem violation_unique : forall q f r l r' l', Violates q f r l -> Violates q f r' l' -> r = r' /\ l = l'.
Proof. exact violation_unique_thm. Qed.

(* UnusedCaptures (variant 10) is reported at the start of the offending stanza and names exactly the
   captures of its query that must be reported, each once, as "@name" *)
Theorem unused_names_exact : forall q f l names,
  check_file q f = CkErr 10 l names ->
  exists pre st post cnames, f_stanzas f = pre ++ st :: post /\ l = st_start st /\
    nth_error (qt_stanza_names q) (length pre) = Some cnames /\
    forall s, In s names <-> exists n, s = 64 :: n /\ unused_capture cnames st n.
Proof. exact unused_names_exact_thm. Qed.

(* on success nothing but the resolution fields changed (shorthands included: they are not touched),
   and every capture node carries what the tables say for its name *)
Theorem check_resolves : forall q f f',
  check_file q f = CkOk f' -> erase_resolution f' = erase_resolution f /\ file_resolved q f'.
Proof. exact check_resolves_thm. Qed.

(* whatever order the hash sets are iterated in, the result is the same, and the reported unused
   captures are strictly sorted (hence duplicate-free) *)
Theorem check_deterministic_names : forall order : list ident -> list ident,
  (forall l, Permutation l (order l)) ->
  forall q f, check_file_with order q f = check_file q f /\
    forall v l names, check_file_with order q f = CkErr v l names -> StronglySorted str_lt names /\ NoDup names.
Proof. exact check_deterministic_names_thm. Qed.

(* with consistent tables none of the `expect`s / index operations of checker.rs can fail *)
Theorem no_panic_check : forall q f, tables_consistent q f = true -> forall s, check_file q f <> CkPanic s.
Proof. exact no_panic_check_thm. Qed.

(* the syntactic core of "a local value does not depend on scoped or mutable variables" *)
Theorem local_is_pure_partial : forall cx env e e' r,
  env_inv env -> check_expr cx env e = Ok (e', r) -> er_local r = true ->
  pure_expr (stable_name cx env) e = true.
Proof. exact local_is_pure_partial_thm. Qed.
(* FULL statement (DESIGN §7, not proved here; needs the interpreter models):
   local_is_pure : forall cx env e e' r, check_expr cx env e = Ok (e', r) -> er_local r = true ->
     forall st1 st2 (the two execution states agree on captures, globals, `$n` and the immutable locals
     that `stable_name` accepts, and differ arbitrarily in the scoped store and in mutable locals),
     eval st1 e = eval st2 e.
   Also open: transitivity through let-bindings as a statement about VALUES (the checker records it in
   the `is_local` bit of the binding; `stable_name` only reads that bit). *)

(* the invariant `env_inv` holds in every environment the checker reaches *)
Theorem env_inv_reachable : forall cx,
  env_inv [[]] /\
  (forall env s s' env' u, env_inv env -> check_stmt cx env s = Ok (s', env', u) -> env_inv env') /\
  (forall env body body' env' u, env_inv env -> check_block cx env body = Ok (body', env', u) -> env_inv env') /\
  (forall env, env_inv env -> env_inv (varmap_nested env)) /\
  (forall env x l v env', env_inv env -> unscoped_check_add cx env x l v false = Ok env' -> env_inv env').
Proof. exact env_inv_reachable_thm. Qed.
(* `set` only ever succeeds on a non-global name whose visible binding is mutable *)
Theorem set_needs_mutable : forall cx env x l v env',
  unscoped_check_set cx env x l v = Ok env' ->
  varmap_get (cx_globals cx) x = None /\ exists v0, env_find env x = Some (v0, true).
Proof. exact set_needs_mutable_thm. Qed.

(* ---------------- Examples: the hypotheses are satisfiable, the theorems are not vacuous -------- *)
Definition ex_id : ident := [105; 100].
Definition ex_tables (file_names : list ident) : query_tables :=
  {| qt_stanza_names := [[ex_id; FULL_MATCH]]; qt_file_names := file_names;
     qt_file_quants := [[QStar; QOne]]; qt_nullable := [false; true] |}.
Definition ex_file (body : list stmt) (shs : list shorthand) : file :=
  {| f_globals := []; f_inherited := []; f_shorthands := shs;
     f_stanzas := [{| st_stmts := body; st_full_stanza_idx := 1; st_full_file_idx := unresolved; st_start := (0, 0) |}] |}.
Definition ex_cap : expr := ECapture ex_id QZero unresolved unresolved (1, 10).
(* (identifier)* @id { for x in @id { print x } } *)
Definition ex_body : list stmt := [SFor [120] (1, 6) ex_cap [SPrint [EUnscoped [120] (2, 10)] (2, 4)] (1, 2)].

Example ex_consistent : tables_consistent (ex_tables [ex_id; FULL_MATCH]) (ex_file ex_body []) = true.
Proof. reflexivity. Qed.
Example ex_accepted :
  check_file (ex_tables [ex_id; FULL_MATCH]) (ex_file ex_body []) =
  CkOk {| f_globals := []; f_inherited := []; f_shorthands := [];
          f_stanzas := [{| st_stmts := [SFor [120] (1, 6) (ECapture ex_id QStar 0 0 (1, 10)) [SPrint [EUnscoped [120] (2, 10)] (2, 4)] (1, 2)];
                           st_full_stanza_idx := 1; st_full_file_idx := 1; st_start := (0, 0) |}] |}.
Proof. vm_compute. reflexivity. Qed.
(* without A1 ("every stanza capture name has a file index") the `expect` of checker.rs:648 fires *)
Example ex_inconsistent_panics :
  tables_consistent (ex_tables [FULL_MATCH]) (ex_file ex_body []) = false /\
  check_file (ex_tables [FULL_MATCH]) (ex_file ex_body []) = CkPanic P_missing_capture_index_for_name.
Proof. split; vm_compute; reflexivity. Qed.
(* a violation: `print y` with y undefined, inside the loop *)
Example ex_rejected :
  check_file (ex_tables [ex_id; FULL_MATCH])
    (ex_file [SFor [120] (1, 6) ex_cap [SPrint [EUnscoped [121] (2, 10)] (2, 4)] (1, 2)] []) = CkErr 9 (2, 10) [].
Proof. vm_compute. reflexivity. Qed.
Example ex_rejected_violates :
  Violates (ex_tables [ex_id; FULL_MATCH])
    (ex_file [SFor [120] (1, 6) ex_cap [SPrint [EUnscoped [121] (2, 10)] (2, 4)] (1, 2)] []) RUndefinedVariable (2, 10).
Proof.
  destruct (check_sound _ _ _ _ _ ex_rejected) as (r & Hr & Hv). destruct r; try discriminate Hr. exact Hv.
Qed.
(* unused captures are reported sorted: the stanza query knows b, a, _c and the full match *)
Example ex_unused_sorted :
  check_file {| qt_stanza_names := [[[98]; [97]; [95; 99]; FULL_MATCH]]; qt_file_names := [[98]; [97]; [95; 99]; FULL_MATCH];
                qt_file_quants := [[QOne; QOne; QOne; QOne]]; qt_nullable := [] |}
    {| f_globals := []; f_inherited := []; f_shorthands := [];
       f_stanzas := [{| st_stmts := []; st_full_stanza_idx := 3; st_full_file_idx := unresolved; st_start := (4, 0) |}] |}
  = CkErr 10 (4, 0) [[64; 97]; [64; 98]].
Proof. vm_compute. reflexivity. Qed.
(* known finding K4: shorthand bodies are not visited — an undefined variable there is accepted *)
Example ex_shorthand_not_checked :
  exists f', check_file (ex_tables [ex_id; FULL_MATCH])
    (ex_file ex_body [{| sh_name := [115]; sh_var := [120]; sh_vloc := (0, 0);
                         sh_attrs := [Attr [97] (EUnscoped [110; 111; 112; 101] (0, 30))]; sh_loc := (0, 10) |}]) = CkOk f'.
Proof. eexists. vm_compute. reflexivity. Qed.
(* env_inv and local_is_pure_partial on a non-trivial environment: x immutable local, m mutable *)
Example ex_env_inv :
  env_inv [[([120], ({| vr_local := true; vr_quant := QStar |}, false)); ([109], ({| vr_local := false; vr_quant := QOne |}, true))]].
Proof. intros fr x v m [<-|[]] [H|[H|[]]]; inversion H; subst; [reflexivity|discriminate]. Qed.

(* ================= LOCALITY: what an accepted file guarantees about EAGER positions =================
   Vocabulary (Model/Locality.v, Spec/EagerPos.v)
     lenv                      static environment: frames of (name, bit); bit true = immutable and independent of
                               scoped variables (`let` of an eager_ok expression, `node`, loop variable); every `var`
                               has bit false from its declaration on
     eager_ok G env e          e has no scoped-variable read and every unscoped name in it is a global (G) or has bit
                               true in env; comprehension lists inside e are eager_ok too
     eager_in_file f' env e    e is an eager position of a stanza statement of f' at any nesting depth — subject of
                               `scan`, condition of `if`, list of `for`, list of a comprehension inside any expression —
                               and env is the static environment there (blocks scoped, statements in sequence)
     file_eok f'               the executable form of "every eager position of every stanza is eager_ok"
     lenv_of env               the checker's environment, projected to the `is_local` bits
   Shorthand bodies are not stanza statements: they are not covered (known finding K4, `ex_shorthand_not_checked`). *)
From TSG Require Import Model.Locality Spec.EagerPos Proofs.LocalCheck Proofs.LocalPos.

Theorem checked_eager_positions_local : forall q f f',
  check_file q f = CkOk f' ->
  file_eok f' = true /\ forall env e, eager_in_file f' env e -> eager_ok (is_global f') env e = true.
Proof.
  intros q f f' H. pose proof (check_file_eok_with _ _ _ _ H) as Hok. split; [exact Hok|].
  intros env e. apply file_eok_pos. exact Hok.
Qed.

(* the checker's verdict `is_local` IS eager_ok (globals are entered as local by File::check) *)
Theorem checker_local_is_eager_ok : forall cx env e e' r,
  globals_local cx -> check_expr cx env e = Ok (e', r) -> er_local r = eager_ok (cx_global cx) (lenv_of env) e'.
Proof. intros cx env e e' r Hgl H. exact (check_expr_local cx (cx_global cx) (fun _ => eq_refl) Hgl _ _ _ _ H). Qed.

(* statement by statement: every eager position is eager_ok, and the checker continues in the projected environment *)
Theorem checked_stmt_eager_ok : forall cx env s s' env' u,
  globals_local cx -> env_inv env -> check_stmt cx env s = Ok (s', env', u) ->
  stmt_eok (cx_global cx) (lenv_of env) s' = true /\ lenv_of env' = stmt_env (cx_global cx) (lenv_of env) s'.
Proof. intros cx env s s' env' u Hgl Hinv H. exact (check_stmt_eok cx (cx_global cx) (fun _ => eq_refl) Hgl _ _ _ _ _ H Hinv). Qed.

(* the walker is sound for the enumeration of positions *)
Theorem eok_covers_positions : forall G env0 s env e,
  stmt_eok G env0 s = true -> eager_in_stmt G env0 s env e -> eager_ok G env e = true.
Proof. intros G env0 s env e Hok Hpos. exact (proj1 (eok_pos G) _ _ _ _ Hpos Hok). Qed.
(* ... and complete: the executable check `file_eok` says exactly "every enumerated position is eager_ok" *)
Theorem file_eok_iff_positions : forall f,
  file_eok f = true <-> forall env e, eager_in_file f env e -> eager_ok (is_global f) env e = true.
Proof. exact file_eok_iff_pos. Qed.

(* ---- Examples ---- *)
(* (identifier)* @id {
     for x in @id { let a = x  let b = [a, a]
       for y in b { let c = (f y a)  scan c { "rx0" { print c } }  if c { } } } } *)
Definition lx_l : loc := (0, 0).
Definition lx_body : list stmt :=
  [SFor [120] lx_l ex_cap
     [SLet (VarU [97] lx_l) (EUnscoped [120] lx_l) lx_l;
      SLet (VarU [98] lx_l) (EList [EUnscoped [97] lx_l; EUnscoped [97] lx_l]) lx_l;
      SFor [121] lx_l (EUnscoped [98] lx_l)
        [SLet (VarU [99] lx_l) (ECall [102] [EUnscoped [121] lx_l; EUnscoped [97] lx_l]) lx_l;
         SScan (EUnscoped [99] lx_l) [(0, [SPrint [EUnscoped [99] lx_l] lx_l], lx_l)] (7, 7);
         SIf [([CBool (EUnscoped [99] lx_l) lx_l], [], lx_l)] lx_l] lx_l] lx_l].
Example lx_accepted : exists f', check_file (ex_tables [ex_id; FULL_MATCH]) (ex_file lx_body []) = CkOk f' /\ file_eok f' = true.
Proof. eexists. split; vm_compute; reflexivity. Qed.
(* the subject of the inner `scan` is an eager position, found two loops deep behind a `let` chain *)
Example lx_position : forall f', check_file (ex_tables [ex_id; FULL_MATCH]) (ex_file lx_body []) = CkOk f' ->
  let env := [[([121], true); ([99], true)]; [([120], true); ([97], true); ([98], true)]; []] in
  eager_in_file f' env (EUnscoped [99] lx_l) /\ eager_ok (is_global f') env (EUnscoped [99] lx_l) = true.
Proof.
  intros f' H env. assert (Hpos : eager_in_file f' env (EUnscoped [99] lx_l)).
  { vm_compute in H. inversion H; subst f'. eexists. split; [left; reflexivity|]. cbn [st_stmts].
    apply EIB_here. apply EIS_for_body. apply EIB_later, EIB_later, EIB_here. apply EIS_for_body.
    apply EIB_later, EIB_here. apply EIS_scan. }
  split; [exact Hpos|]. exact (proj2 (checked_eager_positions_local _ _ _ H) _ _ Hpos).
Qed.
(* the motivating program: `var v = 1 … scan v … set v = x.y` in a loop body.  The checker walks the body once, the
   interpreter runs it once per element: v must be non-local from its DECLARATION, and the scan is rejected with
   ExpectedLocalValue (variant 5) at the scan statement *)
Definition lx_bad : list stmt :=
  [SFor [120] lx_l ex_cap
     [SVar (VarU [118] lx_l) (EInt 1) lx_l;
      SScan (EUnscoped [118] lx_l) [(0, [], lx_l)] (7, 7);
      SSet (VarU [118] lx_l) (EScoped (EUnscoped [120] lx_l) [121] lx_l) lx_l] lx_l].
Example lx_rejected : check_file (ex_tables [ex_id; FULL_MATCH]) (ex_file lx_bad []) = CkErr 5 (7, 7) [].
Proof. vm_compute. reflexivity. Qed.
Example lx_bad_not_eok : file_eok (ex_file lx_bad []) = false.
Proof. vm_compute. reflexivity. Qed.
(* without the scan the same body is accepted: the `set` of a scoped read into a `var` is fine *)
Example lx_var_set_accepted : exists f',
  check_file (ex_tables [ex_id; FULL_MATCH])
    (ex_file [SFor [120] lx_l ex_cap
                [SVar (VarU [118] lx_l) (EInt 1) lx_l;
                 SSet (VarU [118] lx_l) (EScoped (EUnscoped [120] lx_l) [121] lx_l) lx_l] lx_l] []) = CkOk f'.
Proof. eexists. vm_compute. reflexivity. Qed.

(* ================= LOCALITY, semantic half: the lazy interpreter =================
   Vocabulary (Spec/PureLv.v)
     pure_lv st lv             the lazy value lv, read through the thunk store st, contains no scoped-variable read:
                               no `LScoped`, and every store location in it is forced already or holds an unforced
                               body that is again pure and mentions earlier locations only.  (The lazy interpreter
                               binds EVERY unscoped variable to a store location, so "holds a value" means this.)
     locals_ok st env l        the run-time frames l have the shape of the static environment env, and every
                               variable whose bit is true is IMMUTABLE and bound to a pure lazy value
     with_scoped sc ls         ls with the scoped store replaced by sc;  omap_scoped sc r: the outcome r with the
                               scoped store of its final state replaced by sc
     sext st st'               the store only grew, thunks only changed by being forced
     quiet ls ls'              scoped store, deferred edge/attribute/print statements and debug table unchanged
     cells_unforced cells      every scoped-variable cell is still SVUnforced (nothing has been forced)
     lexec_matches             the execution phase of `execute_lazy` (all stanza/match blocks, before evaluation)
   "m (with_scoped sc ls) p = omap_scoped sc (m ls p)" for EVERY sc says that m neither reads nor writes the scoped
   store: whatever cells one puts there, the outcome — value, error, panic, fuel exhaustion, polls — is the same and
   the cells come out as they went in. *)
From TSG Require Import Spec.PureLv Proofs.LocalPure Proofs.LocalEval Proofs.LocalLeval Proofs.LocalHoare Proofs.LocalStmt Proofs.LocalRun.

(* forcing a pure lazy value (LazyValue::evaluate / LazyStore::evaluate) *)
Theorem pure_value_never_forces : forall t fl call fuel lv ls p,
  pure_lv (l_store ls) lv ->
  (forall sc, eval_lv t fl call fuel lv (with_scoped sc ls) p = omap_scoped sc (eval_lv t fl call fuel lv ls p)) /\
  (forall v ls' p', eval_lv t fl call fuel lv ls p = Ok (v, ls', p') ->
     sext (l_store ls) (l_store ls') /\ quiet ls ls' /\ l_locals ls' = l_locals ls).
Proof. intros t fl call fuel lv ls p H. exact (eval_lv_pure t fl call fuel lv (l_locals ls) ls p (conj H eq_refl)). Qed.

(* evaluate_eager (scan subject, if condition, for list, comprehension list) on an eager_ok expression, in a state
   that satisfies the invariant: independent of the scoped store, which it leaves alone; the invariant is kept *)
Theorem local_never_forces : forall t fl glob call G,
  (forall x, G x = true -> exists v, globals_get glob x = Some v) ->
  forall fuel le e env ls p,
  eager_ok G env e = true -> locals_ok (l_store ls) env (l_locals ls) ->
  (forall sc, leager t fl glob call fuel le e (with_scoped sc ls) p = omap_scoped sc (leager t fl glob call fuel le e ls p)) /\
  (forall v ls' p', leager t fl glob call fuel le e ls p = Ok (v, ls', p') ->
     sext (l_store ls) (l_store ls') /\ quiet ls ls' /\ l_locals ls' = l_locals ls /\ locals_ok (l_store ls') env (l_locals ls')).
Proof.
  intros t fl glob call G Hglob fuel le e env ls p He Hok.
  destruct (leager_ok t fl glob call G Hglob fuel le e env (l_locals ls) He ls p (conj Hok eq_refl)) as [C R]. split; [exact C|].
  intros v ls' p' E. destruct (R _ _ _ E) as (S1 & Q1 & H1 & H2). rewrite H2. auto.
Qed.

(* evaluate_lazy on ANY expression of a checked statement (its comprehension lists are eager_ok): the same, and the
   lazy value returned is pure whenever the expression itself is eager_ok *)
Theorem checked_expr_never_forces : forall t fl glob call G,
  (forall x, G x = true -> exists v, globals_get glob x = Some v) ->
  forall fuel le e env ls p,
  expr_eok G env e = true -> locals_ok (l_store ls) env (l_locals ls) ->
  (forall sc, leval t fl glob call fuel le e (with_scoped sc ls) p = omap_scoped sc (leval t fl glob call fuel le e ls p)) /\
  (forall lv ls' p', leval t fl glob call fuel le e ls p = Ok (lv, ls', p') ->
     sext (l_store ls) (l_store ls') /\ quiet ls ls' /\ l_locals ls' = l_locals ls /\ locals_ok (l_store ls') env (l_locals ls') /\
     (eager_ok G env e = true -> pure_lv (l_store ls') lv)).
Proof.
  intros t fl glob call G Hglob fuel le e env ls p He Hok.
  destruct (leval_ok t fl glob call G Hglob fuel le e env (l_locals ls) He ls p (conj Hok eq_refl)) as [C R]. split; [exact C|].
  intros v ls' p' E. destruct (R _ _ _ E) as (S1 & Q1 & [H1 H2] & H3). rewrite H2. auto.
Qed.

(* THE INVARIANT: executing a statement whose eager positions are eager_ok (what the checker guarantees) keeps
   "every variable flagged local is immutable and bound to a pure lazy value", for the static environment the checker
   continues with; the store only grows and no scoped cell is forced *)
Theorem local_invariant_preserved : forall (rx : Type) t fl cfg glob (regexes : list rx) find call G,
  (forall x, G x = true -> exists v, globals_get glob x = Some v) -> shorthands_plain fl = true ->
  forall fuel le s env ls p u ls' p',
  stmt_eok G env s = true -> locals_ok (l_store ls) env (l_locals ls) ->
  lexec_stmt t fl cfg glob regexes find call fuel le s ls p = Ok (u, ls', p') ->
  locals_ok (l_store ls') (stmt_env G env s) (l_locals ls') /\ sext (l_store ls) (l_store ls') /\
  (cells_unforced (l_scoped ls) -> cells_unforced (l_scoped ls')).
Proof.
  intros rx t fl cfg glob regexes find call G Hglob Hplain fuel le s env ls p u ls' p' Hs Hok E.
  destruct (ho_lexec_stmt t fl cfg glob regexes find call G Hglob Hplain fuel le s env Hs ls p u ls' p' Hok E) as (S1 & U1 & H1). auto.
Qed.

(* whole execution phase of a CHECKED file (shorthand bodies without comprehensions: K4): when the evaluation
   phase starts, no scoped-variable cell has been forced *)
Theorem checked_exec_phase_forces_nothing : forall (rx : Type) q f fl t cfg g0 glob (regexes : list rx) find call fuel ms gr p u ls' p',
  check_file q f = CkOk fl -> shorthands_plain fl = true ->
  check_globals (f_globals fl) g0 = Ok glob ->
  lexec_matches t fl cfg glob regexes find call fuel ms (linit gr) p = Ok (u, ls', p') ->
  cells_unforced (l_scoped ls').
Proof.
  intros rx q f fl t cfg g0 glob regexes find call fuel ms gr p u ls' p' Hck Hplain Hg E.
  eapply (exec_phase_unforced t fl cfg glob regexes find call (is_global fl)); [exact (is_global_glob _ _ _ Hg)|exact Hplain| |exact E].
  exact (proj1 (checked_eager_positions_local _ _ _ Hck)).
Qed.

(* ---- Examples ---- *)
(* a state: x (bit true) bound to an unforced thunk [1]; m (a `var`, bit false) bound to a thunk that reads a scoped
   variable; the cell of that scoped variable is being forced *)
Definition lz_tree : tree := {| t_src := []; t_nodes := [] |}.
Definition lz_file : file := {| f_globals := []; f_inherited := []; f_shorthands := []; f_stanzas := [] |}.
Definition lz_call : ident -> graph -> list value -> res (value * graph) := fun _ _ _ => Err EUndefinedFunction.
Definition lz_ctx : stmt_ctx := {| sc_stmt := (0, 0); sc_stanza := (0, 0); sc_node := 0 |}.
Definition lz_le : llenv := {| ll_match := []; ll_full := 0; ll_caps := []; ll_ctx := lz_ctx |}.
Definition lz_env : lenv := [[([120], true); ([109], false)]].
Definition lz_state (cells : list (ident * scoped_values)) : lstate :=
  {| l_graph := []; l_locals := [[([120], (LVar 0, false)); ([109], (LVar 1, true))]];
     l_store := [{| th_state := TUnforced (LList [LValue (VInt 1)]); th_dbg := lz_ctx |};
                 {| th_state := TUnforced (LScoped (LValue (VSyn 0)) [121]); th_dbg := lz_ctx |}];
     l_scoped := cells; l_edges := []; l_attrs := []; l_prints := []; l_params := []; l_prev := [] |}.
Example lz_invariant : forall cells, locals_ok (l_store (lz_state cells)) lz_env (l_locals (lz_state cells)).
Proof.
  intros cells. constructor; [|constructor]. constructor; [|constructor; [|constructor]].
  - split; [reflexivity|]. intros _. split; [reflexivity|]. apply pure_lv_var.
    eapply PLoc_unforced; [reflexivity|reflexivity|reflexivity|intros l []|intros l []].
  - split; [reflexivity|]. intros X. discriminate.
Qed.
(* the eager evaluation of [x, x] forces the thunk of x and does not look at the cell being forced *)
Example lz_eager_runs : forall cells, exists ls',
  leager lz_tree lz_file [[]] lz_call 10 lz_le (EList [EUnscoped [120] (0, 0); EUnscoped [120] (0, 0)]) (lz_state cells) (polls0 None)
  = Ok (VList [VList [VInt 1]; VList [VInt 1]], ls', {| p_count := 5; p_trace := [6; 6; 6; 6; 6]; p_budget := None |})
  /\ l_scoped ls' = cells /\ nth_error (l_store ls') 0 = Some {| th_state := TForced (VList [VInt 1]); th_dbg := lz_ctx |}.
Proof. intros cells. eexists. split; [vm_compute; reflexivity|split; reflexivity]. Qed.
Example lz_theorem_applies : forall cells sc,
  leager lz_tree lz_file [[]] lz_call 10 lz_le (EUnscoped [120] (0, 0)) (with_scoped sc (lz_state cells)) (polls0 None) =
  omap_scoped sc (leager lz_tree lz_file [[]] lz_call 10 lz_le (EUnscoped [120] (0, 0)) (lz_state cells) (polls0 None)).
Proof.
  intros cells sc.
  exact (proj1 (local_never_forces lz_tree lz_file [[]] lz_call (fun _ => false) (fun x H => ltac:(discriminate H))
                  10 lz_le (EUnscoped [120] (0, 0)) lz_env (lz_state cells) (polls0 None) eq_refl (lz_invariant cells)) sc).
Qed.
(* the variable with bit false is not eager_ok, and evaluating it eagerly DOES depend on the scoped store *)
Example lz_nonlocal_depends :
  eager_ok (fun _ => false) lz_env (EUnscoped [109] (0, 0)) = false /\
  leager lz_tree lz_file [[]] lz_call 10 lz_le (EUnscoped [109] (0, 0)) (lz_state []) (polls0 None) <>
  leager lz_tree lz_file [[]] lz_call 10 lz_le (EUnscoped [109] (0, 0)) (lz_state [([121], SVForcing)]) (polls0 None).
Proof. split; [reflexivity|]. vm_compute. discriminate. Qed.

(* ---- two states: independence of everything a local value cannot see ----
   Vocabulary (Spec/AgreeLv.v)
     states_agree env s1 s2     same graph, same parameter buffer, stores of the same length; every variable whose static
                                bit is true is bound in both states to the SAME lazy value, whose reachable part of the two
                                stores is the same (`agree`: both forced to the same value, or both unforced with the
                                same scoped-free body over earlier, again agreeing locations; same debug info).
                                NOTHING is assumed about the scoped stores, the variables with bit false (every `var`,
                                every `let` of a non-local expression), the rest of the thunk stores, the deferred statements
     outcomes_agree r1 r2       same value / error / panic / out of fuel, same polls, same final graph and parameters *)
From TSG Require Import Spec.AgreeLv Proofs.LocalRel Proofs.LocalRelEval.

Theorem local_independent_of_nonlocal_state : forall t fl glob call G,
  (forall x, G x = true -> exists v, globals_get glob x = Some v) ->
  forall fuel le e env s1 s2 p,
  eager_ok G env e = true -> states_agree env s1 s2 ->
  outcomes_agree (leager t fl glob call fuel le e s1 p) (leager t fl glob call fuel le e s2 p) /\
  (forall v1 s1' p1 v2 s2' p2,
     leager t fl glob call fuel le e s1 p = Ok (v1, s1', p1) -> leager t fl glob call fuel le e s2 p = Ok (v2, s2', p2) ->
     states_agree env s1' s2').
Proof. intros t fl glob call G Hglob fuel le e env s1 s2 p. apply leager_states_agree. exact Hglob. Qed.

(* a state that satisfies the invariant agrees with itself (so with all its variants) *)
Theorem invariant_gives_agreement : forall env s, locals_ok (l_store s) env (l_locals s) -> states_agree env s s.
Proof. exact locals_ok_states_agree. Qed.

(* Example: the state of lz_invariant and a variant in which the `var` m is bound to something else, the thunk behind
   it holds another body, and the scoped cell is different: they agree, and the theorem gives the same result *)
Definition lz_state' : lstate :=
  {| l_graph := []; l_locals := [[([120], (LVar 0, false)); ([109], (LValue (VInt 7), true))]];
     l_store := [{| th_state := TUnforced (LList [LValue (VInt 1)]); th_dbg := lz_ctx |};
                 {| th_state := TForcing; th_dbg := lz_ctx |}];
     l_scoped := [([121], SVForced [])]; l_edges := []; l_attrs := []; l_prints := []; l_params := []; l_prev := [] |}.
Example lz_states_agree : states_agree lz_env (lz_state [([121], SVForcing)]) lz_state'.
Proof.
  split; [reflexivity|]. split; [reflexivity|]. split; [reflexivity|]. intros x Hx. cbn [lz_env lenv_get alist_get] in Hx.
  destruct (str_eqb x [120]) eqn:E; [|destruct (str_eqb x [109]); discriminate].
  exists (LVar 0). cbn [lz_state lz_state' l_locals varmap_get alist_get]. rewrite E. split; [reflexivity|]. split; [reflexivity|].
  apply agree_lv_var. eapply AG_unforced; [reflexivity|reflexivity|reflexivity|reflexivity|reflexivity|reflexivity|intros l []|intros l []].
Qed.
Example lz_same_result :
  outcomes_agree
    (leager lz_tree lz_file [[]] lz_call 10 lz_le (EList [EUnscoped [120] (0, 0); EUnscoped [120] (0, 0)]) (lz_state [([121], SVForcing)]) (polls0 None))
    (leager lz_tree lz_file [[]] lz_call 10 lz_le (EList [EUnscoped [120] (0, 0); EUnscoped [120] (0, 0)]) lz_state' (polls0 None)).
Proof.
  exact (proj1 (local_independent_of_nonlocal_state lz_tree lz_file [[]] lz_call (fun _ => false) (fun x H => ltac:(discriminate H))
                  10 lz_le (EList [EUnscoped [120] (0, 0); EUnscoped [120] (0, 0)]) lz_env _ _ (polls0 None) eq_refl lz_states_agree)).
Qed.

(* K4 has a SEMANTIC consequence (known finding K4b; on the implementation: strict succeeds, `--lazy` fails with
   "Cannot add scoped variable after being forced v" when another block defines v later): the hypothesis
   `shorthands_plain` of checked_exec_phase_forces_nothing cannot be dropped.  The checker accepts
       attribute sh = x => a = [y for y in x]
       (..) @m { let @m.v = [1]  node n  attr (n) sh = @m.v }
   (the comprehension list `x` in the shorthand body is never checked), and the execution phase of the lazy
   interpreter forces the scoped variable `v`: after it, the cell is SVForced, so a definition of `v` by any later
   block fails with VariableScopesAlreadyForced — the result depends on the order of the blocks. *)
Definition k4_l : loc := (0, 0).
Definition k4_tables : query_tables :=
  {| qt_stanza_names := [[FULL_MATCH]]; qt_file_names := [FULL_MATCH]; qt_file_quants := [[QOne]]; qt_nullable := [] |}.
Definition k4_cap : expr := ECapture FULL_MATCH QZero unresolved unresolved k4_l.
Definition k4_file : file :=
  {| f_globals := []; f_inherited := [];
     f_shorthands := [{| sh_name := [115; 104]; sh_var := [120]; sh_vloc := k4_l;
                         sh_attrs := [Attr [97] (EListComp (EUnscoped [121] k4_l) [121] k4_l (EUnscoped [120] k4_l) k4_l)]; sh_loc := k4_l |}];
     f_stanzas := [{| st_stmts := [SLet (VarS k4_cap [118] k4_l) (EList [EInt 1]) k4_l;
                                   SNode (VarU [110] k4_l) [110] k4_l;
                                   SAttrNode (EUnscoped [110] k4_l) [Attr [115; 104] (EScoped k4_cap [118] k4_l)] k4_l];
                      st_full_stanza_idx := 0; st_full_file_idx := unresolved; st_start := k4_l |}] |}.
Example ex_shorthand_forces_cell : exists fl u ls p,
  check_file k4_tables k4_file = CkOk fl /\ shorthands_plain fl = false /\
  lexec_matches lz_tree fl config0 [[]] ([] : list unit) (fun _ _ => None) lz_call 20 [(0, [(0, [0])])] (linit []) (polls0 None) = Ok (u, ls, p) /\
  l_scoped ls = [([118], SVForced [(0, LVar 0)])].
Proof. do 4 eexists. split; [vm_compute; reflexivity|]. split; [reflexivity|]. split; [vm_compute; reflexivity|reflexivity]. Qed.

(* ================= SCOPE SOUNDNESS: what the variable rules buy at run time =================
   The checker's rules about UNSCOPED variables (UndefinedVariable, DuplicateVariable, CannotAssignImmutableVariable,
   CannotHideGlobalVariable, CannotSetGlobalVariable) and about captures (UndefinedSyntaxCapture) exist so that the
   interpreters never fail on them.  This part proves it for both interpreter models, for every tree, every list of
   matches (consistent with the query or not: a capture that is missing from a match is a PANIC site of the model, finding
   K8 / property C05, never one of the errors below), every function table that does not itself return such errors
   (`call_clean`; the standard library qualifies), every fuel and every cancellation budget.

   Vocabulary (Model/VarScope.v, Proofs/VarScope*.v)
     shape m                  names and mutability of the frames of ANY `VariableMap` (the checker's, the strict and the lazy
                              interpreter's), values forgotten; `get`/`add`/`set` succeed or fail according to the shape only
     vs_stmt G sr sd env s    the scope discipline restated without the checker: every unscoped name read is a global (G) or
                              bound in env; definitions are not globals and not yet in the innermost frame; `set` targets are
                              visibly mutable non-globals; blocks get a fresh frame; sr / sd: scoped reads / scoped targets allowed
     vs_env env s             the static environment after s
     vs_file sr sd f          all stanzas (each from one empty frame) and all shorthand bodies of f satisfy the discipline
     shorthands_scope_ok f    the shorthand part alone (K4: the checker does not visit shorthand bodies, so the theorems about
                              CHECKED files assume it; trivially true without shorthands: `no_shorthands_scope_ok`)
     file_sr f / file_sd f    (syntactic) a scoped read `e.x` occurs in f / a scoped variable is the target of let, var, set, node
     supplied_declared f g    every global the CALLER supplies is declared in f (Appendix D: an undeclared supplied global makes a
                              same-named `let` fail with DuplicateVariable — `ex_undeclared_supplied_global`)
     variable_error e         the root cause of e is UndefinedVariable, DuplicateVariable, CannotAssignImmutableVariable or
                              UndefinedCapture
     scoped_duplicate e       e is DuplicateVariable raised directly inside a context that names TWO statements: the form in which
                              LazyScopedVariables::force (and nothing else in the lazy interpreter) reports a duplicate SCOPED variable
   Careful point: the STRICT interpreter reports an undefined / duplicate SCOPED variable with the same error values as
   the unscoped cases (`scoped_get_at`, `scoped_add_at`, `scoped_set_at` of Model/Strict.v, as strict.rs does), so for it
   the theorem says "UndefinedVariable only if the file contains a scoped read, DuplicateVariable only if it contains a
   scoped target", and per statement the same with the flags of `vs_stmt`.  For the lazy interpreter the scoped duplicate
   is recognisable from the error value, and an undefined scoped variable is a different error (UndefinedScopedVariable). *)
From TSG Require Import Model.Exec Model.Strict Model.Lazy Model.VarScope Model.Stdlib
  Proofs.VarScopeShape Proofs.VarScopeCheck Proofs.VarScopeHoare Proofs.VarScopeStrict Proofs.VarScopeLazy Proofs.VarScopeFlags Proofs.VarScopeRun.

(* the checker enforces the discipline: statement by statement, with the environment it continues with ... *)
Theorem checked_stmt_scope_discipline : forall cx env s s' env' u,
  check_stmt cx env s = Ok (s', env', u) ->
  vs_stmt (cx_global cx) true true (shape env) s' = true /\ shape env' = vs_env (shape env) s'.
Proof. intros cx env s s' env' u. apply (check_stmt_vs cx (cx_global cx)). reflexivity. Qed.
(* ... and for every stanza of an accepted file *)
Theorem checked_scope_discipline : forall q f f',
  check_file q f = CkOk f' -> vs_stanzas (is_global f') true true f' = true.
Proof. intros q f f'. apply check_file_vs_with. Qed.
Theorem checked_file_scope_discipline : forall q f f',
  check_file q f = CkOk f' -> shorthands_scope_ok f' = true ->
  vs_file true true f' = true /\ vs_file (file_sr f') (file_sd f') f' = true.
Proof. exact checked_vs_file. Qed.
Theorem no_shorthands_scope_ok : forall f, f_shorthands f = [] -> shorthands_scope_ok f = true.
Proof. exact Proofs.VarScopeRun.no_shorthands_scope_ok. Qed.

(* whether `get` / `add` / `set` of variables.rs succeed depends on the shape only (any value type) *)
Theorem variable_ops_depend_on_shape : forall (V : Type) (m : varmap V) x v mu,
  is_bound (shape m) x = (match varmap_get m x with Some _ => true | None => false end) /\
  (can_add (shape m) x = true -> exists m', varmap_add m x v mu = inl m' /\ shape m' = lenv_bind (shape m) x mu) /\
  (can_set (shape m) x = true -> exists m', varmap_set m x v = inl m' /\ shape m' = shape m).
Proof.
  intros V m x v mu. split; [apply is_bound_shape|]. split; intros H.
  - destruct (varmap_add_ok m x v mu H) as [m' E]. exists m'. split; [exact E|]. exact (proj2 (varmap_add_inl _ _ _ _ _ E)).
  - destruct (varmap_set_ok m x v H) as [m' E]. exists m'. split; [exact E|]. exact (proj2 (varmap_set_inl _ _ _ _ E)).
Qed.

(* reading an unscoped variable the discipline allows succeeds in any state whose frames have the static shape *)
Theorem eval_unscoped_ok : forall t fl glob call (G : ident -> bool) fuel le x l env s p,
  (forall y, G y = match globals_get glob y with Some _ => true | None => false end) ->
  G x || is_bound env x = true -> shape (s_locals s) = env ->
  exists v, eval t fl glob call (S fuel) le (EUnscoped x l) s p = Ok (v, s, p).
Proof. exact eval_unscoped_ok_strict. Qed.
Theorem leval_unscoped_ok : forall t fl glob call (G : ident -> bool) fuel le x l env s p,
  (forall y, G y = match globals_get glob y with Some _ => true | None => false end) ->
  G x || is_bound env x = true -> shape (l_locals s) = env ->
  exists lv, leval t fl glob call (S fuel) le (EUnscoped x l) s p = Ok (lv, s, p).
Proof. exact eval_unscoped_ok_lazy. Qed.

(* THE INVARIANT, strict interpreter: a statement that satisfies the discipline, run in a state whose frames have exactly
   the shape of the static environment, ends in a state whose frames have exactly the shape of the environment after the
   statement — or fails with an error that is not a variable error of an unscoped name (loop bodies are judged once and run
   many times: the frame is cleared at each iteration; blocks push and pop) *)
Theorem scope_invariant_preserved_strict : forall (rx : Type) t fl cfg glob (regexes : list rx) find call G sr sd,
  (forall x, G x = match globals_get glob x with Some _ => true | None => false end) -> call_clean call ->
  vs_shorthands G sr fl = true ->
  forall fuel le s env st p,
  vs_stmt G sr sd env s = true -> shape (s_locals st) = env ->
  match exec_stmt t fl cfg glob regexes find call fuel le s st p with
  | Ok (_, st', _) => shape (s_locals st') = vs_env env s
  | Err e => match root_cause e with
             | ECannotAssignImmutableVariable | EUndefinedCapture => False
             | EUndefinedVariable => sr = true
             | EDuplicateVariable => sd = true
             | _ => True
             end
  | _ => True
  end.
Proof.
  intros rx t fl cfg glob regexes find call G sr sd HG Hcall Hsh fuel le s env st p Hs Hshape.
  exact (hv_exec_stmt t fl cfg glob regexes find call G sr sd HG Hcall Hsh fuel le s env Hs st p Hshape).
Qed.
(* the same for the execution phase of the lazy interpreter *)
Theorem scope_invariant_preserved_lazy : forall (rx : Type) t fl cfg glob (regexes : list rx) find call G,
  (forall x, G x = match globals_get glob x with Some _ => true | None => false end) -> call_clean call ->
  vs_shorthands G true fl = true ->
  forall fuel le s env st p,
  vs_stmt G true true env s = true -> shape (l_locals st) = env ->
  match lexec_stmt t fl cfg glob regexes find call fuel le s st p with
  | Ok (_, st', _) => shape (l_locals st') = vs_env env s
  | Err e => match root_cause e with
             | EUndefinedVariable | ECannotAssignImmutableVariable | EUndefinedCapture => False
             | EDuplicateVariable => scoped_duplicate e = true
             | _ => True
             end
  | _ => True
  end.
Proof.
  intros rx t fl cfg glob regexes find call G HG Hcall Hsh fuel le s env st p Hs Hshape.
  exact (hv_lexec_stmt t fl cfg glob regexes find call G HG Hcall Hsh fuel le s env Hs st p Hshape).
Qed.

(* WHOLE RUNS of a checked file.  Strict interpreter: never CannotAssignImmutableVariable, never UndefinedCapture;
   UndefinedVariable only if the file contains a scoped read, DuplicateVariable only if it contains a scoped target *)
Theorem checked_no_variable_errors_strict : forall (rx : Type) q f f' t cfg supplied budget (regexes : list rx) find call fuel matches g0 e,
  check_file q f = CkOk f' -> shorthands_scope_ok f' = true -> supplied_declared f' supplied -> call_clean call ->
  run_strict t f' cfg supplied budget regexes find call fuel matches g0 = Err e ->
  match root_cause e with
  | ECannotAssignImmutableVariable | EUndefinedCapture => False
  | EUndefinedVariable => file_sr f' = true
  | EDuplicateVariable => file_sd f' = true
  | _ => True
  end.
Proof.
  intros rx q f f' t cfg supplied budget regexes find call fuel matches g0 e Hc Hsh Hsup Hcall Hrun.
  exact (run_strict_scope_ok t f' cfg regexes find call Hcall _ _ supplied budget fuel matches g0 e
           (proj2 (checked_vs_file _ _ _ Hc Hsh)) Hsup Hrun).
Qed.
(* in particular: a checked file without scoped-variable syntax never fails with any of the four errors *)
Theorem checked_no_variable_errors_strict_unscoped : forall (rx : Type) q f f' t cfg supplied budget (regexes : list rx) find call fuel matches g0 e,
  check_file q f = CkOk f' -> shorthands_scope_ok f' = true -> supplied_declared f' supplied -> call_clean call ->
  file_sr f' = false -> file_sd f' = false ->
  run_strict t f' cfg supplied budget regexes find call fuel matches g0 = Err e -> variable_error e = false.
Proof.
  intros rx q f f' t cfg supplied budget regexes find call fuel matches g0 e Hc Hsh Hsup Hcall Hr Hd Hrun.
  pose proof (checked_no_variable_errors_strict rx q f f' t cfg supplied budget regexes find call fuel matches g0 e Hc Hsh Hsup Hcall Hrun) as H.
  unfold variable_error. destruct (root_cause e); try reflexivity; try contradiction; congruence.
Qed.
(* Lazy interpreter (execution AND evaluation phase): never UndefinedVariable, CannotAssignImmutableVariable,
   UndefinedCapture; DuplicateVariable only as the duplicate definition of a SCOPED variable *)
Theorem checked_no_variable_errors_lazy : forall (rx : Type) q f f' t cfg supplied budget (regexes : list rx) find call fuel matches g0 e,
  check_file q f = CkOk f' -> shorthands_scope_ok f' = true -> supplied_declared f' supplied -> call_clean call ->
  run_lazy t f' cfg supplied budget regexes find call fuel matches g0 = Err e ->
  match root_cause e with
  | EUndefinedVariable | ECannotAssignImmutableVariable | EUndefinedCapture => False
  | EDuplicateVariable => scoped_duplicate e = true
  | _ => True
  end.
Proof.
  intros rx q f f' t cfg supplied budget regexes find call fuel matches g0 e Hc Hsh Hsup Hcall Hrun.
  exact (run_lazy_scope_ok t f' cfg regexes find call Hcall supplied budget fuel matches g0 e
           (proj1 (checked_vs_file _ _ _ Hc Hsh)) Hsup Hrun).
Qed.
(* the standard library returns none of the four errors *)
Theorem stdlib_functions_clean : forall rx t, call_clean (stdlib_call rx t).
Proof. exact stdlib_call_clean. Qed.

(* THE SIMULATION, stated directly between the checker model and the interpreter models (files without attribute
   shorthands): a statement the checker accepts in environment env, run in a state whose frames have the shape of env,
   ends in a state whose frames have the shape of the environment the checker continues with; if it fails, the error is
   not a variable error of an unscoped name — for the strict interpreter: UndefinedVariable only if THIS statement contains
   a scoped read, DuplicateVariable only if it contains a scoped target *)
Theorem checked_stmt_no_variable_errors_strict : forall (rx : Type) t fl cfg glob (regexes : list rx) find call cx env s s' env' u,
  check_stmt cx env s = Ok (s', env', u) -> f_shorthands fl = [] ->
  (forall x, cx_global cx x = match globals_get glob x with Some _ => true | None => false end) -> call_clean call ->
  forall fuel le st p, shape (s_locals st) = shape env ->
  match exec_stmt t fl cfg glob regexes find call fuel le s' st p with
  | Ok (_, st', _) => shape (s_locals st') = shape env'
  | Err e => match root_cause e with
             | ECannotAssignImmutableVariable | EUndefinedCapture => False
             | EUndefinedVariable => stmt_sr s' = true
             | EDuplicateVariable => stmt_sd s' = true
             | _ => True
             end
  | _ => True
  end.
Proof.
  intros rx t fl cfg glob regexes find call cx env s s' env' u Hc Hsh HG Hcall fuel le st p Hshape.
  destruct (checked_stmt_scope_discipline _ _ _ _ _ _ Hc) as [V1 V2]. rewrite V2.
  apply (scope_invariant_preserved_strict rx t fl cfg glob regexes find call (cx_global cx) (stmt_sr s') (stmt_sd s') HG Hcall);
    [unfold vs_shorthands; rewrite Hsh; reflexivity| |exact Hshape].
  apply vs_stmt_flag; auto.
Qed.
Theorem checked_stmt_no_variable_errors_lazy : forall (rx : Type) t fl cfg glob (regexes : list rx) find call cx env s s' env' u,
  check_stmt cx env s = Ok (s', env', u) -> f_shorthands fl = [] ->
  (forall x, cx_global cx x = match globals_get glob x with Some _ => true | None => false end) -> call_clean call ->
  forall fuel le st p, shape (l_locals st) = shape env ->
  match lexec_stmt t fl cfg glob regexes find call fuel le s' st p with
  | Ok (_, st', _) => shape (l_locals st') = shape env'
  | Err e => match root_cause e with
             | EUndefinedVariable | ECannotAssignImmutableVariable | EUndefinedCapture => False
             | EDuplicateVariable => scoped_duplicate e = true
             | _ => True
             end
  | _ => True
  end.
Proof.
  intros rx t fl cfg glob regexes find call cx env s s' env' u Hc Hsh HG Hcall fuel le st p Hshape.
  destruct (checked_stmt_scope_discipline _ _ _ _ _ _ Hc) as [V1 V2]. rewrite V2.
  apply (scope_invariant_preserved_lazy rx t fl cfg glob regexes find call (cx_global cx) HG Hcall);
    [unfold vs_shorthands; rewrite Hsh; reflexivity|exact V1|exact Hshape].
Qed.

(* ---- Examples ---- *)
(* (identifier)* @id {
     var n = 0   let x = 1
     for y in @id { let x = y   set n = x   if #true { let x = 2   set n = x } }     -- shadowing in inner blocks, `var` set in a loop
     print n, x } *)
Definition vx_l : loc := (0, 0).
Definition vx_n : ident := [110].
Definition vx_x : ident := [120].
Definition vx_y : ident := [121].
Definition vx_body : list stmt :=
  [SVar (VarU vx_n vx_l) (EInt 0) vx_l;
   SLet (VarU vx_x vx_l) (EInt 1) vx_l;
   SFor vx_y vx_l ex_cap
     [SLet (VarU vx_x vx_l) (EUnscoped vx_y vx_l) vx_l;
      SSet (VarU vx_n vx_l) (EUnscoped vx_x vx_l) vx_l;
      SIf [([CBool ETrue vx_l], [SLet (VarU vx_x vx_l) (EInt 2) vx_l; SSet (VarU vx_n vx_l) (EUnscoped vx_x vx_l) vx_l], vx_l)] vx_l] vx_l;
   SPrint [EUnscoped vx_n vx_l; EUnscoped vx_x vx_l] vx_l].
Definition vx_checked : file :=
  match check_file (ex_tables [ex_id; FULL_MATCH]) (ex_file vx_body []) with CkOk f' => f' | _ => ex_file [] [] end.
(* one match: @id = nodes 5 and 6 (two loop iterations), full match = node 4 *)
Definition vx_match : qmatch := [(0, [5; 6]); (1, [4])].
Definition vx_find : unit -> str -> option (list (option (N * N))) := fun _ _ => None.

Example vx_accepted : check_file (ex_tables [ex_id; FULL_MATCH]) (ex_file vx_body []) = CkOk vx_checked.
Proof. vm_compute. reflexivity. Qed.
Example vx_discipline : vs_file false false vx_checked = true /\ file_sr vx_checked = false /\ file_sd vx_checked = false.
Proof. repeat split; vm_compute; reflexivity. Qed.
(* the runs succeed; the frame of the stanza holds n (mutable) and the OUTER x afterwards *)
Example vx_runs_strict : exists s p,
  run_strict lz_tree vx_checked config0 [] None [] vx_find lz_call 30 [[vx_match]] [] = Ok (s, p) /\
  s_locals s = [[(vx_n, (VInt 2, true)); (vx_x, (VInt 1, false))]].
Proof. do 2 eexists. split; vm_compute; reflexivity. Qed.
Example vx_runs_lazy : exists s p,
  run_lazy lz_tree vx_checked config0 [] None [] vx_find lz_call 30 [(0, vx_match)] [] = Ok (s, p) /\
  shape (l_locals s) = [[(vx_n, true); (vx_x, false)]].
Proof. do 2 eexists. split; vm_compute; reflexivity. Qed.
(* the theorems apply to it: whatever the tree, matches, fuel, budget — no variable error *)
Example vx_theorem_applies_strict : forall t cfg budget fuel matches g0 e,
  run_strict t vx_checked cfg [] budget [] vx_find lz_call fuel matches g0 = Err e -> variable_error e = false.
Proof.
  intros t cfg budget fuel matches g0 e.
  apply (checked_no_variable_errors_strict_unscoped unit _ _ _ t cfg [] budget [] vx_find lz_call fuel matches g0 e vx_accepted);
    try reflexivity.
  - intros k v H. discriminate.
  - intros f g args e0 [= <-]. reflexivity.
Qed.
Example vx_theorem_applies_lazy : forall t cfg budget fuel matches g0 e,
  run_lazy t vx_checked cfg [] budget [] vx_find lz_call fuel matches g0 = Err e ->
  root_cause e <> EUndefinedVariable /\ root_cause e <> ECannotAssignImmutableVariable /\ root_cause e <> EUndefinedCapture.
Proof.
  intros t cfg budget fuel matches g0 e Hrun.
  assert (H := checked_no_variable_errors_lazy unit _ _ _ t cfg [] budget [] vx_find lz_call fuel matches g0 e vx_accepted eq_refl
                 (fun k v (H : globals_get [] k = Some v) => ltac:(discriminate))
                 (fun f g args e0 (H : lz_call f g args = Err e0) => ltac:(inversion H; reflexivity)) Hrun).
  destruct (root_cause e); try contradiction; repeat split; discriminate.
Qed.

(* NEGATIVE 1: the hypothesis `check_file = CkOk` matters.  The unchecked AST of
     (identifier)* @id { for y in @id { print x } }        -- x is not defined
   is rejected by the checker (UndefinedVariable), and both interpreter models fail on it with UndefinedVariable *)
Definition nx_file : file :=
  {| f_globals := []; f_inherited := []; f_shorthands := [];
     f_stanzas := [{| st_stmts := [SFor vx_y vx_l (ECapture ex_id QStar 0 0 vx_l) [SPrint [EUnscoped vx_x (2, 10)] vx_l] vx_l];
                      st_full_stanza_idx := 1; st_full_file_idx := 1; st_start := (0, 0) |}] |}.
Example nx_rejected : check_file (ex_tables [ex_id; FULL_MATCH]) nx_file = CkErr 9 (2, 10) [].
Proof. vm_compute. reflexivity. Qed.
Example nx_unchecked_fails_strict : exists e,
  run_strict lz_tree nx_file config0 [] None [] vx_find lz_call 30 [[vx_match]] [] = Err e /\ root_cause e = EUndefinedVariable.
Proof. eexists. split; vm_compute; reflexivity. Qed.
Example nx_unchecked_fails_lazy : exists e,
  run_lazy lz_tree nx_file config0 [] None [] vx_find lz_call 30 [(0, vx_match)] [] = Err e /\ root_cause e = EUndefinedVariable.
Proof. eexists. split; vm_compute; reflexivity. Qed.
Example nx_not_disciplined : vs_file true true nx_file = false.
Proof. vm_compute. reflexivity. Qed.

(* NEGATIVE 2: `supplied_declared` matters (Appendix D).  The accepted program above defines `x`; a caller that supplies
   an UNDECLARED global named x makes both interpreters fail with DuplicateVariable *)
Example ex_undeclared_supplied_global : exists e1 e2,
  run_strict lz_tree vx_checked config0 [[(vx_x, VInt 7)]] None [] vx_find lz_call 30 [[vx_match]] [] = Err e1 /\
  run_lazy lz_tree vx_checked config0 [[(vx_x, VInt 7)]] None [] vx_find lz_call 30 [(0, vx_match)] [] = Err e2 /\
  root_cause e1 = EDuplicateVariable /\ root_cause e2 = EDuplicateVariable /\ scoped_duplicate e2 = false.
Proof. do 2 eexists. repeat split; vm_compute; reflexivity. Qed.

(* NEGATIVE 3: `shorthands_scope_ok` matters (K4).  attribute sh = x => a = nope ; (..) @m { node n  attr (n) sh = 1 }
   is accepted, and both interpreters fail with UndefinedVariable inside the shorthand body *)
Definition kx_file : file :=
  {| f_globals := []; f_inherited := [];
     f_shorthands := [{| sh_name := [115; 104]; sh_var := [120]; sh_vloc := k4_l;
                         sh_attrs := [Attr [97] (EUnscoped [110; 111; 112; 101] k4_l)]; sh_loc := k4_l |}];
     f_stanzas := [{| st_stmts := [SNode (VarU [110] k4_l) [110] k4_l;
                                   SAttrNode (EUnscoped [110] k4_l) [Attr [115; 104] (EInt 1)] k4_l];
                      st_full_stanza_idx := 0; st_full_file_idx := unresolved; st_start := k4_l |}] |}.
Example kx_shorthand_body_unchecked : exists fl e1 e2,
  check_file k4_tables kx_file = CkOk fl /\ shorthands_scope_ok fl = false /\
  run_strict lz_tree fl config0 [] None [] vx_find lz_call 30 [[[(0, [0])]]] [] = Err e1 /\ root_cause e1 = EUndefinedVariable /\
  run_lazy lz_tree fl config0 [] None [] vx_find lz_call 30 [(0, [(0, [0])])] [] = Err e2 /\ root_cause e2 = EUndefinedVariable.
Proof. do 3 eexists. split; [vm_compute; reflexivity|]. repeat split; vm_compute; reflexivity. Qed.

(* THE DISJUNCTS ARE REAL: (..) @m { let @m.v = 1  let @m.v = 2 } is accepted (the checker has no rule about scoped
   variables); the strict interpreter fails with the bare DuplicateVariable — the file has a scoped target —, the lazy one
   with the two-statement form *)
Definition sx_file : file :=
  {| f_globals := []; f_inherited := []; f_shorthands := [];
     f_stanzas := [{| st_stmts := [SLet (VarS k4_cap [118] k4_l) (EInt 1) (1, 0); SLet (VarS k4_cap [118] k4_l) (EInt 2) (2, 0)];
                      st_full_stanza_idx := 0; st_full_file_idx := unresolved; st_start := k4_l |}] |}.
Example sx_scoped_duplicate : exists fl e1 e2,
  check_file k4_tables sx_file = CkOk fl /\ file_sd fl = true /\ file_sr fl = false /\
  run_strict lz_tree fl config0 [] None [] vx_find lz_call 30 [[[(0, [0])]]] [] = Err e1 /\ root_cause e1 = EDuplicateVariable /\
  run_lazy lz_tree fl config0 [] None [] vx_find lz_call 30 [(0, [(0, [0])])] [] = Err e2 /\ root_cause e2 = EDuplicateVariable /\
  scoped_duplicate e2 = true.
Proof. do 3 eexists. split; [vm_compute; reflexivity|]. repeat split; vm_compute; reflexivity. Qed.
(* and a scoped READ of a variable nobody defined: strict reports UndefinedVariable (the file has a scoped read) *)
Definition sy_file : file :=
  {| f_globals := []; f_inherited := []; f_shorthands := [];
     f_stanzas := [{| st_stmts := [SPrint [EScoped k4_cap [118] k4_l] k4_l];
                      st_full_stanza_idx := 0; st_full_file_idx := unresolved; st_start := k4_l |}] |}.
Example sy_scoped_undefined : exists fl e1,
  check_file k4_tables sy_file = CkOk fl /\ file_sr fl = true /\
  run_strict lz_tree fl config0 [] None [] vx_find lz_call 30 [[[(0, [0])]]] [] = Err e1 /\ root_cause e1 = EUndefinedVariable.
Proof. do 2 eexists. split; [vm_compute; reflexivity|]. repeat split; vm_compute; reflexivity. Qed.
