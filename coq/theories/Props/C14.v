(* Props/C14.v — property theorems only.
   JSON and pretty-printed output encode the graph faithfully and completely. *)
From TSG Require Import Model.C14TextObs Proofs.BaseFacts Proofs.OrderFacts Proofs.Containers Proofs.JsonFacts Proofs.PrettyFacts Proofs.JsonText.
From Coq Require Import Sorted Permutation.

(* ---------------- JSON ---------------- *)

(* Decoding the emitted tree (members looked up by key; a node's "id" must equal its position)
   reconstructs the graph exactly — nodes, edge lists, attribute lists, every value variant.
   Holds for every graph, well-formed or not (stronger than the planned `WF g -> ...`). *)
Theorem json_roundtrip : forall g, decode_graph (encode_graph g) = Some g.
Proof. exact json_roundtrip_lemma. Qed.

(* Object member order (hash-map iteration order) is irrelevant: if j' lists the members of every
   object of the emitted tree in any other order, at any depth, it still decodes, to a graph that
   differs at most in the order of attribute association lists; for well-formed graphs (attribute names
   unique, edges strictly ascending: invariant of every API history, C17 history_wf) that means the same
   node count, the same sinks in the same order and the same attribute MAPS everywhere. *)
Theorem json_member_order_irrelevant : forall g j', jperm (encode_graph g) j' ->
  exists g', decode_graph j' = Some g' /\ graph_eqv g g' /\ (graph_wf g -> graph_same_maps g g').
Proof. exact json_member_order_full_lemma. Qed.

(* in particular for the key-sorted form that the correspondence check compares *)
Theorem json_sorted_members : forall g,
  exists g', decode_graph (jsort (encode_graph g)) = Some g' /\ graph_eqv g g'.
Proof. exact json_sorted_members_lemma. Qed.

(* Injectivity: graphs whose JSON agree up to member order are equal up to attribute-list order
   (contrapositive: different graphs — as maps — give different JSON); identical JSON, identical graphs. *)
Theorem json_injective : forall g1 g2, jperm (encode_graph g1) (encode_graph g2) ->
  graph_eqv g1 g2 /\ (graph_wf g1 -> graph_same_maps g1 g2).
Proof. exact json_injective_full_lemma. Qed.
Theorem json_injective_exact : forall g1 g2, encode_graph g1 = encode_graph g2 -> g1 = g2.
Proof. exact encode_graph_inj. Qed.

(* Shape: a sequence with one object per node, in index order, carrying its index as "id"; under it
   every outgoing edge exactly once, in strictly ascending sink order; attribute objects without
   duplicate keys. *)
Theorem json_shape : forall g, graph_wf g ->
  exists l, encode_graph g = JArr l /\ length l = length g /\
  forall i n, nth_error g i = Some n ->
    nth_error l i = Some (JObj [(s_id, JNum (N.of_nat i));
                                (s_edges, JArr (map (fun e => JObj [(s_sink, JNum (fst e)); (s_attrs, encode_attrs (snd e))]) (g_edges n)));
                                (s_attrs, encode_attrs (g_attrs n))]) /\
    StronglySorted N.lt (map fst (g_edges n)) /\
    NoDup (obj_keys (encode_attrs (g_attrs n))) /\
    Forall (fun e => NoDup (obj_keys (encode_attrs (snd e)))) (g_edges n).
Proof. exact json_shape_lemma. Qed.

(* exact type tags: the first member of a value object is "type" with the variant's tag, the tag
   determines the variant, and no other member is called "type" *)
Theorem json_value_tags : forall v,
  (exists payload, encode_value v = JObj ((s_type, JStr (type_name v)) :: payload) /\ ~ In s_type (map fst payload)) /\
  (forall w, type_name v = type_name w -> tag v = tag w).
Proof. exact json_value_tags_full_lemma. Qed.

(* every attribute value is emitted injectively and decodes to itself under any member order *)
Theorem json_value_faithful : forall v j', jperm (encode_value v) j' -> decode_value j' = Some v.
Proof. exact decode_value_jperm. Qed.

(* the derived order of Value is a strict total order (what BTreeSet relies on) *)
Theorem value_order_strict_total : forall a b c,
  (value_cmp a b = Eq <-> a = b) /\
  value_cmp b a = CompOpp (value_cmp a b) /\
  (value_cmp a b = Lt -> value_cmp b c = Lt -> value_cmp a c = Lt).
Proof. exact value_order_lemma. Qed.

(* Sets: a set built by BTreeSet inserts (set_of_list) is emitted as "type":"set" with its elements
   strictly ascending in the derived order, pairwise distinct as JSON, and containing exactly the
   inserted elements. *)
Theorem sets_sorted_nodup : forall l,
  let s := set_of_list l in
  encode_value (VSet s) = JObj [(s_type, JStr s_set); (s_values, JArr (map encode_value s))] /\
  StronglySorted value_lt s /\ NoDup (map encode_value s) /\ (forall x, In x s <-> In x l).
Proof. exact sets_sorted_nodup_lemma. Qed.

(* and any set that is strictly sorted in memory is emitted in that order, without duplicates *)
Theorem set_emitted_in_order : forall s, StronglySorted value_lt s ->
  exists js, encode_value (VSet s) = JObj [(s_type, JStr s_set); (s_values, JArr js)] /\
             opt_all (map decode_value js) = Some s /\ NoDup js.
Proof. exact set_emitted_in_order_lemma. Qed.

(* ---------------- JSON, text level (Model/JsonText.v: what to_string_pretty / display_json writes) ---------------- *)
(* A text is a list of Unicode scalar values.  `print_pretty` = serde_json's PrettyFormatter (two-space indent,
   colon-space, comma-newline, empty array/object without line break, string escaping, u32 decimals);
   `parse_json` = an RFC 8259 parser for unsigned-integer JSON with arbitrary insignificant whitespace. *)

(* The printed text is valid JSON that decodes to exactly the value tree: for EVERY tree (no well-formedness
   needed: any code points in strings, duplicate keys, any nesting), with any fuel from the size of the tree on,
   nothing but the end of the text left over. *)
Theorem json_text_roundtrip : forall j, exists fuel, parse_json fuel (print_pretty j) = Some (j, []).
Proof. exact json_text_roundtrip_lemma. Qed.
Theorem json_text_roundtrip_fuel : forall j fuel, (jsize j <= fuel)%nat -> parse_json fuel (print_pretty j) = Some (j, []).
Proof. exact parse_json_print. Qed.
(* the length of the text is always enough fuel: the fuel-free reader used by the correspondence verdict *)
Theorem json_text_roundtrip_len : forall j, parse_json_text (print_pretty j) = Some j.
Proof. exact parse_json_text_print. Qed.
(* ... also when the text is surrounded by insignificant whitespace (e.g. a trailing newline) *)
Theorem json_text_whitespace : forall j fuel pre post, (jsize j <= fuel)%nat -> skip_ws pre = [] -> skip_ws post = [] ->
  parse_json fuel (pre ++ print_pretty j ++ post) = Some (j, []).
Proof. exact parse_json_print_ws. Qed.

(* different value trees have different texts *)
Theorem json_text_injective : forall j1 j2, print_pretty j1 = print_pretty j2 -> j1 = j2.
Proof. exact print_pretty_inj. Qed.

(* String escaping: reading the characters of a literal after its opening quote gives back the string and stops
   right after the closing quote, for ALL strings: quotes, backslashes, every control character, DEL, U+2028/9,
   astral code points (and even surrogate code points, which a Rust string cannot hold). *)
Theorem escape_roundtrip : forall s rest, parse_chars (escape_str s ++ 34 :: rest) = Some (s, rest).
Proof. exact parse_chars_escape_str. Qed.
Theorem escape_roundtrip_value : forall s, parse_json_text (print_string s) = Some (JStr s).
Proof. intros s. exact (parse_json_text_print (JStr s)). Qed.

(* Validity: the output contains no character below U+0020 except the line feeds of the layout, and a string
   literal (quotes included) contains none at all. *)
Theorem print_pretty_no_raw_control : forall j,
  Forall (fun c => 32 <= c \/ c = 10) (print_pretty j) /\
  (forall s, Forall (fun c => 32 <= c) (print_string s)).
Proof. intros j. split; [exact (print_at_layout j 0%nat) | exact print_string_ge32]. Qed.

(* a tree whose strings hold scalar values (what a Rust String can hold) prints scalar values only: the text is
   encodable as UTF-8 *)
Theorem print_pretty_scalars : forall j, json_wfb j = true -> Forall (fun c => is_scalarb c = true) (print_pretty j).
Proof. intros j. exact (print_at_scalar j 0%nat). Qed.

(* Composition with json_roundtrip: graph -> value tree -> text -> value tree -> graph is the identity *)
Theorem graph_json_text_roundtrip : forall g, graph_of_json_text (graph_json_text g) = Some g.
Proof. exact graph_json_text_roundtrip_lemma. Qed.
Theorem graph_json_text_injective : forall g1 g2, graph_json_text g1 = graph_json_text g2 -> g1 = g2.
Proof. exact graph_json_text_inj. Qed.
(* ... and the text of ANY member order (the implementation writes hash-map iteration order) reads back as the
   same graph up to attribute-list order, the same maps for well-formed graphs *)
Theorem graph_json_text_member_order : forall g j', jperm (encode_graph g) j' ->
  exists g', graph_of_json_text (print_pretty j') = Some g' /\ graph_eqv g g' /\ (graph_wf g -> graph_same_maps g g').
Proof. exact graph_json_text_member_order. Qed.

(* ---------------- pretty_print ---------------- *)

(* The line list: nothing for the empty graph; appending a node appends its block; a block is the
   node line, the node's attribute lines, then per outgoing edge (in stored = ascending sink order) the
   edge line followed by that edge's attribute lines; attribute lines are the attributes in name order:
   a permutation of the map, sorted, strictly when names are unique. *)
Theorem pretty_lines_spec : forall E,
  pretty_lines E [] = [] /\
  (forall g n, pretty_lines E (g ++ [n]) = pretty_lines E g ++ node_block E (N.of_nat (length g)) n) /\
  (forall i n, node_block E i n =
     (s_node_ ++ dec i) :: attr_lines E (g_attrs n)
     ++ flat_map (fun e => (s_edge_ ++ dec i ++ s_arrow ++ dec (fst e)) :: attr_lines E (snd e)) (g_edges n)) /\
  (forall m, attr_lines E m = map (fun kv => [32;32] ++ fst kv ++ [58;32] ++ debug_value E (snd kv)) (sort_alist m) /\
             Permutation m (sort_alist m) /\ StronglySorted key_le (sort_alist m) /\
             (attrs_wf m -> StronglySorted str_lt (map fst (sort_alist m)))).
Proof. exact pretty_lines_spec_lemma. Qed.

(* Reading the lines back (node / edge / attribute lines, regrouped) recovers, for every node in
   index order, its attributes (name and Debug text, name-sorted) and, per outgoing edge, the sink and
   the edge's attributes.  Needs: no attribute name contains ':'. *)
Theorem pretty_extract : forall E g, graph_names_ok g ->
  extract_lines (pretty_lines E g) = Some (graph_skel E g).
Proof. exact pretty_extract_lemma. Qed.

(* ... and that skeleton is the graph's node list with sinks and attribute names *)
Theorem pretty_extract_names : forall E g,
  skel_names (graph_skel E g) =
  map (fun n => (map fst (sort_alist (g_attrs n)), map (fun e => (fst e, map fst (sort_alist (snd e)))) (g_edges n))) g.
Proof. exact graph_skel_names. Qed.

(* The text written by pretty_print (every line terminated by a newline) splits back into exactly the
   model's lines: no printed line contains a newline (Debug escapes it) provided attribute names and
   the recorded node kinds do not. *)
Theorem pretty_text_lines : forall E g, env_ok E -> graph_names_nl g ->
  split_lines (pretty_text E g) = pretty_lines E g.
Proof. exact pretty_text_lines_lemma. Qed.

(* COMPLETENESS of the pretty text: two graphs (same syntax-node environment) whose printed TEXTS are equal have
   the same skeleton - so the text alone determines the number of nodes, every node's attribute names with the
   Debug text of each value (name-sorted), every edge's sink in stored order and every edge's attributes.
   Nothing of the graph that the text shows can differ between two graphs printed alike. *)
Theorem pretty_text_determines_skel : forall E g1 g2,
  env_ok E -> graph_names_nl g1 -> graph_names_nl g2 -> graph_names_ok g1 -> graph_names_ok g2 ->
  pretty_text E g1 = pretty_text E g2 -> graph_skel E g1 = graph_skel E g2.
Proof. exact pretty_text_determines_skel_lemma. Qed.

Theorem pretty_skel_shape : forall E g1 g2, graph_skel E g1 = graph_skel E g2 ->
  length g1 = length g2 /\
  map (fun n => map fst (g_edges n)) g1 = map (fun n => map fst (g_edges n)) g2 /\
  map (fun n => map (fun kv => (fst kv, debug_value E (snd kv))) (sort_alist (g_attrs n))) g1 =
  map (fun n => map (fun kv => (fst kv, debug_value E (snd kv))) (sort_alist (g_attrs n))) g2.
Proof. exact graph_skel_eq_shape. Qed.

(* Nothing is dropped or duplicated: the number of printed lines is exactly one per node, one per node
   attribute, one per edge and one per edge attribute. *)
Theorem pretty_line_count : forall E g,
  length (pretty_lines E g) =
  fold_right (fun n acc => (1 + length (g_attrs n) + fold_right (fun e acc' => 1 + length (snd e) + acc') 0 (g_edges n) + acc)%nat) 0%nat g.
Proof. exact pretty_lines_count. Qed.

(* decimal rendering of indices is injective (node and edge lines identify their nodes) *)
Theorem dec_injective : forall n m, dec n = dec m -> n = m.
Proof. exact dec_inj. Qed.

(* ---------------- non-vacuity ---------------- *)
(* node 0: attributes n = a string with quote, newline, e-acute, combining grave; a = {1, 3, [#null, #true, syntax 0]};
   edges 0->0 with k = graph node 1, and 0->1;  node 1 empty *)
Definition ex_E : penv := {| pe_syn := [(0, ([109;111;100;117;108;101], (0, 0)))]; pe_print := [(233, true); (768, false)] |}.
Definition ex_g : graph :=
  [ {| g_attrs := [([110], VStr [97;34;10;233;768]); ([97], VSet (set_of_list [VInt 3; VInt 1; VList [VNull; VBool true; VSyn 0]]))];
       g_edges := [(0, [([107], VGraph 1)]); (1, [])] |};
    new_gnode ].

Example ex_wf : graph_wf ex_g.
Proof.
  repeat constructor; cbn [map fst In]; try (intuition discriminate); try lia.
Qed.
Example ex_names_ok : graph_names_ok ex_g /\ graph_names_nl ex_g /\ env_ok ex_E.
Proof.
  unfold graph_names_ok, graph_names_nl, env_ok, amap_names_ok, amap_names_nl, no_nl.
  repeat split; repeat constructor; cbn [fst snd In]; intuition discriminate.
Qed.
(* members in a different order (sorted by key: a before n, attrs before edges before id) still decode *)
Example ex_member_order :
  jsort (encode_graph ex_g) <> encode_graph ex_g /\
  option_map (norm_graph false) (decode_graph (jsort (encode_graph ex_g))) = Some (norm_graph false ex_g).
Proof. split; [intros H; vm_compute in H; discriminate | vm_compute; reflexivity]. Qed.
(* the printed lines: node 0 / a: {1, 3, [#null, #true, [syntax node module (1, 1)]]} / n: the Debug form of the string
   (quote and newline escaped, e-acute verbatim, combining grave as \u{300}) / edge 0 -> 0 / k: [graph node 1] / edge 0 -> 1 / node 1 *)
Example ex_pretty :
  length (pretty_lines ex_E ex_g) = 7%nat /\ graph_line_count ex_g = 7%nat /\
  nth 2 (pretty_lines ex_E ex_g) [] = [32;32;110;58;32;34;97;92;34;92;110;233;92;117;123;51;48;48;125;34] /\
  extract_lines (split_lines (pretty_text ex_E ex_g)) = Some (graph_skel ex_E ex_g) /\
  c14_verdict ex_E ex_g (encode_graph ex_g) true (pretty_text ex_E ex_g) false = 0.
Proof. vm_compute. repeat split; reflexivity. Qed.
(* the completeness theorem applies to ex_g (hypotheses: ex_names_ok) and separates it from a graph that differs
   only in one attribute VALUE inside a nested set (3 replaced by 4) and from one with the two edges' sinks swapped *)
Example ex_pretty_text_separates :
  pretty_text ex_E ex_g <>
  pretty_text ex_E [ {| g_attrs := [([110], VStr [97;34;10;233;768]); ([97], VSet (set_of_list [VInt 4; VInt 1; VList [VNull; VBool true; VSyn 0]]))];
                        g_edges := g_edges (hd new_gnode ex_g) |}; new_gnode ] /\
  pretty_text ex_E ex_g <>
  pretty_text ex_E [ {| g_attrs := g_attrs (hd new_gnode ex_g); g_edges := [(0, []); (1, [([107], VGraph 1)])] |}; new_gnode ].
Proof. split; intros H; vm_compute in H; discriminate. Qed.
(* the verdict is not constantly 0: a dropped edge is seen by every component *)
Example ex_verdict_detects :
  c14_verdict ex_E ex_g (encode_graph [ {| g_attrs := g_attrs (hd new_gnode ex_g); g_edges := [(0, [([107], VGraph 1)])] |}; new_gnode ])
              true (pretty_text ex_E [ {| g_attrs := g_attrs (hd new_gnode ex_g); g_edges := [(0, [([107], VGraph 1)])] |}; new_gnode ]) false = 27.
Proof. vm_compute. reflexivity. Qed.

(* ---- text level ---- *)
(* node 0: s = a string with quote, backslash, newline, U+0001, DEL, U+2028, an emoji, backspace, form feed, U+001F;
   a key with a quote and a tab; l = [] ; edge 0->1 with e = {} (empty set);  node 1 empty *)
Definition ex_tg : graph :=
  [ {| g_attrs := [([115], VStr [34;92;10;1;127;8232;128512;8;12;31]); ([113;34;9], VInt 4294967295); ([108], VList [])];
       g_edges := [(1, [([101], VSet [])])] |};
    new_gnode ].
Example ex_text_string :
  print_string [34;92;10;1;127;8232;128512;8;12;31] =
  [34; 92;34; 92;92; 92;110; 92;117;48;48;48;49; 127; 8232; 128512; 92;98; 92;102; 92;117;48;48;49;102; 34].
Proof. vm_compute. reflexivity. Qed.
(* the whole text of the second node and of the empty graph: [ newline, two spaces, { ... } newline ] and [] *)
Example ex_text_small :
  graph_json_text [] = [91;93] /\
  graph_json_text [new_gnode] =
    [91;10; 32;32;123;10; 32;32;32;32;34;105;100;34;58;32;48;44;10; 32;32;32;32;34;101;100;103;101;115;34;58;32;91;93;44;10;
     32;32;32;32;34;97;116;116;114;115;34;58;32;123;125;10; 32;32;125;10; 93].
Proof. vm_compute. split; reflexivity. Qed.
Example ex_text_roundtrip :
  graph_of_json_text (graph_json_text ex_tg) = Some ex_tg /\
  json_wfb (encode_graph ex_tg) = true /\
  length (graph_json_text ex_tg) = 502%nat /\
  (* a trailing newline and leading blanks are accepted, a raw control character inside a literal is not *)
  parse_json 100 ([32;10] ++ graph_json_text ex_tg ++ [10]) = Some (encode_graph ex_tg, []) /\
  parse_json 100 [34;1;34] = None /\ parse_json 100 [34;92;117;48;48;48;49;34] = Some (JStr [1], []) /\
  (* the verdict accepts the model's own text and sees a changed escape (every f replaced by F: upper-case hex digit, unknown escape) or layout (a trailing newline) *)
  c14_jtext_ok (encode_graph ex_tg) [] (graph_json_text ex_tg) = true /\
  c14_jtext_ok (encode_graph ex_tg) [] (map (fun c => if c =? 102 then 70 else c) (graph_json_text ex_tg)) = false /\
  c14_jtext_ok (encode_graph ex_tg) [] (graph_json_text ex_tg ++ [10]) = false.
Proof. vm_compute. repeat split; reflexivity. Qed.
