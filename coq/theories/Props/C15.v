(* Props/C15.v — property theorems only.  Debug attributes are correct and otherwise neutral.
   Neutrality is proved in BOTH modes as a two-run simulation: debug_neutral_strict (Proofs/DebugSim.v) for
   the strict interpreter and debug_neutral_lazy (Proofs/DebugSimLazy.v: execution phase and evaluation
   phase) for the lazy interpreter.  The direct stream additionally erases the three attributes on the
   implementation's graphs and compares with the run without them, in both modes. *)
From TSG Require Import Model.Strict Model.Lazy Model.Stdlib Proofs.DebugAttrs Proofs.Containers Proofs.DebugSim Proofs.DebugSimLazy.

(* a node created by a `node` statement carries the variable's text, the 1-based line and column of the
   variable, and the syntax node matched by the stanza — and nothing else *)
Theorem debug_node_attrs : forall a_loc a_var a_match, a_loc <> a_var -> a_loc <> a_match -> a_var <> a_match ->
  forall n s p vtext vloc mn, gnode_at (s_graph s) n = Some new_gnode ->
  exists s',
    (opt_attr (TNode n) (Some a_var) (VStr vtext) ;;;
     opt_attr (TNode n) (Some a_loc) (VStr (loc_text vloc)) ;;;
     add_attr (TNode n) a_match (VSyn mn)) s p = Ok (tt, s', p) /\
    gnode_at (s_graph s') n = Some {| g_attrs := [(a_var, VStr vtext); (a_loc, VStr (loc_text vloc)); (a_match, VSyn mn)]; g_edges := [] |} /\
    length (s_graph s') = length (s_graph s).
Proof. intros a_loc a_var a_match H1 H2 H3. exact (node_debug_attrs_lemma a_loc a_var a_match H1 H2 H3). Qed.

(* location text is "line R+1 column C+1" *)
Theorem debug_location_text : forall r c, loc_text (r, c) = s_line ++ decimal (r + 1) ++ s_column ++ decimal (c + 1).
Proof. reflexivity. Qed.

(* lazy: each edge carries the location of an `edge` statement that CREATED it; a later `edge` statement
   for the same pair leaves the edge's attributes alone *)
Theorem debug_edge_attr_lazy : forall a b ea s p nd,
  gnode_at (l_graph s) a = Some nd -> edges_wf (g_edges nd) ->
  exists s', ledge_add a b ea s p = Ok (tt, s', p) /\
    match edges_get b (g_edges nd) with
    | Some old => exists nd', gnode_at (l_graph s') a = Some nd' /\ edges_get b (g_edges nd') = Some old
    | None => exists nd', gnode_at (l_graph s') a = Some nd' /\ edges_get b (g_edges nd') = Some ea
    end.
Proof. exact ledge_add_attrs. Qed.

(* without configuration nothing is recorded *)
Theorem no_debug_config_no_attrs : forall tgt v s p, opt_attr tgt None v s p = Ok (tt, s, p).
Proof. exact no_debug_no_attrs. Qed.

(* NEUTRALITY (strict mode): whatever subset of the three debug attributes is configured (pairwise different
   names that no attribute statement or shorthand of the file uses), the run with them and the run
   without them succeed or fail together — same error, same panic, same polls — and erasing the configured
   names from the debug run's graph gives exactly the graph of the plain run: same nodes, same edges, same
   other attributes with the same values. *)
Theorem debug_neutral_strict : forall (rx : Type) t fl cfg supplied budget (regexes : list rx) find call fuel matches g0,
  cfg_distinct cfg -> call_erasable (is_dbg_of cfg) call -> file_fresh cfg fl ->
  match run_strict t fl cfg supplied budget regexes find call fuel matches g0 with
  | Ok (s, p) => exists s0, run_strict t fl config0 supplied budget regexes find call fuel matches (erase_graph (is_dbg_of cfg) g0) = Ok (s0, p) /\
                            s_graph s0 = erase_graph (is_dbg_of cfg) (s_graph s)
  | Err e => run_strict t fl config0 supplied budget regexes find call fuel matches (erase_graph (is_dbg_of cfg) g0) = Err e
  | Panic x => run_strict t fl config0 supplied budget regexes find call fuel matches (erase_graph (is_dbg_of cfg) g0) = Panic x
  | OutOfFuel => run_strict t fl config0 supplied budget regexes find call fuel matches (erase_graph (is_dbg_of cfg) g0) = OutOfFuel
  end.
Proof. intros rx t fl cfg supplied budget regexes find call fuel matches g0. exact (debug_neutral_strict_lemma t fl cfg supplied budget regexes find call fuel matches g0). Qed.

(* NEUTRALITY (lazy mode): the same statement for the lazy interpreter, through the execution phase (where a
   `node` statement decorates its node and an `edge` statement records the location it will give to a NEW
   edge) and the evaluation phase (where the recorded edge and attribute statements are applied and all
   thunks and scoped variables are forced): the debug run and the plain run succeed or fail together —
   same error including contexts, same panic, same polls — and erasing the configured names from the
   debug run's graph gives exactly the plain run's graph. *)
Theorem debug_neutral_lazy : forall (rx : Type) t fl cfg supplied budget (regexes : list rx) find call fuel (matches : list (N * qmatch)) g0,
  cfg_distinct cfg -> call_erasable (is_dbg_of cfg) call -> file_fresh cfg fl ->
  match run_lazy t fl cfg supplied budget regexes find call fuel matches g0 with
  | Ok (s, p) => exists s0, run_lazy t fl config0 supplied budget regexes find call fuel matches (erase_graph (is_dbg_of cfg) g0) = Ok (s0, p) /\
                            l_graph s0 = erase_graph (is_dbg_of cfg) (l_graph s)
  | Err e => run_lazy t fl config0 supplied budget regexes find call fuel matches (erase_graph (is_dbg_of cfg) g0) = Err e
  | Panic x => run_lazy t fl config0 supplied budget regexes find call fuel matches (erase_graph (is_dbg_of cfg) g0) = Panic x
  | OutOfFuel => run_lazy t fl config0 supplied budget regexes find call fuel matches (erase_graph (is_dbg_of cfg) g0) = OutOfFuel
  end.
Proof. intros rx t fl cfg supplied budget regexes find call fuel matches g0. exact (debug_neutral_lazy_lemma t fl cfg supplied budget regexes find call fuel matches g0). Qed.

(* the hypothesis on the function library holds of the standard library: no function reads attributes *)
Theorem stdlib_ignores_attributes : forall is_dbg rx t, call_erasable is_dbg (stdlib_call rx t).
Proof. exact stdlib_erasable. Qed.

(* the premises are satisfiable by a program that creates nodes, an edge and an attribute, and on it the
   debug run really decorates the graph *)
Example c15_neutral_nonvacuous :
  let x := [120] in let y := [121] in let k := [107] in
  let cfg := {| c_loc_attr := Some [108]; c_var_attr := Some [118]; c_match_attr := Some [109] |} in
  let st := {| st_stmts := [SNode (VarU x (1, 2)) x (1, 0); SNode (VarU y (2, 2)) y (2, 0);
                            SEdge (EUnscoped x (3, 0)) (EUnscoped y (3, 0)) (3, 0);
                            SAttrNode (EUnscoped x (4, 0)) [Attr k (EInt 7)] (4, 0)];
               st_full_stanza_idx := 0; st_full_file_idx := 0; st_start := (0, 0) |} in
  let fl := {| f_globals := []; f_inherited := []; f_shorthands := []; f_stanzas := [st] |} in
  let t := {| t_src := []; t_nodes := [] |} in
  cfg_distinct cfg /\ file_fresh cfg fl /\
  exists s p, run_strict t fl cfg [[]] None (@nil unit) (fun _ _ => None) (stdlib_call (fun _ _ _ => None) t) 50 [[[(0, [0])]]] [] = Ok (s, p) /\
              length (s_graph s) = 2%nat /\ erase_graph (is_dbg_of cfg) (s_graph s) <> s_graph s.
Proof.
  cbv zeta. split; [|split].
  - repeat split; intros a b Ha Hb; inversion Ha; inversion Hb; subst; discriminate.
  - split; [|intros sh []]. repeat constructor.
  - eexists. eexists. split; [vm_compute; reflexivity|]. split; [reflexivity|]. vm_compute. discriminate.
Qed.

(* the same program under the lazy interpreter: the premises hold, the debug run succeeds, decorates both
   nodes and the edge (created in the evaluation phase), and the statement's conclusion is not vacuous *)
Example c15_neutral_lazy_nonvacuous :
  let x := [120] in let y := [121] in let k := [107] in
  let cfg := {| c_loc_attr := Some [108]; c_var_attr := Some [118]; c_match_attr := Some [109] |} in
  let st := {| st_stmts := [SNode (VarU x (1, 2)) x (1, 0); SNode (VarU y (2, 2)) y (2, 0);
                            SEdge (EUnscoped x (3, 0)) (EUnscoped y (3, 0)) (3, 0);
                            SAttrNode (EUnscoped x (4, 0)) [Attr k (EInt 7)] (4, 0);
                            SAttrEdge (EUnscoped x (5, 0)) (EUnscoped y (5, 0)) [Attr k (EInt 8)] (5, 0)];
               st_full_stanza_idx := 0; st_full_file_idx := 0; st_start := (0, 0) |} in
  let fl := {| f_globals := []; f_inherited := []; f_shorthands := []; f_stanzas := [st] |} in
  let t := {| t_src := []; t_nodes := [] |} in
  cfg_distinct cfg /\ file_fresh cfg fl /\
  exists s p, run_lazy t fl cfg [[]] None (@nil unit) (fun _ _ => None) (stdlib_call (fun _ _ _ => None) t) 50 [(0, [(0, [0])])] [] = Ok (s, p) /\
              length (l_graph s) = 2%nat /\ erase_graph (is_dbg_of cfg) (l_graph s) <> l_graph s /\
              (exists nd, gnode_at (l_graph s) 0 = Some nd /\ edges_get 1 (g_edges nd) = Some [([108], VStr (loc_text (3, 0))); (k, VInt 8)]).
Proof.
  cbv zeta. split; [|split].
  - repeat split; intros a b Ha Hb; inversion Ha; inversion Hb; subst; discriminate.
  - split; [|intros sh []]. repeat constructor.
  - eexists. eexists. split; [vm_compute; reflexivity|]. split; [reflexivity|]. split; [vm_compute; discriminate|].
    eexists. split; vm_compute; reflexivity.
Qed.

Example c15_nonvacuous : loc_text (4, 10) = [108;105;110;101;32;53;32;99;111;108;117;109;110;32;49;49].
Proof. vm_compute. reflexivity. Qed.

(* ================================================================================================================
   STATEMENT LEVEL (audit follow-up): the `node` and `edge` STATEMENTS of both interpreters, not the helper composites.
   node_dbg_attrs cfg text vloc mn = [variable-name attr := text] ++ [location attr := "line R column C" of vloc] ++
   [match-node attr := mn], each entry only if configured (Proofs/DebugStmt.v); edge_dbg_attrs cfg l = [location attr :=
   "line R column C" of l] if configured; first_full_match m i = first node of the full-match capture;
   match_available: the match-node attribute is not configured, or the match has a full-match node (always the case in a
   run: exec_stanza / lexec_stanza panic otherwise). *)
From TSG Require Import Proofs.DebugStmt.

(* strict `node x`: x unscoped, not a global, not yet bound in the innermost frame (varmap_add succeeds); poll not
   cancelled.  The statement succeeds, appends exactly ONE node to the graph, that node has exactly the configured
   debug attributes (and no edges), no other node changes, and x is bound to it. *)
Theorem strict_node_stmt_debug_attrs : forall {rx} t fl cfg glob (regexes : list rx) find call fuel le name vl vtext l s p l',
  cfg_distinct cfg -> match_available cfg (le_match le) (le_full le) ->
  snd (poll_step L_exec_stmt p) = false ->
  globals_get glob name = None ->
  varmap_add (s_locals s) name (VGraph (N.of_nat (length (s_graph s)))) false = inl l' ->
  exec_stmt t fl cfg glob regexes find call (S fuel) le (SNode (VarU name vl) vtext l) s p =
  Ok (tt, {| s_graph := s_graph s ++ [ {| g_attrs := node_dbg_attrs cfg vtext vl (first_full_match (le_match le) (le_full le)); g_edges := [] |} ];
             s_locals := l'; s_scoped := s_scoped s; s_params := s_params s |},
      fst (poll_step L_exec_stmt p)).
Proof. intros rx. exact (@strict_node_stmt_unscoped rx). Qed.

(* strict `node v` for ANY variable (scoped included), as an equation: the statement IS the binding of v — which may fail,
   e.g. DuplicateVariable — run in the state whose graph has exactly that one decorated node more *)
Theorem strict_node_stmt_debug_attrs_any_variable : forall {rx} t fl cfg glob (regexes : list rx) find call fuel le v vtext l s p,
  cfg_distinct cfg -> match_available cfg (le_match le) (le_full le) ->
  snd (poll_step L_exec_stmt p) = false ->
  exec_stmt t fl cfg glob regexes find call (S fuel) le (SNode v vtext l) s p =
  var_add t fl glob call fuel le v (VGraph (N.of_nat (length (s_graph s)))) false
    (sg s (s_graph s ++ [ {| g_attrs := node_dbg_attrs cfg vtext (variable_loc v) (first_full_match (le_match le) (le_full le)); g_edges := [] |} ]))
    (fst (poll_step L_exec_stmt p)).
Proof. intros rx. exact (@strict_node_stmt_eq rx). Qed.

(* lazy `node x` (execution phase; node statements are not deferred): same node, x bound to a new thunk holding it *)
Theorem lazy_node_stmt_debug_attrs : forall {rx} t fl cfg glob (regexes : list rx) find call fuel le name vl vtext l s p l',
  cfg_distinct cfg -> match_available cfg (ll_match le) (ll_full le) ->
  snd (poll_step L_exec_stmt p) = false ->
  globals_get glob name = None ->
  varmap_add (l_locals s) name (LVar (N.of_nat (length (l_store s)))) false = inl l' ->
  lexec_stmt t fl cfg glob regexes find call (S fuel) le (SNode (VarU name vl) vtext l) s p =
  Ok (tt, {| l_graph := l_graph s ++ [ {| g_attrs := node_dbg_attrs cfg vtext vl (first_full_match (ll_match le) (ll_full le)); g_edges := [] |} ];
             l_locals := l';
             l_store := l_store s ++ [ {| th_state := TUnforced (LValue (VGraph (N.of_nat (length (l_graph s))))); th_dbg := ll_ctx le |} ];
             l_scoped := l_scoped s; l_edges := l_edges s; l_attrs := l_attrs s; l_prints := l_prints s;
             l_params := l_params s; l_prev := l_prev s |},
      fst (poll_step L_exec_stmt p)).
Proof. intros rx. exact (@lazy_node_stmt_unscoped rx). Qed.

Theorem lazy_node_stmt_debug_attrs_any_variable : forall {rx} t fl cfg glob (regexes : list rx) find call fuel le v vtext l s p,
  cfg_distinct cfg -> match_available cfg (ll_match le) (ll_full le) ->
  snd (poll_step L_exec_stmt p) = false ->
  lexec_stmt t fl cfg glob regexes find call (S fuel) le (SNode v vtext l) s p =
  lvar_add t fl glob call fuel le v (LValue (VGraph (N.of_nat (length (l_graph s))))) false
    (lg s (l_graph s ++ [ {| g_attrs := node_dbg_attrs cfg vtext (variable_loc v) (first_full_match (ll_match le) (ll_full le)); g_edges := [] |} ]))
    (fst (poll_step L_exec_stmt p)).
Proof. intros rx. exact (@lazy_node_stmt_eq rx). Qed.

(* SCOPED variable, strict `node @scope.name` (second audit): the node is created and decorated FIRST (node_added cfg s text
   vloc mn = s with exactly one more node carrying exactly node_dbg_attrs cfg text vloc mn), THEN the scope expression is
   evaluated in that state (as Variable::add does in strict.rs); it yields the syntax node sn (reaching s1, p1) and `name`
   is not yet defined on sn (scope_frame = the scoped variables of sn).  The statement succeeds: the graph is the one after
   evaluating the scope expression, and name is bound on sn, immutably, to the new node (index = old node count). *)
From TSG Require Import Proofs.DebugStmtScoped.
Theorem strict_node_stmt_debug_attrs_scoped : forall {rx} t fl cfg glob (regexes : list rx) find call fuel le scope name vl vtext l s p sn s1 p1,
  cfg_distinct cfg -> match_available cfg (le_match le) (le_full le) ->
  snd (poll_step L_exec_stmt p) = false ->
  eval t fl glob call fuel le scope (node_added cfg s vtext vl (first_full_match (le_match le) (le_full le))) (fst (poll_step L_exec_stmt p))
    = Ok (VSyn sn, s1, p1) ->
  alist_get name (scope_frame (s_scoped s1) sn) = None ->
  exec_stmt t fl cfg glob regexes find call (S fuel) le (SNode (VarS scope name vl) vtext l) s p =
  Ok (tt, {| s_graph := s_graph s1; s_locals := s_locals s1;
             s_scoped := scopes_set (s_scoped s1) sn (scope_frame (s_scoped s1) sn ++ [(name, (VGraph (N.of_nat (length (s_graph s))), false))]);
             s_params := s_params s1 |}, p1).
Proof. intros rx. exact (@strict_node_stmt_scoped rx). Qed.

(* what node_added is: exactly one node more, with exactly the configured attributes and no edges; nothing else differs *)
Theorem node_added_spec : forall cfg s vtext vloc mn,
  s_graph (node_added cfg s vtext vloc mn) = s_graph s ++ [ {| g_attrs := node_dbg_attrs cfg vtext vloc mn; g_edges := [] |} ] /\
  s_locals (node_added cfg s vtext vloc mn) = s_locals s /\ s_scoped (node_added cfg s vtext vloc mn) = s_scoped s /\
  s_params (node_added cfg s vtext vloc mn) = s_params s.
Proof. intros. repeat split. Qed.

(* SCOPED variable, lazy (execution phase): the node is created and decorated, the scope expression is turned into the lazy
   value sv (not forced), the cell of `name` is still open (cell_pairs = Some pairs: no cell yet, pairs = [], or unforced):
   the statement succeeds, a new thunk holds the node, and the definition (sv, that thunk, statement context) is APPENDED
   to the cell of `name` *)
Theorem lazy_node_stmt_debug_attrs_scoped : forall {rx} t fl cfg glob (regexes : list rx) find call fuel le scope name vl vtext l s p sv s1 p1 pairs,
  cfg_distinct cfg -> match_available cfg (ll_match le) (ll_full le) ->
  snd (poll_step L_exec_stmt p) = false ->
  leval t fl glob call fuel le scope (lnode_added cfg s vtext vl (first_full_match (ll_match le) (ll_full le))) (fst (poll_step L_exec_stmt p))
    = Ok (sv, s1, p1) ->
  cell_pairs (l_scoped s1) name = Some pairs ->
  lexec_stmt t fl cfg glob regexes find call (S fuel) le (SNode (VarS scope name vl) vtext l) s p =
  Ok (tt, {| l_graph := l_graph s1; l_locals := l_locals s1;
             l_store := l_store s1 ++ [ {| th_state := TUnforced (LValue (VGraph (N.of_nat (length (l_graph s))))); th_dbg := ll_ctx le |} ];
             l_scoped := alist_set name (SVUnforced (pairs ++ [(sv, LVar (N.of_nat (length (l_store s1))), ll_ctx le)])) (l_scoped s1);
             l_edges := l_edges s1; l_attrs := l_attrs s1; l_prints := l_prints s1;
             l_params := l_params s1; l_prev := l_prev s1 |}, p1).
Proof. intros rx. exact (@lazy_node_stmt_scoped rx). Qed.

Theorem lnode_added_spec : forall cfg s vtext vloc mn,
  l_graph (lnode_added cfg s vtext vloc mn) = l_graph s ++ [ {| g_attrs := node_dbg_attrs cfg vtext vloc mn; g_edges := [] |} ] /\
  l_locals (lnode_added cfg s vtext vloc mn) = l_locals s /\ l_store (lnode_added cfg s vtext vloc mn) = l_store s /\
  l_scoped (lnode_added cfg s vtext vloc mn) = l_scoped s /\ l_edges (lnode_added cfg s vtext vloc mn) = l_edges s /\
  l_attrs (lnode_added cfg s vtext vloc mn) = l_attrs s /\ l_prints (lnode_added cfg s vtext vloc mn) = l_prints s /\
  l_params (lnode_added cfg s vtext vloc mn) = l_params s /\ l_prev (lnode_added cfg s vtext vloc mn) = l_prev s.
Proof. intros. repeat split. Qed.

(* strict `edge src -> snk` at location l, whose endpoints evaluate to graph nodes a and b (reaching state s2): the
   statement succeeds; in the final graph the edge a -> b exists; if it existed before it keeps exactly the attributes it
   had (behaviour after fix F8), if it is NEW its attributes are exactly edge_dbg_attrs cfg l; node a's own attributes,
   all its other edges, all other nodes, the node count and the variables are unchanged. *)
Theorem strict_edge_stmt_debug_attr : forall {rx} t fl cfg glob (regexes : list rx) find call fuel le src snk l s p a b s1 p1 s2 p2 nd,
  snd (poll_step L_exec_stmt p) = false ->
  eval t fl glob call fuel le src s (fst (poll_step L_exec_stmt p)) = Ok (VGraph a, s1, p1) ->
  eval t fl glob call fuel le snk s1 p1 = Ok (VGraph b, s2, p2) ->
  gnode_at (s_graph s2) a = Some nd -> edges_wf (g_edges nd) ->
  exists s' nd', exec_stmt t fl cfg glob regexes find call (S fuel) le (SEdge src snk l) s p = Ok (tt, s', p2) /\
    gnode_at (s_graph s') a = Some nd' /\ g_attrs nd' = g_attrs nd /\
    edges_get b (g_edges nd') = Some (match edges_get b (g_edges nd) with Some old => old | None => edge_dbg_attrs cfg l end) /\
    (forall x, x <> b -> edges_get x (g_edges nd') = edges_get x (g_edges nd)) /\
    length (s_graph s') = length (s_graph s2) /\
    (forall i, i <> a -> gnode_at (s_graph s') i = gnode_at (s_graph s2) i) /\
    s_locals s' = s_locals s2 /\ s_scoped s' = s_scoped s2 /\ s_params s' = s_params s2.
Proof. intros rx. exact (@strict_edge_stmt_lemma rx). Qed.

(* lazy `edge`, execution phase: the graph is untouched; the deferred statement is appended to the pending edge statements
   TOGETHER WITH the attributes a new edge will get: exactly edge_dbg_attrs cfg l *)
Theorem lazy_edge_stmt_debug_attr : forall {rx} t fl cfg glob (regexes : list rx) find call fuel le src snk l s p a b s1 p1 s2 p2,
  snd (poll_step L_exec_stmt p) = false ->
  leval t fl glob call fuel le src s (fst (poll_step L_exec_stmt p)) = Ok (a, s1, p1) ->
  leval t fl glob call fuel le snk s1 p1 = Ok (b, s2, p2) ->
  exists s', lexec_stmt t fl cfg glob regexes find call (S fuel) le (SEdge src snk l) s p = Ok (tt, s', p2) /\
    l_edges s' = l_edges s2 ++ [LSEdge a b (edge_dbg_attrs cfg l) (ll_ctx le)] /\
    l_graph s' = l_graph s2 /\ l_attrs s' = l_attrs s2 /\ l_prints s' = l_prints s2 /\ l_store s' = l_store s2 /\
    l_locals s' = l_locals s2 /\ l_scoped s' = l_scoped s2 /\ l_params s' = l_params s2 /\ l_prev s' = l_prev s2.
Proof. intros rx. exact (@lazy_edge_stmt_exec_lemma rx). Qed.

(* lazy `edge`, evaluation phase: evaluating the deferred statement LSEdge src snk ea dbg (ea = the attributes recorded
   above) whose endpoints evaluate to a and b: an existing edge keeps exactly its attributes, a NEW edge gets exactly ea;
   nothing else in the graph changes *)
Theorem lazy_edge_stmt_eval_debug_attr : forall t fl call fuel src snk ea dbg s p a b s1 p1 s2 p2 nd,
  snd (poll_step L_eval_stmt p) = false ->
  eval_as_gnode t fl call fuel src s (fst (poll_step L_eval_stmt p)) = Ok (a, s1, p1) ->
  eval_as_gnode t fl call fuel snk s1 p1 = Ok (b, s2, p2) ->
  gnode_at (l_graph s2) a = Some nd -> edges_wf (g_edges nd) ->
  exists s' nd', eval_lstmt t fl call fuel (LSEdge src snk ea dbg) s p = Ok (tt, s', p2) /\
    gnode_at (l_graph s') a = Some nd' /\ g_attrs nd' = g_attrs nd /\
    edges_get b (g_edges nd') = Some (match edges_get b (g_edges nd) with Some old => old | None => ea end) /\
    (forall x, x <> b -> edges_get x (g_edges nd') = edges_get x (g_edges nd)) /\
    length (l_graph s') = length (l_graph s2) /\
    (forall i, i <> a -> gnode_at (l_graph s') i = gnode_at (l_graph s2) i).
Proof. exact lazy_edge_stmt_eval_lemma. Qed.

(* composition with loaded_node_text (Props/C20disp.v): for a file produced by the LOADER, the text a `node` statement
   writes into the variable-name attribute is the Display text of its variable.  PARTIAL: stated for the strict
   interpreter and an unscoped variable (the other three combinations follow in the same way from the _any_variable
   equations above); the statement must occur in the loaded file (file_stmts, any depth). *)
From TSG Require Model.Parser Model.Loader Proofs.LoadedFile.
From TSG Require Import Model.AstDisplay.
Theorem loaded_node_stmt_records_variable_text_partial : forall {rx} X q lfuel text fl pats,
  Loader.load X q lfuel text = Loader.LdOk fl pats ->
  forall name vl vtext l, In (SNode (VarU name vl) vtext l) (file_stmts fl) ->
  forall t cfg glob (regexes : list rx) find call fuel le s p l',
  cfg_distinct cfg -> match_available cfg (le_match le) (le_full le) ->
  snd (poll_step L_exec_stmt p) = false ->
  globals_get glob name = None ->
  varmap_add (s_locals s) name (VGraph (N.of_nat (length (s_graph s)))) false = inl l' ->
  exec_stmt t fl cfg glob regexes find call (S fuel) le (SNode (VarU name vl) vtext l) s p =
  Ok (tt, {| s_graph := s_graph s ++ [ {| g_attrs := node_dbg_attrs cfg (display_variable (dpenv_of (Parser.x_print X)) (VarU name vl)) vl
                                                        (first_full_match (le_match le) (le_full le)); g_edges := [] |} ];
             s_locals := l'; s_scoped := s_scoped s; s_params := s_params s |},
      fst (poll_step L_exec_stmt p)).
Proof.
  intros rx X q lfuel text fl pats Hload name vl vtext l Hin t cfg glob regexes find call fuel le s p l' Hd Hm Hp Hg Hv.
  rewrite <- (LoadedFile.loaded_node_text_lemma X q lfuel text fl pats Hload _ _ _ Hin).
  exact (strict_node_stmt_debug_attrs t fl cfg glob regexes find call fuel le name vl vtext l s p l' Hd Hm Hp Hg Hv).
Qed.

(* non-vacuity of the statement-level theorems: all three attributes configured; `node x` (x at line 2 column 3, match
   node 7) on the empty graph, and `edge x -> y` at (3, 0) between two existing nodes: a new edge gets the location, the
   same statement again leaves it alone *)
Definition c15_cfg : config := {| c_loc_attr := Some [108]; c_var_attr := Some [118]; c_match_attr := Some [109] |}.
Definition c15_fl : file := {| f_globals := []; f_inherited := []; f_shorthands := []; f_stanzas := [] |}.
Definition c15_t : tree := {| t_src := []; t_nodes := [] |}.
Definition c15_le : lenv := {| le_match := [(0, [7; 8])]; le_full := 0; le_caps := []; le_ctx := {| sc_stmt := (0, 0); sc_stanza := (0, 0); sc_node := 7 |} |}.
Definition c15_s2 (es : edges) : sstate :=
  {| s_graph := [ {| g_attrs := []; g_edges := es |}; new_gnode ];
     s_locals := [[([120], (VGraph 0, false)); ([121], (VGraph 1, false))]]; s_scoped := []; s_params := [] |}.
Lemma c15_cfg_distinct : cfg_distinct c15_cfg.
Proof. repeat split; intros a b Ha Hb; inversion Ha; inversion Hb; subst; discriminate. Qed.
Example c15_stmt_nonvacuous :
  exec_stmt c15_t c15_fl c15_cfg [] (@nil unit) (fun _ _ => None) (stdlib_call (fun _ _ _ => None) c15_t) 2 c15_le
    (SNode (VarU [120] (1, 2)) [120] (1, 0)) (sinit []) (polls0 None) =
  Ok (tt, {| s_graph := [ {| g_attrs := [([118], VStr [120]); ([108], VStr (loc_text (1, 2))); ([109], VSyn 7)]; g_edges := [] |} ];
             s_locals := [[([120], (VGraph 0, false))]]; s_scoped := []; s_params := [] |}, fst (poll_step L_exec_stmt (polls0 None))) /\
  (forall es, es = [] \/ es = [(1, [([107], VInt 5)])] ->
   exists s' nd', exec_stmt c15_t c15_fl c15_cfg [] (@nil unit) (fun _ _ => None) (stdlib_call (fun _ _ _ => None) c15_t) 2 c15_le
      (SEdge (EUnscoped [120] (3, 0)) (EUnscoped [121] (3, 5)) (3, 0)) (c15_s2 es) (polls0 None) = Ok (tt, s', fst (poll_step L_exec_stmt (polls0 None))) /\
      gnode_at (s_graph s') 0 = Some nd' /\
      edges_get 1 (g_edges nd') = Some (match es with [] => [([108], VStr (loc_text (3, 0)))] | _ => [([107], VInt 5)] end)).
Proof.
  split.
  - apply (strict_node_stmt_debug_attrs c15_t c15_fl c15_cfg [] (@nil unit) (fun _ _ => None) (stdlib_call (fun _ _ _ => None) c15_t) 1 c15_le
             [120] (1, 2) [120] (1, 0) (sinit []) (polls0 None) [[([120], (VGraph 0, false))]] c15_cfg_distinct).
    + right. discriminate.
    + reflexivity.
    + reflexivity.
    + reflexivity.
  - intros es Hes.
    destruct (strict_edge_stmt_debug_attr c15_t c15_fl c15_cfg [] (@nil unit) (fun _ _ => None) (stdlib_call (fun _ _ _ => None) c15_t) 1 c15_le
                (EUnscoped [120] (3, 0)) (EUnscoped [121] (3, 5)) (3, 0) (c15_s2 es) (polls0 None) 0 1
                (c15_s2 es) (fst (poll_step L_exec_stmt (polls0 None))) (c15_s2 es) (fst (poll_step L_exec_stmt (polls0 None)))
                {| g_attrs := []; g_edges := es |}) as (s' & nd' & E & Hn & _ & He & _).
    + reflexivity.
    + reflexivity.
    + reflexivity.
    + reflexivity.
    + destruct Hes as [->| ->]; repeat constructor.
    + exists s', nd'. split; [exact E|]. split; [exact Hn|]. rewrite He. destruct Hes as [->| ->]; reflexivity.
Qed.

(* non-vacuity of the scoped forms: all three attributes configured, local n bound to syntax node 7:  `node @n.d`  (variable
   at line 2 column 6) in both interpreters; a second `node @n.d` in the strict result state is NOT covered (d is defined) *)
Definition c15_ss : sstate := {| s_graph := [new_gnode]; s_locals := [[([110], (VSyn 7, false))]]; s_scoped := []; s_params := [] |}.
Definition c15_ls : lstate :=
  {| l_graph := [new_gnode]; l_locals := [[([110], (LValue (VSyn 7), false))]]; l_store := []; l_scoped := []; l_edges := []; l_attrs := [];
     l_prints := []; l_params := []; l_prev := [] |}.
Definition c15_lle : llenv := {| ll_match := [(0, [7; 8])]; ll_full := 0; ll_caps := []; ll_ctx := {| sc_stmt := (1, 0); sc_stanza := (0, 0); sc_node := 7 |} |}.
Example c15_scoped_nonvacuous :
  exec_stmt c15_t c15_fl c15_cfg [] (@nil unit) (fun _ _ => None) (stdlib_call (fun _ _ _ => None) c15_t) 2 c15_le
    (SNode (VarS (EUnscoped [110] (1, 6)) [100] (1, 5)) [64;110;46;100] (1, 0)) c15_ss (polls0 None) =
  Ok (tt, {| s_graph := [ new_gnode; {| g_attrs := [([118], VStr [64;110;46;100]); ([108], VStr (loc_text (1, 5))); ([109], VSyn 7)]; g_edges := [] |} ];
             s_locals := [[([110], (VSyn 7, false))]]; s_scoped := [(7, [([100], (VGraph 1, false))])]; s_params := [] |},
      fst (poll_step L_exec_stmt (polls0 None))) /\
  lexec_stmt c15_t c15_fl c15_cfg [] (@nil unit) (fun _ _ => None) (stdlib_call (fun _ _ _ => None) c15_t) 2 c15_lle
    (SNode (VarS (EUnscoped [110] (1, 6)) [100] (1, 5)) [64;110;46;100] (1, 0)) c15_ls (polls0 None) =
  Ok (tt, {| l_graph := [ new_gnode; {| g_attrs := [([118], VStr [64;110;46;100]); ([108], VStr (loc_text (1, 5))); ([109], VSyn 7)]; g_edges := [] |} ];
             l_locals := [[([110], (LValue (VSyn 7), false))]];
             l_store := [ {| th_state := TUnforced (LValue (VGraph 1)); th_dbg := ll_ctx c15_lle |} ];
             l_scoped := [([100], SVUnforced [(LValue (VSyn 7), LVar 0, ll_ctx c15_lle)])];
             l_edges := []; l_attrs := []; l_prints := []; l_params := []; l_prev := [] |},
      fst (poll_step L_exec_stmt (polls0 None))).
Proof.
  split.
  - apply (strict_node_stmt_debug_attrs_scoped c15_t c15_fl c15_cfg [] (@nil unit) (fun _ _ => None) (stdlib_call (fun _ _ _ => None) c15_t) 1 c15_le
             (EUnscoped [110] (1, 6)) [100] (1, 5) [64;110;46;100] (1, 0) c15_ss (polls0 None) 7
             (node_added c15_cfg c15_ss [64;110;46;100] (1, 5) 7) (fst (poll_step L_exec_stmt (polls0 None))) c15_cfg_distinct).
    + right. discriminate.
    + reflexivity.
    + reflexivity.
    + reflexivity.
  - apply (lazy_node_stmt_debug_attrs_scoped c15_t c15_fl c15_cfg [] (@nil unit) (fun _ _ => None) (stdlib_call (fun _ _ _ => None) c15_t) 1 c15_lle
             (EUnscoped [110] (1, 6)) [100] (1, 5) [64;110;46;100] (1, 0) c15_ls (polls0 None) (LValue (VSyn 7))
             (lnode_added c15_cfg c15_ls [64;110;46;100] (1, 5) 7) (fst (poll_step L_exec_stmt (polls0 None))) [] c15_cfg_distinct).
    + right. discriminate.
    + reflexivity.
    + reflexivity.
    + reflexivity.
Qed.
