(* Props/C15.v — property theorems only.  Debug attributes are correct and otherwise neutral.
   PARTIAL: the neutrality statement
     debug_neutral : Fresh names f -> (run_mode cfg_dbg .. = Ok g -> run_mode cfg0 .. = Ok (erase names g)) /\ (is_err .. <-> is_err ..)
   is not proved yet (it is a two-run simulation); it is explored by the direct stream, which erases the
   three attributes on the implementation's graphs and compares with the run without them, in both
   modes.  Proved here: what a `node` / `edge` statement records. *)
From TSG Require Import Model.Strict Model.Lazy Proofs.DebugAttrs Proofs.Containers.

(* a node created by a `node` statement carries the variable's text, the 1-based line and column of the
   variable, and the syntax node matched by the stanza — and nothing else *)
Theorem debug_node_attrs : forall a_loc a_var a_match, a_loc <> a_var -> a_loc <> a_match -> a_var <> a_match ->
  forall n s p vtext vloc mn, gnode_at (s_graph s) n = Some new_gnode ->
  exists s',
    (opt_attr (TNode n) (Some a_var) (VStr vtext) ;;;
     opt_attr (TNode n) (Some a_loc) (VStr (loc_text vloc)) ;;;
     add_attr (TNode n) a_match (VSyn mn)) s p = Ok (tt, s', p) /\
    gnode_at (s_graph s') n = Some {| g_attrs := [(a_var, VStr vtext); (a_loc, VStr (loc_text vloc)); (a_match, VSyn mn)]; g_edges := [] |} /\
    length (s_graph s') = length (s_graph s).
Proof. intros a_loc a_var a_match H1 H2 H3. exact (node_debug_attrs_lemma a_loc a_var a_match H1 H2 H3). Qed.

(* location text is "line R+1 column C+1" *)
Theorem debug_location_text : forall r c, loc_text (r, c) = s_line ++ decimal (r + 1) ++ s_column ++ decimal (c + 1).
Proof. reflexivity. Qed.

(* lazy: each edge carries the location of an `edge` statement that CREATED it; a later `edge` statement
   for the same pair leaves the edge's attributes alone *)
Theorem debug_edge_attr_lazy : forall a b ea s p nd,
  gnode_at (l_graph s) a = Some nd -> edges_wf (g_edges nd) ->
  exists s', ledge_add a b ea s p = Ok (tt, s', p) /\
    match edges_get b (g_edges nd) with
    | Some old => exists nd', gnode_at (l_graph s') a = Some nd' /\ edges_get b (g_edges nd') = Some old
    | None => exists nd', gnode_at (l_graph s') a = Some nd' /\ edges_get b (g_edges nd') = Some ea
    end.
Proof. exact ledge_add_attrs. Qed.

(* without configuration nothing is recorded *)
Theorem no_debug_config_no_attrs : forall tgt v s p, opt_attr tgt None v s p = Ok (tt, s, p).
Proof. exact no_debug_no_attrs. Qed.

Example c15_nonvacuous : loc_text (4, 10) = [108;105;110;101;32;53;32;99;111;108;117;109;110;32;49;49].
Proof. vm_compute. reflexivity. Qed.
