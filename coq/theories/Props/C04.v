(* Props/C04.v — property theorems only.  Scoped variables follow syntax-node identity and inherit
   only when declared.  Syntax nodes are identified by their preorder index (the code uses the node
   id truncated to u32: hypothesis KeyInjective of DESIGN.md, checked on every generated tree). *)
From TSG Require Import Model.Strict Model.Lazy Proofs.Scoped.

(* strict lookup: the node's own value if it has one; otherwise, ONLY for names declared `inherit`, the
   value of the NEAREST ancestor that has one; otherwise an error *)
Theorem scoped_get_spec_strict : forall t fl n name s p,
  scoped_get_at t fl n name s p =
  match scoped_lookup (s_scoped s) n name with
  | Some v => Ok (v, s, p)
  | None =>
      if inherited fl name then
        match first_some (fun a => scoped_lookup (s_scoped s) a name)
                (ancestors t (S (length (t_nodes t))) (match node_at t n with Some nd => tn_parent nd | None => None end)) with
        | Some v => Ok (v, s, p)
        | None => Err EUndefinedVariable
        end
      else Err EUndefinedVariable
  end.
Proof. exact scoped_get_spec. Qed.

(* the ancestor chain is not cut short by the loop bound on preorder-numbered trees *)
Theorem ancestor_chain_complete : forall t, tree_wf t -> forall fuel fuel' a,
  (N.to_nat a < fuel)%nat -> (N.to_nat a < fuel')%nat -> ancestors t fuel (Some a) = ancestors t fuel' (Some a).
Proof. exact ancestors_fuel_enough. Qed.

(* defining: a second definition on the same node is an error (never an overwrite); a fresh definition
   is visible with its value on that node and changes no other (node, name) pair — identity only *)
Theorem scoped_add_dup_and_identity : forall n name v mut s p,
  match scoped_lookup (s_scoped s) n name with
  | Some _ => scoped_add_at n name v mut s p = Err EDuplicateVariable
  | None => exists s', scoped_add_at n name v mut s p = Ok (tt, s', p) /\
              scoped_lookup (s_scoped s') n name = Some v /\
              (forall n' name', (n', name') <> (n, name) -> scoped_lookup (s_scoped s') n' name' = scoped_lookup (s_scoped s) n' name') /\
              s_graph s' = s_graph s
  end.
Proof. exact scoped_add_spec. Qed.

(* lazy: forcing the definitions collected for one name yields, per node, the first definition, and it
   succeeds exactly when no two definitions evaluate to the same node; otherwise DuplicateVariable
   with the contexts of BOTH definitions *)
Theorem lazy_force_spec : forall node_of ps s p,
  force_pairs (pure_ev node_of) ps [] [] s p =
  match build node_of ps [] [] with
  | inl m => Ok (m, s, p)
  | inr (prev, dbg) => Err (EInContext (CtxStmts [prev; dbg]) EDuplicateVariable)
  end.
Proof. intros. apply force_pairs_spec. intros n H. exfalso. apply H. reflexivity. Qed.

Theorem lazy_force_ok_iff_distinct_nodes : forall node_of ps,
  (exists m, build node_of ps [] [] = inl m) <->
  NoDup (map (fun q : lvalue * lvalue * stmt_ctx => node_of (fst (fst q))) ps).
Proof.
  intros node_of ps. rewrite (build_ok_iff node_of ps [] []).
  - split; [intros [H _]; exact H|intros H; split; [exact H|intros; reflexivity]].
  - intros n. split; reflexivity.
Qed.

Theorem lazy_forced_map_lookup : forall node_of ps m n,
  build node_of ps [] [] = inl m ->
  nmap_get m n = first_some (fun q : lvalue * lvalue * stmt_ctx => if N.eqb n (node_of (fst (fst q))) then Some (snd (fst q)) else None) ps.
Proof.
  intros node_of ps m n H. rewrite (build_lookup node_of ps [] [] m n H); [reflexivity|]. intros k Hk. exfalso. apply Hk. reflexivity.
Qed.

(* lazy lookup of an inherited name walks to the nearest ancestor present in the forced map *)
Theorem lazy_ancestor_nearest : forall t fuel m p,
  lancestor_lookup t fuel m p = first_some (nmap_get m) (ancestors t fuel p).
Proof. exact lancestor_lookup_nearest. Qed.

(* non-vacuity: nearest ancestor, not any ancestor *)
Example c04_nonvacuous :
  let t := {| t_src := []; t_nodes := [ {| tn_kind := []; tn_named := true; tn_error := false; tn_missing := false; tn_parent := None; tn_children := [1]; tn_start := (0,0); tn_end := (0,0); tn_span := (0,0) |};
                                         {| tn_kind := []; tn_named := true; tn_error := false; tn_missing := false; tn_parent := Some 0; tn_children := [2]; tn_start := (0,0); tn_end := (0,0); tn_span := (0,0) |};
                                         {| tn_kind := []; tn_named := true; tn_error := false; tn_missing := false; tn_parent := Some 1; tn_children := []; tn_start := (0,0); tn_end := (0,0); tn_span := (0,0) |} ] |} in
  ancestors t 4 (Some 1) = [1; 0] /\
  first_some (fun a => scoped_lookup [(0, [([120], (VInt 7, false))]); (1, [([120], (VInt 8, false))])] a [120]) (ancestors t 4 (Some 1)) = Some (VInt 8).
Proof. split; reflexivity. Qed.
