(* Props/C04.v — property theorems only.  Scoped variables follow syntax-node identity and inherit
   only when declared.  Syntax nodes are identified by their preorder index (the code uses the node
   id truncated to u32: hypothesis KeyInjective of DESIGN.md, checked on every generated tree). *)
From TSG Require Import Model.Strict Model.Lazy Proofs.Scoped.

(* strict lookup: the node's own value if it has one; otherwise, ONLY for names declared `inherit`, the
   value of the NEAREST ancestor that has one; otherwise an error *)
Theorem scoped_get_spec_strict : forall t fl n name s p,
  scoped_get_at t fl n name s p =
  match scoped_lookup (s_scoped s) n name with
  | Some v => Ok (v, s, p)
  | None =>
      if inherited fl name then
        match first_some (fun a => scoped_lookup (s_scoped s) a name)
                (ancestors t (S (length (t_nodes t))) (match node_at t n with Some nd => tn_parent nd | None => None end)) with
        | Some v => Ok (v, s, p)
        | None => Err EUndefinedVariable
        end
      else Err EUndefinedVariable
  end.
Proof. exact scoped_get_spec. Qed.

(* the ancestor chain is not cut short by the loop bound on preorder-numbered trees *)
Theorem ancestor_chain_complete : forall t, tree_wf t -> forall fuel fuel' a,
  (N.to_nat a < fuel)%nat -> (N.to_nat a < fuel')%nat -> ancestors t fuel (Some a) = ancestors t fuel' (Some a).
Proof. exact ancestors_fuel_enough. Qed.

(* defining: a second definition on the same node is an error (never an overwrite); a fresh definition
   is visible with its value on that node and changes no other (node, name) pair — identity only *)
Theorem scoped_add_dup_and_identity : forall n name v mut s p,
  match scoped_lookup (s_scoped s) n name with
  | Some _ => scoped_add_at n name v mut s p = Err EDuplicateVariable
  | None => exists s', scoped_add_at n name v mut s p = Ok (tt, s', p) /\
              scoped_lookup (s_scoped s') n name = Some v /\
              (forall n' name', (n', name') <> (n, name) -> scoped_lookup (s_scoped s') n' name' = scoped_lookup (s_scoped s) n' name') /\
              s_graph s' = s_graph s
  end.
Proof. exact scoped_add_spec. Qed.

(* lazy: forcing the definitions collected for one name yields, per node, the first definition, and it
   succeeds exactly when no two definitions evaluate to the same node; otherwise DuplicateVariable
   with the contexts of BOTH definitions *)
Theorem lazy_force_spec : forall node_of ps s p,
  force_pairs (pure_ev node_of) ps [] [] s p =
  match build node_of ps [] [] with
  | inl m => Ok (m, s, p)
  | inr (prev, dbg) => Err (EInContext (CtxStmts [prev; dbg]) EDuplicateVariable)
  end.
Proof. intros. apply force_pairs_spec. intros n H. exfalso. apply H. reflexivity. Qed.

Theorem lazy_force_ok_iff_distinct_nodes : forall node_of ps,
  (exists m, build node_of ps [] [] = inl m) <->
  NoDup (map (fun q : lvalue * lvalue * stmt_ctx => node_of (fst (fst q))) ps).
Proof.
  intros node_of ps. rewrite (build_ok_iff node_of ps [] []).
  - split; [intros [H _]; exact H|intros H; split; [exact H|intros; reflexivity]].
  - intros n. split; reflexivity.
Qed.

Theorem lazy_forced_map_lookup : forall node_of ps m n,
  build node_of ps [] [] = inl m ->
  nmap_get m n = first_some (fun q : lvalue * lvalue * stmt_ctx => if N.eqb n (node_of (fst (fst q))) then Some (snd (fst q)) else None) ps.
Proof.
  intros node_of ps m n H. rewrite (build_lookup node_of ps [] [] m n H); [reflexivity|]. intros k Hk. exfalso. apply Hk. reflexivity.
Qed.

(* lazy lookup of an inherited name walks to the nearest ancestor present in the forced map *)
Theorem lazy_ancestor_nearest : forall t fuel m p,
  lancestor_lookup t fuel m p = first_some (nmap_get m) (ancestors t fuel p).
Proof. exact lancestor_lookup_nearest. Qed.

(* non-vacuity: nearest ancestor, not any ancestor *)
Example c04_nonvacuous :
  let t := {| t_src := []; t_nodes := [ {| tn_kind := []; tn_named := true; tn_error := false; tn_missing := false; tn_parent := None; tn_children := [1]; tn_start := (0,0); tn_end := (0,0); tn_span := (0,0) |};
                                         {| tn_kind := []; tn_named := true; tn_error := false; tn_missing := false; tn_parent := Some 0; tn_children := [2]; tn_start := (0,0); tn_end := (0,0); tn_span := (0,0) |};
                                         {| tn_kind := []; tn_named := true; tn_error := false; tn_missing := false; tn_parent := Some 1; tn_children := []; tn_start := (0,0); tn_end := (0,0); tn_span := (0,0) |} ] |} in
  ancestors t 4 (Some 1) = [1; 0] /\
  first_some (fun a => scoped_lookup [(0, [([120], (VInt 7, false))]); (1, [([120], (VInt 8, false))])] a [120]) (ancestors t 4 (Some 1)) = Some (VInt 8).
Proof. split; reflexivity. Qed.

(* ================= the STATEFUL forcing of the lazy interpreter ================= *)
(* The four lazy theorems above are about `force_pairs (pure_ev node_of)`: scope expressions that
   evaluate without any effect.  Model/Lazy.v forces a cell with
     force_scoped (S fuel) name (SVUnforced pairs) = force_pairs (scope_ev fuel) pairs [] []
   where `scope_ev fuel scope = sv <- eval_lv fuel scope ;; lift (as_syn sv)` polls, forces thunks,
   may re-enter other cells and may fail.  The theorems below link the two (Proofs/ScopedLink.v).
   `scopes_run ev ps s p ns s' p'`: the scope expressions of ps evaluate one after the other, the
   state threaded, to the nodes ns, ending in (s', p').  `resolved ps ns`: ps with every scope
   expression replaced by the node it evaluated to; `syn_node` reads that node back. *)
From TSG Require Import Proofs.ScopedLink.

(* THE LINK, for any evaluator: if the scope expressions evaluate, the stateful loop is the pure loop
   of the stand-in on the resolved definitions, started in the final state *)
Theorem lazy_force_refines_force_pairs : forall ev ps s p ns s' p',
  scopes_run ev ps s p ns s' p' ->
  forall values dbgs,
    force_pairs ev ps values dbgs s p = force_pairs (pure_ev syn_node) (resolved ps ns) values dbgs s' p'.
Proof. exact force_pairs_refines. Qed.

(* lazy_force_spec with the pure stand-in replaced by ANY evaluator whose result is a function
   `node_of` of the scope expression (the state may change on the way) *)
Theorem lazy_force_spec_stateful : forall ev node_of ps,
  (forall q, In q ps -> forall s p, exists s' p', ev (fst (fst q)) s p = Ok (node_of (fst (fst q)), s', p')) ->
  forall s p, exists s' p',
    scopes_run ev ps s p (map (fun q : lvalue * lvalue * stmt_ctx => node_of (fst (fst q))) ps) s' p' /\
    force_pairs ev ps [] [] s p =
    match build node_of ps [] [] with
    | inl m => Ok (m, s', p')
    | inr (prev, dbg) => Err (EInContext (CtxStmts [prev; dbg]) EDuplicateVariable)
    end.
Proof. exact force_pairs_stateful_spec. Qed.

(* lazy_force_spec for the interpreter's function: per node the FIRST definition, DuplicateVariable
   with the contexts of both definitions otherwise; the final state is the one the evaluations of
   the scope expressions lead to *)
Theorem lazy_force_spec_interp : forall t fl call fuel name pairs s p ns s' p',
  scopes_run (scope_ev t fl call fuel) pairs s p ns s' p' ->
  force_scoped t fl call (S fuel) name (SVUnforced pairs) s p =
  match build syn_node (resolved pairs ns) [] [] with
  | inl m => Ok (m, s', p')
  | inr (prev, dbg) => Err (EInContext (CtxStmts [prev; dbg]) EDuplicateVariable)
  end.
Proof. exact force_scoped_spec. Qed.

(* lazy_force_ok_iff_distinct_nodes for the interpreter's function: forcing succeeds exactly when the
   scope expressions evaluated to pairwise distinct nodes *)
Theorem lazy_force_ok_iff_distinct_nodes_interp : forall t fl call fuel name pairs s p ns s' p',
  scopes_run (scope_ev t fl call fuel) pairs s p ns s' p' ->
  ((exists m, force_scoped t fl call (S fuel) name (SVUnforced pairs) s p = Ok (m, s', p')) <-> NoDup ns).
Proof. exact force_scoped_ok_iff. Qed.

(* lazy_forced_map_lookup for the interpreter's function: the forced map gives node n the value of the
   first definition whose scope evaluated to n *)
Theorem lazy_forced_map_lookup_interp : forall t fl call fuel name pairs s p ns s' p' m n,
  scopes_run (scope_ev t fl call fuel) pairs s p ns s' p' ->
  force_scoped t fl call (S fuel) name (SVUnforced pairs) s p = Ok (m, s', p') ->
  nmap_get m n =
  first_some (fun qk : (lvalue * lvalue * stmt_ctx) * N => if N.eqb n (snd qk) then Some (snd (fst (fst qk))) else None)
             (combine pairs ns).
Proof. exact force_scoped_lookup. Qed.

(* the remaining outcomes of forcing.  A duplicate among the first definitions ends it (the scope
   expressions behind it are not evaluated); the first scope expression that does not evaluate, with
   no duplicate before it, surfaces — an error inside the contexts of that definition *)
Theorem lazy_force_duplicate_stops_interp : forall t fl call fuel name ps1 ps2 s p ns s1 p1 prev dbg,
  scopes_run (scope_ev t fl call fuel) ps1 s p ns s1 p1 ->
  build syn_node (resolved ps1 ns) [] [] = inr (prev, dbg) ->
  force_scoped t fl call (S fuel) name (SVUnforced (ps1 ++ ps2)) s p =
  Err (EInContext (CtxStmts [prev; dbg]) EDuplicateVariable).
Proof. exact force_scoped_dup_prefix. Qed.

Theorem lazy_force_scope_failure_interp : forall t fl call fuel name ps1 sc v d ps2 s p ns s1 p1 m,
  scopes_run (scope_ev t fl call fuel) ps1 s p ns s1 p1 ->
  build syn_node (resolved ps1 ns) [] [] = inl m ->
  match scope_ev t fl call fuel sc s1 p1 with
  | Err e => force_scoped t fl call (S fuel) name (SVUnforced (ps1 ++ (sc, v, d) :: ps2)) s p =
             Err (add_context (CtxStmts [d]) (add_context CtxOther e))
  | Panic x => force_scoped t fl call (S fuel) name (SVUnforced (ps1 ++ (sc, v, d) :: ps2)) s p = Panic x
  | OutOfFuel => force_scoped t fl call (S fuel) name (SVUnforced (ps1 ++ (sc, v, d) :: ps2)) s p = OutOfFuel
  | Ok _ => True
  end.
Proof. exact force_scoped_scope_fails. Qed.

(* THE LAZY LOOKUP RULE (eval_lv on `scope.name`; lazy_ancestor_nearest for the interpreter's
   function): after the poll, the scope evaluates to node n; the cell of the name is marked Forcing and
   forced to the map m; the cell becomes Forced m; the result is the evaluation of the node's own
   entry, else — ONLY for names declared `inherit` — of the entry of the NEAREST ancestor that has one,
   else UndefinedScopedVariable *)
Theorem lazy_scoped_lookup_rule : forall t fl call fuel scope name s p p0 n s1 p1 cell m s2 p2,
  poll L_eval_value s p = Ok (tt, s, p0) ->
  scope_ev t fl call fuel scope s p0 = Ok (n, s1, p1) ->
  alist_get name (l_scoped s1) = Some cell ->
  force_scoped t fl call fuel name cell (with_cell s1 name SVForcing) p1 = Ok (m, s2, p2) ->
  eval_lv t fl call (S fuel) (LScoped scope name) s p =
  match (match nmap_get m n with
         | Some v => Some v
         | None => if linherited fl name then
                     first_some (nmap_get m)
                       (ancestors t (S (length (t_nodes t))) (match node_at t n with Some nd => tn_parent nd | None => None end))
                   else None
         end) with
  | Some v => eval_lv t fl call fuel v (with_cell s2 name (SVForced m)) p2
  | None => Err EUndefinedScopedVariable
  end.
Proof. exact eval_scoped_rule. Qed.

(* a name under which no definition was ever collected *)
Theorem lazy_scoped_lookup_no_definition : forall t fl call fuel scope name s p p0 n s1 p1,
  poll L_eval_value s p = Ok (tt, s, p0) ->
  scope_ev t fl call fuel scope s p0 = Ok (n, s1, p1) ->
  alist_get name (l_scoped s1) = None ->
  eval_lv t fl call (S fuel) (LScoped scope name) s p = Err EUndefinedScopedVariable.
Proof. exact eval_scoped_no_cell. Qed.

(* non-vacuity: two definitions whose scopes are literal syntax nodes, forced by the interpreter's
   function from the initial state: each evaluation polls once, the map has both entries *)
Example c04_stateful_nonvacuous :
  let t := {| t_src := []; t_nodes := [] |} in
  let d := {| sc_stmt := (1,1); sc_stanza := (0,0); sc_node := 0 |} in
  let pairs := [(LValue (VSyn 2), LValue (VInt 1), d); (LValue (VSyn 5), LValue (VInt 2), d)] in
  exists s' p',
    scopes_run (scope_ev t {| f_globals := []; f_inherited := []; f_shorthands := []; f_stanzas := [] |}
                  (fun _ _ _ => Err EUndefinedFunction) 1) pairs (linit []) (polls0 None) [2; 5] s' p' /\
    p_count p' = 2 /\
    force_scoped t {| f_globals := []; f_inherited := []; f_shorthands := []; f_stanzas := [] |}
      (fun _ _ _ => Err EUndefinedFunction) 2 [120] (SVUnforced pairs) (linit []) (polls0 None) =
    Ok ([(2, LValue (VInt 1)); (5, LValue (VInt 2))], s', p').
Proof.
  cbv zeta. eexists. eexists. split; [|split].
  - econstructor; [vm_compute; reflexivity|]. econstructor; [vm_compute; reflexivity|]. constructor.
  - reflexivity.
  - vm_compute. reflexivity.
Qed.
