(* Model/AstDisplayObs.v — correspondence verdicts for Model/AstDisplay.v (streams C20d and C20r).  Definitions only.

   C20d (direct sweep): the harness parses a generated DSL text with the real parser, dumps the AST as a `file` term and
   walks the REAL AST (stanza order, preorder, arms in order — the traversal `file_stmts` claims) collecting
   `format!("{}", statement)` of every statement at any depth, `format!("{}", arm)` of every scan arm with its pattern,
   and `format!("{}", shorthand)` of every attribute shorthand (sorted by name, as the dump sorts them).
   codes: 66 a statement text differs from display_stmt (or the number of statements differs);
          67 a scan-arm / shorthand text differs from display_scan_arm / display_shorthand;
          68 the variable text recorded in an SNode (`format!("{}", node)`) differs from display_variable;
          69 two statements of the parsed file have the same location (`locs_unique` false);
          71 an identifier printed in a statement header contains a character below U+0020 (the hypothesis of
             display_stmt_single_line_partial fails on a parsed file).
   Judged by the harness on the real text alone: 72 the real text of a statement contains a character below U+0020. *)
From TSG Require Export Model.ErrChainObs Model.AstDisplay.

Definition c20d_texts (print : list (N * bool)) (fl : file) : list str := map (display_stmt (dpenv_of print)) (file_stmts fl).

Definition node_vtext_ok (E : dpenv) (s : stmt) : bool :=
  match s with SNode v vt _ => str_eqb (display_variable E v) vt | _ => true end.

Definition c20d_verdict (print : list (N * bool)) (fl : file) (real : list str) (arms : list (str * str)) (shs : list str) : N :=
  let E := dpenv_of print in
  if negb (list_eqb str_eqb (map (display_stmt E) (file_stmts fl)) real) then 66
  else if negb (forallb (fun p => str_eqb (display_scan_arm E (fst p)) (snd p)) arms) then 67
  else if negb (list_eqb str_eqb (map (display_shorthand E) (f_shorthands fl)) shs) then 67
  else if negb (forallb (node_vtext_ok E) (file_stmts fl)) then 68
  else if negb (locs_unique fl) then 69
  else if negb (forallb stmt_names_cleanb (file_stmts fl)) then 71
  else 0.

Definition c20d_detail (print : list (N * bool)) (fl : file) :=
  (c20d_texts print fl, map (display_shorthand (dpenv_of print)) (f_shorthands fl), locs_unique fl).

(* C20r: `texts` = (statement location, StatementContext::statement) for every statement context of the REAL error chain
   of a failing run; the model statement at that location (stmt_at) must print exactly that text.
   66 no statement at the location or its text differs; 69 statement locations are not unique in the loaded file *)
Definition c20r_disp_verdict (print : list (N * bool)) (fl : file) (texts : list (loc * str)) : N :=
  let E := dpenv_of print in
  if negb (forallb (fun p => match stmt_at fl (fst p) with
                             | Some s => str_eqb (display_stmt E s) (snd p)
                             | None => false
                             end) texts) then 66
  else if negb (locs_unique fl) then 69
  else 0.

(* the chain verdict of Model/ErrChainObs.v (65: chain_of_error with the harness-supplied texts is not the real chain), then
   66 / 69 above.  Both 0 imply that `chain_of_error_disp_tree` — the statement texts COMPUTED from the file — yields the
   real chain too: every statement location of the chain is a key of `texts` (the harness lists all of them) *)
Definition c20r_chain_disp_verdict (print : list (N * bool)) (t : tree) (r : run_in) (texts : list (loc * str)) (code : N) (cause : str)
           (msgs : list (N * str)) (real : chain) : N :=
  match c20r_chain_verdict t r texts code cause msgs real with
  | 0 => c20r_disp_verdict print (ri_file r) texts
  | c => c
  end.
