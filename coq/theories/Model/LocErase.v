(* Model/LocErase.v — erasing the LOCATIONS of a file (every statement / stanza / expression / global / shorthand
   location becomes (0,0)) and, in the same traversal, renaming the FILE capture indices by a map rho
   (`ECapture .. file_idx ..` and `st_full_file_idx`; the stanza indices, names, quantifiers, node texts, scan arm
   numbers are kept).  `erase_file_locs` is the instance rho = identity: locations only.  Definitions only, executable. *)
From TSG Require Export Model.Lazy.

Definition loc0 : loc := (0, 0).

Fixpoint reloc_expr (rho : N -> N) (e : expr) : expr :=
  match e with
  | EList es => EList (map (reloc_expr rho) es)
  | ESet es => ESet (map (reloc_expr rho) es)
  | EListComp elem var _ value _ => EListComp (reloc_expr rho elem) var loc0 (reloc_expr rho value) loc0
  | ESetComp elem var _ value _ => ESetComp (reloc_expr rho elem) var loc0 (reloc_expr rho value) loc0
  | ECapture name q file_idx stanza_idx _ => ECapture name q (rho file_idx) stanza_idx loc0
  | EUnscoped name _ => EUnscoped name loc0
  | EScoped scope name _ => EScoped (reloc_expr rho scope) name loc0
  | ECall f args => ECall f (map (reloc_expr rho) args)
  | EFalse | ENull | ETrue | EInt _ | EStr _ | ERegexCap _ => e
  end.
Definition reloc_var (rho : N -> N) (v : variable) : variable :=
  match v with VarU name _ => VarU name loc0 | VarS scope name _ => VarS (reloc_expr rho scope) name loc0 end.
Definition reloc_attr (rho : N -> N) (a : attr) : attr := match a with Attr name value => Attr name (reloc_expr rho value) end.
Definition reloc_cond (rho : N -> N) (c : cond) : cond :=
  match c with
  | CSome e _ => CSome (reloc_expr rho e) loc0 | CNone e _ => CNone (reloc_expr rho e) loc0 | CBool e _ => CBool (reloc_expr rho e) loc0
  end.
Fixpoint reloc_stmt (rho : N -> N) (s : stmt) : stmt :=
  match s with
  | SLet v e _ => SLet (reloc_var rho v) (reloc_expr rho e) loc0
  | SVar v e _ => SVar (reloc_var rho v) (reloc_expr rho e) loc0
  | SSet v e _ => SSet (reloc_var rho v) (reloc_expr rho e) loc0
  | SNode v vtext _ => SNode (reloc_var rho v) vtext loc0
  | SAttrNode node attrs _ => SAttrNode (reloc_expr rho node) (map (reloc_attr rho) attrs) loc0
  | SEdge src snk _ => SEdge (reloc_expr rho src) (reloc_expr rho snk) loc0
  | SAttrEdge src snk attrs _ => SAttrEdge (reloc_expr rho src) (reloc_expr rho snk) (map (reloc_attr rho) attrs) loc0
  | SScan value arms _ =>
      SScan (reloc_expr rho value)
        (map (fun arm : N * list stmt * loc => (fst (fst arm), map (reloc_stmt rho) (snd (fst arm)), loc0)) arms) loc0
  | SPrint values _ => SPrint (map (reloc_expr rho) values) loc0
  | SIf arms _ =>
      SIf (map (fun arm : list cond * list stmt * loc =>
                  (map (reloc_cond rho) (fst (fst arm)), map (reloc_stmt rho) (snd (fst arm)), loc0)) arms) loc0
  | SFor var _ value body _ => SFor var loc0 (reloc_expr rho value) (map (reloc_stmt rho) body) loc0
  end.
Definition reloc_arm (rho : N -> N) (arm : N * list stmt * loc) : N * list stmt * loc :=
  (fst (fst arm), map (reloc_stmt rho) (snd (fst arm)), loc0).
Definition reloc_ifarm (rho : N -> N) (arm : list cond * list stmt * loc) : list cond * list stmt * loc :=
  (map (reloc_cond rho) (fst (fst arm)), map (reloc_stmt rho) (snd (fst arm)), loc0).
Definition reloc_shorthand (rho : N -> N) (sh : shorthand) : shorthand :=
  {| sh_name := sh_name sh; sh_var := sh_var sh; sh_vloc := loc0; sh_attrs := map (reloc_attr rho) (sh_attrs sh); sh_loc := loc0 |}.
Definition reloc_stanza (rho : N -> N) (st : stanza) : stanza :=
  {| st_stmts := map (reloc_stmt rho) (st_stmts st); st_full_stanza_idx := st_full_stanza_idx st;
     st_full_file_idx := rho (st_full_file_idx st); st_start := loc0 |}.
Definition erase_global_loc (g : global) : global :=
  {| gl_name := gl_name g; gl_quant := gl_quant g; gl_default := gl_default g; gl_loc := loc0 |}.

Definition idN (i : N) : N := i.
Definition erase_stmt_loc (s : stmt) : stmt := reloc_stmt idN s.
Definition erase_stanza_locs (st : stanza) : stanza := reloc_stanza idN st.
Definition erase_shorthand_locs (sh : shorthand) : shorthand := reloc_shorthand idN sh.
(* locations only: names, quantifiers, BOTH capture indices, node texts, arm numbers, defaults are kept *)
Definition erase_file_locs (fl : file) : file :=
  {| f_globals := map erase_global_loc (f_globals fl); f_inherited := f_inherited fl;
     f_shorthands := map erase_shorthand_locs (f_shorthands fl); f_stanzas := map erase_stanza_locs (f_stanzas fl) |}.

(* renaming the capture indices of a match *)
Definition rename_match (rho : N -> N) (m : qmatch) : qmatch := map (fun c : N * list N => (rho (fst c), snd c)) m.

(* the erasure of statement contexts in a lazy state (what the erased file's run stores instead) *)
Definition ectx (c : stmt_ctx) : stmt_ctx := {| sc_stmt := loc0; sc_stanza := loc0; sc_node := sc_node c |}.
Definition ethunk (th : thunk) : thunk := {| th_state := th_state th; th_dbg := ectx (th_dbg th) |}.
Definition epair (x : lvalue * lvalue * stmt_ctx) : lvalue * lvalue * stmt_ctx := (fst x, ectx (snd x)).
Definition ecell (c : scoped_values) : scoped_values :=
  match c with SVUnforced ps => SVUnforced (map epair ps) | SVForcing => SVForcing | SVForced m => SVForced m end.
Definition elstmt (st : lstmt) : lstmt :=
  match st with
  | LSAttrNode node attrs dbg => LSAttrNode node attrs (ectx dbg)
  | LSEdge src snk attrs dbg => LSEdge src snk attrs (ectx dbg)
  | LSAttrEdge src snk attrs dbg => LSAttrEdge src snk attrs (ectx dbg)
  | LSPrint args dbg => LSPrint args (ectx dbg)
  end.
Definition enamed (x : ident * scoped_values) : ident * scoped_values := (fst x, ecell (snd x)).
Definition eprev (x : elem_key * stmt_ctx) : elem_key * stmt_ctx := (fst x, ectx (snd x)).
Definition estate (s : lstate) : lstate :=
  {| l_graph := l_graph s; l_locals := l_locals s; l_store := map ethunk (l_store s); l_scoped := map enamed (l_scoped s);
     l_edges := map elstmt (l_edges s); l_attrs := map elstmt (l_attrs s); l_prints := map elstmt (l_prints s);
     l_params := l_params s; l_prev := map eprev (l_prev s) |}.
