(* Model/IdxBridge.v — the two capture-index spaces of a recorded case (audit finding G1).  Definitions only, all executable.
   The harness records the per-stanza matches (`ri_smatches`, given to the strict interpreter) with the capture indices of
   each STANZA query and the matches of the merged query (`ri_lmatches`, given to the lazy interpreter) with the capture
   indices of the FILE query (harness/src/dump.rs `raw_matches`).  Model/Strict.v reads only `stanza_idx` /
   `st_full_stanza_idx`, Model/Lazy.v reads only `file_idx` / `st_full_file_idx`.
   * `normalize_file` rewrites every stanza index to the file index, so that in the normalized file the two index spaces
     coincide by construction.
   * `regroup n lms` sorts the merged-query blocks back into per-stanza lists (file-indexed matches in the order in which the
     merged query reported them).
   * `idx_agreeb fl sms lms`: the per-case check (assumptions A1–A3 of C03 on the recorded data): every tag of lms is a
     stanza of the file, and the k-th recorded match of stanza i and the k-th block of lms tagged i select the same nodes for
     every capture expression of that stanza (statements at any depth, shorthand bodies, the full-match capture) — the strict
     one through the stanza index, the merged one through the file index. *)
From TSG Require Export Model.Run.

Fixpoint norm_expr (e : expr) : expr :=
  match e with
  | EList es => EList (map norm_expr es)
  | ESet es => ESet (map norm_expr es)
  | EListComp elem var vl value l => EListComp (norm_expr elem) var vl (norm_expr value) l
  | ESetComp elem var vl value l => ESetComp (norm_expr elem) var vl (norm_expr value) l
  | ECapture name q file_idx _ l => ECapture name q file_idx file_idx l
  | EScoped scope name l => EScoped (norm_expr scope) name l
  | ECall f args => ECall f (map norm_expr args)
  | EFalse | ENull | ETrue | EInt _ | EStr _ | EUnscoped _ _ | ERegexCap _ => e
  end.
Definition norm_var (v : variable) : variable :=
  match v with VarU name l => VarU name l | VarS scope name l => VarS (norm_expr scope) name l end.
Definition norm_attr (a : attr) : attr := match a with Attr name value => Attr name (norm_expr value) end.
Definition norm_cond (c : cond) : cond :=
  match c with CSome e l => CSome (norm_expr e) l | CNone e l => CNone (norm_expr e) l | CBool e l => CBool (norm_expr e) l end.
Fixpoint norm_stmt (s : stmt) : stmt :=
  match s with
  | SLet v e l => SLet (norm_var v) (norm_expr e) l
  | SVar v e l => SVar (norm_var v) (norm_expr e) l
  | SSet v e l => SSet (norm_var v) (norm_expr e) l
  | SNode v vtext l => SNode (norm_var v) vtext l
  | SAttrNode node attrs l => SAttrNode (norm_expr node) (map norm_attr attrs) l
  | SEdge src snk l => SEdge (norm_expr src) (norm_expr snk) l
  | SAttrEdge src snk attrs l => SAttrEdge (norm_expr src) (norm_expr snk) (map norm_attr attrs) l
  | SScan value arms l =>
      SScan (norm_expr value) (map (fun arm : N * list stmt * loc => (fst (fst arm), map norm_stmt (snd (fst arm)), snd arm)) arms) l
  | SPrint values l => SPrint (map norm_expr values) l
  | SIf arms l =>
      SIf (map (fun arm : list cond * list stmt * loc => (map norm_cond (fst (fst arm)), map norm_stmt (snd (fst arm)), snd arm)) arms) l
  | SFor var vl value body l => SFor var vl (norm_expr value) (map norm_stmt body) l
  end.
Definition norm_arm (arm : N * list stmt * loc) : N * list stmt * loc := (fst (fst arm), map norm_stmt (snd (fst arm)), snd arm).
Definition norm_ifarm (arm : list cond * list stmt * loc) : list cond * list stmt * loc :=
  (map norm_cond (fst (fst arm)), map norm_stmt (snd (fst arm)), snd arm).
Definition norm_shorthand (sh : shorthand) : shorthand :=
  {| sh_name := sh_name sh; sh_var := sh_var sh; sh_vloc := sh_vloc sh; sh_attrs := map norm_attr (sh_attrs sh); sh_loc := sh_loc sh |}.
Definition norm_stanza (st : stanza) : stanza :=
  {| st_stmts := map norm_stmt (st_stmts st); st_full_stanza_idx := st_full_file_idx st; st_full_file_idx := st_full_file_idx st;
     st_start := st_start st |}.
Definition normalize_file (fl : file) : file :=
  {| f_globals := f_globals fl; f_inherited := f_inherited fl; f_shorthands := map norm_shorthand (f_shorthands fl);
     f_stanzas := map norm_stanza (f_stanzas fl) |}.

(* the capture expressions of a piece of syntax: (file index, stanza index) *)
Fixpoint expr_caps (e : expr) : list (N * N) :=
  match e with
  | EList es | ESet es => flat_map expr_caps es
  | EListComp elem _ _ value _ | ESetComp elem _ _ value _ => expr_caps elem ++ expr_caps value
  | ECapture _ _ file_idx stanza_idx _ => [(file_idx, stanza_idx)]
  | EScoped scope _ _ => expr_caps scope
  | ECall _ args => flat_map expr_caps args
  | EFalse | ENull | ETrue | EInt _ | EStr _ | EUnscoped _ _ | ERegexCap _ => []
  end.
Definition var_caps (v : variable) : list (N * N) := match v with VarU _ _ => [] | VarS scope _ _ => expr_caps scope end.
Definition attr_caps (a : attr) : list (N * N) := match a with Attr _ value => expr_caps value end.
Definition cond_caps (c : cond) : list (N * N) := match c with CSome e _ | CNone e _ | CBool e _ => expr_caps e end.
Fixpoint stmt_caps (s : stmt) : list (N * N) :=
  match s with
  | SLet v e _ | SVar v e _ | SSet v e _ => var_caps v ++ expr_caps e
  | SNode v _ _ => var_caps v
  | SAttrNode node attrs _ => expr_caps node ++ flat_map attr_caps attrs
  | SEdge src snk _ => expr_caps src ++ expr_caps snk
  | SAttrEdge src snk attrs _ => expr_caps src ++ expr_caps snk ++ flat_map attr_caps attrs
  | SScan value arms _ => expr_caps value ++ flat_map (fun arm : N * list stmt * loc => flat_map stmt_caps (snd (fst arm))) arms
  | SPrint values _ => flat_map expr_caps values
  | SIf arms _ =>
      flat_map (fun arm : list cond * list stmt * loc => flat_map cond_caps (fst (fst arm)) ++ flat_map stmt_caps (snd (fst arm))) arms
  | SFor _ _ value body _ => expr_caps value ++ flat_map stmt_caps body
  end.
Definition shorthand_caps (fl : file) : list (N * N) := flat_map (fun sh => flat_map attr_caps (sh_attrs sh)) (f_shorthands fl).
(* everything either interpreter can read of a match of stanza st *)
Definition stanza_caps (fl : file) (st : stanza) : list (N * N) :=
  (st_full_file_idx st, st_full_stanza_idx st) :: flat_map stmt_caps (st_stmts st) ++ shorthand_caps fl.

(* ms (stanza-indexed) and ml (file-indexed) select the same nodes for the capture c *)
Definition cap_agreeb (ms ml : qmatch) (c : N * N) : bool :=
  list_eqb N.eqb (nodes_for_capture ms (snd c)) (nodes_for_capture ml (fst c)).
Definition match_agreeb (fl : file) (st : stanza) (ms ml : qmatch) : bool := forallb (cap_agreeb ms ml) (stanza_caps fl st).

Fixpoint forall2b {A B} (f : A -> B -> bool) (a : list A) (b : list B) : bool :=
  match a, b with
  | [], [] => true
  | x :: a', y :: b' => f x y && forall2b f a' b'
  | _, _ => false
  end.

(* the blocks of lms tagged i, i+1, .., i+k-1, as per-stanza lists *)
Fixpoint regroup_from (i : N) (k : nat) (lms : list (N * qmatch)) : list (list qmatch) :=
  match k with
  | O => []
  | S k' => map snd (filter (fun pm : N * qmatch => N.eqb (fst pm) i) lms) :: regroup_from (i + 1) k' lms
  end.
Definition regroup (n : nat) (lms : list (N * qmatch)) : list (list qmatch) := regroup_from 0 n lms.

Fixpoint idx_relb (fl : file) (sts : list stanza) (sms sms' : list (list qmatch)) : bool :=
  match sts, sms, sms' with
  | st :: sts', m :: ms, m' :: ms' => forall2b (match_agreeb fl st) m m' && idx_relb fl sts' ms ms'
  | [], _, _ => true
  | _ :: _, [], [] => true
  | _, _, _ => false
  end.
Definition idx_agreeb (fl : file) (sms : list (list qmatch)) (lms : list (N * qmatch)) : bool :=
  let n := length (f_stanzas fl) in
  forallb (fun pm : N * qmatch => N.ltb (fst pm) (N.of_nat n)) lms && idx_relb fl (f_stanzas fl) sms (regroup n lms).

(* the recorded case with both interpreters' inputs in ONE index space: the normalized file, and as per-stanza (strict) matches the
   merged-query matches regrouped by stanza.  Its strict run is the strict run of the recorded case when `idx_agreeb` holds; its lazy
   run is the lazy run of the recorded case (Proofs/IdxBridge.v run_one_reindex). *)
Definition real_smatches (r : run_in) : list (list qmatch) := regroup (length (f_stanzas (ri_file r))) (ri_lmatches r).
Definition normalize_run (r : run_in) : run_in :=
  {| ri_lazy := ri_lazy r; ri_file := normalize_file (ri_file r); ri_rxs := ri_rxs r; ri_tbl := ri_tbl r; ri_supplied := ri_supplied r;
     ri_smatches := real_smatches r; ri_lmatches := ri_lmatches r |}.
Definition run_idx_agreeb (r : run_in) : bool := idx_agreeb (ri_file r) (ri_smatches r) (ri_lmatches r).

(* drop-in verdicts for the streams that emit a full `run_in` (both_verdict, c11/c15/c20 verdicts): code 95 = the recorded strict and merged-query
   matches do not satisfy `idx_agreeb` (A1–A3 on the recorded data), i.e. the `.._real_partial` theorems of Props/C02.v / C08.v would not apply to the case.
   NOT wired into the streams: the harness prints `both_verdict ..` itself (harness/src/streams.rs), and the LAZY stream records no per-stanza matches. *)
Definition with_idx_check (r : run_in) (verdict : N) : N := if run_idx_agreeb r then verdict else 95.
Definition both_verdict_idx (t : tree) (r : run_in) (xs xl : expect) : N := with_idx_check r (both_verdict t r xs xl).
