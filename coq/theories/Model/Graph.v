(* Model/Graph.v — graph.rs: Graph, GraphNode (sorted outgoing_edges), Edge, Attributes. *)
From TSG Require Export Model.Value.

Definition amap := list (ident * value).          (* Attributes.values : HashMap<Identifier, Value> *)

(* Attributes::add — Ok(()) for a fresh name or an equal value; on a different value the new value
   REPLACES the old one and the old one is returned in Err. *)
Definition attrs_add (m : amap) (k : ident) (v : value) : amap * option value :=
  match alist_get k m with
  | None => (m ++ [(k, v)], None)
  | Some old => if value_eqb old v then (m, None) else (alist_set k v m, Some old)
  end.
Definition attrs_get (m : amap) (k : ident) : option value := alist_get k m.

Definition edges := list (N * amap).                (* sorted ascending by sink *)
Record gnode := { g_attrs : amap; g_edges : edges }.
Definition graph := list gnode.

Definition new_gnode : gnode := {| g_attrs := []; g_edges := [] |}.
Definition add_graph_node (g : graph) : graph * N := (g ++ [new_gnode], N.of_nat (length g)).

(* binary_search_by_key over the sorted edge vector + insert(index, ..):
   returns (is_new, edges').  On a sorted vector the binary search's contract determines the index. *)
Fixpoint edges_add (sink : N) (es : edges) : bool * edges :=
  match es with
  | [] => (true, [(sink, [])])
  | (s, a) :: es' =>
      match N.compare sink s with
      | Lt => (true, (sink, []) :: (s, a) :: es')
      | Eq => (false, es)
      | Gt => let '(b, r) := edges_add sink es' in (b, (s, a) :: r)
      end
  end.
Fixpoint edges_get (sink : N) (es : edges) : option amap :=
  match es with
  | [] => None
  | (s, a) :: es' =>
      match N.compare sink s with
      | Lt => None
      | Eq => Some a
      | Gt => edges_get sink es'
      end
  end.
Fixpoint edges_set (sink : N) (a : amap) (es : edges) : edges :=
  match es with
  | [] => []
  | (s, a') :: es' => if N.eqb sink s then (s, a) :: es' else (s, a') :: edges_set sink a es'
  end.

Fixpoint list_update {A} (n : nat) (f : A -> A) (l : list A) : list A :=
  match n, l with
  | _, [] => []
  | O, x :: l' => f x :: l'
  | S n', x :: l' => x :: list_update n' f l'
  end.

Definition gnode_at (g : graph) (i : N) : option gnode := nth_error g (N.to_nat i).
Definition graph_update (g : graph) (i : N) (f : gnode -> gnode) : graph := list_update (N.to_nat i) f g.

Definition with_edges (es : edges) (n : gnode) : gnode := {| g_attrs := g_attrs n; g_edges := es |}.
Definition with_attrs (a : amap) (n : gnode) : gnode := {| g_attrs := a; g_edges := g_edges n |}.

(* graph[src].add_edge(sink): None = index out of bounds (panic in Rust) *)
Definition graph_add_edge (g : graph) (src sink : N) : option (graph * bool) :=
  match gnode_at g src with
  | None => None
  | Some n => let '(b, es) := edges_add sink (g_edges n) in
              Some (graph_update g src (with_edges es), b)
  end.
