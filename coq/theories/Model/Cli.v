(* Model/Cli.v — src/bin/tree-sitter-graph/main.rs: the decision logic of the command-line tool as a
   total function.  Definitions only.

   OUTSIDE THE MODEL (property C19 is labelled partial for this reason): clap's argument parsing (the
   model starts from already-parsed options; of clap's own checks only the declared constraint
   `output.requires("json")` is represented, as `usage_error`), anyhow's rendering of the error returned
   from `main` (modelled only as "a diagnostic is printed on stderr, exit status 1"), tree-sitter-config /
   tree-sitter-loader (`Config::load`, `find_all_languages`, `select_language`: assumed to succeed and
   to select the grammar the library is run with), `std::fs::read` + `String::from_utf8` of the two
   input files (assumed readable UTF-8), `Parser::parse` returning `Some`, `std::env::current_dir()
   .unwrap()`, a closed stdout (`print!` panics, JSON on stdout returns an error), `--scope` and `RUST_LOG`.  The library calls
   (`File::from_str`, `ParseError::all`, `File::execute`) and the renderings (`Graph::pretty_print`,
   serde_json pretty text) enter as results supplied by the caller: in the theorems they are universally
   quantified, in the correspondence stream they are obtained by running the library in-process. *)
From TSG Require Export Model.Vars.

(* ---- already-parsed options (clap `matches`) ---- *)
Record options := {
  o_lazy : bool;                       (* --lazy / -z *)
  o_json : bool;                       (* --json *)
  o_output : option N;                 (* --output PATH: identity of the path *)
  o_quiet : bool;                      (* --quiet / -q *)
  o_allow : bool;                      (* --allow-parse-errors *)
  o_globals : list str;                (* every --global argument, raw text, in command-line order *)
}.

(* clap: Arg::with_name("output").requires("json") — reported by clap itself, exit status 2 *)
Definition usage_error (o : options) : bool :=
  match o_output o with Some _ => negb (o_json o) | None => false end.

(* ---- --global name=value ---- *)
(* str::split_once('=') : split at the FIRST '=' (code point 61) *)
Fixpoint split_once_eq (s : str) : option (str * str) :=
  match s with
  | [] => None
  | c :: s' => if c =? 61 then Some ([], s')
               else match split_once_eq s' with
                    | Some (k, v) => Some (c :: k, v)
                    | None => None
                    end
  end.

Definition globals_new : globals := [[]].              (* Variables::new() *)

(* main.rs:81-90: for kv in globals { split_once('=')…?;  globals_.add(name, Value::String(value))? }
   None = the `?` returned an error (no '=' / name already defined), at the first offending argument *)
Fixpoint parse_globals (g : globals) (l : list str) : option globals :=
  match l with
  | [] => Some g
  | kv :: l' =>
      match split_once_eq kv with
      | None => None
      | Some (k, v) =>
          match globals_add g k (VStr v) with
          | (g', true) => parse_globals g' l'
          | (_, false) => None
          end
      end
  end.

(* ---- results of the library and of the operating system ---- *)
Inductive load_result := LoadOk | LoadRejected.                 (* File::from_str *)
Inductive exec_result := ExecOk (g : N) | ExecErr.              (* File::execute; g identifies the graph *)

Record lib_results := {
  lr_load : load_result;
  lr_parse_errors : N;                                  (* ParseError::all(&tree).len() *)
  lr_exec : bool -> globals -> exec_result;             (* lazy flag, global variables ↦ result *)
  lr_create_ok : N -> bool;                             (* File::create(path)?.write_all(..) succeeds *)
}.

(* ---- what the process does ---- *)
Inductive exit_class := Exit0 | Exit1 | Exit2.
Inductive stdout_class := SNothing | SPretty (g : N) | SJson (g : N).
Inductive file_class := FNothing | FJson (g : N).               (* FNothing: file neither created nor written *)
Record cli_obs := {
  ob_exit : exit_class;
  ob_stdout : stdout_class;
  ob_file : file_class;
  ob_diag : bool;                                       (* something is printed on stderr *)
}.

Definition cli_fail (e : exit_class) : cli_obs :=
  {| ob_exit := e; ob_stdout := SNothing; ob_file := FNothing; ob_diag := true |}.
Definition cli_done (s : stdout_class) (f : file_class) : cli_obs :=
  {| ob_exit := Exit0; ob_stdout := s; ob_file := f; ob_diag := false |}.

(* main(), in the order of the source *)
Definition cli (o : options) (lib : lib_results) : cli_obs :=
  if usage_error o then cli_fail Exit2                          (* get_matches(): clap exits with 2 *)
  else
  match parse_globals globals_new (o_globals o) with            (* :80-90 *)
  | None => cli_fail Exit1
  | Some gl =>
  match lr_load lib with                                        (* :101-107 *)
  | LoadRejected => cli_fail Exit1
  | LoadOk =>
  if (if o_allow o then false                                   (* :117-134; ParseError::all not called *)
      else negb (lr_parse_errors lib =? 0))
  then cli_fail Exit1
  else
  match lr_exec lib (o_lazy o) gl with                          (* :136-144 *)
  | ExecErr => cli_fail Exit1
  | ExecOk g =>
      if o_json o then                                          (* :146-152 *)
        (* graph.display_json(output_path).with_context(..)? : an io::Error is returned from main *)
        match o_output o with
        | None => cli_done (SJson g) FNothing
        | Some p => if lr_create_ok lib p then cli_done SNothing (FJson g)
                    else cli_fail Exit1
        end
      else if negb (o_quiet o) then cli_done (SPretty g) FNothing
      else cli_done SNothing FNothing
  end end end.

(* the JSON has to go into a file that cannot be created / written (then `?` returns the io::Error) *)
Definition output_blocked (o : options) (lib : lib_results) : bool :=
  if o_json o then match o_output o with Some p => negb (lr_create_ok lib p) | None => false end
  else false.

Definition with_quiet (q : bool) (o : options) : options :=
  {| o_lazy := o_lazy o; o_json := o_json o; o_output := o_output o; o_quiet := q;
     o_allow := o_allow o; o_globals := o_globals o |}.

(* ---- correspondence with the built binary (harness/src/c19.rs) ---- *)
(* Byte strings are compared by identity: the harness interns every text it sees (stdout, file
   content, the library's renderings); 0 is the empty string. *)
Definition text := N.
Record fixture := {
  fx_pretty : N -> text;               (* graph id ↦ format!("{}", graph.pretty_print()) *)
  fx_json : N -> text;                 (* graph id ↦ serde_json::to_string_pretty(&graph) *)
  fx_pre_file : option text;           (* content of the --output path before the run *)
}.
Record observed := {
  x_exit : N;                          (* process exit code; 255 = killed by a signal *)
  x_stdout : text;
  x_file : option text;                (* content of the --output path after the run *)
  x_stderr_nonempty : bool;
}.

Definition stdout_text (fx : fixture) (s : stdout_class) : text :=
  match s with SNothing => 0 | SPretty g => fx_pretty fx g | SJson g => fx_json fx g end.
Definition file_after (fx : fixture) (f : file_class) : option text :=
  match f with FNothing => fx_pre_file fx | FJson g => Some (fx_json fx g) end.
Definition exit_code (e : exit_class) : N := match e with Exit0 => 0 | Exit1 => 1 | Exit2 => 2 end.

Definition opt_text_eqb (a b : option text) : bool :=
  match a, b with Some x, Some y => x =? y | None, None => true | _, _ => false end.

Fixpoint frame_eqb (a b : gframe) : bool :=
  match a, b with
  | [], [] => true
  | (k, v) :: a', (k', v') :: b' => str_eqb k k' && value_eqb v v' && frame_eqb a' b'
  | _, _ => false
  end.
Definition globals_eqb (a b : globals) : bool := list_eqb frame_eqb a b.
Definition opt_globals_eqb (a b : option globals) : bool :=
  match a, b with Some x, Some y => globals_eqb x y | None, None => true | _, _ => false end.

(* The library was run in-process with the globals `gl` (the harness' own split of the arguments) in
   both modes; asked about anything else the table answers ExecErr. *)
Definition string_globals (gl : list (ident * str)) : globals :=
  [map (fun kv => (fst kv, VStr (snd kv))) gl].
Definition exec_table (gl : list (ident * str)) (strict lazy : exec_result) : bool -> globals -> exec_result :=
  fun lz g => if globals_eqb g (string_globals gl) then (if lz then lazy else strict) else ExecErr.

(* 0 = AGREE; 1 globals split differently from Rust; 2 exit status; 3 stdout; 4 output file; 5 stderr *)
Definition cli_verdict (o : options) (lib : lib_results) (fx : fixture)
           (rust_globals : option (list (ident * str))) (x : observed) : N :=
  let m := cli o lib in
  if negb (opt_globals_eqb (parse_globals globals_new (o_globals o)) (option_map string_globals rust_globals)) then 1
  else if negb (x_exit x =? exit_code (ob_exit m)) then 2
  else if negb (x_stdout x =? stdout_text fx (ob_stdout m)) then 3
  else if negb (opt_text_eqb (x_file x) (file_after fx (ob_file m))) then 4
  else if negb (Bool.eqb (x_stderr_nonempty x) (ob_diag m)) then 5
  else 0.
