(* Model/VarDisplay.v — `Display for Expression` / `Display for Variable` of /repo/src/ast.rs (the part of Model/AstDisplay.v
   that depends on the AST only; see the table of impls in the header of that file).  Moved here, unchanged, so that the parser
   model (Model/Parser.v) can fill the text field of `SNode` with the Display text of the variable: the dumped real AST
   carries `format!("{}", node)` in that field (harness/src/dump.rs), the interpreters use it for the debug attribute
   "variable name" (C15), stream C20d compares it with `display_variable`.

   <str as Debug> needs, for non-ASCII characters, the truth table "printed verbatim or as \u{..}": `Pretty.penv`, field
   pe_print (pe_syn is not used here).  Definitions only. *)
From TSG Require Export Model.Ast.
From TSG Require Model.Pretty Model.ParseErr.

Definition dpenv := Pretty.penv.
Definition dpenv_of (print : list (N * bool)) : dpenv := {| Pretty.pe_syn := []; Pretty.pe_print := print |}.
Definition s_true : str := [116;114;117;101].                   (* "true" *)
Definition s_null : str := [35;110;117;108;108].                (* "#null" *)
Definition s_false : str := [102;97;108;115;101].               (* "false" *)
Definition s_comma : str := [44;32].                            (* ", " *)
Definition s_forw : str := [32;102;111;114;32].                 (* " for " *)
Definition s_in : str := [32;105;110;32].                       (* " in " *)

(* ------------------------------------------------------------------------------------ expressions *)
Fixpoint display_expr (E : dpenv) (e : expr) : str :=
  match e with
  | EFalse => s_false
  | ENull => s_null
  | ETrue => s_true
  | EInt n => ParseErr.dec n
  | EStr s => Pretty.debug_str E s
  | EList es => [91] ++ Pretty.join s_comma (map (display_expr E) es) ++ [93]
  | ESet es => [123] ++ Pretty.join s_comma (map (display_expr E) es) ++ [125]
  | EListComp el v _ value _ => [91;32] ++ display_expr E el ++ s_forw ++ v ++ s_in ++ display_expr E value ++ [32;93]
  | ESetComp el v _ value _ => [123;32] ++ display_expr E el ++ s_forw ++ v ++ s_in ++ display_expr E value ++ [32;125]
  | ECapture name _ _ _ _ => [64] ++ name
  | EUnscoped name _ => name
  | EScoped scope name _ => display_expr E scope ++ [46] ++ name
  | ECall f args => [40] ++ f ++ flat_map (fun a => 32 :: display_expr E a) args ++ [41]
  | ERegexCap i => [36] ++ ParseErr.dec i
  end.

Definition display_variable (E : dpenv) (v : variable) : str :=
  match v with
  | VarU name _ => name
  | VarS scope name _ => display_expr E scope ++ [46] ++ name
  end.

