(* Model/ErrChainObs.v — correspondence verdict of stream C20r for `chain_of_error` (Model/ErrChain.v): the chain
   obtained from the MODEL's error of a run must be the chain the harness read off the REAL error of that run.
   Definitions only. *)
From TSG Require Export Model.Run Model.ErrChain.

(* texts: Display of the statements by location, read off the real chain; (code, cause): error code and Display of the
   real innermost error; msgs: messages of the real Context::Other entries by entry index.
   codes: 0 agree; 65 the chain of the model's error differs from the real chain; 2 the model's run succeeds;
   5 / 7 the model's run panics / runs out of fuel *)
Definition c20r_chain_verdict (t : tree) (r : run_in) (texts : list (loc * str)) (code : N) (cause : str)
           (msgs : list (N * str)) (real : chain) : N :=
  match drop_polls (run_one t config0 None r []) with
  | Err e =>
      let ch := chain_of_error_tree (text_at texts) (fun b => if error_code b =? code then cause else []) (msg_at msgs) t e in
      if chain_eqb ch real then 0 else 65
  | Ok _ => 2
  | Panic _ => 5
  | OutOfFuel => 7
  end.

Definition c20r_chain_detail (t : tree) (r : run_in) :=
  match drop_polls (run_one t config0 None r []) with
  | Err e => Some (chain_of_error_tree (fun l => []) (fun b => [error_code b]) (fun _ => []) t e)
  | _ => None
  end.
